#!/bin/sh
# Build everything from files on disk, offline.
set -e
cd "$(dirname "$0")"
export CARGO_NET_OFFLINE=true
(cd lean && lake build EgglogVerif driver)
(cd harness && cp -f /repo/Cargo.lock Cargo.lock 2>/dev/null || true; cargo build --offline)
