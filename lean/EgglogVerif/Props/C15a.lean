import EgglogVerif.Model.Atom
/-
C15 — atoms at character level: what the printer writes for a literal is read back as that literal.

`C15_int_token`: for every `i64`, Rust's decimal `Display` is classified as that integer.
`C15_bool_token`.  `C15_digits_token`: a token made of digits only is always a NUMBER (an `i64`, or
float syntax beyond the `i64` range) — never a symbol and never an error; the printer relies on
this for floats of magnitude ≥ 2^63, which it writes as bare digits.  `C15_symbol_token`: a token
that does not start like a number and does not spell `true`, `false`, `inf`, `infinity`, `nan`
(any case) is a symbol.
-/
namespace EgglogVerif.Atom

theorem allDigits_toDigits (n : Nat) : allDigits (Nat.toDigits 10 n) = true := by
  unfold allDigits
  simp only [Bool.and_eq_true, Bool.not_eq_true', List.all_eq_true]
  refine ⟨?_, fun c hc => Nat.isDigit_of_mem_toDigits (by decide) (by decide) hc⟩
  cases h : Nat.toDigits 10 n with
  | nil => exact absurd h Nat.toDigits_ne_nil
  | cons c cs => rfl

theorem digitsVal_toDigits (n : Nat) : digitsVal (Nat.toDigits 10 n) = n := Nat.ofDigitChars_ten_toDigits

theorem head_toDigits (n : Nat) : ∃ c cs, Nat.toDigits 10 n = c :: cs ∧ c.isDigit = true := by
  cases h : Nat.toDigits 10 n with
  | nil => exact absurd h Nat.toDigits_ne_nil
  | cons c cs => exact ⟨c, cs, rfl, Nat.isDigit_of_mem_toDigits (by decide) (by decide) (h ▸ List.mem_cons_self)⟩

theorem digit_ne_minus {c : Char} (h : c.isDigit = true) : c ≠ '-' := by
  intro hc; subst hc; revert h; decide
theorem digit_ne_plus {c : Char} (h : c.isDigit = true) : c ≠ '+' := by
  intro hc; subst hc; revert h; decide

/-- `parseI64` on a token whose first character is a digit -/
theorem parseI64_digit_head (c : Char) (cs : List Char) (hc : c.isDigit = true) :
    parseI64 (c :: cs) = if allDigits (c :: cs) && digitsVal (c :: cs) < 2 ^ 63 then some (digitsVal (c :: cs) : Int) else none := by
  unfold parseI64
  split
  · rename_i ds heq; cases heq; exact absurd rfl (digit_ne_minus hc)
  · rename_i ds heq; cases heq; exact absurd rfl (digit_ne_plus hc)
  · rfl

theorem mem_printInt (i : Int) : ∀ c ∈ printInt i, c = '-' ∨ c.isDigit = true := by
  intro c hc
  unfold printInt at hc
  split at hc
  · rcases List.mem_cons.mp hc with h | h
    · exact .inl h
    · exact .inr (Nat.isDigit_of_mem_toDigits (by decide) (by decide) h)
  · exact .inr (Nat.isDigit_of_mem_toDigits (by decide) (by decide) hc)

theorem printInt_ne_word (i : Int) (w : List Char) (c : Char) (hc : c ∈ w) (h1 : c ≠ '-') (h2 : c.isDigit = false) :
    printInt i ≠ w := by
  intro h
  rcases mem_printInt i c (h ▸ hc) with h' | h'
  · exact h1 h'
  · rw [h2] at h'; cases h'

/-- **integers**: the decimal spelling of an `i64` is read back as that integer -/
theorem C15_int_token (i : Int) (hlo : -(2 ^ 63 : Int) ≤ i) (hhi : i < 2 ^ 63) : classify (printInt i) = .int i := by
  have h1 : printInt i ≠ "true".toList := printInt_ne_word i _ 't' (by decide) (by decide) (by decide)
  have h2 : printInt i ≠ "false".toList := printInt_ne_word i _ 'f' (by decide) (by decide) (by decide)
  unfold classify
  rw [if_neg h1, if_neg h2]
  have hp : parseI64 (printInt i) = some i := by
    unfold printInt
    split
    · rename_i hneg
      simp only [parseI64, allDigits_toDigits, digitsVal_toDigits, Bool.true_and]
      have : (-i).toNat ≤ 2 ^ 63 := by omega
      simp only [decide_eq_true_eq, this, if_true]
      congr 1; omega
    · rename_i hnn
      obtain ⟨c, cs, hcs, hc⟩ := head_toDigits i.toNat
      rw [hcs, parseI64_digit_head c cs hc, ← hcs, allDigits_toDigits, digitsVal_toDigits]
      have : i.toNat < 2 ^ 63 := by omega
      simp only [Bool.true_and, decide_eq_true_eq, this, if_true]
      congr 1; omega
  rw [hp]

/-- **booleans** -/
theorem C15_bool_token (b : Bool) : classify (if b then "true".toList else "false".toList) = .bool b := by
  cases b <;> decide

theorem takeWhile_all {p : Char → Bool} : ∀ (l : List Char), l.all p = true → l.takeWhile p = l ∧ l.dropWhile p = []
  | [], _ => ⟨rfl, rfl⟩
  | c :: cs, h => by
    simp only [List.all_cons, Bool.and_eq_true] at h
    have ih := takeWhile_all cs h.2
    simp [List.takeWhile_cons, List.dropWhile_cons, h.1, ih.1, ih.2]

theorem ne_of_nondigit_mem (ds w : List Char) (hd : ds.all Char.isDigit = true) (c : Char) (hc : c ∈ w) (h : c.isDigit = false) :
    ds ≠ w := by
  intro he; subst he
  have := List.all_eq_true.mp hd c hc
  rw [h] at this; cases this

/-- **digit-only tokens are numbers**: an `i64`, or float syntax — never a symbol, never an error -/
theorem C15_digits_token (ds : List Char) (h : allDigits ds = true) :
    (∃ i, classify ds = .int i) ∨ classify ds = .num := by
  unfold allDigits at h
  simp only [Bool.and_eq_true, Bool.not_eq_true'] at h
  obtain ⟨hne, hall⟩ := h
  cases ds with
  | nil => simp at hne
  | cons c cs =>
    have hc : c.isDigit = true := by simp only [List.all_cons, Bool.and_eq_true] at hall; exact hall.1
    have n1 := ne_of_nondigit_mem (c :: cs) "true".toList hall 't' (by decide) (by decide)
    have n2 := ne_of_nondigit_mem (c :: cs) "false".toList hall 'f' (by decide) (by decide)
    have n3 := ne_of_nondigit_mem (c :: cs) "NaN".toList hall 'N' (by decide) (by decide)
    have n4 := ne_of_nondigit_mem (c :: cs) "inf".toList hall 'i' (by decide) (by decide)
    have n5 := ne_of_nondigit_mem (c :: cs) "-inf".toList hall 'i' (by decide) (by decide)
    unfold classify
    rw [if_neg n1, if_neg n2]
    cases hp : parseI64 (c :: cs) with
    | some i => exact .inl ⟨i, rfl⟩
    | none =>
      right
      simp only
      rw [if_neg n3, if_neg n4, if_neg n5]
      have hstrip : stripSign (c :: cs) = c :: cs := by
        unfold stripSign
        split
        · rename_i r heq; cases heq; exact absurd rfl (digit_ne_minus hc)
        · rename_i r heq; cases heq; exact absurd rfl (digit_ne_plus hc)
        · rfl
      have hw : wordSyntax (c :: cs) = false := by
        unfold wordSyntax
        rw [hstrip]
        have hl : ∀ w : List Char, (∀ x ∈ w, x.isDigit = false) → w ≠ [] → (lower (c :: cs) == w) = false := by
          intro w hwd hwn
          cases w with
          | nil => exact absurd rfl hwn
          | cons x xs =>
            have hx := hwd x List.mem_cons_self
            have : c.toLower ≠ x := by
              intro he
              have : c.toLower = c := by
                unfold Char.toLower
                have : ¬ (c.val ≥ 65 ∧ c.val ≤ 90) := by
                  unfold Char.isDigit at hc
                  simp only [Bool.and_eq_true, decide_eq_true_eq] at hc
                  intro h'; have a := hc.2; have b := h'.1
                  exact absurd (UInt32.le_trans b a) (by decide)
                simp [this]
              rw [this] at he; subst he; rw [hc] at hx; cases hx
            simp [lower, this]
        show ((lower (c :: cs) == "inf".toList || lower (c :: cs) == "infinity".toList) || lower (c :: cs) == "nan".toList) = false
        rw [hl "inf".toList (by decide) (by decide), hl "infinity".toList (by decide) (by decide), hl "nan".toList (by decide) (by decide)]
        rfl
      rw [hw, hstrip]
      have htw := takeWhile_all (p := Char.isDigit) (c :: cs) hall
      simp [numberSyntax, htw.1, htw.2, expOk]

/-- **symbols**: a token that does not start like a number and is none of the four reserved words
is a symbol (whatever else it contains) -/
theorem C15_symbol_token (c : Char) (cs : List Char)
    (hd : c.isDigit = false) (hm : c ≠ '-') (hp : c ≠ '+') (hdot : c ≠ '.')
    (ht : c :: cs ≠ "true".toList) (hf : c :: cs ≠ "false".toList)
    (hn : c :: cs ≠ "NaN".toList) (hi : c :: cs ≠ "inf".toList) :
    classify (c :: cs) = .atom := by
  have hpi : parseI64 (c :: cs) = none := by
    unfold parseI64
    split
    · rename_i ds heq; cases heq; exact absurd rfl hm
    · rename_i ds heq; cases heq; exact absurd rfl hp
    · simp [allDigits, hd]
  have hni : c :: cs ≠ "-inf".toList := by
    intro h; injection h with h1 _; exact hm h1
  have hstrip : stripSign (c :: cs) = c :: cs := by
    unfold stripSign
    split
    · rename_i r heq; cases heq; exact absurd rfl hm
    · rename_i r heq; cases heq; exact absurd rfl hp
    · rfl
  have hnum : numberSyntax (c :: cs) = false := by
    unfold numberSyntax
    simp only [List.takeWhile_cons, List.dropWhile_cons, hd, Bool.false_eq_true, if_false]
    split
    · rename_i r heq; cases heq; exact absurd rfl hdot
    · rfl
  unfold classify
  rw [if_neg ht, if_neg hf, hpi]
  simp only
  rw [if_neg hn, if_neg hi, if_neg hni, hstrip, hnum]
  split <;> rfl


/-- **what the float printer relies on**: a digit-only token whose value does not fit in an `i64`
is float syntax (the printer writes floats of magnitude ≥ 2^63 as bare digits) -/
theorem C15_big_digits_token (ds : List Char) (h : allDigits ds = true) (hbig : 2 ^ 63 ≤ digitsVal ds) :
    classify ds = .num := by
  rcases C15_digits_token ds h with ⟨i, hi⟩ | hn
  · -- it cannot be an integer: `parseI64` fails on a value ≥ 2^63
    exfalso
    have hne : ds ≠ [] := by
      intro he; subst he; simp [allDigits] at h
    obtain ⟨c, cs, rfl⟩ := List.exists_cons_of_ne_nil hne
    have hc : c.isDigit = true := by
      unfold allDigits at h
      simp only [Bool.and_eq_true, List.all_cons] at h
      exact h.2.1
    have hp : parseI64 (c :: cs) = none := by
      rw [parseI64_digit_head c cs hc, h]
      have : ¬ digitsVal (c :: cs) < 2 ^ 63 := by omega
      simp [this]
    unfold classify at hi
    split at hi
    · cases hi
    · split at hi
      · cases hi
      · rw [hp] at hi
        simp only at hi
        repeat (split at hi <;> try cases hi)
  · exact hn

example : classify "9223372036854775808".toList = .num :=
  C15_big_digits_token _ (by decide) (by decide +kernel)

/-! ### the classifier on concrete tokens (these are tests of the model, not theorems about all tokens) -/
example : classify "9223372036854775807".toList = .int 9223372036854775807 := by decide +kernel
example : classify "9223372036854775808".toList = .num := by decide +kernel
example : classify "-9223372036854775808".toList = .int (-9223372036854775808) := by decide +kernel
example : classify "+5".toList = .int 5 := by decide +kernel
example : classify "1e21".toList = .num := by decide +kernel
example : classify "1.".toList = .num := by decide +kernel
example : classify ".5e-3".toList = .num := by decide +kernel
example : classify ".".toList = .atom := by decide +kernel
example : classify "-".toList = .atom := by decide +kernel
example : classify "e5".toList = .atom := by decide +kernel
example : classify "Infinity".toList = .atom := by decide +kernel
example : classify "-inf".toList = .ninf := by decide +kernel
example : classify "+inf".toList = .atom := by decide +kernel
example : classify "x1".toList = .atom := by decide +kernel

end EgglogVerif.Atom
