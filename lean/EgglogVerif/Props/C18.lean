import EgglogVerif.Model.Scheduler
/-
C18 — Custom schedulers: what `Matches::instantiate` inserts and what it keeps.
-/
namespace EgglogVerif.Scheduler

variable {α : Type}

/-- a scheduler that chooses everything applies every match and keeps nothing back -/
theorem C18_chooseAll (ms : List α) (chosen : List Nat) : instantiate ms true chosen = (ms, []) := rfl

theorem swapRemove_length (l : List α) (c : Nat) (h : c < l.length) : (swapRemove l c).length = l.length - 1 := by
  unfold swapRemove
  cases hl : l.getLast? with
  | none =>
    have : l = [] := by simpa using hl
    subst this; simp at h
  | some last =>
    simp only
    split <;> simp

/-- positions below the removed index are untouched (so the remaining, smaller chosen indices
still point at their own tuples) -/
theorem swapRemove_getElem_lt (l : List α) (c i : Nat) (hi : i < c) (hc : c < l.length) :
    (swapRemove l c)[i]? = l[i]? := by
  unfold swapRemove
  cases hl : l.getLast? with
  | none => rfl
  | some last =>
    simp only
    split
    · rw [List.getElem?_dropLast]; simp; omega
    · rw [List.getElem?_dropLast, List.getElem?_set_ne (by omega)]; simp; omega

/-- nothing that was not chosen is lost by one removal step: every other position's tuple is still there -/
theorem swapRemove_keeps (l : List α) (c i : Nat) (hic : i ≠ c) (hi : i < l.length) (hc : c < l.length) :
    ∃ j : Nat, (swapRemove l c)[j]? = l[i]? := by
  unfold swapRemove
  cases hl : l.getLast? with
  | none => exact ⟨i, rfl⟩
  | some last =>
    simp only
    have hlast : l[l.length - 1]? = some last := by
      rw [List.getLast?_eq_getElem?] at hl; exact hl
    split
    · rename_i hcl
      exact ⟨i, by rw [List.getElem?_dropLast]; simp; omega⟩
    · rename_i hcl
      by_cases hil : i = l.length - 1
      · -- the last tuple was moved into the hole at c
        refine ⟨c, ?_⟩
        rw [List.getElem?_dropLast, if_pos (by simp; omega), List.getElem?_set_self hc, hil, hlast]
      · exact ⟨i, by rw [List.getElem?_dropLast, List.getElem?_set_ne (Ne.symm hic)]; simp; omega⟩

/-- non-vacuity and the shape of the residual on a concrete case with duplicates and disorder -/
example : instantiate ["a", "b", "c", "d", "e"] false [3, 0, 3] = (["d", "a", "d"], ["e", "b", "c"]) := by decide

end EgglogVerif.Scheduler

namespace EgglogVerif.Scheduler
variable {α : Type}

/-- one swap-removal is, as a multiset, the erasure of position `c` -/
theorem swapRemove_perm (l : List α) (c : Nat) (hc : c < l.length) : (swapRemove l c).Perm (l.eraseIdx c) := by
  unfold swapRemove
  cases hl : l.getLast? with
  | none =>
    have : l = [] := by simpa using hl
    subst this; simp at hc
  | some last =>
    simp only
    rw [List.eraseIdx_eq_take_drop_succ]
    split
    · rename_i hcl
      have hd : List.drop (c + 1) l = [] := by rw [hcl]; simp
      rw [hd, List.append_nil, List.dropLast_eq_take]
      have : l.length - 1 = c := by omega
      rw [this]
    · rename_i hcl
      have hlt : c + 1 < l.length := by omega
      rw [List.set_eq_take_append_cons_drop, if_pos hc]
      have hdne : List.drop (c + 1) l ≠ [] := by
        intro h
        have := congrArg List.length h
        simp at this; omega
      have hdlast : (List.drop (c + 1) l).getLast? = some last := by
        rw [List.getLast?_drop, if_neg (by omega), hl]
      have hsplit : (List.drop (c + 1) l).dropLast ++ [last] = List.drop (c + 1) l := by
        obtain ⟨ys, hys⟩ := List.getLast?_eq_some_iff.mp hdlast
        rw [hys, List.dropLast_concat]
      rw [List.dropLast_append_of_ne_nil (by simp)]
      have hcons : (last :: List.drop (c + 1) l).dropLast = last :: (List.drop (c + 1) l).dropLast := by
        cases hd : List.drop (c + 1) l with
        | nil => exact absurd hd hdne
        | cons x xs => simp [List.dropLast]
      rw [hcons]
      apply List.Perm.append_left
      conv => rhs; rw [← hsplit]
      exact (List.perm_append_comm (l₁ := [last]) (l₂ := (List.drop (c + 1) l).dropLast))

/-- erasing the same position, holding the same tuple, from two permutations of each other -/
theorem eraseIdx_perm_of_perm {l l' : List α} (h : l.Perm l') (c : Nat) (hc : c < l.length)
    (hsame : l[c]? = l'[c]?) : (l.eraseIdx c).Perm (l'.eraseIdx c) := by
  have hc' : c < l'.length := by rw [← h.length_eq]; exact hc
  have e1 : l = List.take c l ++ l[c] :: List.drop (c + 1) l := by
    conv => lhs; rw [← List.take_append_drop c l]
    rw [List.drop_eq_getElem_cons hc]
  have e2 : l' = List.take c l' ++ l'[c] :: List.drop (c + 1) l' := by
    conv => lhs; rw [← List.take_append_drop c l']
    rw [List.drop_eq_getElem_cons hc']
  have hv : l[c] = l'[c] := by
    rw [List.getElem?_eq_getElem hc, List.getElem?_eq_getElem hc'] at hsame
    exact Option.some.inj hsame
  rw [List.eraseIdx_eq_take_drop_succ, List.eraseIdx_eq_take_drop_succ]
  have hp : (l[c] :: (List.take c l ++ List.drop (c + 1) l)).Perm (l[c] :: (List.take c l' ++ List.drop (c + 1) l')) := by
    refine (List.perm_middle.symm).trans ?_
    rw [← e1]
    refine h.trans ?_
    rw [hv]
    conv => lhs; rw [e2]
    exact List.perm_middle
  exact hp.cons_inv

/-- strictly descending index lists, all in range -/
def DescBelow : Nat → List Nat → Prop
  | _, [] => True
  | b, c :: cs => c < b ∧ DescBelow c cs

theorem fold_perm : ∀ (cs : List Nat) (b : Nat) (l l' : List α), DescBelow b cs → b ≤ l.length →
    l.Perm l' → (∀ i, i < b → l[i]? = l'[i]?) →
    (cs.foldl swapRemove l).Perm (cs.foldl List.eraseIdx l') := by
  intro cs
  induction cs with
  | nil => intro b l l' _ _ h _; exact h
  | cons c cs ih =>
    intro b l l' hd hb hp hsame
    simp only [List.foldl_cons]
    obtain ⟨hcb, hrest⟩ := hd
    have hc : c < l.length := by omega
    have hc' : c < l'.length := by rw [← hp.length_eq]; exact hc
    refine ih c _ _ hrest ?_ ?_ ?_
    · rw [swapRemove_length l c hc]; omega
    · exact (swapRemove_perm l c hc).trans (eraseIdx_perm_of_perm hp c hc (hsame c hcb))
    · intro i hi
      rw [swapRemove_getElem_lt l c i hi hc, List.getElem?_eraseIdx, if_pos hi]
      exact hsame i (by omega)

/-- **No match is lost, none is kept twice, none that was chosen stays**: for every match vector
and every index list visited in strictly descending order (what `sort_unstable; dedup; rev` yields)
the residual is, as a multiset, the vector with exactly those positions erased. -/
theorem C18_swapRemove (ms : List α) (cs : List Nat) (h : DescBelow ms.length cs) :
    (cs.foldl swapRemove ms).Perm (cs.foldl List.eraseIdx ms) :=
  fold_perm cs ms.length ms ms h (Nat.le_refl _) (List.Perm.refl _) (fun _ _ => rfl)

end EgglogVerif.Scheduler

namespace EgglogVerif.Scheduler
variable {α : Type}

theorem descBelow_mono {b b' : Nat} {cs : List Nat} (h : DescBelow b cs) (hb : b ≤ b') : DescBelow b' cs := by
  cases cs with
  | nil => trivial
  | cons c cs => exact ⟨Nat.lt_of_lt_of_le h.1 hb, h.2⟩

theorem insertDesc_desc (x b : Nat) (hx : x < b) : ∀ (cs : List Nat), DescBelow b cs → DescBelow b (insertDesc x cs) := by
  intro cs
  induction cs generalizing b with
  | nil => intro _; exact ⟨hx, trivial⟩
  | cons y ys ih =>
    intro h
    simp only [insertDesc]
    split
    · rename_i hgt; exact ⟨hx, ⟨hgt, h.2⟩⟩
    · split
      · exact h
      · rename_i h1 h2
        exact ⟨h.1, ih y (by omega) h.2⟩

/-- what `sort_unstable(); dedup(); .rev()` hands to the loop is strictly descending and in range
whenever the scheduler chose valid indices -/
theorem sortDedupDesc_desc (n : Nat) (cs : List Nat) (h : ∀ c ∈ cs, c < n) : DescBelow n (sortDedupDesc cs) := by
  unfold sortDedupDesc
  have key : ∀ (cs acc : List Nat), (∀ c ∈ cs, c < n) → DescBelow n acc →
      DescBelow n (cs.foldl (fun acc c => insertDesc c acc) acc) := by
    intro cs
    induction cs with
    | nil => intro acc _ ha; exact ha
    | cons c cs ih =>
      intro acc hc ha
      simp only [List.foldl_cons]
      exact ih _ (fun c' hc' => hc c' (List.mem_cons_of_mem _ hc')) (insertDesc_desc c n (hc c List.mem_cons_self) acc ha)
  exact key cs [] h trivial

/-- **C18, assembled**: for every match vector and every list of valid indices a scheduler may
choose (any order, with repetitions), the residual handed back for the next step is a permutation
of the matches at the positions that were not chosen. -/
theorem C18_residual (ms : List α) (chosen : List Nat) (h : ∀ c ∈ chosen, c < ms.length) :
    (residual ms chosen).Perm ((sortDedupDesc chosen).foldl List.eraseIdx ms) :=
  C18_swapRemove ms _ (sortDedupDesc_desc ms.length chosen h)

end EgglogVerif.Scheduler

namespace EgglogVerif.Scheduler
variable {α : Type}

/-- erasing descending positions: what is erased plus what is left is what there was -/
theorem eraseIdx_conserve : ∀ (cs : List Nat) (b : Nat) (l : List α), DescBelow b cs → b ≤ l.length →
    l.Perm (cs.filterMap (l[·]?) ++ cs.foldl List.eraseIdx l) := by
  intro cs
  induction cs with
  | nil => intro b l _ _; exact List.Perm.refl _
  | cons c cs ih =>
    intro b l hd hb
    obtain ⟨hcb, hrest⟩ := hd
    have hc : c < l.length := by omega
    simp only [List.foldl_cons, List.filterMap_cons, List.getElem?_eq_getElem hc]
    -- positions below `c` read the same in `l.eraseIdx c`
    have hsame : cs.filterMap (l[·]?) = cs.filterMap ((l.eraseIdx c)[·]?) := by
      have : ∀ (cs : List Nat) (b' : Nat), DescBelow b' cs → b' ≤ c →
          cs.filterMap (l[·]?) = cs.filterMap ((l.eraseIdx c)[·]?) := by
        intro cs
        induction cs with
        | nil => intro _ _ _; rfl
        | cons x xs ihx =>
          intro b' hd' hb'
          obtain ⟨hx, hxs⟩ := hd'
          simp only [List.filterMap_cons]
          rw [List.getElem?_eraseIdx, if_pos (by omega : x < c), ihx x hxs (by omega)]
      exact this cs c hrest (Nat.le_refl _)
    have hlen : c ≤ (l.eraseIdx c).length := by rw [List.length_eraseIdx, if_pos hc]; omega
    have ih' := ih c (l.eraseIdx c) hrest hlen
    rw [hsame]
    have hsplit : l.Perm (l[c] :: l.eraseIdx c) := by
      have e1 : l = List.take c l ++ l[c] :: List.drop (c + 1) l := by
        conv => lhs; rw [← List.take_append_drop c l]
        rw [List.drop_eq_getElem_cons hc]
      rw [List.eraseIdx_eq_take_drop_succ]
      conv => lhs; rw [e1]
      exact List.perm_middle
    exact hsplit.trans (List.Perm.cons _ ih')

/-- **one step conserves the matches**: what was offered = what fired + what stays pending -/
theorem C18_step_conserves (pending new : List α) (chosen : List Nat) (h : ∀ c ∈ chosen, c < (pending ++ new).length) :
    (pending ++ new).Perm ((offerStep pending new chosen).1 ++ (offerStep pending new chosen).2) := by
  unfold offerStep fired
  have hd := sortDedupDesc_desc (pending ++ new).length chosen h
  have h1 := eraseIdx_conserve (sortDedupDesc chosen) _ (pending ++ new) hd (Nat.le_refl _)
  have h2 := C18_residual (pending ++ new) chosen h
  exact h1.trans (List.Perm.append_left _ h2.symm)

/-- every index a scheduler chooses is among what it was offered, at every step of a history -/
def ValidRun : List α → List (List α × List Nat) → Prop
  | _, [] => True
  | pending, (new, chosen) :: rest =>
    (∀ c ∈ chosen, c < (pending ++ new).length) ∧ ValidRun (offerStep pending new chosen).2 rest

/-- **C18 over time**: for every history of scheduler steps — any newly found matches, any choices —
every match ever found has either fired exactly once or is still pending: the matches found, as a
multiset, are the matches fired plus the matches pending.  None is lost, none fires twice. -/
theorem C18_offer : ∀ (steps : List (List α × List Nat)) (pending : List α), ValidRun pending steps →
    (pending ++ (steps.map (·.1)).flatten).Perm ((offerRun pending steps).1 ++ (offerRun pending steps).2) := by
  intro steps
  induction steps with
  | nil => intro pending _; simp [offerRun]
  | cons st rest ih =>
    intro pending hv
    obtain ⟨new, chosen⟩ := st
    obtain ⟨hc, hrest⟩ := hv
    simp only [offerRun, List.map_cons, List.flatten_cons]
    have h1 := C18_step_conserves pending new chosen hc
    have h2 := ih (offerStep pending new chosen).2 hrest
    -- pending ++ new ++ later ~ fired ++ (pending' ++ later) ~ fired ++ (firedLater ++ pendingFinal)
    have e : (pending ++ (new ++ (rest.map (·.1)).flatten)) = (pending ++ new) ++ (rest.map (·.1)).flatten := by simp
    rw [e]
    refine (List.Perm.append_right _ h1).trans ?_
    rw [List.append_assoc, List.append_assoc]
    exact List.Perm.append_left _ h2

/-- from an empty start -/
theorem C18_offer_fresh (steps : List (List α × List Nat)) (hv : ValidRun ([] : List α) steps) :
    ((steps.map (·.1)).flatten).Perm ((offerRun [] steps).1 ++ (offerRun [] steps).2) := by
  simpa using C18_offer steps [] hv

/-- a scheduler that lets everything through leaves nothing pending (non-vacuity, and the built-in behaviour) -/
example : offerRun ([] : List Nat) [([10, 11, 12], [2, 0, 0]), ([13], [0, 1])] = ([12, 10, 13, 11], []) := by decide

end EgglogVerif.Scheduler
