import EgglogVerif.Props.C07
/-
C07 (second half) — the term that extraction returns.

`bellman_ford` chooses one row per class (`parent_edge`) and `reconstruct_termdag_node` follows
those choices recursively.  The theorems:

* `C07_reconstruct`  — for ANY choice of rows that is *guarded* on a set of classes (each chosen
                       row is a live row of its class with the best cost, and its children are
                       again in the set, at a strictly smaller level) reconstruction from every
                       class of the set terminates and returns a term that is a member of the
                       class, built from non-subsumed rows only, whose tree cost is exactly the
                       recorded cost;
* `C07_pick_guarded` — the rank-guarded choice of the code (`save_best_parent_edge`) is guarded,
                       with the chronological rank as level;
* `C07_rank_gap_defect` — … but it is NOT total: with saturating costs a class can be left
                       without any eligible row although it has a cost (defect 4 on the pinned
                       tree: the `unwrap` in reconstruction panicked);
* `C07_ground_guarded` — the grounded-set repair (the `fix:` commit for defect 4) keeps a guarded
                       choice on the grounded classes, with the grounding order as level: it can
                       never select a cycle;
* `C07_extract_term` — hence every class the whole pipeline declares reconstructible yields a
                       member term of exactly the recorded cost.
-/
namespace EgglogVerif.Extract

/-- `t` is a term of class `c` built from non-subsumed rows of `edges` -/
inductive Member (edges : List Edge) : Tm → Nat → Prop
  | mk (e : Edge) (kids : List Tm) : e ∈ edges → e.sub = false → kids.length = e.children.length →
      (∀ i (h1 : i < kids.length) (h2 : i < e.children.length), Member edges kids[i] e.children[i]) →
      Member edges (.node e kids) e.target

/-- a chosen row is a live best row of its class -/
structure EdgeOk (edges : List Edge) (costs : Costs) (c : Nat) (e : Edge) : Prop where
  mem : e ∈ edges
  live : e.sub = false
  tgt : e.target = c
  has : (costs c).isSome = true
  best : edgeCost costs e = costs c

/-- the choice is guarded on the classes satisfying `G`, with level function `lvl` -/
def Guarded (edges : List Edge) (costs : Costs) (parent : Parent) (G : Nat → Prop) (lvl : Nat → Nat) : Prop :=
  ∀ c, G c → ∃ e, parent c = some e ∧ EdgeOk edges costs c e ∧ ∀ ch ∈ e.children, G ch ∧ lvl ch < lvl c

theorem kids_exist (edges : List Edge) (costs : Costs) (f : Nat → Option Tm) : ∀ (chs : List Nat),
    (∀ ch ∈ chs, ∃ t, f ch = some t ∧ Member edges t ch ∧ costs ch = some t.cost) →
    ∃ kids, mapOpt f chs = some kids ∧ kids.length = chs.length ∧
      (∀ i (h1 : i < kids.length) (h2 : i < chs.length), Member edges kids[i] chs[i]) ∧
      lookupAll costs chs = some (costList kids) := by
  intro chs
  induction chs with
  | nil => intro _; exact ⟨[], rfl, rfl, fun i h1 _ => by simp at h1, rfl⟩
  | cons ch chs ih =>
    intro h
    obtain ⟨t, ht, hm, hc⟩ := h ch List.mem_cons_self
    obtain ⟨kids, hk, hl, hp, hlk⟩ := ih (fun x hx => h x (List.mem_cons_of_mem _ hx))
    refine ⟨t :: kids, ?_, by simp [hl], ?_, ?_⟩
    · simp only [mapOpt, ht, hk]
    · intro i h1 h2
      cases i with
      | zero => exact hm
      | succ j => exact hp j (by simpa using h1) (by simpa using h2)
    · simp only [lookupAll, hc, hlk, costList]

/-- **Reconstruction from a guarded choice** terminates (fuel `lvl c + 1` suffices) and returns a
member of the class whose tree cost is the recorded cost. -/
theorem C07_reconstruct {edges : List Edge} {costs : Costs} {parent : Parent} {G : Nat → Prop} {lvl : Nat → Nat}
    (hg : Guarded edges costs parent G lvl) :
    ∀ (n c : Nat), G c → lvl c < n →
      ∃ t, reconstruct parent n c = some t ∧ Member edges t c ∧ costs c = some t.cost := by
  intro n
  induction n with
  | zero => intro c _ h; omega
  | succ n ih =>
    intro c hc hl
    obtain ⟨e, hp, ok, hch⟩ := hg c hc
    have hkids := kids_exist edges costs (reconstruct parent n) e.children
      (fun ch hx => ih ch (hch ch hx).1 (by have := (hch ch hx).2; omega))
    obtain ⟨kids, hk, hlen, hmem, hlk⟩ := hkids
    refine ⟨.node e kids, ?_, ?_, ?_⟩
    · simp only [reconstruct, hp, hk, Option.map_some]
    · have := Member.mk e kids ok.mem ok.live hlen hmem
      rw [ok.tgt] at this; exact this
    · have hb := ok.best
      unfold edgeCost at hb
      rw [hlk] at hb
      simp only [Option.map_some] at hb
      rw [← hb]; rfl

/-- a member term is a derivation in the sense of the cost theorems: its cost is a `Reach` cost
(so by `C07_optimal` no member of the class is cheaper than the recorded cost) -/
theorem member_reach {edges : List Edge} {t : Tm} {c : Nat} (h : Member edges t c) : Reach edges c t.cost := by
  induction h with
  | mk e kids he hs hl _ ih =>
    have hcl : ∀ (ks : List Tm), (costList ks).length = ks.length := by
      intro ks; induction ks with
      | nil => rfl
      | cons k ks ih => simp [costList, ih]
    have hget : ∀ (ks : List Tm) (i : Nat) (h1 : i < (costList ks).length) (h2 : i < ks.length), (costList ks)[i] = ks[i].cost := by
      intro ks
      induction ks with
      | nil => intro i h1; simp [costList] at h1
      | cons k ks ihk =>
        intro i h1 h2
        cases i with
        | zero => rfl
        | succ j => simpa [costList] using ihk j (by simpa [costList] using h1) (by simpa using h2)
    have := Reach.mk e (costList kids) he hs (by rw [hcl, hl]) (fun i h1 h2 => by
      rw [hget kids i h2 (by rw [hcl] at h2; exact h2)]
      exact ih i (by rw [hcl] at h2; exact h2) h1)
    exact this

/-! ### the rank-guarded choice of the code -/

theorem C07_pick_guarded {edges : List Edge} {costs : Costs} {rank : Nat → Nat} {c : Nat} {e : Edge}
    (h : pickEdge edges costs rank c = some e) :
    EdgeOk edges costs c e ∧ ∀ ch ∈ e.children, rank ch < rank c := by
  unfold pickEdge at h
  have hm := List.mem_of_find?_eq_some h
  have hp := List.find?_some h
  simp only [Bool.and_eq_true, Bool.not_eq_true', beq_iff_eq, List.all_eq_true, decide_eq_true_eq] at hp
  obtain ⟨⟨⟨⟨h1, h2⟩, h3⟩, h4⟩, h5⟩ := hp
  exact ⟨⟨hm, h1, h2, h4, h3⟩, h5⟩

/-- the rows of defect 4: `Leaf`, `Mid Leaf` (100), three nested `Big` (2^63-1 each), `Cheap Leaf` (1)
unioned with `Mid Leaf`; classes 0 = Leaf, 1 = {Mid Leaf, Cheap Leaf}, 2,3,4 = Big^k -/
def d4Edges : List Edge :=
  [⟨1, [], 0, false⟩, ⟨100, [0], 1, false⟩, ⟨2 ^ 63 - 1, [1], 2, false⟩, ⟨2 ^ 63 - 1, [2], 3, false⟩,
   ⟨2 ^ 63 - 1, [3], 4, false⟩, ⟨1, [0], 1, false⟩]

/-- **Defect 4, by kernel evaluation of the model**: at the cost fixpoint class 3 has a (saturated)
cost, and the rank guard rejects its only best row — the later improvement of class 1 re-stamped
class 2 without improving class 3. -/
theorem C07_rank_gap_defect :
    let s := (bellmanFordR d4Edges 10 ⟨noCosts, fun _ => 0, 0⟩)
    s.2 = true ∧ s.1.costs 3 = some cap ∧ pickEdge d4Edges s.1.costs s.1.rank 3 = none := by
  decide +kernel

/-! ### the grounded-set repair -/

/-- position of a class in the grounding order -/
def pos (g : List Nat) (c : Nat) : Nat := g.idxOf c

structure GInv (edges : List Edge) (costs : Costs) (s : GState) : Prop where
  recd : ∀ c e, s.parent c = some e → EdgeOk edges costs c e
  grd : ∀ c, c ∈ s.grounded → ∃ e, s.parent c = some e ∧ ∀ ch ∈ e.children, ch ∈ s.grounded ∧ pos s.grounded ch < pos s.grounded c

theorem pos_append_old {g : List Nat} {c : Nat} (h : c ∈ g) (x : List Nat) : pos (g ++ x) c = pos g c := by
  unfold pos
  rw [List.idxOf_append, if_pos h]

theorem pos_lt_of_mem {g : List Nat} {c : Nat} (h : c ∈ g) : pos g c < g.length := List.idxOf_lt_length_of_mem h

theorem pos_new {g : List Nat} {c : Nat} (h : c ∉ g) : pos (g ++ [c]) c = g.length := by
  unfold pos
  rw [List.idxOf_append, if_neg h]
  simp

theorem childrenGrounded_spec {g : List Nat} {e : Edge} (h : childrenGrounded g e = true) : ∀ ch ∈ e.children, ch ∈ g := by
  unfold childrenGrounded at h
  simp only [List.all_eq_true, List.contains_iff_mem] at h
  exact h

/-- grounding one more class whose (recorded or new) edge has grounded children keeps the invariant -/
theorem GInv.add {edges : List Edge} {costs : Costs} {s : GState} (i : GInv edges costs s) (c : Nat) (e : Edge)
    (hc : c ∉ s.grounded) (ok : EdgeOk edges costs c e) (hch : ∀ ch ∈ e.children, ch ∈ s.grounded) :
    GInv edges costs ⟨fun x => if x = c then some e else s.parent x, s.grounded ++ [c]⟩ := by
  constructor
  · intro x e' hx
    simp only at hx
    split at hx
    · rename_i hxc; cases hx; rw [hxc]; exact ok
    · exact i.recd x e' hx
  · intro x hx
    simp only [List.mem_append, List.mem_singleton] at hx
    simp only
    rcases hx with hx | hx
    · have hne : x ≠ c := fun h => hc (h ▸ hx)
      obtain ⟨e', he', hk⟩ := i.grd x hx
      refine ⟨e', by rw [if_neg hne]; exact he', fun ch hm => ?_⟩
      obtain ⟨a, b⟩ := hk ch hm
      exact ⟨List.mem_append_left _ a, by rw [pos_append_old a, pos_append_old hx]; exact b⟩
    · subst hx
      refine ⟨e, by rw [if_pos rfl], fun ch hm => ?_⟩
      have a := hch ch hm
      exact ⟨List.mem_append_left _ a, by rw [pos_append_old a, pos_new hc]; exact pos_lt_of_mem a⟩

theorem GInv.groundRecorded {edges : List Edge} {costs : Costs} : ∀ (cands : List Nat) {s : GState},
    GInv edges costs s → GInv edges costs (groundRecorded cands s) := by
  intro cands
  unfold Extract.groundRecorded
  induction cands with
  | nil => intro s i; exact i
  | cons c cs ih =>
    intro s i
    simp only [List.foldl_cons]
    apply ih
    split
    · exact i
    · rename_i hng
      have hng' : c ∉ s.grounded := by simpa using hng
      cases hp : s.parent c with
      | none => exact i
      | some e =>
        simp only
        split
        · rename_i hcg
          have := i.add c e hng' (i.recd c e hp) (childrenGrounded_spec hcg)
          have hpar : (fun x => if x = c then some e else s.parent x) = s.parent := by
            funext x; split
            · rename_i hx; rw [hx, hp]
            · rfl
          rw [hpar] at this
          exact this
        · exact i

theorem GInv.groundBest {edges : List Edge} {costs : Costs} : ∀ (es : List Edge) {s : GState},
    (∀ e ∈ es, e ∈ edges) → GInv edges costs s → GInv edges costs (es.foldl (fun s e =>
      if e.sub || s.grounded.contains e.target || (costs e.target).isNone || edgeCost costs e != costs e.target
          || !childrenGrounded s.grounded e then s
      else { parent := fun c => if c = e.target then some e else s.parent c, grounded := s.grounded ++ [e.target] }) s) := by
  intro es
  induction es with
  | nil => intro s _ i; exact i
  | cons e es ih =>
    intro s hsub i
    simp only [List.foldl_cons]
    apply ih (fun x hx => hsub x (List.mem_cons_of_mem _ hx))
    split
    · exact i
    · rename_i hcond
      simp only [Bool.or_eq_true, Bool.not_eq_true', not_or, Bool.not_eq_true, bne_iff_ne, ne_eq, Decidable.not_not,
        Option.isNone_iff_eq_none, List.contains_iff_mem] at hcond
      obtain ⟨⟨⟨⟨h1, h2⟩, h3⟩, h4⟩, h5⟩ := hcond
      have h2' : e.target ∉ s.grounded := by simpa using h2
      have h5' : childrenGrounded s.grounded e = true := by simpa using h5
      have hsome : (costs e.target).isSome = true := by
        cases hc : costs e.target with
        | none => exact absurd hc h3
        | some _ => rfl
      exact i.add e.target e h2' ⟨hsub e List.mem_cons_self, by simpa using h1, rfl, hsome, h4⟩
        (childrenGrounded_spec h5')

/-- **The repair keeps a guarded choice on the grounded classes** — it can never select a cycle. -/
theorem C07_ground_guarded {edges : List Edge} {costs : Costs} {cands : List Nat} : ∀ (fuel : Nat) {s : GState},
    GInv edges costs s → GInv edges costs (groundLoop edges costs cands fuel s) := by
  intro fuel
  induction fuel with
  | zero => intro s i; exact i
  | succ n ih =>
    intro s i
    simp only [groundLoop]
    have i1 := GInv.groundRecorded cands i
    split
    · exact ih i1
    · have i2 : GInv edges costs (groundBest edges costs (Extract.groundRecorded cands s)) :=
        GInv.groundBest edges (fun _ h => h) i1
      split
      · exact ih i2
      · exact i2

theorem closeRecorded_inv {edges : List Edge} {costs : Costs} {cands : List Nat} : ∀ (fuel : Nat) {s : GState},
    GInv edges costs s → GInv edges costs (closeRecorded cands fuel s) := by
  intro fuel
  induction fuel with
  | zero => intro s i; exact i
  | succ n ih =>
    intro s i
    simp only [closeRecorded]
    have i1 := GInv.groundRecorded cands i
    split
    · exact ih i1
    · exact i1

theorem GInv.guarded {edges : List Edge} {costs : Costs} {s : GState} (i : GInv edges costs s) :
    Guarded edges costs s.parent (· ∈ s.grounded) (pos s.grounded) := by
  intro c hc
  obtain ⟨e, he, hk⟩ := i.grd c hc
  exact ⟨e, he, i.recd c e he, hk⟩

/-- **Every class the pipeline declares reconstructible yields a member term of exactly the
recorded cost** (rank-guarded choice when it is total, grounded-set repair otherwise). -/
theorem C07_extract_term (edges : List Edge) (fuel c : Nat) (hc : c ∈ (extractAll edges fuel).1.grounded) :
    ∃ n t, reconstruct (extractAll edges fuel).1.parent n c = some t ∧ Member edges t c ∧
      (extractAll edges fuel).2.1 c = some t.cost := by
  unfold extractAll at hc ⊢
  simp only at hc ⊢
  split at hc
  · -- repaired
    rename_i hun
    simp only [hun, if_true] at hc ⊢
    have i0 : GInv edges (bellmanFordR edges fuel ⟨noCosts, fun _ => 0, 0⟩).1.costs
        ⟨fun c => pickEdge edges (bellmanFordR edges fuel ⟨noCosts, fun _ => 0, 0⟩).1.costs
          (bellmanFordR edges fuel ⟨noCosts, fun _ => 0, 0⟩).1.rank c, []⟩ :=
      ⟨fun c e h => (C07_pick_guarded h).1, fun c h => by simp at h⟩
    have ig := C07_ground_guarded (cands := classesOf edges) fuel i0
    obtain ⟨t, h1, h2, h3⟩ := C07_reconstruct ig.guarded _ c hc (Nat.lt_succ_self _)
    exact ⟨_, t, h1, h2, h3⟩
  · -- the rank-guarded choice was total: the code follows it as it is
    rename_i hun
    simp only [hun] at hc ⊢
    simp only [Bool.false_eq_true, if_false] at hc ⊢
    have i0 : GInv edges (bellmanFordR edges fuel ⟨noCosts, fun _ => 0, 0⟩).1.costs
        ⟨fun c => pickEdge edges (bellmanFordR edges fuel ⟨noCosts, fun _ => 0, 0⟩).1.costs
          (bellmanFordR edges fuel ⟨noCosts, fun _ => 0, 0⟩).1.rank c, []⟩ :=
      ⟨fun c e h => (C07_pick_guarded h).1, fun c h => by simp at h⟩
    have ig := closeRecorded_inv (cands := classesOf edges) fuel i0
    obtain ⟨t, h1, h2, h3⟩ := C07_reconstruct ig.guarded _ c hc (Nat.lt_succ_self _)
    exact ⟨_, t, h1, h2, h3⟩

/-! ### totality of the repair: no costed class is left without a term -/

theorem satAdd_le_cap (a b : Nat) : satAdd a b ≤ cap := by unfold satAdd; omega

theorem satSum_le_cap : ∀ (cs : List Nat) (h : Nat), h ≤ cap → satSum h cs ≤ cap := by
  intro cs
  induction cs with
  | nil => intro h hh; simpa [satSum] using hh
  | cons c cs ih => intro h _; simp only [satSum, List.foldl_cons]; exact ih _ (satAdd_le_cap h c)

theorem satSum_ge_init : ∀ (cs : List Nat) (h : Nat), h ≤ cap → h ≤ satSum h cs := by
  intro cs
  induction cs with
  | nil => intro h _; simp [satSum]
  | cons c cs ih =>
    intro h hh
    simp only [satSum, List.foldl_cons]
    have : h ≤ satAdd h c := by unfold satAdd; omega
    exact Nat.le_trans this (ih _ (satAdd_le_cap h c))

/-- superiority of the saturating fold: the total dominates every summand -/
theorem satSum_ge_elem : ∀ (cs : List Nat) (h : Nat) (j : Nat) (hj : j < cs.length), cs[j] ≤ cap → cs[j] ≤ satSum h cs := by
  intro cs
  induction cs with
  | nil => intro h j hj; simp at hj
  | cons c cs ih =>
    intro h j hj hc
    simp only [satSum, List.foldl_cons]
    cases j with
    | zero =>
      simp only [List.getElem_cons_zero] at hc ⊢
      have : c ≤ satAdd h c := by unfold satAdd; omega
      exact Nat.le_trans this (satSum_ge_init cs _ (satAdd_le_cap h c))
    | succ j =>
      simp only [List.getElem_cons_succ] at hc ⊢
      exact ih _ j (by simpa using hj) hc

theorem reach_le_cap {edges : List Edge} (hh : ∀ e ∈ edges, e.head ≤ cap) {c k : Nat} (r : Reach edges c k) : k ≤ cap := by
  cases r with
  | mk e cs he _ _ _ => exact satSum_le_cap cs e.head (hh e he)

theorem LE_getElem : ∀ (as bs : List Nat), LE as bs → as.length = bs.length ∧
    ∀ i (h1 : i < as.length) (h2 : i < bs.length), as[i] ≤ bs[i] := by
  intro as
  induction as with
  | nil => intro bs h; cases bs with
    | nil => exact ⟨rfl, fun i h1 => by simp at h1⟩
    | cons _ _ => exact absurd h (by simp [LE])
  | cons a as ih =>
    intro bs h
    cases bs with
    | nil => exact absurd h (by simp [LE])
    | cons b bs =>
      simp only [LE] at h
      obtain ⟨hl, hp⟩ := ih bs h.2
      refine ⟨by simp [hl], fun i h1 h2 => ?_⟩
      cases i with
      | zero => exact h.1
      | succ i => exact hp i (by simpa using h1) (by simpa using h2)

/-- a row that the second phase of the repair would use in state `s` -/
def Eligible (costs : Costs) (s : GState) (e : Edge) : Prop :=
  e.sub = false ∧ e.target ∉ s.grounded ∧ (costs e.target).isSome = true ∧ edgeCost costs e = costs e.target ∧
    childrenGrounded s.grounded e = true

def gbStep (costs : Costs) (s : GState) (e : Edge) : GState :=
  if e.sub || s.grounded.contains e.target || (costs e.target).isNone || edgeCost costs e != costs e.target
      || !childrenGrounded s.grounded e then s
  else { parent := fun c => if c = e.target then some e else s.parent c, grounded := s.grounded ++ [e.target] }

theorem groundBest_eq (edges : List Edge) (costs : Costs) (s : GState) : groundBest edges costs s = edges.foldl (gbStep costs) s := rfl

theorem gbStep_len (costs : Costs) (s : GState) (e : Edge) : s.grounded.length ≤ (gbStep costs s e).grounded.length := by
  unfold gbStep; split <;> simp

theorem gbFold_len (costs : Costs) : ∀ (es : List Edge) (s : GState), s.grounded.length ≤ (es.foldl (gbStep costs) s).grounded.length := by
  intro es
  induction es with
  | nil => intro s; exact Nat.le_refl _
  | cons e es ih => intro s; exact Nat.le_trans (gbStep_len costs s e) (ih _)

theorem gbStep_eligible {costs : Costs} {s : GState} {e : Edge} (h : Eligible costs s e) :
    (gbStep costs s e).grounded.length = s.grounded.length + 1 := by
  obtain ⟨h1, h2, h3, h4, h5⟩ := h
  unfold gbStep
  have c2 : s.grounded.contains e.target = false := by simpa using h2
  have c3 : (costs e.target).isNone = false := by
    cases hc : costs e.target with
    | none => rw [hc] at h3; simp at h3
    | some _ => rfl
  have c4 : (edgeCost costs e != costs e.target) = false := by simp [h4]
  simp [h1, c3, c4, h5, h2]

theorem gbStep_not_eligible {costs : Costs} {s : GState} {e : Edge} (h : ¬ Eligible costs s e) : gbStep costs s e = s := by
  unfold gbStep
  split
  · rfl
  · rename_i hc
    exfalso; apply h
    simp only [Bool.or_eq_true, Bool.not_eq_true', not_or, Bool.not_eq_true, bne_iff_ne, ne_eq, Decidable.not_not,
      Option.isNone_iff_eq_none, List.contains_iff_mem] at hc
    obtain ⟨⟨⟨⟨h1, h2⟩, h3⟩, h4⟩, h5⟩ := hc
    refine ⟨by simpa using h1, by simpa using h2, ?_, h4, by simpa using h5⟩
    cases hcc : costs e.target with
    | none => exact absurd hcc h3
    | some _ => rfl

/-- if the second phase makes no progress, no row of the e-graph was eligible -/
theorem noprogress_no_eligible (costs : Costs) : ∀ (es : List Edge) (s : GState),
    (es.foldl (gbStep costs) s).grounded.length = s.grounded.length → ∀ e ∈ es, ¬ Eligible costs s e := by
  intro es
  induction es with
  | nil => intro s _ e he; simp at he
  | cons e0 es ih =>
    intro s hlen e he
    simp only [List.foldl_cons] at hlen
    by_cases h0 : Eligible costs s e0
    · have a := gbStep_eligible h0
      have b := gbFold_len costs es (gbStep costs s e0)
      omega
    · rw [gbStep_not_eligible h0] at hlen
      simp only [List.mem_cons] at he
      rcases he with rfl | he
      · exact h0
      · exact ih s hlen e he

/-- the heart of the totality argument: an ungrounded class of MINIMAL cost cannot have a derivation -/
theorem no_min_ungrounded {edges : List Edge} {costs : Costs} (hst : Stable edges costs) (hh : ∀ e ∈ edges, e.head ≤ cap)
    {s : GState} (hne : ∀ e ∈ edges, ¬ Eligible costs s e) {c k : Nat} (r : Reach edges c k) :
    costs c = some k → c ∉ s.grounded → (∀ c' k', costs c' = some k' → c' ∉ s.grounded → k ≤ k') → False := by
  induction r with
  | mk e cs he hsub hlen hkids ih =>
    intro hck hcg hmin
    -- the recorded costs of the children are dominated by the derivation's
    obtain ⟨cs', hcs', hle⟩ := lookupAll_of_bounds costs e.children cs hlen (fun i h1 h2 => stable_le hst (hkids i h1 h2))
    obtain ⟨hl', hpt⟩ := LE_getElem cs' cs hle
    obtain ⟨hl2, hget⟩ := lookupAll_spec costs e.children cs' hcs'
    -- so this row is a best row of its class
    obtain ⟨kk, hkk, hkle⟩ := hst e he hsub cs' hcs'
    rw [hck] at hkk; cases hkk
    have hmono : satSum e.head cs' ≤ satSum e.head cs := satSum_mono cs' cs e.head e.head hle (Nat.le_refl _)
    have hbest : edgeCost costs e = costs e.target := by
      unfold edgeCost; rw [hcs', hck]; simp only [Option.map_some]; congr 1; omega
    -- it is not eligible, hence one of its children is not grounded
    have hng : childrenGrounded s.grounded e ≠ true := fun hcgr => hne e he ⟨hsub, hcg, by rw [hck]; rfl, hbest, hcgr⟩
    have : ∃ j, ∃ (hj : j < e.children.length), e.children[j] ∉ s.grounded := by
      apply Classical.byContradiction
      intro hno
      apply hng
      unfold childrenGrounded
      rw [List.all_eq_true]
      intro x hx
      obtain ⟨j, hj, rfl⟩ := List.getElem_of_mem hx
      apply Classical.byContradiction
      intro hxx
      exact hno ⟨j, hj, by simpa using hxx⟩
    obtain ⟨j, hj, hjg⟩ := this
    have hj' : j < cs'.length := by omega
    have hj'' : j < cs.length := by omega
    have hcj : costs e.children[j] = some cs'[j] := hget j hj hj'
    -- its cost is squeezed between the minimum and the total
    have h1 : satSum e.head cs ≤ cs'[j] := hmin _ _ hcj hjg
    have hcapj : cs[j] ≤ cap := reach_le_cap hh (hkids j hj hj'')
    have h2 : cs[j] ≤ satSum e.head cs := satSum_ge_elem cs e.head j hj'' hcapj
    have h3 : cs'[j] ≤ cs[j] := hpt j hj' hj''
    have heq : cs'[j] = cs[j] := by omega
    refine ih j hj hj'' (by rw [hcj, heq]) hjg (fun c' k' hc' hg' => ?_)
    have := hmin c' k' hc' hg'
    omega

/-- **The repair is total**: at the cost fixpoint, once the second phase of the repair makes no
more progress, EVERY class that has a cost is grounded — so (with `C07_extract_term`) extraction
fails only when the class has no term at all, also where the rank guard alone would have left a
gap (defect 4). -/
theorem C07_repair_total {edges : List Edge} {costs : Costs} (hs : Sound edges costs) (hst : Stable edges costs)
    (hh : ∀ e ∈ edges, e.head ≤ cap) (s : GState)
    (hnp : (groundBest edges costs s).grounded.length = s.grounded.length) :
    ∀ c k, costs c = some k → c ∈ s.grounded := by
  have hne : ∀ e ∈ edges, ¬ Eligible costs s e := noprogress_no_eligible costs edges s (by rw [← groundBest_eq]; exact hnp)
  -- strong induction on the cost: there is no ungrounded costed class at all
  have key : ∀ k, ∀ c, costs c = some k → c ∉ s.grounded → False := by
    intro k
    induction k using Nat.strongRecOn with
    | _ k ih =>
      intro c hc hg
      by_cases hsm : ∃ c' k', costs c' = some k' ∧ c' ∉ s.grounded ∧ k' < k
      · obtain ⟨c', k', h1, h2, h3⟩ := hsm
        exact ih k' h3 c' h1 h2
      · refine no_min_ungrounded hst hh hne (hs c k hc) hc hg (fun c' k' h1 h2 => ?_)
        apply Classical.byContradiction
        intro hlt
        exact hsm ⟨c', k', h1, h2, by omega⟩
  intro c k hc
  apply Classical.byContradiction
  intro hg
  exact key k c hc hg

/-- the rank bookkeeping does not change the costs or the fixpoint flag -/
theorem relaxR_costs (s : RState) (e : Edge) : (relaxR s e).1.costs = (relax s.costs e).1 ∧ (relaxR s e).2 = (relax s.costs e).2 := by
  unfold relaxR
  simp only
  split
  · rename_i h; exact ⟨rfl, h.symm⟩
  · rename_i h
    have hf : (relax s.costs e).2 = false := by simpa using h
    exact ⟨(relax_false hf).1.symm, hf.symm⟩

theorem passR_costs (edges : List Edge) : ∀ (acc : RState × Bool) (acc' : Costs × Bool), acc.1.costs = acc'.1 → acc.2 = acc'.2 →
    (edges.foldl (fun (a : RState × Bool) e => let r := relaxR a.1 e; (r.1, a.2 || r.2)) acc).1.costs =
      (edges.foldl (fun (a : Costs × Bool) e => let r := relax a.1 e; (r.1, a.2 || r.2)) acc').1 ∧
    (edges.foldl (fun (a : RState × Bool) e => let r := relaxR a.1 e; (r.1, a.2 || r.2)) acc).2 =
      (edges.foldl (fun (a : Costs × Bool) e => let r := relax a.1 e; (r.1, a.2 || r.2)) acc').2 := by
  induction edges with
  | nil => intro acc acc' h1 h2; exact ⟨h1, h2⟩
  | cons e es ih =>
    intro acc acc' h1 h2
    simp only [List.foldl_cons]
    apply ih
    · simp only; rw [(relaxR_costs acc.1 e).1, h1]
    · simp only; rw [(relaxR_costs acc.1 e).2, h1, h2]

theorem bfR_costs (edges : List Edge) : ∀ (fuel : Nat) (s : RState),
    (bellmanFordR edges fuel s).1.costs = (bellmanFord edges fuel s.costs).1 ∧
      (bellmanFordR edges fuel s).2 = (bellmanFord edges fuel s.costs).2 := by
  intro fuel
  induction fuel with
  | zero => intro s; exact ⟨rfl, rfl⟩
  | succ n ih =>
    intro s
    simp only [bellmanFordR, bellmanFord]
    obtain ⟨h1, h2⟩ := passR_costs edges (s, false) (s.costs, false) rfl rfl
    have hp1 : (passR edges s).1.costs = (pass edges s.costs).1 := h1
    have hp2 : (passR edges s).2 = (pass edges s.costs).2 := h2
    rw [hp2]
    split
    · have := ih (passR edges s).1
      rw [hp1] at this; exact this
    · exact ⟨hp1, rfl⟩


/-! ### the repair loop reaches its no-progress state (termination of `groundLoop`) -/

/-- the grounded list has no duplicates and only holds classes of the e-graph -/
structure GOk (edges : List Edge) (s : GState) : Prop where
  nodup : s.grounded.Nodup
  sub : ∀ c ∈ s.grounded, c ∈ classesOf edges

theorem mem_classesOf {edges : List Edge} {e : Edge} (h : e ∈ edges) : e.target ∈ classesOf edges := by
  unfold classesOf
  rw [List.mem_eraseDups]
  exact List.mem_map.mpr ⟨e, h, rfl⟩

theorem nodup_snoc {l : List Nat} {x : Nat} (h : l.Nodup) (hx : x ∉ l) : (l ++ [x]).Nodup := by
  rw [List.nodup_append]
  refine ⟨h, by simp, ?_⟩
  intro a ha b hb
  simp only [List.mem_singleton] at hb
  subst hb
  intro hab; subst hab; exact hx ha

theorem gbStep_ok {edges : List Edge} (costs : Costs) (s : GState) (e : Edge) (he : e ∈ edges) (h : GOk edges s) :
    GOk edges (gbStep costs s e) := by
  unfold gbStep
  split
  · exact h
  · rename_i hc
    simp only [Bool.or_eq_true, not_or, Bool.not_eq_true] at hc
    have hnc : e.target ∉ s.grounded := by
      have := hc.1.1.1.2
      intro hm; rw [List.contains_iff_mem.mpr hm] at this; cases this
    refine ⟨nodup_snoc h.nodup hnc, ?_⟩
    intro c hc'
    rcases List.mem_append.mp hc' with h1 | h1
    · exact h.sub c h1
    · simp only [List.mem_singleton] at h1; subst h1; exact mem_classesOf he

theorem gbFold_ok {edges : List Edge} (costs : Costs) : ∀ (es : List Edge) (s : GState), (∀ e ∈ es, e ∈ edges) →
    GOk edges s → GOk edges (es.foldl (gbStep costs) s) := by
  intro es
  induction es with
  | nil => intro s _ h; exact h
  | cons e es ih =>
    intro s hsub h
    simp only [List.foldl_cons]
    exact ih _ (fun x hx => hsub x (List.mem_cons_of_mem _ hx)) (gbStep_ok costs s e (hsub e List.mem_cons_self) h)

/-- a sweep of phase 2 that adds nothing changes nothing -/
theorem gbFold_fixed (costs : Costs) : ∀ (es : List Edge) (s : GState),
    (es.foldl (gbStep costs) s).grounded.length = s.grounded.length → es.foldl (gbStep costs) s = s := by
  intro es
  induction es with
  | nil => intro s _; rfl
  | cons e es ih =>
    intro s hlen
    simp only [List.foldl_cons] at hlen ⊢
    have h1 := gbStep_len costs s e
    have h2 := gbFold_len costs es (gbStep costs s e)
    have hstep : gbStep costs s e = s := by
      unfold gbStep at h1 h2 hlen ⊢
      split
      · rfl
      · rename_i hc
        rw [if_neg hc] at h2 hlen
        simp only [List.length_append, List.length_singleton] at h2
        omega
    rw [hstep] at hlen ⊢
    exact ih s hlen

def grStep (s : GState) (c : Nat) : GState :=
  if s.grounded.contains c then s else
  match s.parent c with
  | some e => if childrenGrounded s.grounded e then { s with grounded := s.grounded ++ [c] } else s
  | none => s

theorem groundRecorded_eq (cands : List Nat) (s : GState) : groundRecorded cands s = cands.foldl grStep s := rfl

theorem grStep_len (s : GState) (c : Nat) : s.grounded.length ≤ (grStep s c).grounded.length := by
  unfold grStep
  split
  · exact Nat.le_refl _
  · split
    · split <;> simp
    · exact Nat.le_refl _

theorem grFold_len : ∀ (cs : List Nat) (s : GState), s.grounded.length ≤ (cs.foldl grStep s).grounded.length := by
  intro cs
  induction cs with
  | nil => intro s; exact Nat.le_refl _
  | cons c cs ih => intro s; simp only [List.foldl_cons]; exact Nat.le_trans (grStep_len s c) (ih _)

theorem grStep_ok {edges : List Edge} (s : GState) (c : Nat) (hc : c ∈ classesOf edges) (h : GOk edges s) : GOk edges (grStep s c) := by
  unfold grStep
  split
  · exact h
  · rename_i hnc
    split
    · split
      · refine ⟨nodup_snoc h.nodup (fun hm => hnc (List.contains_iff_mem.mpr hm)), ?_⟩
        intro x hx
        rcases List.mem_append.mp hx with h1 | h1
        · exact h.sub x h1
        · simp only [List.mem_singleton] at h1; subst h1; exact hc
      · exact h
    · exact h

theorem grFold_ok {edges : List Edge} : ∀ (cs : List Nat) (s : GState), (∀ c ∈ cs, c ∈ classesOf edges) →
    GOk edges s → GOk edges (cs.foldl grStep s) := by
  intro cs
  induction cs with
  | nil => intro s _ h; exact h
  | cons c cs ih =>
    intro s hsub h
    simp only [List.foldl_cons]
    exact ih _ (fun x hx => hsub x (List.mem_cons_of_mem _ hx)) (grStep_ok s c (hsub c List.mem_cons_self) h)

theorem GOk.len_le {edges : List Edge} {s : GState} (h : GOk edges s) : s.grounded.length ≤ (classesOf edges).length :=
  List.Nodup.length_le_of_subset h.nodup (fun c hc => h.sub c hc)

/-- **The repair loop terminates in its no-progress state**: with as much fuel as there are
classes (plus one) the loop does not run out of fuel — its result is a state on which a further
sweep of phase 2 adds nothing, which is the hypothesis of `C07_repair_total`. -/
theorem C07_repair_terminates (edges : List Edge) (costs : Costs) : ∀ (fuel : Nat) (s : GState), GOk edges s →
    (classesOf edges).length - s.grounded.length < fuel →
    (groundBest edges costs (groundLoop edges costs (classesOf edges) fuel s)).grounded.length
      = (groundLoop edges costs (classesOf edges) fuel s).grounded.length := by
  intro fuel
  induction fuel with
  | zero => intro s _ h; omega
  | succ k ih =>
    intro s hok hf
    have hok1 : GOk edges (groundRecorded (classesOf edges) s) := by
      rw [groundRecorded_eq]; exact grFold_ok _ s (fun c hc => hc) hok
    have hle1 : s.grounded.length ≤ (groundRecorded (classesOf edges) s).grounded.length := by
      rw [groundRecorded_eq]; exact grFold_len _ s
    have hok2 : GOk edges (groundBest edges costs (groundRecorded (classesOf edges) s)) := by
      rw [groundBest_eq]; exact gbFold_ok costs edges _ (fun e he => he) hok1
    have hle2 : (groundRecorded (classesOf edges) s).grounded.length ≤ (groundBest edges costs (groundRecorded (classesOf edges) s)).grounded.length := by
      rw [groundBest_eq]; exact gbFold_len costs edges _
    have hb1 := hok1.len_le
    have hb2 := hok2.len_le
    simp only [groundLoop]
    split
    · rename_i hne
      exact ih _ hok1 (by omega)
    · rename_i heq
      split
      · rename_i hne2
        exact ih _ hok2 (by omega)
      · rename_i heq2
        have heq2' : (groundBest edges costs (groundRecorded (classesOf edges) s)).grounded.length
            = (groundRecorded (classesOf edges) s).grounded.length := by
          by_cases h : (groundBest edges costs (groundRecorded (classesOf edges) s)).grounded.length
            = (groundRecorded (classesOf edges) s).grounded.length
          · exact h
          · exact absurd h heq2
        have hfix : groundBest edges costs (groundRecorded (classesOf edges) s) = groundRecorded (classesOf edges) s := by
          rw [groundBest_eq] at heq2' ⊢; exact gbFold_fixed costs edges _ heq2'
        rw [hfix, hfix]

/-- the empty start state of the pipeline, with enough fuel -/
theorem C07_repair_terminates_init (edges : List Edge) (costs : Costs) (parent0 : Parent) (fuel : Nat)
    (hf : (classesOf edges).length < fuel) :
    (groundBest edges costs (groundLoop edges costs (classesOf edges) fuel ⟨parent0, []⟩)).grounded.length
      = (groundLoop edges costs (classesOf edges) fuel ⟨parent0, []⟩).grounded.length :=
  C07_repair_terminates edges costs fuel ⟨parent0, []⟩ ⟨List.nodup_nil, fun c hc => by cases hc⟩ (by simpa using hf)

/-- **Extraction fails only when the class has no term** — for the whole repaired pipeline of the
model: at the cost fixpoint, with every head cost within `u64`, once the repair's second phase
makes no more progress every class with a derivation (`Reach`) is grounded, hence (by
`C07_reconstruct`) has a reconstructed member term of its recorded cost. -/
theorem C07_pipeline_total (edges : List Edge) (fuel : Nat) (hh : ∀ e ∈ edges, e.head ≤ cap)
    (hfix : (bellmanFordR edges fuel ⟨noCosts, fun _ => 0, 0⟩).2 = true) (s : GState)
    (hnp : (groundBest edges (bellmanFordR edges fuel ⟨noCosts, fun _ => 0, 0⟩).1.costs s).grounded.length = s.grounded.length)
    (c k : Nat) (r : Reach edges c k) : c ∈ s.grounded := by
  obtain ⟨hc, hf⟩ := bfR_costs edges fuel ⟨noCosts, fun _ => 0, 0⟩
  have hfix' : (bellmanFord edges fuel noCosts).2 = true := by rw [← hf]; exact hfix
  obtain ⟨hs, hst⟩ := bf_spec edges fuel noCosts (fun _ _ h => by simp [noCosts] at h)
  have hst' := hst hfix'
  rw [hc] at hnp
  obtain ⟨k', hk', _⟩ := stable_le hst' r
  exact C07_repair_total hs hst' hh s hnp c k' hk'


/-- **Whenever the repair runs, extraction fails only for classes without any term** — no
hypothesis on the repair loop any more: the cost loop reached its fixpoint (`hfix`) and the fuel
exceeds the number of classes. -/
theorem C07_extract_total (edges : List Edge) (fuel : Nat) (hh : ∀ e ∈ edges, e.head ≤ cap)
    (hfix : (bellmanFordR edges fuel ⟨noCosts, fun _ => 0, 0⟩).2 = true)
    (hf : (classesOf edges).length < fuel) (hrep : (extractAll edges fuel).2.2 = true)
    (c k : Nat) (r : Reach edges c k) : c ∈ (extractAll edges fuel).1.grounded := by
  unfold extractAll at hrep ⊢
  simp only at hrep ⊢
  split
  · exact C07_pipeline_total edges fuel hh hfix _ (C07_repair_terminates_init edges _ _ fuel hf) c k r
  · rename_i hun
    rw [if_neg hun] at hrep
    cases hrep

end EgglogVerif.Extract
