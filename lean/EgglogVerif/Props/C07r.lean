import EgglogVerif.Props.C07
/-
C07 (second half) — the term that extraction returns.

`bellman_ford` chooses one row per class (`parent_edge`) and `reconstruct_termdag_node` follows
those choices recursively.  The theorems:

* `C07_reconstruct`  — for ANY choice of rows that is *guarded* on a set of classes (each chosen
                       row is a live row of its class with the best cost, and its children are
                       again in the set, at a strictly smaller level) reconstruction from every
                       class of the set terminates and returns a term that is a member of the
                       class, built from non-subsumed rows only, whose tree cost is exactly the
                       recorded cost;
* `C07_pick_guarded` — the rank-guarded choice of the code (`save_best_parent_edge`) is guarded,
                       with the chronological rank as level;
* `C07_rank_gap_defect` — … but it is NOT total: with saturating costs a class can be left
                       without any eligible row although it has a cost (defect 4 on the pinned
                       tree: the `unwrap` in reconstruction panicked);
* `C07_ground_guarded` — the grounded-set repair (the `fix:` commit for defect 4) keeps a guarded
                       choice on the grounded classes, with the grounding order as level: it can
                       never select a cycle;
* `C07_extract_term` — hence every class the whole pipeline declares reconstructible yields a
                       member term of exactly the recorded cost.
-/
namespace EgglogVerif.Extract

/-- `t` is a term of class `c` built from non-subsumed rows of `edges` -/
inductive Member (edges : List Edge) : Tm → Nat → Prop
  | mk (e : Edge) (kids : List Tm) : e ∈ edges → e.sub = false → kids.length = e.children.length →
      (∀ i (h1 : i < kids.length) (h2 : i < e.children.length), Member edges kids[i] e.children[i]) →
      Member edges (.node e kids) e.target

/-- a chosen row is a live best row of its class -/
structure EdgeOk (edges : List Edge) (costs : Costs) (c : Nat) (e : Edge) : Prop where
  mem : e ∈ edges
  live : e.sub = false
  tgt : e.target = c
  has : (costs c).isSome = true
  best : edgeCost costs e = costs c

/-- the choice is guarded on the classes satisfying `G`, with level function `lvl` -/
def Guarded (edges : List Edge) (costs : Costs) (parent : Parent) (G : Nat → Prop) (lvl : Nat → Nat) : Prop :=
  ∀ c, G c → ∃ e, parent c = some e ∧ EdgeOk edges costs c e ∧ ∀ ch ∈ e.children, G ch ∧ lvl ch < lvl c

theorem kids_exist (edges : List Edge) (costs : Costs) (f : Nat → Option Tm) : ∀ (chs : List Nat),
    (∀ ch ∈ chs, ∃ t, f ch = some t ∧ Member edges t ch ∧ costs ch = some t.cost) →
    ∃ kids, mapOpt f chs = some kids ∧ kids.length = chs.length ∧
      (∀ i (h1 : i < kids.length) (h2 : i < chs.length), Member edges kids[i] chs[i]) ∧
      lookupAll costs chs = some (costList kids) := by
  intro chs
  induction chs with
  | nil => intro _; exact ⟨[], rfl, rfl, fun i h1 _ => by simp at h1, rfl⟩
  | cons ch chs ih =>
    intro h
    obtain ⟨t, ht, hm, hc⟩ := h ch List.mem_cons_self
    obtain ⟨kids, hk, hl, hp, hlk⟩ := ih (fun x hx => h x (List.mem_cons_of_mem _ hx))
    refine ⟨t :: kids, ?_, by simp [hl], ?_, ?_⟩
    · simp only [mapOpt, ht, hk]
    · intro i h1 h2
      cases i with
      | zero => exact hm
      | succ j => exact hp j (by simpa using h1) (by simpa using h2)
    · simp only [lookupAll, hc, hlk, costList]

/-- **Reconstruction from a guarded choice** terminates (fuel `lvl c + 1` suffices) and returns a
member of the class whose tree cost is the recorded cost. -/
theorem C07_reconstruct {edges : List Edge} {costs : Costs} {parent : Parent} {G : Nat → Prop} {lvl : Nat → Nat}
    (hg : Guarded edges costs parent G lvl) :
    ∀ (n c : Nat), G c → lvl c < n →
      ∃ t, reconstruct parent n c = some t ∧ Member edges t c ∧ costs c = some t.cost := by
  intro n
  induction n with
  | zero => intro c _ h; omega
  | succ n ih =>
    intro c hc hl
    obtain ⟨e, hp, ok, hch⟩ := hg c hc
    have hkids := kids_exist edges costs (reconstruct parent n) e.children
      (fun ch hx => ih ch (hch ch hx).1 (by have := (hch ch hx).2; omega))
    obtain ⟨kids, hk, hlen, hmem, hlk⟩ := hkids
    refine ⟨.node e kids, ?_, ?_, ?_⟩
    · simp only [reconstruct, hp, hk, Option.map_some]
    · have := Member.mk e kids ok.mem ok.live hlen hmem
      rw [ok.tgt] at this; exact this
    · have hb := ok.best
      unfold edgeCost at hb
      rw [hlk] at hb
      simp only [Option.map_some] at hb
      rw [← hb]; rfl

/-- a member term is a derivation in the sense of the cost theorems: its cost is a `Reach` cost
(so by `C07_optimal` no member of the class is cheaper than the recorded cost) -/
theorem member_reach {edges : List Edge} {t : Tm} {c : Nat} (h : Member edges t c) : Reach edges c t.cost := by
  induction h with
  | mk e kids he hs hl _ ih =>
    have hcl : ∀ (ks : List Tm), (costList ks).length = ks.length := by
      intro ks; induction ks with
      | nil => rfl
      | cons k ks ih => simp [costList, ih]
    have hget : ∀ (ks : List Tm) (i : Nat) (h1 : i < (costList ks).length) (h2 : i < ks.length), (costList ks)[i] = ks[i].cost := by
      intro ks
      induction ks with
      | nil => intro i h1; simp [costList] at h1
      | cons k ks ihk =>
        intro i h1 h2
        cases i with
        | zero => rfl
        | succ j => simpa [costList] using ihk j (by simpa [costList] using h1) (by simpa using h2)
    have := Reach.mk e (costList kids) he hs (by rw [hcl, hl]) (fun i h1 h2 => by
      rw [hget kids i h2 (by rw [hcl] at h2; exact h2)]
      exact ih i (by rw [hcl] at h2; exact h2) h1)
    exact this

/-! ### the rank-guarded choice of the code -/

theorem C07_pick_guarded {edges : List Edge} {costs : Costs} {rank : Nat → Nat} {c : Nat} {e : Edge}
    (h : pickEdge edges costs rank c = some e) :
    EdgeOk edges costs c e ∧ ∀ ch ∈ e.children, rank ch < rank c := by
  unfold pickEdge at h
  have hm := List.mem_of_find?_eq_some h
  have hp := List.find?_some h
  simp only [Bool.and_eq_true, Bool.not_eq_true', beq_iff_eq, List.all_eq_true, decide_eq_true_eq] at hp
  obtain ⟨⟨⟨⟨h1, h2⟩, h3⟩, h4⟩, h5⟩ := hp
  exact ⟨⟨hm, h1, h2, h4, h3⟩, h5⟩

/-- the rows of defect 4: `Leaf`, `Mid Leaf` (100), three nested `Big` (2^63-1 each), `Cheap Leaf` (1)
unioned with `Mid Leaf`; classes 0 = Leaf, 1 = {Mid Leaf, Cheap Leaf}, 2,3,4 = Big^k -/
def d4Edges : List Edge :=
  [⟨1, [], 0, false⟩, ⟨100, [0], 1, false⟩, ⟨2 ^ 63 - 1, [1], 2, false⟩, ⟨2 ^ 63 - 1, [2], 3, false⟩,
   ⟨2 ^ 63 - 1, [3], 4, false⟩, ⟨1, [0], 1, false⟩]

/-- **Defect 4, by kernel evaluation of the model**: at the cost fixpoint class 3 has a (saturated)
cost, and the rank guard rejects its only best row — the later improvement of class 1 re-stamped
class 2 without improving class 3. -/
theorem C07_rank_gap_defect :
    let s := (bellmanFordR d4Edges 10 ⟨noCosts, fun _ => 0, 0⟩)
    s.2 = true ∧ s.1.costs 3 = some cap ∧ pickEdge d4Edges s.1.costs s.1.rank 3 = none := by
  decide +kernel

/-! ### the grounded-set repair -/

/-- position of a class in the grounding order -/
def pos (g : List Nat) (c : Nat) : Nat := g.idxOf c

structure GInv (edges : List Edge) (costs : Costs) (s : GState) : Prop where
  recd : ∀ c e, s.parent c = some e → EdgeOk edges costs c e
  grd : ∀ c, c ∈ s.grounded → ∃ e, s.parent c = some e ∧ ∀ ch ∈ e.children, ch ∈ s.grounded ∧ pos s.grounded ch < pos s.grounded c

theorem pos_append_old {g : List Nat} {c : Nat} (h : c ∈ g) (x : List Nat) : pos (g ++ x) c = pos g c := by
  unfold pos
  rw [List.idxOf_append, if_pos h]

theorem pos_lt_of_mem {g : List Nat} {c : Nat} (h : c ∈ g) : pos g c < g.length := List.idxOf_lt_length_of_mem h

theorem pos_new {g : List Nat} {c : Nat} (h : c ∉ g) : pos (g ++ [c]) c = g.length := by
  unfold pos
  rw [List.idxOf_append, if_neg h]
  simp

theorem childrenGrounded_spec {g : List Nat} {e : Edge} (h : childrenGrounded g e = true) : ∀ ch ∈ e.children, ch ∈ g := by
  unfold childrenGrounded at h
  simp only [List.all_eq_true, List.contains_iff_mem] at h
  exact h

/-- grounding one more class whose (recorded or new) edge has grounded children keeps the invariant -/
theorem GInv.add {edges : List Edge} {costs : Costs} {s : GState} (i : GInv edges costs s) (c : Nat) (e : Edge)
    (hc : c ∉ s.grounded) (ok : EdgeOk edges costs c e) (hch : ∀ ch ∈ e.children, ch ∈ s.grounded) :
    GInv edges costs ⟨fun x => if x = c then some e else s.parent x, s.grounded ++ [c]⟩ := by
  constructor
  · intro x e' hx
    simp only at hx
    split at hx
    · rename_i hxc; cases hx; rw [hxc]; exact ok
    · exact i.recd x e' hx
  · intro x hx
    simp only [List.mem_append, List.mem_singleton] at hx
    simp only
    rcases hx with hx | hx
    · have hne : x ≠ c := fun h => hc (h ▸ hx)
      obtain ⟨e', he', hk⟩ := i.grd x hx
      refine ⟨e', by rw [if_neg hne]; exact he', fun ch hm => ?_⟩
      obtain ⟨a, b⟩ := hk ch hm
      exact ⟨List.mem_append_left _ a, by rw [pos_append_old a, pos_append_old hx]; exact b⟩
    · subst hx
      refine ⟨e, by rw [if_pos rfl], fun ch hm => ?_⟩
      have a := hch ch hm
      exact ⟨List.mem_append_left _ a, by rw [pos_append_old a, pos_new hc]; exact pos_lt_of_mem a⟩

theorem GInv.groundRecorded {edges : List Edge} {costs : Costs} : ∀ (cands : List Nat) {s : GState},
    GInv edges costs s → GInv edges costs (groundRecorded cands s) := by
  intro cands
  unfold Extract.groundRecorded
  induction cands with
  | nil => intro s i; exact i
  | cons c cs ih =>
    intro s i
    simp only [List.foldl_cons]
    apply ih
    split
    · exact i
    · rename_i hng
      have hng' : c ∉ s.grounded := by simpa using hng
      cases hp : s.parent c with
      | none => exact i
      | some e =>
        simp only
        split
        · rename_i hcg
          have := i.add c e hng' (i.recd c e hp) (childrenGrounded_spec hcg)
          have hpar : (fun x => if x = c then some e else s.parent x) = s.parent := by
            funext x; split
            · rename_i hx; rw [hx, hp]
            · rfl
          rw [hpar] at this
          exact this
        · exact i

theorem GInv.groundBest {edges : List Edge} {costs : Costs} : ∀ (es : List Edge) {s : GState},
    (∀ e ∈ es, e ∈ edges) → GInv edges costs s → GInv edges costs (es.foldl (fun s e =>
      if e.sub || s.grounded.contains e.target || (costs e.target).isNone || edgeCost costs e != costs e.target
          || !childrenGrounded s.grounded e then s
      else { parent := fun c => if c = e.target then some e else s.parent c, grounded := s.grounded ++ [e.target] }) s) := by
  intro es
  induction es with
  | nil => intro s _ i; exact i
  | cons e es ih =>
    intro s hsub i
    simp only [List.foldl_cons]
    apply ih (fun x hx => hsub x (List.mem_cons_of_mem _ hx))
    split
    · exact i
    · rename_i hcond
      simp only [Bool.or_eq_true, Bool.not_eq_true', not_or, Bool.not_eq_true, bne_iff_ne, ne_eq, Decidable.not_not,
        Option.isNone_iff_eq_none, List.contains_iff_mem] at hcond
      obtain ⟨⟨⟨⟨h1, h2⟩, h3⟩, h4⟩, h5⟩ := hcond
      have h2' : e.target ∉ s.grounded := by simpa using h2
      have h5' : childrenGrounded s.grounded e = true := by simpa using h5
      have hsome : (costs e.target).isSome = true := by
        cases hc : costs e.target with
        | none => exact absurd hc h3
        | some _ => rfl
      exact i.add e.target e h2' ⟨hsub e List.mem_cons_self, by simpa using h1, rfl, hsome, h4⟩
        (childrenGrounded_spec h5')

/-- **The repair keeps a guarded choice on the grounded classes** — it can never select a cycle. -/
theorem C07_ground_guarded {edges : List Edge} {costs : Costs} {cands : List Nat} : ∀ (fuel : Nat) {s : GState},
    GInv edges costs s → GInv edges costs (groundLoop edges costs cands fuel s) := by
  intro fuel
  induction fuel with
  | zero => intro s i; exact i
  | succ n ih =>
    intro s i
    simp only [groundLoop]
    have i1 := GInv.groundRecorded cands i
    split
    · exact ih i1
    · have i2 : GInv edges costs (groundBest edges costs (Extract.groundRecorded cands s)) :=
        GInv.groundBest edges (fun _ h => h) i1
      split
      · exact ih i2
      · exact i2

theorem closeRecorded_inv {edges : List Edge} {costs : Costs} {cands : List Nat} : ∀ (fuel : Nat) {s : GState},
    GInv edges costs s → GInv edges costs (closeRecorded cands fuel s) := by
  intro fuel
  induction fuel with
  | zero => intro s i; exact i
  | succ n ih =>
    intro s i
    simp only [closeRecorded]
    have i1 := GInv.groundRecorded cands i
    split
    · exact ih i1
    · exact i1

theorem GInv.guarded {edges : List Edge} {costs : Costs} {s : GState} (i : GInv edges costs s) :
    Guarded edges costs s.parent (· ∈ s.grounded) (pos s.grounded) := by
  intro c hc
  obtain ⟨e, he, hk⟩ := i.grd c hc
  exact ⟨e, he, i.recd c e he, hk⟩

/-- **Every class the pipeline declares reconstructible yields a member term of exactly the
recorded cost** (rank-guarded choice when it is total, grounded-set repair otherwise). -/
theorem C07_extract_term (edges : List Edge) (fuel c : Nat) (hc : c ∈ (extractAll edges fuel).1.grounded) :
    ∃ n t, reconstruct (extractAll edges fuel).1.parent n c = some t ∧ Member edges t c ∧
      (extractAll edges fuel).2.1 c = some t.cost := by
  unfold extractAll at hc ⊢
  simp only at hc ⊢
  split at hc
  · -- repaired
    rename_i hun
    simp only [hun, if_true] at hc ⊢
    have i0 : GInv edges (bellmanFordR edges fuel ⟨noCosts, fun _ => 0, 0⟩).1.costs
        ⟨fun c => pickEdge edges (bellmanFordR edges fuel ⟨noCosts, fun _ => 0, 0⟩).1.costs
          (bellmanFordR edges fuel ⟨noCosts, fun _ => 0, 0⟩).1.rank c, []⟩ :=
      ⟨fun c e h => (C07_pick_guarded h).1, fun c h => by simp at h⟩
    have ig := C07_ground_guarded (cands := classesOf edges) fuel i0
    obtain ⟨t, h1, h2, h3⟩ := C07_reconstruct ig.guarded _ c hc (Nat.lt_succ_self _)
    exact ⟨_, t, h1, h2, h3⟩
  · -- the rank-guarded choice was total: the code follows it as it is
    rename_i hun
    simp only [hun] at hc ⊢
    simp only [Bool.false_eq_true, if_false] at hc ⊢
    have i0 : GInv edges (bellmanFordR edges fuel ⟨noCosts, fun _ => 0, 0⟩).1.costs
        ⟨fun c => pickEdge edges (bellmanFordR edges fuel ⟨noCosts, fun _ => 0, 0⟩).1.costs
          (bellmanFordR edges fuel ⟨noCosts, fun _ => 0, 0⟩).1.rank c, []⟩ :=
      ⟨fun c e h => (C07_pick_guarded h).1, fun c h => by simp at h⟩
    have ig := closeRecorded_inv (cands := classesOf edges) fuel i0
    obtain ⟨t, h1, h2, h3⟩ := C07_reconstruct ig.guarded _ c hc (Nat.lt_succ_self _)
    exact ⟨_, t, h1, h2, h3⟩

end EgglogVerif.Extract
