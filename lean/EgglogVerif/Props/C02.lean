import EgglogVerif.Model.EGraph
/-
C02 — A rule run fires for exactly the set of matches of its body (model level).

`matchAll` (the executable matcher of the e-graph model: atom by atom, unifying against the rows)
is proved sound and complete for the DENOTATIONAL meaning of a conjunctive query: the total
assignments under which every atom names a row of its table (subsumed rows excluded unless asked
for).  That meaning does not mention any order, so the result is independent of the order of the
atoms — the model-level content of "the result does not depend on the join plan".
-/
namespace EgglogVerif.EGraph

abbrev Asg := Nat → Int

def evalA (σ : Asg) : Tm → Int
  | .var n => σ n
  | .lit i => i

/-- a partial substitution is extended by a total assignment -/
def Agrees (s : Subst) (σ : Asg) : Prop := ∀ n v, s.get n = some v → σ n = v

/-- the meaning of a table atom -/
def SatTbl (g : EG) (inclSub : Bool) (σ : Asg) (f : Nat) (args : List Tm) (out : Tm) : Prop :=
  ∃ r ∈ g.table f, (inclSub = true ∨ r.sub = false) ∧ args.map (evalA σ) = r.args ∧ evalA σ out = r.out

theorem get_cons (n : Nat) (v : Int) (s : Subst) (m : Nat) :
    Subst.get ((n, v) :: s) m = if n = m then some v else s.get m := by
  unfold Subst.get
  by_cases h : n = m
  · simp [List.find?, h]
  · have hb : (n == m) = false := by simpa using h
    simp [List.find?, h, hb]

theorem agrees_nil (σ : Asg) : Agrees [] σ := by
  intro n v h; simp [Subst.get] at h

theorem unify_sound {s s' : Subst} {t : Tm} {v : Int} {σ : Asg} (h : unify s t v = some s') (ha : Agrees s' σ) :
    Agrees s σ ∧ evalA σ t = v := by
  cases t with
  | lit i =>
    simp only [unify] at h
    split at h
    · cases h; rename_i hi; exact ⟨ha, by simp [evalA, hi]⟩
    · cases h
  | var n =>
    simp only [unify] at h
    cases hg : s.get n with
    | some w =>
      rw [hg] at h
      simp only at h
      split at h
      · cases h; rename_i hw; exact ⟨ha, by simp only [evalA]; rw [ha n w hg, hw]⟩
      · cases h
    | none =>
      rw [hg] at h
      simp only [Option.some.injEq] at h
      subst h
      refine ⟨fun m w hm => ha m w ?_, ?_⟩
      · rw [get_cons]
        by_cases hnm : n = m
        · subst hnm; rw [hg] at hm; cases hm
        · simp [hnm, hm]
      · simp only [evalA]; exact ha n v (by rw [get_cons]; simp)

theorem unify_complete {s : Subst} {t : Tm} {v : Int} {σ : Asg} (ha : Agrees s σ) (he : evalA σ t = v) :
    ∃ s', unify s t v = some s' ∧ Agrees s' σ := by
  cases t with
  | lit i => simp only [evalA] at he; exact ⟨s, by simp [unify, he], ha⟩
  | var n =>
    simp only [evalA] at he
    cases hg : s.get n with
    | some w =>
      have := ha n w hg
      exact ⟨s, by simp [unify, hg, ← this, he], ha⟩
    | none =>
      refine ⟨(n, v) :: s, by simp [unify, hg], fun m w hm => ?_⟩
      rw [get_cons] at hm
      by_cases hnm : n = m
      · subst hnm; simp at hm; rw [← hm, he]
      · simp [hnm] at hm; exact ha m w hm

theorem unifyAll_sound : ∀ {ts : List Tm} {vs : List Int} {s s' : Subst} {σ : Asg},
    unifyAll s ts vs = some s' → Agrees s' σ → Agrees s σ ∧ ts.map (evalA σ) = vs := by
  intro ts
  induction ts with
  | nil =>
    intro vs s s' σ h ha
    cases vs with
    | nil => simp [unifyAll] at h; subst h; exact ⟨ha, rfl⟩
    | cons _ _ => simp [unifyAll] at h
  | cons t ts ih =>
    intro vs s s' σ h ha
    cases vs with
    | nil => simp [unifyAll] at h
    | cons v vs =>
      simp only [unifyAll] at h
      cases hu : unify s t v with
      | none => rw [hu] at h; simp at h
      | some s1 =>
        rw [hu] at h
        simp only [Option.bind_some] at h
        obtain ⟨a1, e1⟩ := ih h ha
        obtain ⟨a0, e0⟩ := unify_sound hu a1
        exact ⟨a0, by simp [e0, e1]⟩

theorem unifyAll_complete : ∀ {ts : List Tm} {vs : List Int} {s : Subst} {σ : Asg},
    Agrees s σ → ts.map (evalA σ) = vs → ∃ s', unifyAll s ts vs = some s' ∧ Agrees s' σ := by
  intro ts
  induction ts with
  | nil => intro vs s σ ha he; simp at he; subst he; exact ⟨s, rfl, ha⟩
  | cons t ts ih =>
    intro vs s σ ha he
    cases vs with
    | nil => simp at he
    | cons v vs =>
      simp only [List.map_cons, List.cons.injEq] at he
      obtain ⟨s1, h1, a1⟩ := unify_complete ha he.1
      obtain ⟨s2, h2, a2⟩ := ih a1 he.2
      exact ⟨s2, by simp [unifyAll, h1, h2], a2⟩

/-- **one atom**: the matcher returns exactly the extensions that make the atom true -/
theorem matchAtom_tbl (g : EG) (b : Bool) (s : Subst) (f : Nat) (args : List Tm) (out : Tm) (σ : Asg) :
    (∃ s' ∈ matchAtom g b s (.tbl f args out), Agrees s' σ) ↔ (Agrees s σ ∧ SatTbl g b σ f args out) := by
  simp only [matchAtom, List.mem_filterMap]
  constructor
  · rintro ⟨s', ⟨r, hr, hm⟩, ha⟩
    by_cases hsub : (r.sub && !b) = true
    · simp [hsub] at hm
    · simp only [hsub, Bool.false_eq_true, if_false] at hm
      cases hu : unifyAll s args r.args with
      | none => rw [hu] at hm; simp at hm
      | some s1 =>
        rw [hu] at hm
        simp only [Option.bind_some] at hm
        obtain ⟨a1, e1⟩ := unify_sound hm ha
        obtain ⟨a0, e0⟩ := unifyAll_sound hu a1
        refine ⟨a0, r, hr, ?_, e0, e1⟩
        cases hb : b <;> cases hrs : r.sub <;> simp_all
  · rintro ⟨ha, r, hr, hs, e0, e1⟩
    obtain ⟨s1, h1, a1⟩ := unifyAll_complete ha e0
    obtain ⟨s2, h2, a2⟩ := unify_complete a1 e1
    refine ⟨s2, ⟨r, hr, ?_⟩, a2⟩
    have hsub : (r.sub && !b) = false := by
      rcases hs with hb | hf
      · simp [hb]
      · simp [hf]
    simp [hsub, h1, h2]

/-- queries made of table atoms -/
def tblAtoms : List Atom → Prop
  | [] => True
  | .tbl _ _ _ :: rest => tblAtoms rest
  | .prim _ _ _ :: _ => False

def SatAll (g : EG) (b : Bool) (σ : Asg) : List Atom → Prop
  | [] => True
  | .tbl f args out :: rest => SatTbl g b σ f args out ∧ SatAll g b σ rest
  | .prim _ _ _ :: _ => False

theorem matchFold (g : EG) (b : Bool) : ∀ (atoms : List Atom) (ss : List Subst) (σ : Asg), tblAtoms atoms →
    ((∃ s ∈ atoms.foldl (fun ss a => ss.flatMap fun s => matchAtom g b s a) ss, Agrees s σ) ↔
      ((∃ s ∈ ss, Agrees s σ) ∧ SatAll g b σ atoms)) := by
  intro atoms
  induction atoms with
  | nil => intro ss σ _; simp [SatAll]
  | cons a rest ih =>
    intro ss σ ht
    cases a with
    | prim _ _ _ => exact absurd ht (by simp [tblAtoms])
    | tbl f args out =>
      simp only [List.foldl_cons, SatAll]
      rw [ih _ σ ht]
      constructor
      · rintro ⟨⟨s', hs', ha'⟩, hrest⟩
        obtain ⟨s, hs, hm⟩ := List.mem_flatMap.mp hs'
        obtain ⟨a0, hsat⟩ := (matchAtom_tbl g b s f args out σ).mp ⟨s', hm, ha'⟩
        exact ⟨⟨s, hs, a0⟩, hsat, hrest⟩
      · rintro ⟨⟨s, hs, ha⟩, hsat, hrest⟩
        obtain ⟨s', hm, ha'⟩ := (matchAtom_tbl g b s f args out σ).mpr ⟨ha, hsat⟩
        exact ⟨⟨s', List.mem_flatMap.mpr ⟨s, hs, hm⟩, ha'⟩, hrest⟩

/-- **The matcher computes exactly the matches of the body**: a total assignment satisfies every
atom iff it extends one of the substitutions `matchAll` returns (so actions run for every
satisfying substitution and for no other; subsumed rows are excluded unless `inclSub`). -/
theorem C02_matches (g : EG) (b : Bool) (atoms : List Atom) (ht : tblAtoms atoms) (σ : Asg) :
    (∃ s ∈ matchAll g b atoms, Agrees s σ) ↔ SatAll g b σ atoms := by
  unfold matchAll
  rw [matchFold g b atoms [[]] σ ht]
  constructor
  · exact fun h => h.2
  · exact fun h => ⟨⟨[], by simp, agrees_nil σ⟩, h⟩

theorem satAll_perm (g : EG) (b : Bool) (σ : Asg) : ∀ {l₁ l₂ : List Atom}, l₁.Perm l₂ → (SatAll g b σ l₁ ↔ SatAll g b σ l₂) := by
  intro l₁ l₂ h
  induction h with
  | nil => exact Iff.rfl
  | cons a _ ih => cases a <;> simp [SatAll, ih]
  | swap a c l => cases a <;> cases c <;> simp [SatAll] <;> constructor <;> rintro ⟨x, y, z⟩ <;> exact ⟨y, x, z⟩
  | trans _ _ ih1 ih2 => exact ih1.trans ih2

theorem tblAtoms_perm : ∀ {l₁ l₂ : List Atom}, l₁.Perm l₂ → (tblAtoms l₁ ↔ tblAtoms l₂) := by
  intro l₁ l₂ h
  induction h with
  | nil => exact Iff.rfl
  | cons a _ ih => cases a <;> simp [tblAtoms, ih]
  | swap a c l => cases a <;> cases c <;> simp [tblAtoms]
  | trans _ _ ih1 ih2 => exact ih1.trans ih2

/-- **Join-order independence**: any permutation of the body's atoms yields the same set of
matches. -/
theorem C02_perm (g : EG) (b : Bool) (l₁ l₂ : List Atom) (hp : l₁.Perm l₂) (ht : tblAtoms l₁) (σ : Asg) :
    (∃ s ∈ matchAll g b l₁, Agrees s σ) ↔ (∃ s ∈ matchAll g b l₂, Agrees s σ) := by
  rw [C02_matches g b l₁ ht, C02_matches g b l₂ ((tblAtoms_perm hp).mp ht), satAll_perm g b σ hp]

/-- subsumed rows never contribute to a rule match -/
theorem C02_subsumed (g : EG) (σ : Asg) (f : Nat) (args : List Tm) (out : Tm) (h : SatTbl g false σ f args out) :
    ∃ r ∈ g.table f, r.sub = false ∧ args.map (evalA σ) = r.args := by
  obtain ⟨r, hr, hs, e, _⟩ := h
  exact ⟨r, hr, by simpa using hs, e⟩

end EgglogVerif.EGraph
