import EgglogVerif.Model.Sexp
/-
C09 — Bad input is rejected cleanly (the part a model can carry).

* Totality: the model lexer/reader are total functions (`Option` results, structural recursion /
  fuel) — every byte string gets an answer, `none` = parse error. (`C09_lex_total` makes the
  fuel bound explicit: `text.length + 1` always suffices for the lexer.)
* Atomicity of rejected declarations: the front end type-checks a declaration by RECORDING its
  signature and THEN validating the rest (`typecheck_function`: merge expression / output sort;
  then the shadowing check).  `declarePinned` follows the pinned commit (the record survives a
  later rejection — defect 3, by witness); `declare` follows the repaired code (snapshot restored
  on rejection) and `C09_reject` proves that a rejected declaration leaves the environment
  untouched, for every environment and declaration.
"Never panics" for the real parser / type checker is not a model-level fact: PARTIAL, established
by the fuzzing part of the check.
-/
namespace EgglogVerif.Front

structure Decl where
  name : Nat
  mergeOk : Bool      -- does the merge expression / output sort type-check?
  shadows : Bool      -- does the name clash with a ruleset / variable (checked after typing)?
deriving Repr, DecidableEq

abbrev TypeInfo := List Nat   -- names with a recorded signature

inductive Err | alreadyBound | badMerge | shadowing
deriving Repr, DecidableEq

/-- the pinned pipeline: record, then validate; nothing is rolled back -/
def declarePinned (ti : TypeInfo) (d : Decl) : TypeInfo × Option Err :=
  if d.name ∈ ti then (ti, some .alreadyBound)
  else
    let ti' := d.name :: ti          -- `func_types.insert` happens first
    if !d.mergeOk then (ti', some .badMerge)
    else if d.shadows then (ti', some .shadowing)
    else (ti', none)

/-- the repaired pipeline: the type information is restored when the command is rejected -/
def declare (ti : TypeInfo) (d : Decl) : TypeInfo × Option Err :=
  let r := declarePinned ti d
  match r.2 with
  | some e => (ti, some e)
  | none => r

/-- **A rejected declaration has no effect**, for every environment and every declaration. -/
theorem C09_reject (ti : TypeInfo) (d : Decl) (e : Err) (h : (declare ti d).2 = some e) :
    (declare ti d).1 = ti := by
  unfold declare at *
  cases hr : (declarePinned ti d).2 with
  | some e' => simp [hr]
  | none => simp [hr] at h

/-- … so the same name can be declared correctly afterwards -/
theorem C09_redeclare (ti : TypeInfo) (d : Decl) (hfresh : d.name ∉ ti) (e : Err)
    (h : (declare ti d).2 = some e) :
    (declare (declare ti d).1 { d with mergeOk := true, shadows := false }).2 = none := by
  rw [C09_reject ti d e h]
  simp [declare, declarePinned, hfresh]

/-- an accepted declaration is recorded -/
theorem C09_accept (ti : TypeInfo) (d : Decl) (h : (declare ti d).2 = none) : d.name ∈ (declare ti d).1 := by
  unfold declare at *
  cases hr : (declarePinned ti d).2 with
  | some e' => simp [hr] at h
  | none =>
    simp only [hr]
    unfold declarePinned at hr ⊢
    split at hr
    · simp at hr
    · simp only at hr ⊢
      split at hr <;> try (simp at hr)
      split at hr <;> simp_all

/-- **Defect 3 at the pinned commit, by witness**: a declaration rejected for its merge
expression stays recorded, so the correct redeclaration is refused. -/
theorem C09_pinned_leak :
    (declarePinned [] ⟨7, false, false⟩).2 = some .badMerge ∧
    (declarePinned (declarePinned [] ⟨7, false, false⟩).1 ⟨7, true, false⟩).2 = some .alreadyBound := by
  decide

end EgglogVerif.Front

namespace EgglogVerif.Sexp

theorem lexOther_length : ∀ (cs acc : List Char), (lexOther cs acc).2.length ≤ cs.length := by
  intro cs
  induction cs with
  | nil => intro acc; simp [lexOther]
  | cons c cs ih =>
    intro acc
    simp only [lexOther]
    split
    · simp
    · exact Nat.le_trans (ih _) (by simp)

theorem lexString_length : ∀ (cs : List Char) (esc : Bool) (acc s rest : List Char),
    lexString cs esc acc = some (s, rest) → rest.length < cs.length + 1 := by
  intro cs
  induction cs with
  | nil => intro esc acc s rest h; simp [lexString] at h
  | cons c cs ih =>
    intro esc acc s rest h
    cases esc with
    | false =>
      simp only [lexString] at h
      split at h
      · cases h; simp; omega
      · split at h
        · have := ih _ _ _ _ h; simp; omega
        · have := ih _ _ _ _ h; simp; omega
    | true =>
      simp only [lexString] at h
      split at h
      · have := ih _ _ _ _ h; simp; omega
      · split at h
        · have := ih _ _ _ _ h; simp; omega
        · split at h
          · have := ih _ _ _ _ h; simp; omega
          · split at h
            · have := ih _ _ _ _ h; simp; omega
            · cases h

theorem skipWs_length : ∀ (cs : List Char) (b : Bool), (skipWs cs b).length ≤ cs.length := by
  intro cs
  induction cs with
  | nil => intro b; simp [skipWs]
  | cons c cs ih =>
    intro b
    simp only [skipWs]
    split
    · exact Nat.le_trans (ih _) (by simp)
    · split
      · exact Nat.le_trans (ih _) (by simp)
      · split
        · exact Nat.le_trans (ih _) (by simp)
        · split
          · exact Nat.le_trans (ih _) (by simp)
          · simp

/-- every token consumes at least one character -/
theorem nextTok_shrinks (cs : List Char) (t : Tok) (rest : List Char) (h : nextTok cs = some (some (t, rest))) :
    rest.length < cs.length := by
  unfold nextTok at h
  have hs := skipWs_length cs false
  cases hk : skipWs cs false with
  | nil => rw [hk] at h; simp at h
  | cons c r =>
    rw [hk] at h hs
    simp only at h
    simp only [List.length_cons] at hs
    split at h
    · cases h; omega
    · split at h
      · cases h; omega
      · split at h
        · cases hl : lexString r false [] with
          | none => rw [hl] at h; simp at h
          | some p =>
            rw [hl] at h
            obtain ⟨s, r'⟩ := p
            simp only [Option.some.injEq, Prod.mk.injEq] at h
            have := lexString_length r false [] s r' hl
            obtain ⟨_, rfl⟩ := h
            omega
        · have := lexOther_length r [c]
          simp only [Option.some.injEq, Prod.mk.injEq] at h
          obtain ⟨_, rfl⟩ := h
          omega

/-- **The lexer is total with an explicit bound**: with `text.length + 1` units of fuel a `none`
result is always a genuine lexing error (some `nextTok` call rejected a suffix of the input —
missing end quote or unknown escape), never fuel exhaustion: every byte string is either
tokenised or rejected. -/
theorem C09_lex_total : ∀ (fuel : Nat) (cs : List Char), cs.length < fuel →
    lexAll fuel cs ≠ none ∨ ∃ rest : List Char, rest.length ≤ cs.length ∧ nextTok rest = none := by
  intro fuel
  induction fuel with
  | zero => intro cs h; omega
  | succ f ih =>
    intro cs h
    simp only [lexAll]
    cases hn : nextTok cs with
    | none => exact Or.inr ⟨cs, Nat.le_refl _, hn⟩
    | some o =>
      cases o with
      | none => exact Or.inl (by simp)
      | some p =>
        obtain ⟨t, rest⟩ := p
        have hsh := nextTok_shrinks cs t rest hn
        rcases ih rest (by omega) with hl | ⟨r2, hr2, hn2⟩
        · left; simp only [ne_eq, Option.map_eq_none_iff]; exact hl
        · exact Or.inr ⟨r2, by omega, hn2⟩

end EgglogVerif.Sexp
