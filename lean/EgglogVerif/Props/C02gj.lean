/-
C02 (plan level) — variable-at-a-time evaluation (generic join) in ANY variable order computes
exactly the satisfying assignments.

`core-relations/src/free_join` evaluates a conjunctive query one variable (or one group of
variables) at a time: at each stage the candidate values of the next variable are those for which
every atom still has a row agreeing with the partial binding (the intersection of the atoms'
projections), and the stages are ordered by the planner (`plan_gj`, `plan_free_join`, dynamic
re-sorting by size).  `GJ` below is that scheme, stage by stage, for an arbitrary order `vs`.
The theorems say the result does not depend on the order: it is the set of assignments of `vs`
under which every atom has a matching row — the same denotation as the atom-at-a-time matcher of
`C02_matches`.  (Relational model: the enumeration order of candidates, indexes and batching are
abstracted; this file is not tied to the code by a correspondence run — the plan-variant
comparison of the C02 check is.)
-/
namespace EgglogVerif.GJ

abbrev Asg := Nat → Option Int

def upd (σ : Asg) (v : Nat) (x : Int) : Asg := fun w => if w = v then some x else σ w

structure Atom where
  vars : List Nat
  rows : List (List Int)

/-- `row` agrees with the partial assignment `σ` on the variables of the atom that `σ` binds -/
def Consistent (σ : Asg) (vars : List Nat) (row : List Int) : Prop :=
  vars.length = row.length ∧ ∀ i (h1 : i < vars.length) (h2 : i < row.length) y, σ vars[i] = some y → row[i] = y

/-- the atom still has a row agreeing with `σ` -/
def AtomOk (σ : Asg) (a : Atom) : Prop := ∃ row ∈ a.rows, Consistent σ a.vars row

/-- generic join over the variable order `vs`: bind the next variable to a value under which every
atom still has an agreeing row, continue with the rest -/
inductive Run (atoms : List Atom) : List Nat → Asg → Asg → Prop
  | done (σ : Asg) : Run atoms [] σ σ
  | bind {v : Nat} {vs : List Nat} {σ σ' : Asg} (x : Int) :
      (∀ a ∈ atoms, AtomOk (upd σ v x) a) → Run atoms vs (upd σ v x) σ' → Run atoms (v :: vs) σ σ'

def empty : Asg := fun _ => none

/-- `σ` binds exactly the variables of `vs` -/
def BindsExactly (σ : Asg) (vs : List Nat) : Prop := ∀ w, (σ w).isSome ↔ w ∈ vs

/-- every atom has a row that IS the image of its variables under `σ` -/
def Satisfies (σ : Asg) (a : Atom) : Prop := ∃ row ∈ a.rows, a.vars.map σ = row.map some

theorem upd_self (σ : Asg) (v : Nat) (x : Int) : upd σ v x v = some x := by simp [upd]
theorem upd_other (σ : Asg) {v w : Nat} (x : Int) (h : w ≠ v) : upd σ v x w = σ w := by simp [upd, h]

/-- what a run does to the assignment: it extends it on exactly the variables of the order -/
theorem run_extends {atoms : List Atom} {vs : List Nat} {σ σ' : Asg} (r : Run atoms vs σ σ') (hnd : vs.Nodup)
    (hfresh : ∀ v ∈ vs, σ v = none) :
    (∀ w, w ∉ vs → σ' w = σ w) ∧ (∀ w ∈ vs, (σ' w).isSome) := by
  induction r with
  | done σ => exact ⟨fun _ _ => rfl, fun w hw => by simp at hw⟩
  | @bind v vs σ σ' x _ _ ih =>
    rw [List.nodup_cons] at hnd
    have hf' : ∀ w ∈ vs, upd σ v x w = none := by
      intro w hw
      have hne : w ≠ v := fun e => hnd.1 (e ▸ hw)
      rw [upd_other σ x hne]; exact hfresh w (List.mem_cons_of_mem _ hw)
    obtain ⟨i1, i2⟩ := ih hnd.2 hf'
    constructor
    · intro w hw
      simp only [List.mem_cons, not_or] at hw
      rw [i1 w hw.2, upd_other σ x hw.1]
    · intro w hw
      simp only [List.mem_cons] at hw
      rcases hw with rfl | hw
      · rw [i1 w hnd.1, upd_self]; rfl
      · exact i2 w hw

/-- every atom is still consistent at the end (consistency was checked at the last stage, or the
order was empty and it is a hypothesis) -/
theorem run_ok {atoms : List Atom} {vs : List Nat} {σ σ' : Asg} (r : Run atoms vs σ σ')
    (h0 : ∀ a ∈ atoms, AtomOk σ a) : ∀ a ∈ atoms, AtomOk σ' a := by
  induction r with
  | done σ => exact h0
  | bind x hok _ ih => exact ih hok

/-- a row consistent with an assignment that binds all the atom's variables is the image of the
variables -/
theorem consistent_total {σ : Asg} {vars : List Nat} {row : List Int} (h : Consistent σ vars row)
    (hb : ∀ v ∈ vars, (σ v).isSome) : vars.map σ = row.map some := by
  obtain ⟨hl, hc⟩ := h
  apply List.ext_getElem
  · simp [hl]
  · intro i h1 h2
    simp only [List.getElem_map]
    have hi : i < vars.length := by simpa using h1
    have hsome := hb vars[i] (List.getElem_mem hi)
    cases hv : σ vars[i] with
    | none => rw [hv] at hsome; simp at hsome
    | some y => rw [hc i hi (by rw [← hl]; exact hi) y hv]

/-- **Soundness for every variable order**: every result binds exactly the variables of the order
and satisfies every atom whose variables are among them. -/
theorem C02_gj_sound {atoms : List Atom} {vs : List Nat} {σ' : Asg} (r : Run atoms vs empty σ') (hnd : vs.Nodup)
    (hne : vs ≠ [] ∨ ∀ a ∈ atoms, AtomOk empty a) :
    BindsExactly σ' vs ∧ ∀ a ∈ atoms, (∀ v ∈ a.vars, v ∈ vs) → Satisfies σ' a := by
  obtain ⟨e1, e2⟩ := run_extends r hnd (fun _ _ => rfl)
  have hb : BindsExactly σ' vs := by
    intro w
    constructor
    · intro hs
      apply Classical.byContradiction
      intro hw
      rw [e1 w hw] at hs
      simp [empty] at hs
    · exact e2 w
  have hok : ∀ a ∈ atoms, AtomOk σ' a := by
    cases r with
    | done => rcases hne with h | h
              · exact absurd rfl h
              · exact h
    | bind x hok rest => exact run_ok rest hok
  refine ⟨hb, fun a ha hv => ?_⟩
  obtain ⟨row, hrow, hc⟩ := hok a ha
  exact ⟨row, hrow, consistent_total hc (fun v hv' => e2 v (hv v hv'))⟩

/-- restriction of a total assignment to a set of variables -/
def restrict (τ : Nat → Int) (bound : List Nat) : Asg := fun w => if w ∈ bound then some (τ w) else none

theorem consistent_restrict (τ : Nat → Int) (bound : List Nat) (a : Atom) {row : List Int}
    (h : a.vars.map τ = row) : Consistent (restrict τ bound) a.vars row := by
  have hl : a.vars.length = row.length := by rw [← h]; simp
  refine ⟨hl, fun i h1 h2 y hy => ?_⟩
  unfold restrict at hy
  split at hy
  · have : row[i] = τ a.vars[i] := by simp [← h]
    rw [this]; exact (Option.some.inj hy)
  · cases hy

/-- **Completeness for every variable order**: every total assignment that satisfies all atoms is
found, whatever the order. -/
theorem C02_gj_complete (atoms : List Atom) (τ : Nat → Int) (hsat : ∀ a ∈ atoms, a.vars.map τ ∈ a.rows) :
    ∀ (vs bound : List Nat), Run atoms vs (restrict τ bound) (restrict τ (vs.reverse ++ bound)) := by
  intro vs
  induction vs with
  | nil => intro bound; simpa using Run.done (restrict τ bound)
  | cons v vs ih =>
    intro bound
    have hupd : upd (restrict τ bound) v (τ v) = restrict τ (v :: bound) := by
      funext w
      unfold upd restrict
      by_cases hw : w = v
      · subst hw; simp
      · simp [hw]
    have hstep := ih (v :: bound)
    have hrev : (v :: vs).reverse ++ bound = vs.reverse ++ (v :: bound) := by simp
    rw [hrev]
    refine Run.bind (τ v) ?_ (hupd ▸ hstep)
    intro a ha
    rw [hupd]
    exact ⟨a.vars.map τ, hsat a ha, consistent_restrict τ (v :: bound) a rfl⟩

/-- **Order independence**: for two orders of the same variables the results coincide (as
assignments), since both are exactly the satisfying assignments. -/
theorem C02_gj_order_independent (atoms : List Atom) (vs ws : List Nat) (hv : vs.Nodup) (hw : ws.Nodup)
    (hperm : ∀ x, x ∈ vs ↔ x ∈ ws) (hcover : ∀ a ∈ atoms, ∀ v ∈ a.vars, v ∈ vs) (hne : vs ≠ [])
    (σ' : Asg) (r : Run atoms vs empty σ') : Run atoms ws empty σ' := by
  obtain ⟨hb, hs⟩ := C02_gj_sound r hv (Or.inl hne)
  -- a total assignment extending σ'
  let τ : Nat → Int := fun w => (σ' w).getD 0
  have hτ : ∀ a ∈ atoms, a.vars.map τ ∈ a.rows := by
    intro a ha
    obtain ⟨row, hrow, he⟩ := hs a ha (hcover a ha)
    have : a.vars.map τ = row := by
      apply List.ext_getElem
      · have := congrArg List.length he; simpa using this
      · intro i h1 h2
        have hi : i < a.vars.length := by simpa using h1
        have hg := congrArg (fun l => l[i]?) he
        simp only [List.getElem?_map, List.getElem?_eq_getElem hi, List.getElem?_eq_getElem h2, Option.map_some] at hg
        simp only [List.getElem_map, τ]
        rw [Option.some.inj hg]; rfl
    rw [this]; exact hrow
  have hrun := C02_gj_complete atoms τ hτ ws []
  have h0 : restrict τ [] = empty := by funext w; simp [restrict, empty]
  have h1 : restrict τ (ws.reverse ++ []) = σ' := by
    funext w
    unfold restrict
    by_cases hm : w ∈ ws.reverse ++ []
    · rw [if_pos hm]
      have hmv : w ∈ vs := (hperm w).mpr (by simpa using hm)
      have := (hb w).mpr hmv
      cases hσ : σ' w with
      | none => rw [hσ] at this; simp at this
      | some y => simp [τ, hσ]
    · rw [if_neg hm]
      have hmv : w ∉ vs := fun h => hm (by simpa using (hperm w).mp h)
      cases hσ : σ' w with
      | none => rfl
      | some y => exact absurd ((hb w).mp (by rw [hσ]; rfl)) hmv
  rw [h0, h1] at hrun
  exact hrun

/-- non-vacuity: the triangle query R(x,y), S(y,z), T(x,z) in the order z, x, y -/
example : Run [⟨[0, 1], [[1, 2], [1, 3]]⟩, ⟨[1, 2], [[2, 5], [3, 6]]⟩, ⟨[0, 2], [[1, 5]]⟩] [2, 0, 1] empty
    (upd (upd (upd empty 2 5) 0 1) 1 2) := by
  refine Run.bind 5 ?_ (Run.bind 1 ?_ (Run.bind 2 ?_ (Run.done _)))
  · intro a ha
    simp only [List.mem_cons, List.not_mem_nil, or_false] at ha
    rcases ha with rfl | rfl | rfl
    · exact ⟨[1, 2], by simp, rfl, fun i h1 _ y hy => by
        have : i = 0 ∨ i = 1 := by simp at h1; omega
        rcases this with rfl | rfl <;> simp [upd, empty] at hy⟩
    · exact ⟨[2, 5], by simp, rfl, fun i h1 _ y hy => by
        have : i = 0 ∨ i = 1 := by simp at h1; omega
        rcases this with rfl | rfl <;> simp [upd, empty] at hy <;> simp [← hy]⟩
    · exact ⟨[1, 5], by simp, rfl, fun i h1 _ y hy => by
        have : i = 0 ∨ i = 1 := by simp at h1; omega
        rcases this with rfl | rfl <;> simp [upd, empty] at hy <;> simp [← hy]⟩
  · intro a ha
    simp only [List.mem_cons, List.not_mem_nil, or_false] at ha
    rcases ha with rfl | rfl | rfl
    · exact ⟨[1, 2], by simp, rfl, fun i h1 _ y hy => by
        have : i = 0 ∨ i = 1 := by simp at h1; omega
        rcases this with rfl | rfl <;> simp [upd, empty] at hy <;> simp [← hy]⟩
    · exact ⟨[2, 5], by simp, rfl, fun i h1 _ y hy => by
        have : i = 0 ∨ i = 1 := by simp at h1; omega
        rcases this with rfl | rfl <;> simp [upd, empty] at hy <;> simp [← hy]⟩
    · exact ⟨[1, 5], by simp, rfl, fun i h1 _ y hy => by
        have : i = 0 ∨ i = 1 := by simp at h1; omega
        rcases this with rfl | rfl <;> simp [upd, empty] at hy <;> simp [← hy]⟩
  · intro a ha
    simp only [List.mem_cons, List.not_mem_nil, or_false] at ha
    rcases ha with rfl | rfl | rfl
    · exact ⟨[1, 2], by simp, rfl, fun i h1 _ y hy => by
        have : i = 0 ∨ i = 1 := by simp at h1; omega
        rcases this with rfl | rfl <;> simp [upd, empty] at hy <;> simp [← hy]⟩
    · exact ⟨[2, 5], by simp, rfl, fun i h1 _ y hy => by
        have : i = 0 ∨ i = 1 := by simp at h1; omega
        rcases this with rfl | rfl <;> simp [upd, empty] at hy <;> simp [← hy]⟩
    · exact ⟨[1, 5], by simp, rfl, fun i h1 _ y hy => by
        have : i = 0 ∨ i = 1 := by simp at h1; omega
        rcases this with rfl | rfl <;> simp [upd, empty] at hy <;> simp [← hy]⟩

/-! ### tree decomposition: replacing a bag by its projection onto its public variables -/

/-- a sub-query (a bag of atoms, a materialisation …) as a predicate on total assignments -/
abbrev Q := (Nat → Int) → Prop

/-- `A` only looks at the variables in `V` -/
def DependsOn (A : Q) (V : List Nat) : Prop := ∀ τ τ', (∀ v ∈ V, τ v = τ' v) → (A τ ↔ A τ')

/-- projection of `A` onto the variables `P` (what a bag materialises and sends on) -/
def proj (P : List Nat) (A : Q) : Q := fun τ => ∃ τ', (∀ v ∈ P, τ' v = τ v) ∧ A τ'

/-- the answers of a query on the output variables `Out` -/
def Answers (Out : List Nat) (A : Q) : Q := fun τ => ∃ τ', (∀ v ∈ Out, τ' v = τ v) ∧ A τ'

theorem proj_dependsOn (P : List Nat) (A : Q) : DependsOn (proj P A) P := by
  intro τ τ' h
  constructor
  · rintro ⟨t, ht, ha⟩; exact ⟨t, fun v hv => (ht v hv).trans (h v hv), ha⟩
  · rintro ⟨t, ht, ha⟩; exact ⟨t, fun v hv => (ht v hv).trans (h v hv).symm, ha⟩

/-- **A bag may be replaced by its projection onto its PUBLIC variables** — those it shares with
the rest of the query or with the output — without changing the answers; which variables must be
public is exactly this condition (a variable wrongly treated as private loses the join on it). -/
theorem C02_bag_projection (A B : Q) (VA VB Out P : List Nat) (hA : DependsOn A VA) (hB : DependsOn B VB)
    (hP : ∀ v, v ∈ VA → (v ∈ VB ∨ v ∈ Out) → v ∈ P) (τ : Nat → Int) :
    Answers Out (fun t => A t ∧ B t) τ ↔ Answers Out (fun t => proj P A t ∧ B t) τ := by
  constructor
  · rintro ⟨t, ht, ha, hb⟩
    exact ⟨t, ht, ⟨t, fun _ _ => rfl, ha⟩, hb⟩
  · rintro ⟨t, ht, ⟨t2, ht2, ha⟩, hb⟩
    -- glue: `t2` on the variables of A, `t` elsewhere
    refine ⟨fun v => if v ∈ VA then t2 v else t v, ?_, ?_, ?_⟩
    · intro v hv
      by_cases hva : v ∈ VA
      · simp only [hva, if_true]
        rw [ht2 v (hP v hva (Or.inr hv))]; exact ht v hv
      · simp only [hva, if_false]; exact ht v hv
    · exact (hA _ t2 (fun v hv => by simp [hv])).mpr ha
    · refine (hB _ t (fun v hv => ?_)).mpr hb
      by_cases hva : v ∈ VA
      · simp only [hva, if_true]; exact ht2 v (hP v hva (Or.inl hv))
      · simp only [hva, if_false]

structure Bag where
  A : Q
  V : List Nat      -- its variables
  P : List Nat      -- the variables it keeps in its materialisation

/-- **Every bag at once**: given a decomposition into bags each of which keeps (at least) the
variables it shares with another bag, with the remainder of the query or with the output, joining
the bags' projections gives the same answers as joining the bags. -/
theorem C02_decomposition (Out : List Nat) : ∀ (bags : List Bag) (Rest : Q) (VR : List Nat), DependsOn Rest VR →
    (∀ b ∈ bags, DependsOn b.A b.V) → (∀ b ∈ bags, ∀ v ∈ b.P, v ∈ b.V) →
    bags.Pairwise (fun b c => ∀ v, v ∈ b.V → v ∈ c.V → v ∈ b.P ∧ v ∈ c.P) →
    (∀ b ∈ bags, ∀ v, v ∈ b.V → (v ∈ VR ∨ v ∈ Out) → v ∈ b.P) →
    ∀ τ, Answers Out (fun t => Rest t ∧ ∀ b ∈ bags, b.A t) τ ↔ Answers Out (fun t => Rest t ∧ ∀ b ∈ bags, proj b.P b.A t) τ := by
  intro bags
  induction bags with
  | nil =>
    intro Rest VR _ _ _ _ _ τ
    constructor
    · rintro ⟨t, ht, hr, _⟩; exact ⟨t, ht, hr, fun b hb => by simp at hb⟩
    · rintro ⟨t, ht, hr, _⟩; exact ⟨t, ht, hr, fun b hb => by simp at hb⟩
  | cons b bs ih =>
    intro Rest VR hR hdep hsub hpw hpub τ
    rw [List.pairwise_cons] at hpw
    -- variables of the other bags
    let VB := VR ++ bs.flatMap (·.V)
    have hBdep : DependsOn (fun t => Rest t ∧ ∀ c ∈ bs, c.A t) VB := by
      intro t t' h
      have h1 := hR t t' (fun v hv => h v (List.mem_append_left _ hv))
      have h2 : ∀ c ∈ bs, (c.A t ↔ c.A t') := fun c hc =>
        hdep c (List.mem_cons_of_mem _ hc) t t' (fun v hv => h v (List.mem_append_right _ (List.mem_flatMap.mpr ⟨c, hc, hv⟩)))
      constructor
      · rintro ⟨a, b'⟩; exact ⟨h1.mp a, fun c hc => (h2 c hc).mp (b' c hc)⟩
      · rintro ⟨a, b'⟩; exact ⟨h1.mpr a, fun c hc => (h2 c hc).mpr (b' c hc)⟩
    have hPb : ∀ v, v ∈ b.V → (v ∈ VB ∨ v ∈ Out) → v ∈ b.P := by
      intro v hv hor
      rcases hor with hvb | ho
      · rcases List.mem_append.mp hvb with h | h
        · exact hpub b List.mem_cons_self v hv (Or.inl h)
        · obtain ⟨c, hc, hvc⟩ := List.mem_flatMap.mp h
          exact (hpw.1 c hc v hv hvc).1
      · exact hpub b List.mem_cons_self v hv (Or.inr ho)
    -- step 1: replace `b`
    have step1 := C02_bag_projection b.A (fun t => Rest t ∧ ∀ c ∈ bs, c.A t) b.V VB Out b.P
      (hdep b List.mem_cons_self) hBdep hPb τ
    -- step 2: the remaining bags, with `Rest ∧ proj b` as the remainder
    have hR' : DependsOn (fun t => Rest t ∧ proj b.P b.A t) (VR ++ b.P) := by
      intro t t' h
      have h1 := hR t t' (fun v hv => h v (List.mem_append_left _ hv))
      have h2 := proj_dependsOn b.P b.A t t' (fun v hv => h v (List.mem_append_right _ hv))
      constructor
      · rintro ⟨a, c⟩; exact ⟨h1.mp a, h2.mp c⟩
      · rintro ⟨a, c⟩; exact ⟨h1.mpr a, h2.mpr c⟩
    have step2 := ih (fun t => Rest t ∧ proj b.P b.A t) (VR ++ b.P) hR'
      (fun c hc => hdep c (List.mem_cons_of_mem _ hc)) (fun c hc => hsub c (List.mem_cons_of_mem _ hc)) hpw.2
      (fun c hc v hv hor => by
        rcases hor with h | h
        · rcases List.mem_append.mp h with h' | h'
          · exact hpub c (List.mem_cons_of_mem _ hc) v hv (Or.inl h')
          · exact (hpw.1 c hc v (hsub b List.mem_cons_self v h') hv).2
        · exact hpub c (List.mem_cons_of_mem _ hc) v hv (Or.inr h)) τ
    -- assemble
    have e1 : Answers Out (fun t => Rest t ∧ ∀ c ∈ b :: bs, c.A t) τ ↔
        Answers Out (fun t => b.A t ∧ (Rest t ∧ ∀ c ∈ bs, c.A t)) τ := by
      constructor
      · rintro ⟨t, ht, hr, hall⟩
        exact ⟨t, ht, hall b List.mem_cons_self, hr, fun c hc => hall c (List.mem_cons_of_mem _ hc)⟩
      · rintro ⟨t, ht, hb, hr, hall⟩
        exact ⟨t, ht, hr, fun c hc => by
          simp only [List.mem_cons] at hc
          rcases hc with rfl | hc
          · exact hb
          · exact hall c hc⟩
    have e2 : Answers Out (fun t => proj b.P b.A t ∧ (Rest t ∧ ∀ c ∈ bs, c.A t)) τ ↔
        Answers Out (fun t => (Rest t ∧ proj b.P b.A t) ∧ ∀ c ∈ bs, c.A t) τ := by
      constructor
      · rintro ⟨t, ht, hp, hr, hall⟩; exact ⟨t, ht, ⟨hr, hp⟩, hall⟩
      · rintro ⟨t, ht, ⟨hr, hp⟩, hall⟩; exact ⟨t, ht, hp, hr, hall⟩
    have e3 : Answers Out (fun t => (Rest t ∧ proj b.P b.A t) ∧ ∀ c ∈ bs, proj c.P c.A t) τ ↔
        Answers Out (fun t => Rest t ∧ ∀ c ∈ b :: bs, proj c.P c.A t) τ := by
      constructor
      · rintro ⟨t, ht, ⟨hr, hp⟩, hall⟩
        exact ⟨t, ht, hr, fun c hc => by
          simp only [List.mem_cons] at hc
          rcases hc with rfl | hc
          · exact hp
          · exact hall c hc⟩
      · rintro ⟨t, ht, hr, hall⟩
        exact ⟨t, ht, ⟨hr, hall b List.mem_cons_self⟩, fun c hc => hall c (List.mem_cons_of_mem _ hc)⟩
    exact e1.trans (step1.trans (e2.trans (step2.trans e3)))

end EgglogVerif.GJ
