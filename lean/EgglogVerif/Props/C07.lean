import EgglogVerif.Model.Extract
/-
C07 — Extraction returns a member of the class, at the minimum cost (cost computation).

`Reach edges c k` : "class `c` has a finite term built from non-subsumed extractable rows whose
tree cost (saturating) is `k`".  The theorems say that at the Bellman-Ford fixpoint the recorded
cost of every class is the MINIMUM of those `k`, and is absent exactly when no such term exists —
for every set of rows (cyclic classes, zero costs, ties, saturation included).
-/
namespace EgglogVerif.Extract

/-- derivations of (class, tree cost) pairs; premises are index-wise to avoid a nested inductive -/
inductive Reach (edges : List Edge) : Nat → Nat → Prop
  | mk (e : Edge) (cs : List Nat) : e ∈ edges → e.sub = false → cs.length = e.children.length →
      (∀ i (h1 : i < e.children.length) (h2 : i < cs.length), Reach edges e.children[i] cs[i]) →
      Reach edges e.target (satSum e.head cs)

/-- pointwise ≤ on cost lists of equal length -/
def LE : List Nat → List Nat → Prop
  | [], [] => True
  | a :: as, b :: bs => a ≤ b ∧ LE as bs
  | _, _ => False

theorem satAdd_mono {a a' b b' : Nat} (h1 : a ≤ a') (h2 : b ≤ b') : satAdd a b ≤ satAdd a' b' := by
  unfold satAdd; omega

theorem satSum_mono : ∀ (cs cs' : List Nat) (h h' : Nat), LE cs cs' → h ≤ h' → satSum h cs ≤ satSum h' cs' := by
  intro cs
  induction cs with
  | nil => intro cs' h h' hle hh; cases cs' with
    | nil => simpa [satSum] using hh
    | cons _ _ => exact absurd hle (by simp [LE])
  | cons a as ih =>
    intro cs' h h' hle hh
    cases cs' with
    | nil => exact absurd hle (by simp [LE])
    | cons b bs =>
      simp only [LE] at hle
      simp only [satSum, List.foldl_cons]
      exact ih bs _ _ hle.2 (satAdd_mono hh hle.1)

theorem lookupAll_spec (costs : Costs) : ∀ (l cs : List Nat), lookupAll costs l = some cs →
    cs.length = l.length ∧ ∀ i (h1 : i < l.length) (h2 : i < cs.length), costs l[i] = some cs[i] := by
  intro l
  induction l with
  | nil => intro cs h; simp [lookupAll] at h; subst h; exact ⟨rfl, fun i h1 _ => absurd h1 (by simp)⟩
  | cons c l ih =>
    intro cs h
    simp only [lookupAll] at h
    cases hc : costs c with
    | none => rw [hc] at h; cases h
    | some k =>
      cases hl : lookupAll costs l with
      | none => rw [hc, hl] at h; cases h
      | some ks =>
        rw [hc, hl] at h
        cases h
        obtain ⟨hlen, hget⟩ := ih ks hl
        refine ⟨by simp [hlen], fun i h1 h2 => ?_⟩
        cases i with
        | zero => simpa using hc
        | succ i => simpa using hget i (by simpa using h1) (by simpa using h2)

/-- from index-wise bounds on every child build the looked-up cost list -/
theorem lookupAll_of_bounds (costs : Costs) : ∀ (l cs : List Nat), cs.length = l.length →
    (∀ i (h1 : i < l.length) (h2 : i < cs.length), ∃ k', costs l[i] = some k' ∧ k' ≤ cs[i]) →
    ∃ cs', lookupAll costs l = some cs' ∧ LE cs' cs := by
  intro l
  induction l with
  | nil => intro cs hlen _; cases cs with
    | nil => exact ⟨[], rfl, trivial⟩
    | cons _ _ => simp at hlen
  | cons c l ih =>
    intro cs hlen hb
    cases cs with
    | nil => simp at hlen
    | cons k ks =>
      obtain ⟨k', hk', hle⟩ := hb 0 (by simp) (by simp)
      obtain ⟨cs', hcs', hle'⟩ := ih ks (by simpa using hlen) (fun i h1 h2 => by
        have := hb (i + 1) (by simpa using h1) (by simpa using h2)
        simpa using this)
      refine ⟨k' :: cs', ?_, ⟨by simpa using hle, hle'⟩⟩
      simp only [lookupAll]
      simp only [List.getElem_cons_zero] at hk'
      rw [hk', hcs']

/-- every recorded cost is the tree cost of a real term of that class -/
def Sound (edges : List Edge) (costs : Costs) : Prop := ∀ c k, costs c = some k → Reach edges c k

/-- no row can improve any class -/
def Stable (edges : List Edge) (costs : Costs) : Prop :=
  ∀ e ∈ edges, e.sub = false → ∀ cs, lookupAll costs e.children = some cs →
    ∃ k, costs e.target = some k ∧ k ≤ satSum e.head cs

theorem relax_sound {edges : List Edge} {costs : Costs} (hs : Sound edges costs) {e : Edge} (he : e ∈ edges) :
    Sound edges (relax costs e).1 := by
  unfold relax
  by_cases hsub : e.sub = true
  · simp [hsub]; exact hs
  · have hsub' : e.sub = false := by simpa using hsub
    simp only [hsub', Bool.false_eq_true, if_false]
    unfold edgeCost
    cases hl : lookupAll costs e.children with
    | none => simpa using hs
    | some cs =>
      obtain ⟨hlen, hget⟩ := lookupAll_spec costs _ _ hl
      have hreach : Reach edges e.target (satSum e.head cs) :=
        Reach.mk e cs he hsub' hlen (fun i h1 h2 => hs _ _ (hget i h1 h2))
      simp only [Option.map_some]
      have upd : Sound edges (fun c => if c = e.target then some (satSum e.head cs) else costs c) := by
        intro c k hk
        by_cases hc : c = e.target
        · simp only [hc, if_true, Option.some.injEq] at hk; subst hk; rw [hc]; exact hreach
        · simp only [hc, if_false] at hk; exact hs c k hk
      cases ht : costs e.target with
      | none => simpa using upd
      | some old =>
        simp only
        split
        · exact upd
        · exact hs

theorem relax_false {costs : Costs} {e : Edge} (h : (relax costs e).2 = false) :
    (relax costs e).1 = costs ∧ (e.sub = false → ∀ cs, lookupAll costs e.children = some cs →
      ∃ k, costs e.target = some k ∧ k ≤ satSum e.head cs) := by
  unfold relax at h ⊢
  by_cases hsub : e.sub = true
  · simp [hsub]
  · have hsub' : e.sub = false := by simpa using hsub
    simp only [hsub', Bool.false_eq_true, if_false] at h ⊢
    unfold edgeCost at h ⊢
    cases hl : lookupAll costs e.children with
    | none => simp
    | some cs =>
      simp only [hl, Option.map_some] at h ⊢
      cases ht : costs e.target with
      | none => rw [ht] at h; simp at h
      | some old =>
        rw [ht] at h
        simp only at h ⊢
        by_cases hlt : satSum e.head cs < old
        · rw [if_pos hlt] at h; simp at h
        · rw [if_neg hlt]
          refine ⟨rfl, fun _ cs' hcs' => ?_⟩
          cases hcs'
          exact ⟨old, rfl, Nat.le_of_not_lt hlt⟩

theorem pass_fold_false : ∀ (edges : List Edge) (costs : Costs) (b : Bool),
    (edges.foldl (fun (acc : Costs × Bool) e => let r := relax acc.1 e; (r.1, acc.2 || r.2)) (costs, b)).2 = false →
    b = false ∧
    (edges.foldl (fun (acc : Costs × Bool) e => let r := relax acc.1 e; (r.1, acc.2 || r.2)) (costs, b)).1 = costs ∧
    ∀ e ∈ edges, e.sub = false → ∀ cs, lookupAll costs e.children = some cs →
      ∃ k, costs e.target = some k ∧ k ≤ satSum e.head cs := by
  intro edges
  induction edges with
  | nil => intro costs b h; exact ⟨h, rfl, fun e he => absurd he (by simp)⟩
  | cons e edges ih =>
    intro costs b h
    simp only [List.foldl_cons] at h ⊢
    obtain ⟨hb, hc, hall⟩ := ih _ _ h
    simp only [Bool.or_eq_false_iff] at hb
    obtain ⟨hsame, hcond⟩ := relax_false hb.2
    refine ⟨hb.1, by rw [hc, hsame], fun e' he' => ?_⟩
    rcases List.mem_cons.mp he' with rfl | he''
    · exact hcond
    · rw [hsame] at hall; exact hall e' he''

theorem pass_sound : ∀ (edges all : List Edge) (costs : Costs) (b : Bool), (∀ e ∈ edges, e ∈ all) → Sound all costs →
    Sound all (edges.foldl (fun (acc : Costs × Bool) e => let r := relax acc.1 e; (r.1, acc.2 || r.2)) (costs, b)).1 := by
  intro edges
  induction edges with
  | nil => intro all costs b _ hs; exact hs
  | cons e edges ih =>
    intro all costs b hsub hs
    simp only [List.foldl_cons]
    exact ih all _ _ (fun e' he' => hsub e' (List.mem_cons_of_mem _ he')) (relax_sound hs (hsub e (List.mem_cons_self)))

theorem bf_spec (edges : List Edge) : ∀ (fuel : Nat) (costs : Costs), Sound edges costs →
    Sound edges (bellmanFord edges fuel costs).1 ∧
      ((bellmanFord edges fuel costs).2 = true → Stable edges (bellmanFord edges fuel costs).1) := by
  intro fuel
  induction fuel with
  | zero => intro costs hs; exact ⟨hs, fun h => by simp [bellmanFord] at h⟩
  | succ fuel ih =>
    intro costs hs
    simp only [bellmanFord]
    have hps : Sound edges (pass edges costs).1 := pass_sound edges edges costs false (fun _ h => h) hs
    by_cases hch : (pass edges costs).2 = true
    · rw [if_pos hch]; exact ih _ hps
    · rw [if_neg hch]
      refine ⟨hps, fun _ => ?_⟩
      have hf : (pass edges costs).2 = false := by simpa using hch
      obtain ⟨_, hsame, hall⟩ := pass_fold_false edges costs false hf
      show Stable edges (pass edges costs).1
      unfold pass; rw [hsame]; exact hall

/-- at a stable cost map every derivable (class, cost) pair is dominated by the recorded cost -/
theorem stable_le {edges : List Edge} {costs : Costs} (hst : Stable edges costs) {c k : Nat}
    (h : Reach edges c k) : ∃ k', costs c = some k' ∧ k' ≤ k := by
  induction h with
  | mk e cs he hsub hlen _ ih =>
    obtain ⟨cs', hcs', hle⟩ := lookupAll_of_bounds costs e.children cs hlen ih
    obtain ⟨k', hk', hle'⟩ := hst e he hsub cs' hcs'
    exact ⟨k', hk', Nat.le_trans hle' (satSum_mono _ _ _ _ hle (Nat.le_refl _))⟩

/-! ## Property theorems -/

/-- **Every recorded cost is real**: it is the tree cost of some finite term of that class built
from non-subsumed rows (whatever the fuel). -/
theorem C07_sound (edges : List Edge) (fuel c k : Nat)
    (h : (bellmanFord edges fuel noCosts).1 c = some k) : Reach edges c k :=
  (bf_spec edges fuel noCosts (fun _ _ h => by simp [noCosts] at h)).1 c k h

/-- **and minimal**: at the fixpoint no term of the class is cheaper. -/
theorem C07_optimal (edges : List Edge) (fuel c k : Nat)
    (hfix : (bellmanFord edges fuel noCosts).2 = true) (h : Reach edges c k) :
    ∃ k', (bellmanFord edges fuel noCosts).1 c = some k' ∧ k' ≤ k :=
  stable_le ((bf_spec edges fuel noCosts (fun _ _ h => by simp [noCosts] at h)).2 hfix) h

/-- the recorded cost is exactly the minimum tree cost over the terms of the class -/
theorem C07_min (edges : List Edge) (fuel c k' : Nat)
    (hfix : (bellmanFord edges fuel noCosts).2 = true)
    (hk : (bellmanFord edges fuel noCosts).1 c = some k') :
    Reach edges c k' ∧ ∀ k, Reach edges c k → k' ≤ k := by
  refine ⟨C07_sound edges fuel c k' hk, fun k hr => ?_⟩
  obtain ⟨k'', h1, h2⟩ := C07_optimal edges fuel c k hfix hr
  rw [hk] at h1; cases h1; exact h2

/-- **Extraction fails only when the class has no term at all** (under the same restrictions). -/
theorem C07_fail (edges : List Edge) (fuel c : Nat)
    (hfix : (bellmanFord edges fuel noCosts).2 = true) :
    (bellmanFord edges fuel noCosts).1 c = none ↔ ¬ ∃ k, Reach edges c k := by
  constructor
  · rintro hn ⟨k, hr⟩
    obtain ⟨k', h1, _⟩ := C07_optimal edges fuel c k hfix hr
    rw [hn] at h1; cases h1
  · intro hno
    cases hc : (bellmanFord edges fuel noCosts).1 c with
    | none => rfl
    | some k => exact absurd ⟨k, C07_sound edges fuel c k hc⟩ hno

/-- subsumed rows never contribute: a derivation never uses one (by definition of `Reach`), and
`relax` ignores them -/
theorem C07_subsumed_ignored (costs : Costs) (e : Edge) (h : e.sub = true) : relax costs e = (costs, false) := by
  simp [relax, h]

/-- non-vacuity: a cyclic class with a zero-cost edge and a tie, costs near saturation -/
example :
    let edges : List Edge := [⟨1, [], 0, false⟩, ⟨0, [0], 0, false⟩, ⟨cap, [0], 1, false⟩, ⟨5, [1, 1], 1, false⟩,
      ⟨0, [], 2, true⟩]
    let r := bellmanFord edges 10 noCosts
    r.2 = true ∧ r.1 0 = some 1 ∧ r.1 1 = some cap ∧ r.1 2 = none := by decide

end EgglogVerif.Extract
