import EgglogVerif.Model.Sexp
/-
C15 — Printing and re-parsing is the identity (lexical core).

* `C15_string`: EVERY string (all code points: quotes, backslashes, newlines, tabs, unicode) printed by
  the `Literal::String` printer lexes back to itself, whatever follows.
* `C15_tree`: EVERY s-expression tree, flattened to tokens, is read back as the same tree.
* `C15_escape_needed`: the un-escaped printing of the pinned commit (defect 5) does not round-trip.
-/
namespace EgglogVerif.Sexp

theorem lexString_escape (s rest acc : List Char) :
    lexString (escape s ++ '"' :: rest) false acc = some (acc.reverse ++ s, rest) := by
  induction s generalizing acc with
  | nil => simp [escape, lexString]
  | cons c cs ih =>
    simp only [escape]
    split
    · subst_vars
      simp [lexString, ih]
    · split
      · subst_vars
        simp [lexString, ih]
      · rename_i h1 h2
        simp [lexString, h1, h2, ih]

/-- **String literals round-trip**, for every string and every continuation of the input. -/
theorem C15_string (s rest : List Char) :
    lexString (escape s ++ '"' :: rest) false [] = some (s, rest) := by
  simpa using lexString_escape s rest []

/-- at the token level: a printed string literal is lexed as one `str` token carrying the
original string, and lexing continues right after the closing quote -/
theorem C15_string_token (fuel : Nat) (s rest : List Char) :
    lexAll (fuel + 1) (printString s ++ rest) = (lexAll fuel rest).map (Tok.str s :: ·) := by
  have hq : skipWs ('"' :: (escape s ++ '"' :: rest)) false = '"' :: (escape s ++ '"' :: rest) := by
    simp [skipWs, isWs]
  simp only [printString, lexAll, nextTok, List.cons_append, List.append_assoc, List.nil_append, hq]
  simp [C15_string]

/-- the printing of the pinned commit (`write!(f, "(panic \"{msg}\")")`, no escaping) loses a
message that contains a quote: defect 5, by witness -/
theorem C15_escape_needed :
    lexString ("a\"b".toList ++ '"' :: []) false [] ≠ some ("a\"b".toList, []) := by decide

mutual
theorem parse_flatten_sx : ∀ (e : Sx) (rest : List Tok) (fuel : Nat), e.size ≤ fuel →
    parseSx fuel false (e.flatten ++ rest) = some (.inl e, rest)
  | .str s, rest, fuel, h => by
    cases fuel with
    | zero => simp [Sx.size] at h
    | succ f => simp [Sx.flatten, parseSx]
  | .other s, rest, fuel, h => by
    cases fuel with
    | zero => simp [Sx.size] at h
    | succ f => simp [Sx.flatten, parseSx]
  | .list l, rest, fuel, h => by
    cases fuel with
    | zero => simp [Sx.size] at h
    | succ f =>
      simp only [Sx.size] at h
      have := parse_flatten_sxl l rest f (by omega)
      simp [Sx.flatten, parseSx, List.append_assoc, this]
theorem parse_flatten_sxl : ∀ (l : SxL) (rest : List Tok) (fuel : Nat), l.size ≤ fuel →
    parseSx fuel true (l.flatten ++ Tok.close :: rest) = some (.inr l, rest)
  | .nil, rest, fuel, h => by
    cases fuel with
    | zero => simp [SxL.size] at h
    | succ f => simp [SxL.flatten, parseSx]
  | .cons hd tl, rest, fuel, h => by
    cases fuel with
    | zero => simp [SxL.size] at h
    | succ f =>
      simp only [SxL.size] at h
      have h1 := parse_flatten_sx hd (tl.flatten ++ Tok.close :: rest) f (by omega)
      have h2 := parse_flatten_sxl tl rest f (by omega)
      cases hd with
      | str s =>
        simp only [SxL.flatten, Sx.flatten, List.cons_append, List.nil_append, List.append_assoc] at h1 ⊢
        simp [parseSx, h1, h2]
      | other s =>
        simp only [SxL.flatten, Sx.flatten, List.cons_append, List.nil_append, List.append_assoc] at h1 ⊢
        simp [parseSx, h1, h2]
      | list l' =>
        simp only [SxL.flatten, Sx.flatten, List.cons_append, List.nil_append, List.append_assoc] at h1 ⊢
        simp [parseSx, h1, h2]
end

/-- **Every tree reads back as itself** from its token stream (any nesting, any width), and the
reader stops exactly at the end of the expression. -/
theorem C15_tree (e : Sx) (rest : List Tok) :
    parseSx e.size false (e.flatten ++ rest) = some (.inl e, rest) :=
  parse_flatten_sx e rest e.size (Nat.le_refl _)

/-- non-vacuity / end-to-end example through the character-level lexer -/
example :
    (lexAll 50 "(rule ((P x)) ((panic \"say \\\"hi\\\" \\\\ there\"))) ; c".toList).bind
      (fun toks => (parseSx 50 false toks).map (·.2)) = some [] := by decide

end EgglogVerif.Sexp
