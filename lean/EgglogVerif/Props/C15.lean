import EgglogVerif.Model.Sexp
/-
C15 — Printing and re-parsing is the identity (lexical core).

* `C15_string`: EVERY string (all code points: quotes, backslashes, newlines, tabs, unicode) printed by
  the `Literal::String` printer lexes back to itself, whatever follows.
* `C15_tree`: EVERY s-expression tree, flattened to tokens, is read back as the same tree.
* `C15_escape_needed`: the un-escaped printing of the pinned commit (defect 5) does not round-trip.
-/
namespace EgglogVerif.Sexp

theorem lexString_escape (s rest acc : List Char) :
    lexString (escape s ++ '"' :: rest) false acc = some (acc.reverse ++ s, rest) := by
  induction s generalizing acc with
  | nil => simp [escape, lexString]
  | cons c cs ih =>
    simp only [escape]
    split
    · subst_vars
      simp [lexString, ih]
    · split
      · subst_vars
        simp [lexString, ih]
      · rename_i h1 h2
        simp [lexString, h1, h2, ih]

/-- **String literals round-trip**, for every string and every continuation of the input. -/
theorem C15_string (s rest : List Char) :
    lexString (escape s ++ '"' :: rest) false [] = some (s, rest) := by
  simpa using lexString_escape s rest []

/-- at the token level: a printed string literal is lexed as one `str` token carrying the
original string, and lexing continues right after the closing quote -/
theorem C15_string_token (fuel : Nat) (s rest : List Char) :
    lexAll (fuel + 1) (printString s ++ rest) = (lexAll fuel rest).map (Tok.str s :: ·) := by
  have hq : skipWs ('"' :: (escape s ++ '"' :: rest)) false = '"' :: (escape s ++ '"' :: rest) := by
    simp [skipWs, isWs]
  simp only [printString, lexAll, nextTok, List.cons_append, List.append_assoc, List.nil_append, hq]
  simp [C15_string]

/-- the printing of the pinned commit (`write!(f, "(panic \"{msg}\")")`, no escaping) loses a
message that contains a quote: defect 5, by witness -/
theorem C15_escape_needed :
    lexString ("a\"b".toList ++ '"' :: []) false [] ≠ some ("a\"b".toList, []) := by decide

mutual
theorem parse_flatten_sx : ∀ (e : Sx) (rest : List Tok) (fuel : Nat), e.size ≤ fuel →
    parseSx fuel false (e.flatten ++ rest) = some (.inl e, rest)
  | .str s, rest, fuel, h => by
    cases fuel with
    | zero => simp [Sx.size] at h
    | succ f => simp [Sx.flatten, parseSx]
  | .other s, rest, fuel, h => by
    cases fuel with
    | zero => simp [Sx.size] at h
    | succ f => simp [Sx.flatten, parseSx]
  | .list l, rest, fuel, h => by
    cases fuel with
    | zero => simp [Sx.size] at h
    | succ f =>
      simp only [Sx.size] at h
      have := parse_flatten_sxl l rest f (by omega)
      simp [Sx.flatten, parseSx, List.append_assoc, this]
theorem parse_flatten_sxl : ∀ (l : SxL) (rest : List Tok) (fuel : Nat), l.size ≤ fuel →
    parseSx fuel true (l.flatten ++ Tok.close :: rest) = some (.inr l, rest)
  | .nil, rest, fuel, h => by
    cases fuel with
    | zero => simp [SxL.size] at h
    | succ f => simp [SxL.flatten, parseSx]
  | .cons hd tl, rest, fuel, h => by
    cases fuel with
    | zero => simp [SxL.size] at h
    | succ f =>
      simp only [SxL.size] at h
      have h1 := parse_flatten_sx hd (tl.flatten ++ Tok.close :: rest) f (by omega)
      have h2 := parse_flatten_sxl tl rest f (by omega)
      cases hd with
      | str s =>
        simp only [SxL.flatten, Sx.flatten, List.cons_append, List.nil_append, List.append_assoc] at h1 ⊢
        simp [parseSx, h1, h2]
      | other s =>
        simp only [SxL.flatten, Sx.flatten, List.cons_append, List.nil_append, List.append_assoc] at h1 ⊢
        simp [parseSx, h1, h2]
      | list l' =>
        simp only [SxL.flatten, Sx.flatten, List.cons_append, List.nil_append, List.append_assoc] at h1 ⊢
        simp [parseSx, h1, h2]
end

/-- **Every tree reads back as itself** from its token stream (any nesting, any width), and the
reader stops exactly at the end of the expression. -/
theorem C15_tree (e : Sx) (rest : List Tok) :
    parseSx e.size false (e.flatten ++ rest) = some (.inl e, rest) :=
  parse_flatten_sx e rest e.size (Nat.le_refl _)

/-- non-vacuity / end-to-end example through the character-level lexer -/
example :
    (lexAll 50 "(rule ((P x)) ((panic \"say \\\"hi\\\" \\\\ there\"))) ; c".toList).bind
      (fun toks => (parseSx 50 false toks).map (·.2)) = some [] := by decide

/-! ### text level: printed token streams lex back to themselves -/

/-- characters that end an atom -/
def isDelim (c : Char) : Bool := isWs c || c = ';' || c = '(' || c = ')'

/-- an atom (symbol, number, keyword …) as the printer emits it: non-empty, no delimiter inside,
not starting with a double quote -/
def SafeAtom (s : List Char) : Prop := s ≠ [] ∧ s.head? ≠ some '"' ∧ ∀ c ∈ s, isDelim c = false

def renderTok : Tok → List Char
  | .open => ['(']
  | .close => [')']
  | .str s => printString s
  | .other s => s

/-- the printer's output shape: tokens separated by single spaces -/
def renderToks : List Tok → List Char
  | [] => []
  | t :: ts => renderTok t ++ ' ' :: renderToks ts

def SafeTok : Tok → Prop
  | .other s => SafeAtom s
  | _ => True

theorem lexOther_safe : ∀ (s acc rest : List Char), (∀ c ∈ s, isDelim c = false) →
    lexOther (s ++ ' ' :: rest) acc = (acc.reverse ++ s, ' ' :: rest) := by
  intro s
  induction s with
  | nil =>
    intro acc rest _
    have : isWs ' ' = true := by decide
    simp [lexOther, this]
  | cons c cs ih =>
    intro acc rest h
    have hc := h c List.mem_cons_self
    unfold isDelim at hc
    simp only [Bool.or_eq_false_iff, decide_eq_false_iff_not] at hc
    obtain ⟨⟨⟨h1, h2⟩, h3⟩, h4⟩ := hc
    simp only [List.cons_append, lexOther, h1, h2, h3, h4, Bool.false_eq_true, decide_false, Bool.or_self, if_false]
    rw [ih (c :: acc) rest (fun x hx => h x (List.mem_cons_of_mem _ hx))]
    simp

theorem skipWs_space (cs : List Char) : skipWs (' ' :: cs) false = skipWs cs false := by
  have h1 : (' ' : Char) ≠ ';' := by decide
  have h2 : (' ' : Char) ≠ '\n' := by decide
  have h3 : isWs ' ' = true := by decide
  simp [skipWs, h1, h2, h3]

theorem skipWs_nondelim {c : Char} (cs : List Char) (h : isDelim c = false) : skipWs (c :: cs) false = c :: cs := by
  unfold isDelim at h
  simp only [Bool.or_eq_false_iff, decide_eq_false_iff_not] at h
  obtain ⟨⟨⟨h1, h2⟩, _⟩, _⟩ := h
  have hnl : c ≠ '\n' := by
    intro e; subst e
    exact absurd h1 (by decide)
  simp [skipWs, h2, hnl, h1]

/-- one printed token followed by a space lexes to that token, and lexing resumes at the space -/
theorem nextTok_render (t : Tok) (rest : List Char) (h : SafeTok t) :
    nextTok (renderTok t ++ ' ' :: rest) = some (some (t, ' ' :: rest)) := by
  cases t with
  | «open» =>
    have : skipWs ('(' :: ' ' :: rest) false = '(' :: ' ' :: rest := by simp [skipWs, isWs]
    simp [renderTok, nextTok, this]
  | close =>
    have : skipWs (')' :: ' ' :: rest) false = ')' :: ' ' :: rest := by simp [skipWs, isWs]
    simp [renderTok, nextTok, this]
  | str s =>
    have hq : skipWs ('"' :: (escape s ++ '"' :: ' ' :: rest)) false = '"' :: (escape s ++ '"' :: ' ' :: rest) := by
      simp [skipWs, isWs]
    simp only [renderTok, printString, nextTok, List.cons_append, List.append_assoc, List.nil_append, hq]
    simp [C15_string]
  | other s =>
    obtain ⟨hne, hq, hall⟩ := h
    cases s with
    | nil => exact absurd rfl hne
    | cons c cs =>
      have hc := hall c List.mem_cons_self
      have hcq : c ≠ '"' := by intro e; apply hq; simp [e]
      have hd := hc
      unfold isDelim at hd
      simp only [Bool.or_eq_false_iff, decide_eq_false_iff_not] at hd
      obtain ⟨⟨⟨_, _⟩, ho⟩, hcl⟩ := hd
      simp only [renderTok, List.cons_append, nextTok, skipWs_nondelim _ hc, ho, hcl, hcq, if_false]
      rw [lexOther_safe cs [c] rest (fun x hx => hall x (List.mem_cons_of_mem _ hx))]
      simp

theorem lexAll_succ (fuel : Nat) (cs : List Char) : lexAll (fuel + 1) cs =
    match nextTok cs with
    | none => none
    | some none => some []
    | some (some (t, rest)) => (lexAll fuel rest).map (t :: ·) := rfl

/-- **Printed token streams lex back to themselves**: for every sequence of tokens — parentheses,
string literals with ANY content, atoms without delimiters — the text the printer emits (tokens
separated by spaces) is lexed to exactly that sequence.  With `C15_tree` this is the text-level
round trip of every s-expression. -/
theorem C15_text : ∀ (toks : List Tok), (∀ t ∈ toks, SafeTok t) →
    lexAll (toks.length + 1) (renderToks toks) = some toks := by
  intro toks
  have key : ∀ (toks : List Tok), (∀ t ∈ toks, SafeTok t) → ∀ (pre : List Char), (∀ c ∈ pre, c = ' ') →
      lexAll (toks.length + 1) (pre ++ renderToks toks) = some toks := by
    intro toks
    induction toks with
    | nil =>
      intro _ pre hpre
      have : skipWs (pre ++ []) false = [] := by
        induction pre with
        | nil => rfl
        | cons c cs ih =>
          have hc : c = ' ' := hpre c List.mem_cons_self
          subst hc
          rw [List.cons_append, skipWs_space]
          exact ih (fun x hx => hpre x (List.mem_cons_of_mem _ hx))
      simp only [renderToks, List.length_nil]
      rw [lexAll_succ]
      simp only [nextTok, this]
    | cons t ts ih =>
      intro hs pre hpre
      have hskip : ∀ (pre : List Char), (∀ c ∈ pre, c = ' ') → ∀ (body : List Char),
          nextTok (pre ++ body) = nextTok body := by
        intro pre
        induction pre with
        | nil => intro _ body; rfl
        | cons c cs ihp =>
          intro hp body
          have hc : c = ' ' := hp c List.mem_cons_self
          subst hc
          have := ihp (fun x hx => hp x (List.mem_cons_of_mem _ hx)) body
          unfold nextTok at this ⊢
          rw [List.cons_append, skipWs_space]
          exact this
      simp only [renderToks, List.length_cons]
      rw [lexAll_succ, hskip pre hpre, nextTok_render t _ (hs t List.mem_cons_self)]
      simp only
      have := ih (fun x hx => hs x (List.mem_cons_of_mem _ hx)) [' '] (by simp)
      simp only [List.cons_append, List.nil_append] at this
      rw [this]; rfl
  intro hs
  simpa using key toks hs [] (by simp)

/-- non-vacuity: `(set (f "a\"b") -3)` -/
example : lexAll 9 (renderToks [.open, .other "set".toList, .open, .other "f".toList, .str "a\"b".toList, .close,
    .other "-3".toList, .close]) = some [.open, .other "set".toList, .open, .other "f".toList, .str "a\"b".toList, .close,
    .other "-3".toList, .close] := by decide

end EgglogVerif.Sexp
