import EgglogVerif.Model.EGraph
/-
C13 — Subsumed rows stop matching, forever; deleted rows are gone (model level).
-/
namespace EgglogVerif.EGraph

/-- merging two rows for one key keeps the subsumed status of either: **subsumption is sticky**
under re-insertion of the same tuple and under the merge of a subsumed row with a congruent
non-subsumed one, in either order, for every merge behaviour. -/
theorem C13_sticky (g : EG) (d : Decl) (cur new : Row) :
    (mergeRows g d cur new).2.sub = (cur.sub || new.sub) := by
  unfold mergeRows
  cases d.merge <;> simp <;> split <;> rfl

/-- canonicalising a row (what every rebuild pass does) never touches the flag -/
theorem C13_rebuild_keeps_flag (g : EG) (d : Decl) (r : Row) : (g.canonRow d r).sub = r.sub := rfl

/-- inserting into a table never clears the flag of a row already there -/
theorem C13_insert_keeps_subsumed (g : EG) (d : Decl) : ∀ (rows : List Row) (r : Row) (k : List Int),
    (∃ x ∈ rows, x.args = k ∧ x.sub = true) → ∃ x ∈ (insertInto g d rows r).2, x.args = k ∧ x.sub = true := by
  intro rows
  induction rows generalizing g with
  | nil => intro r k h; obtain ⟨x, hx, _⟩ := h; cases hx
  | cons y ys ih =>
    intro r k h
    obtain ⟨x, hx, hk, hs⟩ := h
    simp only [insertInto]
    split
    · rename_i hyr
      rcases List.mem_cons.mp hx with rfl | hx'
      · refine ⟨(mergeRows g d x r).2, List.mem_cons_self, ?_, ?_⟩
        · have : (mergeRows g d x r).2.args = x.args := by
            unfold mergeRows
            cases d.merge <;> simp <;> split <;> rfl
          rw [this, hk]
        · rw [C13_sticky, hs]; rfl
      · exact ⟨x, List.mem_cons_of_mem _ hx', hk, hs⟩
    · rcases List.mem_cons.mp hx with rfl | hx'
      · exact ⟨x, List.mem_cons_self, hk, hs⟩
      · obtain ⟨z, hz, hzk, hzs⟩ := ih g r k ⟨x, hx', hk, hs⟩
        exact ⟨z, List.mem_cons_of_mem _ hz, hzk, hzs⟩

/-- **A subsumed row is never matched by a rule** (`include_subsumed = false`), while `check`
(`include_subsumed = true`) still sees it. -/
theorem C13_nomatch (g : EG) (s : Subst) (f : Nat) (args : List Tm) (out : Tm) (s' : Subst)
    (h : s' ∈ matchAtom g false s (.tbl f args out)) :
    ∃ r ∈ g.table f, r.sub = false ∧ (unifyAll s args r.args).bind (fun s1 => unify s1 out r.out) = some s' := by
  simp only [matchAtom, List.mem_filterMap] at h
  obtain ⟨r, hr, hm⟩ := h
  by_cases hs : r.sub = true
  · simp [hs] at hm
  · have hs' : r.sub = false := by simpa using hs
    simp only [hs', Bool.false_and, Bool.false_eq_true, if_false] at hm
    exact ⟨r, hr, hs', hm⟩

theorem C13_check_sees (g : EG) (s : Subst) (f : Nat) (args : List Tm) (out : Tm) (r : Row)
    (hr : r ∈ g.table f) (s' : Subst)
    (hm : (unifyAll s args r.args).bind (fun s1 => unify s1 out r.out) = some s') :
    s' ∈ matchAtom g true s (.tbl f args out) := by
  simp only [matchAtom, List.mem_filterMap]
  exact ⟨r, hr, by simp [hm]⟩

/-- **Delete removes exactly the addressed key and leaves every other row as it was.** -/
theorem C13_delete_local (rows : List Row) (k : List Int) (r : Row) :
    r ∈ rows.filter (·.args != k) ↔ r ∈ rows ∧ r.args ≠ k := by
  simp [List.mem_filter]

end EgglogVerif.EGraph
