import EgglogVerif.Lemmas.EGraphSub
import EgglogVerif.Lemmas.EGraphFix
import EgglogVerif.Props.C01
/-
C13 — Subsumed rows stop matching, forever; deleted rows are gone (model level).
-/
namespace EgglogVerif.EGraph

/-- merging two rows for one key keeps the subsumed status of either: **subsumption is sticky**
under re-insertion of the same tuple and under the merge of a subsumed row with a congruent
non-subsumed one, in either order, for every merge behaviour. -/
theorem C13_sticky (g : EG) (d : Decl) (cur new : Row) :
    (mergeRows g d cur new).2.sub = (cur.sub || new.sub) := mergeRows_sub g d cur new

/-- canonicalising a row (what every rebuild pass does) never touches the flag -/
theorem C13_rebuild_keeps_flag (g : EG) (d : Decl) (r : Row) : (g.canonRow d r).sub = r.sub := rfl

/-- inserting into a table never clears the flag of a row already there -/
theorem C13_insert_keeps_subsumed (g : EG) (d : Decl) : ∀ (rows : List Row) (r : Row) (k : List Int),
    (∃ x ∈ rows, x.args = k ∧ x.sub = true) → ∃ x ∈ (insertInto g d rows r).2, x.args = k ∧ x.sub = true := by
  intro rows
  induction rows generalizing g with
  | nil => intro r k h; obtain ⟨x, hx, _⟩ := h; cases hx
  | cons y ys ih =>
    intro r k h
    obtain ⟨x, hx, hk, hs⟩ := h
    simp only [insertInto]
    split
    · rename_i hyr
      rcases List.mem_cons.mp hx with rfl | hx'
      · refine ⟨(mergeRows g d x r).2, List.mem_cons_self, ?_, ?_⟩
        · have : (mergeRows g d x r).2.args = x.args := by
            unfold mergeRows
            cases d.merge <;> simp <;> split <;> rfl
          rw [this, hk]
        · rw [C13_sticky, hs]; rfl
      · exact ⟨x, List.mem_cons_of_mem _ hx', hk, hs⟩
    · rcases List.mem_cons.mp hx with rfl | hx'
      · exact ⟨x, List.mem_cons_self, hk, hs⟩
      · obtain ⟨z, hz, hzk, hzs⟩ := ih g r k ⟨x, hx', hk, hs⟩
        exact ⟨z, List.mem_cons_of_mem _ hz, hzk, hzs⟩

/-- **A subsumed row is never matched by a rule** (`include_subsumed = false`), while `check`
(`include_subsumed = true`) still sees it. -/
theorem C13_nomatch (g : EG) (s : Subst) (f : Nat) (args : List Tm) (out : Tm) (s' : Subst)
    (h : s' ∈ matchAtom g false s (.tbl f args out)) :
    ∃ r ∈ g.table f, r.sub = false ∧ (unifyAll s args r.args).bind (fun s1 => unify s1 out r.out) = some s' := by
  simp only [matchAtom, List.mem_filterMap] at h
  obtain ⟨r, hr, hm⟩ := h
  by_cases hs : r.sub = true
  · simp [hs] at hm
  · have hs' : r.sub = false := by simpa using hs
    simp only [hs', Bool.false_and, Bool.false_eq_true, if_false] at hm
    exact ⟨r, hr, hs', hm⟩

theorem C13_check_sees (g : EG) (s : Subst) (f : Nat) (args : List Tm) (out : Tm) (r : Row)
    (hr : r ∈ g.table f) (s' : Subst)
    (hm : (unifyAll s args r.args).bind (fun s1 => unify s1 out r.out) = some s') :
    s' ∈ matchAtom g true s (.tbl f args out) := by
  simp only [matchAtom, List.mem_filterMap]
  exact ⟨r, hr, by simp [hm]⟩

/-- **Delete removes exactly the addressed key and leaves every other row as it was.** -/
theorem C13_delete_local (rows : List Row) (k : List Int) (r : Row) :
    r ∈ rows.filter (·.args != k) ↔ r ∈ rows ∧ r.args ≠ k := by
  simp [List.mem_filter]

/-! ### forever: the flag through every later operation of the whole database -/

/-- **Once subsumed, subsumed forever.**  `SubInv g S`: every (table, key) of `S` has a stored row,
for a key equal to it modulo the current equalities, that carries the flag.  It is preserved by
every sequence of unions, row insertions (re-insertion of the same tuple included), constructor
calls and rebuild passes. -/
theorem C13_forever {S : List (Nat × List Int)} : ∀ (ops : List GOp) {g : EG}, SubInv g S →
    SubInv (ops.foldl GOp.apply g) S := by
  intro ops
  induction ops with
  | nil => intro g i; exact i
  | cons op ops ih =>
    intro g i
    refine ih ?_
    cases op with
    | union a b => exact i.union a b
    | insert f r => exact i.insertRow f r
    | create f args => exact i.lookupOrCreate f args
    | rebuildPass => exact i.rebuildPass

theorem SubInv.err {g : EG} {S} (i : SubInv g S) : SubInv { g with err := true } S :=
  i.congr i.wf (fun _ => rfl) rfl rfl

/-- … and by every action of a rule head or top-level command other than `delete`. -/
theorem C13_forever_actions {S : List (Nat × List Int)} {acc : EG × Subst} (i : SubInv acc.1 S) (a : Action)
    (hnd : NoDelete a) : SubInv (runAction acc a).1 S := by
  cases a with
  | call dst f args =>
    simp only [runAction]
    cases args.mapM (evalTm acc.2) with
    | none => exact i.err
    | some vs => exact i.lookupOrCreate f vs
  | prim dst op args =>
    simp only [runAction]
    cases args.mapM (evalTm acc.2) with
    | none => exact i.err
    | some vs =>
      simp only
      cases primEval op vs with
      | none => exact i.err
      | some v => exact i
  | union x y =>
    simp only [runAction]
    cases evalTm acc.2 x with
    | none => exact i.err
    | some vx =>
      cases evalTm acc.2 y with
      | none => exact i.err
      | some vy => exact i.union vx vy
  | set f args v =>
    simp only [runAction]
    cases args.mapM (evalTm acc.2) with
    | none => exact i.err
    | some vs =>
      cases evalTm acc.2 v with
      | none => exact i.err
      | some x => exact i.insertRow f _
  | subsume f args =>
    simp only [runAction]
    cases args.mapM (evalTm acc.2) with
    | none => exact i.err
    | some vs =>
      simp only
      cases lookupRow (acc.1.table f) vs with
      | some r => exact i.insertRow f _
      | none => exact (i.lookupOrCreate f vs).insertRow f _
  | delete f args => exact absurd hnd (by simp [NoDelete])
  | panic => exact i.err

theorem lookupRow_args {rows : List Row} {args : List Int} {r : Row} (h : lookupRow rows args = some r) :
    r.args = args := by
  unfold lookupRow at h
  have := List.find?_some h
  simpa using this

/-- inserting a flagged row into a declared table establishes the flag for its key -/
theorem subImg_insertRow {g : EG} (f : Nat) (r : Row) (hf : f < g.tables.size) (hs : r.sub = true) :
    SubImg (g.insertRow f r) f r.args := by
  obtain ⟨y', hy', e1, e2⟩ := insertInto_sub (g.decl f) (g.table f) g r r List.mem_cons_self hs
  refine ⟨y', ?_, by rw [e1], e2⟩
  show y' ∈ EG.table (EG.setTable _ f _) f
  have s3 : (insertInto g (g.decl f) (g.table f) r).1.tables.size = g.tables.size := by
    have := insertInto_tables_size (g.decl f) (g.table f) g r
    exact this
  rw [setTable_table, if_pos ⟨rfl, by rw [s3]; exact hf⟩]; exact hy'

/-- **`(subsume (f args))` establishes the flag** for the key it names (whether or not the row
existed), and keeps every earlier one. -/
theorem C13_subsume {S : List (Nat × List Int)} {acc : EG × Subst} (i : SubInv acc.1 S) (f : Nat) (args : List Tm)
    (vs : List Int) (hv : args.mapM (evalTm acc.2) = some vs) (hf : f < acc.1.tables.size) :
    SubInv (runAction acc (.subsume f args)).1 ((f, vs) :: S) := by
  have hold := C13_forever_actions i (.subsume f args) (by simp [NoDelete])
  refine ⟨hold.wf, fun p hp => ?_⟩
  simp only [List.mem_cons] at hp
  rcases hp with rfl | hp
  · simp only [runAction, hv]
    cases hl : lookupRow (acc.1.table f) vs with
    | some r =>
      simp only
      have := subImg_insertRow (g := acc.1) f { r with sub := true } hf rfl
      have hra : r.args = vs := lookupRow_args hl
      rw [← hra]
      exact this
    | none =>
      simp only
      have hsz : f < (acc.1.lookupOrCreate f vs).1.tables.size := by
        rw [lookupOrCreate_tables_size]; exact hf
      exact subImg_insertRow (g := (acc.1.lookupOrCreate f vs).1) f ⟨vs, (acc.1.lookupOrCreate f vs).2, true⟩ hsz rfl
  · exact hold.sub p hp

/-- **In a canonical database the one stored row for a subsumed key carries the flag** — so
(`C13_nomatch`) no rule matches it and (`C07_subsumed_ignored`) extraction ignores it, while
`check` (`C13_check_sees`) still sees it and it still takes part in congruence (`C01_complete`
is indifferent to the flag). -/
theorem C13_canonical_row {g : EG} {S : List (Nat × List Int)} (i : SubInv g S) (c : Canonical g)
    (f : Nat) (args : List Int) (hm : (f, args) ∈ S) (y : Row) (hy : y ∈ g.table f)
    (hk : y.args = canonArgs g (g.decl f).argIsId args) : y.sub = true := by
  obtain ⟨y', hy', e1, e2⟩ := i.sub (f, args) hm
  have c1 := (c.rows f y' hy').1
  unfold ArgsCanon at c1
  have : y' = y := uniqueKeys_eq (c.keys f) hy' hy (by rw [← c1, e1, hk])
  rw [← this]; exact e2

end EgglogVerif.EGraph
