import EgglogVerif.Model.CUF
/-
C17 (concurrent half) — the concurrent union-find under ANY interleaving.

Rely–guarantee formulation over the shared forest (see Model/CUF.lean): between any two atomic
accesses of an operation an arbitrary number of atomic steps of other threads may happen
(`EnvS`).  For every such run:

* `C17c_env_*`    — every atomic step keeps the "parent ≤ child" invariant, never splits a class,
                    never turns a non-root back into a root; a `compress` step changes no
                    representative at all, a `link` step merges exactly two classes;
* `C17c_find`     — `find_impl(x)` returns, at the instant of its last load, the representative
                    of `x`'s class, and its own CAS steps are `compress` steps (path compression
                    never changes the partition);
* `C17c_merge`    — `merge(l, r)` either finds, at an instant `g` inside the call, `l` and `r`
                    already in one class and returns its representative twice without linking, or
                    performs exactly one `link` step at an instant where `l` and `r` are in
                    different classes, linking the root of one to a member of the other;
* `C17c_same_set` — `same_set(l, r)` answers what was true at an instant inside the call, in
                    particular `false` is justified by the re-validation of the LEFT root;
* `C17c_root_min` — the representative is the smallest id of its class.
-/
namespace EgglogVerif.UF

def Same (f : Nat → Nat) (x y : Nat) : Prop := root f x = root f y

theorem EnvS.trans {f g h : Nat → Nat} (a : EnvS f g) (b : EnvS g h) : EnvS f h := by
  induction b with
  | refl => exact a
  | tail _ e ih => exact EnvS.tail ih e

theorem EnvS.single {f g : Nat → Nat} (e : Env f g) : EnvS f g := EnvS.tail (EnvS.refl f) e

/-! ### one atomic step -/

theorem C17c_env_inv {f f' : Nat → Nat} (h : FInv f) (e : Env f f') : FInv f' := by
  cases e with
  | compress c g hg _ e => rw [e]; exact upd_inv h (Nat.le_of_lt hg)
  | link c q _ hq e => rw [e]; exact upd_inv h (Nat.le_of_lt hq)

/-- a compression step changes no representative -/
theorem C17c_env_compress {f : Nat → Nat} (h : FInv f) {c g : Nat} (hg : g < c) (hs : root f g = root f c) (x : Nat) :
    root (upd f c g) x = root f x := root_compress h hg hs x

/-- a link step sends exactly the class of the linked root to the class of its new parent -/
theorem C17c_env_link {f : Nat → Nat} (h : FInv f) {c q : Nat} (hc : f c = c) (hq : q < c) (x : Nat) :
    root (upd f c q) x = if root f x = c then root f q else root f x := by
  rw [root_upd h hq]
  by_cases hr : root f x = c
  · rw [(onPath_of_root h hc x).mpr hr, if_pos hr]; rfl
  · have : onPath f c x = false := by
      cases hp : onPath f c x with
      | false => rfl
      | true => exact absurd ((onPath_of_root h hc x).mp hp) hr
    rw [this, if_neg hr]; rfl

/-- no step ever splits a class -/
theorem C17c_env_same {f f' : Nat → Nat} (h : FInv f) (e : Env f f') {x y : Nat} (s : Same f x y) : Same f' x y := by
  unfold Same at *
  cases e with
  | compress c g hg hs e => rw [e, C17c_env_compress h hg hs, C17c_env_compress h hg hs]; exact s
  | link c q hc hq e => rw [e, C17c_env_link h hc hq, C17c_env_link h hc hq, s]

/-- a node that has a parent never becomes a root again -/
theorem C17c_env_nonroot {f f' : Nat → Nat} (e : Env f f') {x : Nat} (hx : f x ≠ x) : f' x ≠ x := by
  cases e with
  | compress c g hg _ e =>
    rw [e]; unfold upd
    split
    · subst_vars; omega
    · exact hx
  | link c q _ hq e =>
    rw [e]; unfold upd
    split
    · subst_vars; omega
    · exact hx

theorem envS_inv {f f' : Nat → Nat} (h : FInv f) (e : EnvS f f') : FInv f' := by
  induction e with
  | refl => exact h
  | tail _ s ih => exact C17c_env_inv ih s

theorem envS_same {f f' : Nat → Nat} (h : FInv f) (e : EnvS f f') {x y : Nat} (s : Same f x y) : Same f' x y := by
  induction e with
  | refl => exact s
  | tail a b ih => exact C17c_env_same (envS_inv h a) b ih

theorem envS_root_back {f f' : Nat → Nat} (e : EnvS f f') {x : Nat} (hx : f' x = x) : f x = x := by
  induction e with
  | refl => exact hx
  | tail _ b ih =>
    apply ih
    apply Classical.byContradiction
    intro hne
    exact C17c_env_nonroot b hne hx

theorem same_parent {f : Nat → Nat} (h : FInv f) (x : Nat) : Same f (f x) x := root_step h x

theorem root_of_same_root {f : Nat → Nat} (h : FInv f) {r x : Nat} (hr : f r = r) (s : Same f r x) : root f x = r := by
  unfold Same at s
  rw [← s, root_of_fix h hr]

/-- **The representative is the smallest id of its class.** -/
theorem C17c_root_min {f : Nat → Nat} (h : FInv f) {x y : Nat} (s : Same f x y) : root f x ≤ y := by
  unfold Same at s
  rw [s]; exact root_le h y

/-! ### find -/

/-- the splitting CAS of `find_impl` is a `compress` step (or fails and changes nothing) -/
theorem cas_compress {f1 f2 f3 : Nat → Nat} (h1 : FInv f1) {cur : Nat} (e12 : EnvS f1 f2) (e23 : EnvS f2 f3)
    (hne : f2 (f1 cur) ≠ f1 cur) : EnvS f3 (cas f3 cur (f1 cur) (f2 (f1 cur))).1 := by
  have h2 := envS_inv h1 e12
  have h3 := envS_inv h2 e23
  unfold cas
  split
  · refine EnvS.single (Env.compress cur (f2 (f1 cur)) ?_ ?_ rfl)
    · have a := h2 (f1 cur)
      have b := h1 cur
      omega
    · have s1 : Same f3 (f2 (f1 cur)) (f1 cur) := envS_same h2 e23 (same_parent h2 (f1 cur))
      have s2 : Same f3 (f1 cur) cur := envS_same h1 (e12.trans e23) (same_parent h1 cur)
      exact s1.trans s2
  · exact EnvS.refl f3

/-- **`find_impl` under any interleaving**: the whole run is a sequence of legal atomic steps, and
at its last load the result is a root in the class of the start node — i.e. the representative. -/
theorem C17c_find {f f' : Nat → Nat} {cur res : Nat} (r : FindRun f cur f' res) (h : FInv f) :
    FInv f' ∧ EnvS f f' ∧ f' res = res ∧ Same f' res cur ∧ root f' cur = res := by
  induction r with
  | @done f f1 f2 cur e1 e2 hroot =>
    have h1 := envS_inv h e1
    have h2 := envS_inv h1 e2
    have s : Same f2 (f1 cur) cur := envS_same h1 e2 (same_parent h1 cur)
    exact ⟨h2, e1.trans e2, hroot, s, root_of_same_root h2 hroot s⟩
  | @iter f f1 f2 f3 f' cur res e1 e2 hne e3 _ ih =>
    have h1 := envS_inv h e1
    have h2 := envS_inv h1 e2
    have h3 := envS_inv h2 e3
    have ec := cas_compress h1 e2 e3 hne
    have h4 := envS_inv h3 ec
    obtain ⟨i1, i2, i3, i4, _⟩ := ih h4
    have s : Same f' (f1 cur) cur := envS_same h1 (((e2.trans e3).trans ec).trans i2) (same_parent h1 cur)
    have s' : Same f' res cur := i4.trans s
    exact ⟨i1, (((e1.trans e2).trans e3).trans ec).trans i2, i3, s', root_of_same_root i1 i3 s'⟩

/-! ### merge -/

/-- **`merge` under any interleaving.**  There is an instant `g` inside the call such that either
no link happened and `l`, `r` were in one class at `g` with representative `p` (returned twice), or
the call performed exactly the link `c ↦ p` at `g`, where `c` was a root, `l` and `r` were in
different classes, and `c`, `p` lie one in each of them. -/
theorem C17c_merge {l r : Nat} {f f' : Nat → Nat} {res : Nat × Nat} (m : MergeRun l r f f' res) (h : FInv f) :
    FInv f' ∧ EnvS f f' ∧ ∃ g, EnvS f g ∧ FInv g ∧
      ((res.1 = res.2 ∧ f' = g ∧ root g l = res.1 ∧ root g r = res.1) ∨
       (res.1 < res.2 ∧ f' = upd g res.2 res.1 ∧ g res.2 = res.2 ∧ ¬ Same g l r ∧
          ((Same g res.2 l ∧ Same g res.1 r) ∨ (Same g res.2 r ∧ Same g res.1 l)))) := by
  induction m with
  | @same l r f fa fb l' r' fl fr heq =>
    obtain ⟨a1, a2, a3, a4, _⟩ := C17c_find fl h
    obtain ⟨b1, b2, b3, b4, b5⟩ := C17c_find fr a1
    have sl : Same fb l' l := envS_same a1 b2 a4
    have hl' : fb l' = l' := heq ▸ b3
    refine ⟨b1, a2.trans b2, fb, a2.trans b2, b1, Or.inl ⟨rfl, rfl, root_of_same_root b1 hl' sl, ?_⟩⟩
    rw [b5, heq]
  | @linked l r f fa fb fc l' r' fl fr hne ec hroot =>
    obtain ⟨a1, a2, a3, a4, _⟩ := C17c_find fl h
    obtain ⟨b1, b2, b3, b4, _⟩ := C17c_find fr a1
    have hc := envS_inv b1 ec
    have sl : Same fc l' l := envS_same a1 (b2.trans ec) a4
    have sr : Same fc r' r := envS_same b1 ec b4
    have hlt : min l' r' < max l' r' := by omega
    have estep : Env fc (upd fc (max l' r') (min l' r')) := Env.link _ _ hroot hlt rfl
    have hnot : ¬ Same fc (max l' r') (min l' r') := by
      intro s
      have h1 : root fc (max l' r') = max l' r' := root_of_fix hc hroot
      have h2 := root_le hc (min l' r')
      unfold Same at s
      omega
    refine ⟨C17c_env_inv hc estep, ((a2.trans b2).trans ec).tail estep, fc, (a2.trans b2).trans ec, hc,
      Or.inr ⟨hlt, rfl, hroot, ?_, ?_⟩⟩
    · intro slr
      apply hnot
      rcases Nat.le_total l' r' with hle | hle
      · rw [Nat.max_eq_right hle, Nat.min_eq_left hle]
        exact (sr.trans slr.symm).trans sl.symm
      · rw [Nat.max_eq_left hle, Nat.min_eq_right hle]
        exact (sl.trans slr).trans sr.symm
    · rcases Nat.le_total l' r' with hle | hle
      · rw [Nat.max_eq_right hle, Nat.min_eq_left hle]
        exact Or.inr ⟨sr, sl⟩
      · rw [Nat.max_eq_left hle, Nat.min_eq_right hle]
        exact Or.inl ⟨sl, sr⟩
  | @retry l r f fa fb fc f' l' r' res fl fr hne ec _ _ ih =>
    obtain ⟨a1, a2, a3, a4, _⟩ := C17c_find fl h
    obtain ⟨b1, b2, b3, b4, _⟩ := C17c_find fr a1
    have hc := envS_inv b1 ec
    have pre : EnvS f fc := (a2.trans b2).trans ec
    have sl : Same fc l' l := envS_same a1 (b2.trans ec) a4
    have sr : Same fc r' r := envS_same b1 ec b4
    obtain ⟨i1, i2, g, g1, g2, hcase⟩ := ih hc
    have slg : Same g l' l := envS_same hc g1 sl
    have srg : Same g r' r := envS_same hc g1 sr
    refine ⟨i1, pre.trans i2, g, pre.trans g1, g2, ?_⟩
    rcases hcase with ⟨e1, e2, e3, e4⟩ | ⟨e1, e2, e3, e4, e5⟩
    · refine Or.inl ⟨e1, e2, ?_, ?_⟩
      · rw [← e3]; exact slg.symm
      · rw [← e4]; exact srg.symm
    · refine Or.inr ⟨e1, e2, e3, ?_, ?_⟩
      · intro s; exact e4 ((slg.trans s).trans srg.symm)
      · rcases e5 with ⟨x, y⟩ | ⟨x, y⟩
        · exact Or.inl ⟨x.trans slg, y.trans srg⟩
        · exact Or.inr ⟨x.trans srg, y.trans slg⟩

/-! ### same_set -/

/-- **`same_set` under any interleaving** answers what was true at an instant inside the call. -/
theorem C17c_same_set {l r : Nat} {f f' : Nat → Nat} {b : Bool} (s : SameRun l r f f' b) (h : FInv f) :
    FInv f' ∧ EnvS f f' ∧ ∃ g, EnvS f g ∧ EnvS g f' ∧ FInv g ∧ (b = true ↔ Same g l r) := by
  induction s with
  | @yes l r f fa fb l' r' fl fr heq =>
    obtain ⟨a1, a2, a3, a4, _⟩ := C17c_find fl h
    obtain ⟨b1, b2, b3, b4, _⟩ := C17c_find fr a1
    have sl : Same fb l' l := envS_same a1 b2 a4
    refine ⟨b1, a2.trans b2, fb, a2.trans b2, EnvS.refl _, b1, ?_⟩
    constructor
    · intro _; exact (sl.symm.trans (heq ▸ Eq.refl (root fb l'))).trans b4
    · intro _; rfl
  | @no l r f fa fb fc l' r' fl fr hne ec hroot =>
    obtain ⟨a1, a2, a3, a4, _⟩ := C17c_find fl h
    obtain ⟨b1, b2, b3, b4, b5⟩ := C17c_find fr a1
    have hc := envS_inv b1 ec
    -- `l'` is still a root at `fc`, hence it was a root at `fb`, where `r'` was one too
    have hl'b : fb l' = l' := envS_root_back ec hroot
    have sl : Same fb l' l := envS_same a1 b2 a4
    have rl : root fb l = l' := root_of_same_root b1 hl'b sl
    refine ⟨hc, (a2.trans b2).trans ec, fb, a2.trans b2, ec, b1, ?_⟩
    constructor
    · intro hb; cases hb
    · intro s
      unfold Same at s
      rw [rl, b5] at s
      exact absurd s hne
  | @retry l r f fa fb fc f' l' r' b fl fr hne ec _ _ ih =>
    obtain ⟨a1, a2, a3, a4, _⟩ := C17c_find fl h
    obtain ⟨b1, b2, b3, b4, _⟩ := C17c_find fr a1
    have hc := envS_inv b1 ec
    have pre : EnvS f fc := (a2.trans b2).trans ec
    have sl : Same fc l' l := envS_same a1 (b2.trans ec) a4
    have sr : Same fc r' r := envS_same b1 ec b4
    obtain ⟨i1, i2, g, g1, g2, g3, hiff⟩ := ih hc
    have slg : Same g l' l := envS_same hc g1 sl
    have srg : Same g r' r := envS_same hc g1 sr
    refine ⟨i1, pre.trans i2, g, pre.trans g1, g2, g3, ?_⟩
    constructor
    · intro hb; exact (slg.symm.trans (hiff.mp hb)).trans srg
    · intro s; exact hiff.mpr ((slg.trans s).trans srg.symm)

/-! ### the executable single-thread instance is such a run -/

/-- the executable `cFindLoop` (what the correspondence harness compares with the real
`ConcurrentUnionFind` driven from one thread) is a `FindRun` without interference -/
theorem C17c_seq_find : ∀ (fuel : Nat) (p : Parents) (cur : Nat), AInv p → cur < fuel → cur < p.size →
    FindRun (par p) cur (par (cFindLoop fuel p cur).1) (cFindLoop fuel p cur).2 ∧
      AInv (cFindLoop fuel p cur).1 ∧ (cFindLoop fuel p cur).1.size = p.size := by
  intro fuel
  induction fuel with
  | zero => intro p cur _ hc; omega
  | succ n ih =>
    intro p cur h hc hs
    simp only [cFindLoop]
    split
    · rename_i heq
      refine ⟨?_, h, rfl⟩
      exact FindRun.done (f1 := par p) (EnvS.refl _) (EnvS.refl _) heq.symm
    · rename_i hne
      simp only [if_true]
      have hnext_le : par p cur ≤ cur := h cur
      have hnext_lt : par p cur < cur := by
        apply Nat.lt_of_le_of_ne hnext_le
        intro e
        apply hne
        rw [e, e]
      have hgrand_le : par p (par p cur) ≤ par p cur := h (par p cur)
      have hp' : AInv (p.setIfInBounds cur (par p (par p cur))) := by
        unfold AInv; rw [par_set hs]; exact upd_inv h (by omega)
      have hsz : (p.setIfInBounds cur (par p (par p cur))).size = p.size := by simp
      obtain ⟨r1, r2, r3⟩ := ih (p.setIfInBounds cur (par p (par p cur))) (par p cur) hp' (by omega) (by rw [hsz]; omega)
      refine ⟨?_, r2, r3.trans hsz⟩
      refine FindRun.iter (f1 := par p) (f2 := par p) (f3 := par p) (EnvS.refl _) (EnvS.refl _) (fun e => hne e.symm) (EnvS.refl _) ?_
      have hcas : (cas (par p) cur (par p cur) (par p (par p cur))).1 = par (p.setIfInBounds cur (par p (par p cur))) := by
        unfold cas; rw [if_pos rfl, par_set hs]
      rw [hcas]; exact r1

/-! ### non-vacuity -/

/-- a run of `merge 1 2` on the identity forest with another thread linking `2 ↦ 0` just before
our CAS: the CAS fails, the retry finds `0` and `1` and links `1 ↦ 0`. -/
example : ∃ f' res, MergeRun 1 2 id f' res ∧ res = (0, 1) := by
  have hid : ∀ x, (id : Nat → Nat) x = x := fun _ => rfl
  let f1 : Nat → Nat := upd id 2 0
  have e01 : EnvS id f1 := EnvS.single (Env.link 2 0 rfl (by omega) rfl)
  refine ⟨upd f1 1 0, (0, 1), ?_, rfl⟩
  refine MergeRun.retry (l' := 1) (r' := 2) (fa := id) (fb := id) (fc := f1)
    (FindRun.done (f1 := id) (EnvS.refl _) (EnvS.refl _) rfl)
    (FindRun.done (f1 := id) (EnvS.refl _) (EnvS.refl _) rfl) (by omega) e01 (by simp [f1, upd]) ?_
  have fr : FindRun f1 2 f1 0 := by
    have : f1 2 = 0 := by simp [f1, upd]
    have h := FindRun.done (f := f1) (f1 := f1) (f2 := f1) (cur := 2) (EnvS.refl _) (EnvS.refl _) (by rw [this]; simp [f1, upd])
    rw [this] at h; exact h
  have fl : FindRun f1 1 f1 1 := by
    have : f1 1 = 1 := by simp [f1, upd]
    have h := FindRun.done (f := f1) (f1 := f1) (f2 := f1) (cur := 1) (EnvS.refl _) (EnvS.refl _) (by rw [this]; exact this)
    rw [this] at h; exact h
  have := MergeRun.linked (l := 1) (r := 2) fl fr (by omega) (EnvS.refl f1) (by simp [f1, upd])
  simpa using this

end EgglogVerif.UF
