import EgglogVerif.Model.Session
/-
C08 — push/pop gives perfect snapshot isolation (model level).

For EVERY command semantics `run`, every prefix `P`, every balanced body `Q` (declarations, runs,
failing commands, nested push/pop — anything) and every continuation `R`:
the state after `P; push; Q; pop` is the state after `P`, hence `R` behaves identically.
-/
namespace EgglogVerif.Session

variable {α C O : Type} (run : α → C → C × O) (popErr unit : O)

theorem exec_append (s : St C) (a b : List (Cmd α)) :
    exec run popErr unit s (a ++ b) =
      let r1 := exec run popErr unit s a
      let r2 := exec run popErr unit r1.1 b
      (r2.1, r1.2 ++ r2.2) := by
  induction a generalizing s with
  | nil => simp [exec]
  | cons c cs ih => simp only [List.cons_append, exec]; rw [ih]

/-- a command list that never pops below its starting depth leaves the stack underneath untouched -/
theorem exec_preserves_base : ∀ (q : List (Cmd α)) (cur : C) (pre base : List C) (k : Nat),
    depthAfter q pre.length = some k →
    ∃ cur' pre', (exec run popErr unit ⟨cur, pre ++ base⟩ q).1 = ⟨cur', pre' ++ base⟩ ∧ pre'.length = k := by
  intro q
  induction q with
  | nil => intro cur pre base k h; simp [depthAfter] at h; exact ⟨cur, pre, rfl, h⟩
  | cons c cs ih =>
    intro cur pre base k h
    cases c with
    | push =>
      simp only [depthAfter] at h
      simp only [exec, step]
      have := ih cur (cur :: pre) base k (by simpa using h)
      simpa using this
    | pop =>
      simp only [depthAfter] at h
      cases pre with
      | nil => simp at h
      | cons p ps =>
        simp only [List.length_cons, Nat.add_one_ne_zero, if_false, Nat.add_sub_cancel] at h
        simp only [exec, step, List.cons_append]
        exact ih p ps base k h
    | other a =>
      simp only [depthAfter] at h
      simp only [exec, step]
      exact ih (run a cur).1 pre base k h

/-- **Snapshot isolation**: `push; Q; pop` with `Q` balanced restores exactly the state before
the `push` — core state and stack. -/
theorem C08_pushpop_state (s : St C) (q : List (Cmd α)) (hq : Balanced q) :
    (exec run popErr unit s (Cmd.push :: q ++ [Cmd.pop])).1 = s := by
  obtain ⟨cur, stack⟩ := s
  simp only [List.cons_append, exec, step]
  rw [exec_append]
  simp only
  have hd : depthAfter q ([cur] : List C).length = some 1 := by
    have key : ∀ (q : List (Cmd α)) (d e k : Nat), depthAfter q d = some k → depthAfter q (d + e) = some (k + e) := by
      intro q
      induction q with
      | nil => intro d e k h; simp [depthAfter] at h ⊢; omega
      | cons c cs ih =>
        intro d e k h
        cases c with
        | push => simp only [depthAfter] at h ⊢; have := ih (d + 1) e k h; rw [Nat.add_right_comm]; exact this
        | pop =>
          simp only [depthAfter] at h ⊢
          by_cases hd0 : d = 0
          · simp [hd0] at h
          · simp only [hd0, if_false] at h
            have hde : d + e ≠ 0 := by omega
            simp only [hde, if_false]
            have := ih (d - 1) e k h
            have e1 : d - 1 + e = d + e - 1 := by omega
            rw [e1] at this; exact this
        | other a => simp only [depthAfter] at h ⊢; exact ih d e k h
    have := key q 0 1 0 hq
    simpa using this
  obtain ⟨cur', pre', he, hl⟩ := exec_preserves_base run popErr unit q cur [cur] stack 1 hd
  have he' : (exec run popErr unit ⟨cur, cur :: stack⟩ q).1 = ⟨cur', pre' ++ stack⟩ := by simpa using he
  rw [he']
  match pre', hl with
  | [p], _ =>
    -- the element under the top is the snapshot taken by our push; show it is `cur`
    have hp : p = cur := by
      -- run the same argument with `base := cur :: stack` and `pre := []`
      obtain ⟨c2, pre2, he2, hl2⟩ := exec_preserves_base run popErr unit q cur [] (cur :: stack) 0 (by simpa [Balanced] using hq)
      have hnil : pre2 = [] := List.eq_nil_of_length_eq_zero hl2
      subst hnil
      simp only [List.nil_append] at he2
      rw [he2] at he'
      have := congrArg St.stack he'
      simp at this
      exact this.symm
    subst hp
    simp [exec, step]

/-- **… so every continuation `R` produces the same outputs and the same final state** as if
`push; Q; pop` had never been issued. -/
theorem C08_pushpop (s : St C) (q r : List (Cmd α)) (hq : Balanced q) :
    let full := exec run popErr unit s (Cmd.push :: q ++ [Cmd.pop] ++ r)
    let plain := exec run popErr unit s r
    full.1 = plain.1 ∧ full.2.drop (q.length + 2) = plain.2 := by
  have hs := C08_pushpop_state run popErr unit s q hq
  have hlen : ∀ (s : St C) (l : List (Cmd α)), (exec run popErr unit s l).2.length = l.length := by
    intro s l
    induction l generalizing s with
    | nil => simp [exec]
    | cons c cs ih => simp [exec, ih]
  simp only
  rw [exec_append]
  simp only
  rw [hs]
  refine ⟨rfl, ?_⟩
  have : (exec run popErr unit s (Cmd.push :: q ++ [Cmd.pop])).2.length = q.length + 2 := by
    rw [hlen]; simp
  rw [List.drop_append_of_le_length (by omega)]
  rw [← this, List.drop_length]; simp

/-- names declared inside the bracket are free again afterwards: the core state (which holds the
declarations) is literally the old one -/
theorem C08_redeclare (s : St C) (q : List (Cmd α)) (hq : Balanced q) :
    (exec run popErr unit s (Cmd.push :: q ++ [Cmd.pop])).1.cur = s.cur := by
  rw [C08_pushpop_state run popErr unit s q hq]

example : Balanced ([.push, .other 1, .pop, .other 2] : List (Cmd Nat)) := by simp [Balanced, depthAfter]

end EgglogVerif.Session
