import EgglogVerif.Model.Intern
/-
C14 — the container hash-cons table after a rebuild pass.

`C14_rebuild_hashcons`: whatever the table looked like before, after one pass no two ids stand
for the same (rewritten) container — equal-after-rewriting containers have been merged.
`C14_rebuild_present`: nothing is lost — every container of the old table is present, rewritten
by `find`, under its own id or a smaller one.  `C14_rebuild_unions_sound`: every union handed to
the merge function relates two ids whose containers are equal after rewriting, i.e. the pass never
merges containers that differ modulo `find`.  `C14_rebuild_stable` / `C14_rebuild_idem`: a canonical table is a fixpoint of the pass (the loop's
stopping criterion), and with an idempotent `find` one pass reaches it.  `C14_intern_found` / `C14_intern_keeps`:
`register_val` is a hash-cons — registering a value twice yields the same id, and it never
disturbs the distinctness of values.
-/
namespace EgglogVerif.Intern

theorem insertMerge_vals (t : Tab) (id : Nat) (v : List Nat) :
    ∀ e ∈ (insertMerge t id v).1, e.2 = v ∨ ∃ e' ∈ t, e'.2 = e.2 := by
  induction t with
  | nil => intro e he; simp [insertMerge] at he; left; rw [he]
  | cons hd t ih =>
    obtain ⟨id', v'⟩ := hd
    intro e he
    unfold insertMerge at he
    split at he
    · rename_i hv
      simp only [List.mem_cons] at he
      rcases he with he | he
      · left; rw [he]
      · right; exact ⟨e, List.mem_cons_of_mem _ he, rfl⟩
    · simp only [List.mem_cons] at he
      rcases he with he | he
      · right; exact ⟨(id', v'), List.mem_cons_self, by rw [he]⟩
      · rcases ih e he with h | ⟨e', he', h⟩
        · left; exact h
        · right; exact ⟨e', List.mem_cons_of_mem _ he', h⟩

theorem insertMerge_distinct (t : Tab) (id : Nat) (v : List Nat) (h : ValuesDistinct t) :
    ValuesDistinct (insertMerge t id v).1 := by
  induction t with
  | nil => simp [insertMerge, ValuesDistinct]
  | cons hd t ih =>
    obtain ⟨id', v'⟩ := hd
    unfold ValuesDistinct at h ih ⊢
    rw [List.pairwise_cons] at h
    unfold insertMerge
    split
    · rename_i hv
      subst hv
      rw [List.pairwise_cons]
      exact ⟨fun a ha => h.1 a ha, h.2⟩
    · rename_i hv
      rw [List.pairwise_cons]
      refine ⟨?_, ih h.2⟩
      intro a ha
      rcases insertMerge_vals t id v a ha with h1 | ⟨e', he', h1⟩
      · simp only; rw [h1]; exact hv
      · simp only; rw [← h1]; exact h.1 e' he'

theorem insertMerge_present (t : Tab) (id : Nat) (v : List Nat) :
    (∃ i, i ≤ id ∧ (i, v) ∈ (insertMerge t id v).1) ∧
    ∀ e ∈ t, ∃ i, i ≤ e.1 ∧ (i, e.2) ∈ (insertMerge t id v).1 := by
  induction t with
  | nil => simp [insertMerge]
  | cons hd t ih =>
    obtain ⟨id', v'⟩ := hd
    unfold insertMerge
    split
    · rename_i hv
      subst hv
      refine ⟨⟨min id' id, Nat.min_le_right _ _, List.mem_cons_self⟩, ?_⟩
      intro e he
      simp only [List.mem_cons] at he
      rcases he with he | he
      · subst he; exact ⟨min id' id, Nat.min_le_left _ _, List.mem_cons_self⟩
      · exact ⟨e.1, Nat.le_refl _, List.mem_cons_of_mem _ he⟩
    · obtain ⟨⟨i, hi, hm⟩, ih2⟩ := ih
      refine ⟨⟨i, hi, List.mem_cons_of_mem _ hm⟩, ?_⟩
      intro e he
      simp only [List.mem_cons] at he
      rcases he with he | he
      · subst he; exact ⟨id', Nat.le_refl _, List.mem_cons_self⟩
      · obtain ⟨j, hj, hm2⟩ := ih2 e he
        exact ⟨j, hj, List.mem_cons_of_mem _ hm2⟩

theorem foldl_pass_distinct (find : Nat → Nat) (l : Tab) : ∀ acc : Tab × List (Nat × Nat),
    ValuesDistinct acc.1 → ValuesDistinct (l.foldl (passStep find) acc).1 := by
  induction l with
  | nil => intro acc h; exact h
  | cons e l ih =>
    intro acc h
    simp only [List.foldl_cons]
    exact ih _ (insertMerge_distinct acc.1 e.1 (e.2.map find) h)

/-- after a pass the table is a hash-cons again: no two ids for one container -/
theorem C14_rebuild_hashcons (find : Nat → Nat) (t : Tab) : ValuesDistinct (rebuildPass find t).1 :=
  foldl_pass_distinct find t ([], []) List.Pairwise.nil

theorem foldl_pass_present (find : Nat → Nat) (l : Tab) : ∀ acc : Tab × List (Nat × Nat),
    (∀ e ∈ acc.1, ∃ i, i ≤ e.1 ∧ (i, e.2) ∈ (l.foldl (passStep find) acc).1) ∧
    (∀ e ∈ l, ∃ i, i ≤ e.1 ∧ (i, e.2.map find) ∈ (l.foldl (passStep find) acc).1) := by
  induction l with
  | nil => intro acc; exact ⟨fun e he => ⟨e.1, Nat.le_refl _, he⟩, fun e he => by cases he⟩
  | cons x l ih =>
    intro acc
    simp only [List.foldl_cons]
    obtain ⟨ih1, ih2⟩ := ih (passStep find acc x)
    obtain ⟨⟨i, hi, hm⟩, hold⟩ := insertMerge_present acc.1 x.1 (x.2.map find)
    refine ⟨?_, ?_⟩
    · intro e he
      obtain ⟨j, hj, hm2⟩ := hold e he
      obtain ⟨k, hk, hm3⟩ := ih1 (j, e.2) hm2
      exact ⟨k, Nat.le_trans hk hj, hm3⟩
    · intro e he
      simp only [List.mem_cons] at he
      rcases he with he | he
      · subst he
        obtain ⟨k, hk, hm3⟩ := ih1 (i, e.2.map find) hm
        exact ⟨k, Nat.le_trans hk hi, hm3⟩
      · exact ih2 e he

/-- nothing is lost: every old container is present, rewritten, under its own or a smaller id -/
theorem C14_rebuild_present (find : Nat → Nat) (t : Tab) :
    ∀ e ∈ t, ∃ i, i ≤ e.1 ∧ (i, e.2.map find) ∈ (rebuildPass find t).1 :=
  (foldl_pass_present find t ([], [])).2

/-- the containers two ids stand for in the old table, after rewriting -/
def SameAfter (find : Nat → Nat) (t : Tab) (a b : Nat) : Prop :=
  ∃ va vb, (a, va) ∈ t ∧ (b, vb) ∈ t ∧ va.map find = vb.map find

theorem insertMerge_unions (t : Tab) (id : Nat) (v : List Nat) :
    ∀ u ∈ (insertMerge t id v).2, ∃ id', (id', v) ∈ t ∧ id' ≠ id ∧ u = (max id' id, min id' id) := by
  induction t with
  | nil => intro u hu; simp [insertMerge] at hu
  | cons hd t ih =>
    obtain ⟨id', v'⟩ := hd
    intro u hu
    unfold insertMerge at hu
    split at hu
    · rename_i hv
      subst hv
      simp only at hu
      split at hu
      · cases hu
      · rename_i hne
        simp only [List.mem_singleton] at hu
        exact ⟨id', List.mem_cons_self, hne, hu⟩
    · obtain ⟨j, hj, hne, hu2⟩ := ih u hu
      exact ⟨j, List.mem_cons_of_mem _ hj, hne, hu2⟩

/-- invariant of the sweep: every accumulated entry carries the rewritten value of some old entry
whose id is related to it, and every union emitted relates two ids with equal rewritten values -/
theorem foldl_pass_unions (find : Nat → Nat) (t : Tab) (l : Tab) (hl : ∀ e ∈ l, e ∈ t) :
    ∀ acc : Tab × List (Nat × Nat),
    (∀ e ∈ acc.1, ∃ v, (e.1, v) ∈ t ∧ v.map find = e.2) →
    (∀ u ∈ acc.2, SameAfter find t u.1 u.2) →
    ∀ u ∈ (l.foldl (passStep find) acc).2, SameAfter find t u.1 u.2 := by
  induction l with
  | nil => intro acc _ h2 u hu; exact h2 u hu
  | cons x l ih =>
    intro acc h1 h2
    simp only [List.foldl_cons]
    have hx : x ∈ t := hl x List.mem_cons_self
    apply ih (fun e he => hl e (List.mem_cons_of_mem _ he))
    · -- entries of the new accumulator
      intro e he
      unfold passStep at he
      simp only at he
      -- e is in insertMerge acc.1 x.1 (x.2.map find)
      have key : ∀ (a : Tab), (∀ e ∈ a, ∃ v, (e.1, v) ∈ t ∧ v.map find = e.2) →
          ∀ e ∈ (insertMerge a x.1 (x.2.map find)).1, ∃ v, (e.1, v) ∈ t ∧ v.map find = e.2 := by
        intro a
        induction a with
        | nil =>
          intro _ e he
          simp [insertMerge] at he
          subst he
          exact ⟨x.2, hx, rfl⟩
        | cons hd a iha =>
          obtain ⟨id', v'⟩ := hd
          intro ha e he
          unfold insertMerge at he
          split at he
          · rename_i hv
            simp only [List.mem_cons] at he
            rcases he with he | he
            · subst he
              simp only
              rcases Nat.le_total id' x.1 with hle | hle
              · rw [Nat.min_eq_left hle]
                obtain ⟨v, hv1, hv2⟩ := ha (id', v') List.mem_cons_self
                exact ⟨v, hv1, by rw [hv2]; exact hv⟩
              · rw [Nat.min_eq_right hle]
                exact ⟨x.2, hx, rfl⟩
            · exact ha e (List.mem_cons_of_mem _ he)
          · simp only [List.mem_cons] at he
            rcases he with he | he
            · subst he; exact ha _ List.mem_cons_self
            · exact iha (fun e he => ha e (List.mem_cons_of_mem _ he)) e he
      exact key acc.1 h1 e he
    · intro u hu
      unfold passStep at hu
      simp only [List.mem_append] at hu
      rcases hu with hu | hu
      · exact h2 u hu
      · obtain ⟨id', hm, _, hu2⟩ := insertMerge_unions acc.1 x.1 (x.2.map find) u hu
        obtain ⟨v, hv1, hv2⟩ := h1 (id', x.2.map find) hm
        subst hu2
        simp only
        rcases Nat.le_total id' x.1 with hle | hle
        · rw [Nat.max_eq_right hle, Nat.min_eq_left hle]
          exact ⟨x.2, v, hx, hv1, hv2.symm⟩
        · rw [Nat.max_eq_left hle, Nat.min_eq_right hle]
          exact ⟨v, x.2, hv1, hx, hv2⟩

/-- a pass never merges containers that differ modulo `find` -/
theorem C14_rebuild_unions_sound (find : Nat → Nat) (t : Tab) :
    ∀ u ∈ (rebuildPass find t).2, SameAfter find t u.1 u.2 :=
  foldl_pass_unions find t t (fun _ h => h) ([], []) (fun e he => by cases he) (fun u hu => by cases hu)

/-! ### the surviving id of a group is its smallest -/

theorem distinct_unique (l : Tab) (h : ValuesDistinct l) (i j : Nat) (w : List Nat)
    (hi : (i, w) ∈ l) (hj : (j, w) ∈ l) : i = j := by
  induction l with
  | nil => cases hi
  | cons x l ih =>
    unfold ValuesDistinct at h ih
    rw [List.pairwise_cons] at h
    simp only [List.mem_cons] at hi hj
    rcases hi with hi | hi <;> rcases hj with hj | hj
    · rw [← hi] at hj; exact (Prod.mk.inj hj).1.symm
    · exact absurd (by rw [← hi]) (h.1 (j, w) hj)
    · exact absurd (by rw [← hj]) (h.1 (i, w) hi)
    · exact ih h.2 hi hj

/-- the id that survives for a rewritten container is at most the id of every old container that
rewrites to it — with the merge function keeping the smaller id, the group's minimum wins -/
theorem C14_rebuild_min (find : Nat → Nat) (t : Tab) (i : Nat) (w : List Nat)
    (hi : (i, w) ∈ (rebuildPass find t).1) : ∀ e ∈ t, e.2.map find = w → i ≤ e.1 := by
  intro e he hw
  obtain ⟨j, hj, hm⟩ := C14_rebuild_present find t e he
  rw [hw] at hm
  have := distinct_unique _ (C14_rebuild_hashcons find t) i j w hi hm
  omega

/-! ### a canonical table is a fixpoint of the pass -/

theorem insertMerge_fresh (t : Tab) (id : Nat) (v : List Nat) (h : ∀ e ∈ t, e.2 ≠ v) :
    insertMerge t id v = (t ++ [(id, v)], []) := by
  induction t with
  | nil => rfl
  | cons hd t ih =>
    obtain ⟨id', v'⟩ := hd
    have hne : v' ≠ v := h (id', v') List.mem_cons_self
    unfold insertMerge
    rw [if_neg hne]
    simp only [ih (fun e he => h e (List.mem_cons_of_mem _ he)), List.cons_append]

theorem foldl_pass_stable (find : Nat → Nat) (l : Tab) : ∀ acc : Tab × List (Nat × Nat),
    ValuesDistinct (acc.1 ++ l) → (∀ e ∈ l, e.2.map find = e.2) →
    l.foldl (passStep find) acc = (acc.1 ++ l, acc.2) := by
  induction l with
  | nil => intro acc _ _; simp
  | cons x l ih =>
    intro acc hd hn
    simp only [List.foldl_cons]
    have hx : x.2.map find = x.2 := hn x List.mem_cons_self
    have hfresh : ∀ e ∈ acc.1, e.2 ≠ x.2 := by
      intro e he
      unfold ValuesDistinct at hd
      rw [List.pairwise_append] at hd
      exact hd.2.2 e he x List.mem_cons_self
    have hstep : passStep find acc x = (acc.1 ++ [x], acc.2) := by
      unfold passStep
      simp only [hx, insertMerge_fresh acc.1 x.1 x.2 hfresh, List.append_nil]
    rw [hstep]
    have := ih (acc.1 ++ [x], acc.2) (by simpa using hd) (fun e he => hn e (List.mem_cons_of_mem _ he))
    simpa using this

/-- the rebuild loop's stopping criterion is sound: on a table whose containers are all canonical
and pairwise different, a pass changes nothing and asks for no union -/
theorem C14_rebuild_stable (find : Nat → Nat) (t : Tab) (hd : ValuesDistinct t)
    (hn : ∀ e ∈ t, e.2.map find = e.2) : rebuildPass find t = (t, []) := by
  have := foldl_pass_stable find t ([], []) (by simpa using hd) hn
  simpa [rebuildPass] using this

/-- with an idempotent `find`, a pass that merged nothing has reached that fixpoint: a second
pass over its result is the identity -/
theorem C14_rebuild_idem (find : Nat → Nat) (hid : ∀ x, find (find x) = find x) (t : Tab) :
    rebuildPass find (rebuildPass find t).1 = ((rebuildPass find t).1, []) := by
  apply C14_rebuild_stable find _ (C14_rebuild_hashcons find t)
  -- every value of the result is a `map find` image
  have key : ∀ (l : Tab) (acc : Tab × List (Nat × Nat)), (∀ e ∈ acc.1, e.2.map find = e.2) →
      ∀ e ∈ (l.foldl (passStep find) acc).1, e.2.map find = e.2 := by
    intro l
    induction l with
    | nil => intro acc h e he; exact h e he
    | cons x l ih =>
      intro acc h
      simp only [List.foldl_cons]
      apply ih
      intro e he
      rcases insertMerge_vals acc.1 x.1 (x.2.map find) e he with h1 | ⟨e', he', h1⟩
      · rw [h1, List.map_map]
        apply List.map_congr_left
        intro a _
        exact hid a
      · rw [← h1]; exact h e' he'
  exact key t ([], []) (fun e he => by cases he)

/-- the pass that also rewrites the entries' own ids (what the code runs) is the modelled pass
whenever no stored container's id is displaced — the precondition the correspondence run checks -/
theorem C14_rebuild_ids_canonical (find : Nat → Nat) (t : Tab) (h : ∀ e ∈ t, find e.1 = e.1) :
    rebuildPassId find t = rebuildPass find t := by
  have key : ∀ (l : Tab) (acc : Tab × List (Nat × Nat)), (∀ e ∈ l, find e.1 = e.1) →
      l.foldl (passStepId find) acc = l.foldl (passStep find) acc := by
    intro l
    induction l with
    | nil => intro acc _; rfl
    | cons x l ih =>
      intro acc hl
      simp only [List.foldl_cons]
      have hx : passStepId find acc x = passStep find acc x := by
        unfold passStepId passStep
        rw [hl x List.mem_cons_self]
      rw [hx]
      exact ih _ (fun e he => hl e (List.mem_cons_of_mem _ he))
  exact key t ([], []) h

/-- `register_val` is a hash-cons: the value is found afterwards under the id handed out -/
theorem C14_intern_found (t : Tab) (next : Nat) (v : List Nat) :
    lookupVal (intern t next v).1 v = some (intern t next v).2.2 := by
  unfold intern
  split
  · rename_i id h; exact h
  · simp [lookupVal]

/-- registering the same value again returns the same id and changes nothing -/
theorem C14_intern_idem (t : Tab) (next : Nat) (v : List Nat) :
    intern (intern t next v).1 (intern t next v).2.1 v = intern t next v := by
  have h := C14_intern_found t next v
  generalize intern t next v = r at h ⊢
  obtain ⟨t', n', i⟩ := r
  simp only at h
  simp only [intern, h]

/-- `register_val` keeps values distinct -/
theorem C14_intern_keeps (t : Tab) (next : Nat) (v : List Nat) (h : ValuesDistinct t) :
    ValuesDistinct (intern t next v).1 := by
  unfold intern
  split
  · exact h
  · rename_i hn
    unfold ValuesDistinct
    rw [List.pairwise_cons]
    refine ⟨?_, h⟩
    intro a ha heq
    simp only [lookupVal, Option.map_eq_none_iff, List.find?_eq_none] at hn
    exact hn a ha (by simp only [beq_iff_eq]; exact heq.symm)

/-! ### every union costs a table entry: the rebuild loop's measure -/

theorem insertMerge_len (t : Tab) (id : Nat) (v : List Nat) :
    (insertMerge t id v).1.length + (insertMerge t id v).2.length ≤ t.length + 1 := by
  induction t with
  | nil => simp [insertMerge]
  | cons hd t ih =>
    obtain ⟨id', v'⟩ := hd
    unfold insertMerge
    split
    · split <;> simp
    · simp only [List.length_cons]; omega

theorem foldl_pass_len (find : Nat → Nat) (l : Tab) : ∀ acc : Tab × List (Nat × Nat),
    (l.foldl (passStep find) acc).1.length + (l.foldl (passStep find) acc).2.length
      ≤ acc.1.length + acc.2.length + l.length := by
  induction l with
  | nil => intro acc; simp
  | cons x l ih =>
    intro acc
    simp only [List.foldl_cons, List.length_cons]
    have h1 := ih (passStep find acc x)
    have h2 := insertMerge_len acc.1 x.1 (x.2.map find)
    have h3 : (passStep find acc x).1.length + (passStep find acc x).2.length
        ≤ acc.1.length + acc.2.length + 1 := by
      unfold passStep
      simp only [List.length_append]
      omega
    omega

/-- every union a pass asks for costs one table entry: the table after the pass plus the unions
emitted fit in the table before.  A pass that emitted a union has strictly shrunk the table, so
the loop "rebuild while something merged" ends within `t.length` passes -/
theorem C14_rebuild_measure (find : Nat → Nat) (t : Tab) :
    (rebuildPass find t).1.length + (rebuildPass find t).2.length ≤ t.length := by
  have := foldl_pass_len find t ([], [])
  simpa [rebuildPass] using this

/-! ### ids handed out by `register_val` are injective -/

/-- ids are pairwise different and below the counter -/
def IdsFresh (t : Tab) (next : Nat) : Prop := t.Pairwise (fun a b => a.1 ≠ b.1) ∧ ∀ e ∈ t, e.1 < next

theorem C14_intern_ids (t : Tab) (next : Nat) (v : List Nat) (h : IdsFresh t next) :
    IdsFresh (intern t next v).1 (intern t next v).2.1 := by
  unfold intern
  split
  · exact h
  · refine ⟨?_, ?_⟩
    · rw [List.pairwise_cons]
      exact ⟨fun a ha => by have := h.2 a ha; simp only; omega, h.1⟩
    · intro e he
      simp only [List.mem_cons] at he
      rcases he with he | he
      · subst he; simp only; omega
      · have := h.2 e he; simp only; omega

theorem lookupVal_mem (t : Tab) (v : List Nat) (i : Nat) (h : lookupVal t v = some i) : (i, v) ∈ t := by
  unfold lookupVal at h
  simp only [Option.map_eq_some_iff] at h
  obtain ⟨e, he, hi⟩ := h
  have hm := List.mem_of_find?_eq_some he
  have hp := List.find?_some he
  simp only [beq_iff_eq] at hp
  rw [← hi, ← hp]
  exact hm

/-- two different containers never share an id -/
theorem C14_intern_injective (t : Tab) (next : Nat) (h : IdsFresh t next) (v w : List Nat) (i : Nat)
    (hv : lookupVal t v = some i) (hw : lookupVal t w = some i) : v = w := by
  have mv := lookupVal_mem t v i hv
  have mw := lookupVal_mem t w i hw
  have h1 := h.1
  clear hv hw h
  induction t with
  | nil => cases mv
  | cons x l ih =>
    rw [List.pairwise_cons] at h1
    simp only [List.mem_cons] at mv mw
    rcases mv with mv | mv <;> rcases mw with mw | mw
    · rw [← mv] at mw; exact (Prod.mk.inj mw).2.symm
    · exact absurd (by rw [← mv]) (h1.1 (i, w) mw)
    · exact absurd (by rw [← mw]) (h1.1 (i, v) mv)
    · exact ih mv mw h1.2

/-- non-vacuity: a pass that merges two containers, and one that merges nothing -/
example : rebuildPass (fun x => if x = 2 then 1 else x) [(10, [1, 3]), (11, [2, 3]), (12, [3])]
    = ([(10, [1, 3]), (12, [3])], [(11, 10)]) := by decide
example : (rebuildPass id [(10, [1, 3]), (11, [2, 3])]).2 = [] := by decide

/-- non-vacuity of the `register_val` theorems: two registrations from the empty table -/
example : lookupVal (intern (intern [] 0 [1]).1 1 [2]).1 [2] = some 1 ∧
    lookupVal (intern (intern [] 0 [1]).1 1 [2]).1 [1] = some 0 := by decide
example : IdsFresh (intern [] 0 [1]).1 (intern [] 0 [1]).2.1 :=
  C14_intern_ids [] 0 [1] ⟨List.Pairwise.nil, fun e he => by cases he⟩
/-- non-vacuity of `C14_rebuild_stable`: a canonical table and a `find` that moves other ids -/
example : rebuildPass (fun x => if x = 9 then 1 else x) [(10, [1, 3]), (11, [2, 3])] = ([(10, [1, 3]), (11, [2, 3])], []) := by decide

end EgglogVerif.Intern
