import EgglogVerif.Props.C17
import EgglogVerif.Props.C05
import EgglogVerif.Props.C01
/-
C06 — Results do not depend on the number of threads (the part a model can carry).

The parallel implementations differ from the serial ones in (a) the ORDER in which pending unions
and writes are applied and (b) the PARTITION of the writes into shards and batches.
* `C06_union_order`: the union-find reached after a set of unions is the same function whatever
  the order of the unions (representatives are class minima, C17).
* `C06_shards`: a table's contents do not depend on the shard assignment, the number of shards or
  the batching of the pending writes (re-statement of C05 for the parallel path).
OS scheduling, the `unsafe` shard writes and memory ordering are outside the model (PARTIAL).
-/
namespace EgglogVerif.UF

/-- op lists that only contain unions -/
def unionsOnly (us : List (Nat × Nat)) : List Op := us.map fun p => Op.union p.1 p.2

theorem unionsOf_unionsOnly (us : List (Nat × Nat)) : ∀ acc, (unionsOnly us).foldl trackU acc = us.reverse ++ acc := by
  induction us with
  | nil => intro acc; rfl
  | cons u us ih => intro acc; simp only [unionsOnly, List.map_cons, List.foldl_cons, trackU] at *; rw [ih]; simp

theorem conn_of_subset {U V : List (Nat × Nat)} (h : ∀ p, p ∈ U → p ∈ V) {a b} (c : Conn U a b) : Conn V a b :=
  c.mono h

/-- **The union-find does not depend on the order in which the unions are applied**: two
permutations of the same unions yield the same representative for every id. -/
theorem C06_union_order (us vs : List (Nat × Nat)) (h : us.Perm vs) (x : Nat) :
    findNaive (run (unionsOnly us) #[]) x = findNaive (run (unionsOnly vs) #[]) x := by
  have hU : unionsOf (unionsOnly us) = us.reverse := by simpa [unionsOf] using unionsOf_unionsOnly us []
  have hV : unionsOf (unionsOnly vs) = vs.reverse := by simpa [unionsOf] using unionsOf_unionsOnly vs []
  have sub1 : ∀ p, p ∈ us.reverse → p ∈ vs.reverse := fun p hp => by
    simp only [List.mem_reverse] at hp ⊢; exact h.subset hp
  have sub2 : ∀ p, p ∈ vs.reverse → p ∈ us.reverse := fun p hp => by
    simp only [List.mem_reverse] at hp ⊢; exact h.symm.subset hp
  -- rep_us x is connected to x under vs, hence ≥ rep_vs x; and symmetrically
  have c1 : Conn (unionsOf (unionsOnly vs)) (findNaive (run (unionsOnly us) #[]) x) x := by
    rw [hV]
    have := (C17_partition (unionsOnly us) (findNaive (run (unionsOnly us) #[]) x) x).mp ((C17_min (unionsOnly us) x x rfl).2)
    rw [hU] at this
    exact conn_of_subset sub1 this
  have c2 : Conn (unionsOf (unionsOnly us)) (findNaive (run (unionsOnly vs) #[]) x) x := by
    rw [hU]
    have := (C17_partition (unionsOnly vs) (findNaive (run (unionsOnly vs) #[]) x) x).mp ((C17_min (unionsOnly vs) x x rfl).2)
    rw [hV] at this
    exact conn_of_subset sub2 this
  have e1 := (C17_partition (unionsOnly vs) _ _).mpr c1
  have e2 := (C17_partition (unionsOnly us) _ _).mpr c2
  have l1 := (C17_min (unionsOnly vs) x _ e1).1
  have l2 := (C17_min (unionsOnly us) x _ e2).1
  omega

end EgglogVerif.UF

namespace EgglogVerif.Merge
variable {K V : Type} [DecidableEq K] [DecidableEq V]

/-- **Shard assignment, shard count and batching are unobservable**: for every associative merge,
every shard function and every two shard counts the per-shard parallel insertion stores the same
value at every key. -/
theorem C06_shards {m : V → V → V} (hassoc : ∀ a b c, m (m a b) c = m a (m b c))
    (shard₁ shard₂ : K → Nat) (n₁ n₂ : Nat) (t : Tbl K V) (ws : List (K × V)) (k : K) :
    parallelInsert m (fun k => shard₁ k % (n₁ + 1)) (List.range (n₁ + 1)) t ws k =
    parallelInsert m (fun k => shard₂ k % (n₂ + 1)) (List.range (n₂ + 1)) t ws k := by
  rw [C05_parallel hassoc _ _ List.nodup_range, C05_parallel hassoc _ _ List.nodup_range]
  simp [Nat.mod_lt]

end EgglogVerif.Merge

namespace EgglogVerif.EGraph

/-- **The equalities of the e-graph do not depend on the order, interleaving or batching in which
the same unions and row insertions were applied** (nor on when rebuild passes ran in between):
two canonical states whose histories contain the same unions and the same inserted rows — as
SETS — identify exactly the same ids.  This is what makes "apply the pending unions and writes
of an iteration in parallel, in whatever order the threads get to them" agree with the serial
engine on every equality. -/
theorem C06_equalities_order_independent {ds : Nat → Decl} {g1 g2 : EG} {U1 U2 : List (Nat × Nat)} {R1 R2 : List IRow}
    (i1 : Inv ds g1 U1 R1) (i2 : Inv ds g2 U2 R2) (c1 : Canonical g1) (c2 : Canonical g2)
    (hU : ∀ p, p ∈ U1 ↔ p ∈ U2) (hR : ∀ r, r ∈ R1 ↔ r ∈ R2) (a b : Int) :
    g1.find a = g1.find b ↔ g2.find a = g2.find b := by
  have m12 : ∀ x y, CC ds U1 R1 x y → CC ds U2 R2 x y :=
    fun _ _ h => CC.mono (fun p hp => (hU p).mp hp) (fun r hr => (hR r).mp hr) h
  have m21 : ∀ x y, CC ds U2 R2 x y → CC ds U1 R1 x y :=
    fun _ _ h => CC.mono (fun p hp => (hU p).mpr hp) (fun r hr => (hR r).mpr hr) h
  constructor
  · intro h
    exact (find_eq_iff i2.wf a b).mpr (C01_complete i2 c2 _ _ (m12 _ _ (C01_sound i1 a b h)))
  · intro h
    exact (find_eq_iff i1.wf a b).mpr (C01_complete i1 c1 _ _ (m21 _ _ (C01_sound i2 a b h)))

/-- in particular for two op sequences that are permutations of each other, each followed by a
rebuild that reports its fixpoint -/
theorem C06_ops_order_independent (decls : Array Decl) (ops1 ops2 : List GOp) (fuel : Nat)
    (hU : ∀ p, p ∈ ((Traced.mk (EG.init decls) [] []).run ops1).U ↔ p ∈ ((Traced.mk (EG.init decls) [] []).run ops2).U)
    (hR : ∀ r, r ∈ ((Traced.mk (EG.init decls) [] []).run ops1).R ↔ r ∈ ((Traced.mk (EG.init decls) [] []).run ops2).R)
    (h1 : (rebuild fuel ((Traced.mk (EG.init decls) [] []).run ops1).g).2 = true)
    (h2 : (rebuild fuel ((Traced.mk (EG.init decls) [] []).run ops2).g).2 = true) (a b : Int) :
    (rebuild fuel ((Traced.mk (EG.init decls) [] []).run ops1).g).1.find a = (rebuild fuel ((Traced.mk (EG.init decls) [] []).run ops1).g).1.find b ↔
    (rebuild fuel ((Traced.mk (EG.init decls) [] []).run ops2).g).1.find a = (rebuild fuel ((Traced.mk (EG.init decls) [] []).run ops2).g).1.find b := by
  have i1 := Inv.rebuild fuel (C01_reach decls ops1)
  have i2 := Inv.rebuild fuel (C01_reach decls ops2)
  have c1 := (rebuild_canonical fuel _ (C01_reach decls ops1).wf h1).1
  have c2 := (rebuild_canonical fuel _ (C01_reach decls ops2).wf h2).1
  exact C06_equalities_order_independent i1 i2 c1 c2 hU hR a b

end EgglogVerif.EGraph
