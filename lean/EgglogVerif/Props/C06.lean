import EgglogVerif.Props.C17
import EgglogVerif.Props.C05
/-
C06 — Results do not depend on the number of threads (the part a model can carry).

The parallel implementations differ from the serial ones in (a) the ORDER in which pending unions
and writes are applied and (b) the PARTITION of the writes into shards and batches.
* `C06_union_order`: the union-find reached after a set of unions is the same function whatever
  the order of the unions (representatives are class minima, C17).
* `C06_shards`: a table's contents do not depend on the shard assignment, the number of shards or
  the batching of the pending writes (re-statement of C05 for the parallel path).
OS scheduling, the `unsafe` shard writes and memory ordering are outside the model (PARTIAL).
-/
namespace EgglogVerif.UF

/-- op lists that only contain unions -/
def unionsOnly (us : List (Nat × Nat)) : List Op := us.map fun p => Op.union p.1 p.2

theorem unionsOf_unionsOnly (us : List (Nat × Nat)) : ∀ acc, (unionsOnly us).foldl trackU acc = us.reverse ++ acc := by
  induction us with
  | nil => intro acc; rfl
  | cons u us ih => intro acc; simp only [unionsOnly, List.map_cons, List.foldl_cons, trackU] at *; rw [ih]; simp

theorem conn_of_subset {U V : List (Nat × Nat)} (h : ∀ p, p ∈ U → p ∈ V) {a b} (c : Conn U a b) : Conn V a b :=
  c.mono h

/-- **The union-find does not depend on the order in which the unions are applied**: two
permutations of the same unions yield the same representative for every id. -/
theorem C06_union_order (us vs : List (Nat × Nat)) (h : us.Perm vs) (x : Nat) :
    findNaive (run (unionsOnly us) #[]) x = findNaive (run (unionsOnly vs) #[]) x := by
  have hU : unionsOf (unionsOnly us) = us.reverse := by simpa [unionsOf] using unionsOf_unionsOnly us []
  have hV : unionsOf (unionsOnly vs) = vs.reverse := by simpa [unionsOf] using unionsOf_unionsOnly vs []
  have sub1 : ∀ p, p ∈ us.reverse → p ∈ vs.reverse := fun p hp => by
    simp only [List.mem_reverse] at hp ⊢; exact h.subset hp
  have sub2 : ∀ p, p ∈ vs.reverse → p ∈ us.reverse := fun p hp => by
    simp only [List.mem_reverse] at hp ⊢; exact h.symm.subset hp
  -- rep_us x is connected to x under vs, hence ≥ rep_vs x; and symmetrically
  have c1 : Conn (unionsOf (unionsOnly vs)) (findNaive (run (unionsOnly us) #[]) x) x := by
    rw [hV]
    have := (C17_partition (unionsOnly us) (findNaive (run (unionsOnly us) #[]) x) x).mp ((C17_min (unionsOnly us) x x rfl).2)
    rw [hU] at this
    exact conn_of_subset sub1 this
  have c2 : Conn (unionsOf (unionsOnly us)) (findNaive (run (unionsOnly vs) #[]) x) x := by
    rw [hU]
    have := (C17_partition (unionsOnly vs) (findNaive (run (unionsOnly vs) #[]) x) x).mp ((C17_min (unionsOnly vs) x x rfl).2)
    rw [hV] at this
    exact conn_of_subset sub2 this
  have e1 := (C17_partition (unionsOnly vs) _ _).mpr c1
  have e2 := (C17_partition (unionsOnly us) _ _).mpr c2
  have l1 := (C17_min (unionsOnly vs) x _ e1).1
  have l2 := (C17_min (unionsOnly us) x _ e2).1
  omega

end EgglogVerif.UF

namespace EgglogVerif.Merge
variable {K V : Type} [DecidableEq K] [DecidableEq V]

/-- **Shard assignment, shard count and batching are unobservable**: for every associative merge,
every shard function and every two shard counts the per-shard parallel insertion stores the same
value at every key. -/
theorem C06_shards {m : V → V → V} (hassoc : ∀ a b c, m (m a b) c = m a (m b c))
    (shard₁ shard₂ : K → Nat) (n₁ n₂ : Nat) (t : Tbl K V) (ws : List (K × V)) (k : K) :
    parallelInsert m (fun k => shard₁ k % (n₁ + 1)) (List.range (n₁ + 1)) t ws k =
    parallelInsert m (fun k => shard₂ k % (n₂ + 1)) (List.range (n₂ + 1)) t ws k := by
  rw [C05_parallel hassoc _ _ List.nodup_range, C05_parallel hassoc _ _ List.nodup_range]
  simp [Nat.mod_lt]

end EgglogVerif.Merge
