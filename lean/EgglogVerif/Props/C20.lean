/-
C20 — Single-threaded runs are reproducible (the part a model can carry).

A Lean model is a function, so "same program ⇒ same output" is trivially true of it; what can be
PROVED is that the places where the engine's output passes through an unordered collection are
insensitive to that collection's iteration order.  `print-size` collects `(name, size)` pairs out of
a hash map and sorts them by name (`src/lib.rs`, `lens.sort_by_key`); run reports sum per-rule
counters out of hash maps.  Names are abstracted to their rank (a `Nat` key).
-/
namespace EgglogVerif.Repro

abbrev Entry := Nat × Nat

def leKey (a b : Entry) : Bool := a.1 ≤ b.1

/-- `lens.sort_by_key(|(name, _)| name)` -/
def printSize (l : List Entry) : List Entry := l.mergeSort leKey

theorem sorted_perm_eq : ∀ (l₁ l₂ : List Entry), l₁.Perm l₂ →
    l₁.Pairwise (fun a b => a.1 < b.1) → l₂.Pairwise (fun a b => a.1 < b.1) → l₁ = l₂ := by
  intro l₁
  induction l₁ with
  | nil => intro l₂ h _ _; exact (List.Perm.nil_eq h)
  | cons a t ih =>
    intro l₂ h p1 p2
    cases l₂ with
    | nil => exact absurd h.symm (by simp)
    | cons b t2 =>
      have ha : a ∈ b :: t2 := h.subset List.mem_cons_self
      have hb : b ∈ a :: t := h.symm.subset List.mem_cons_self
      have hab : a = b := by
        rcases List.mem_cons.mp ha with rfl | ha'
        · rfl
        · rcases List.mem_cons.mp hb with rfl | hb'
          · rfl
          · have h1 := (List.pairwise_cons.mp p2).1 a ha'
            have h2 := (List.pairwise_cons.mp p1).1 b hb'
            omega
      subst hab
      rw [ih t2 h.cons_inv (List.pairwise_cons.mp p1).2 (List.pairwise_cons.mp p2).2]

theorem printSize_sorted (l : List Entry) (hnd : (l.map (·.1)).Nodup) :
    (printSize l).Pairwise (fun a b => a.1 < b.1) := by
  have hle : (printSize l).Pairwise (fun a b => leKey a b = true) :=
    List.pairwise_mergeSort (fun a b c h1 h2 => by simp [leKey] at *; omega)
      (fun a b => by simp [leKey]; omega) l
  have hperm : (printSize l).Perm l := List.mergeSort_perm l leKey
  have hnd' : ((printSize l).map (·.1)).Nodup := (hperm.map _).nodup_iff.mpr hnd
  -- ≤ between positions plus distinct keys gives <
  have key : ∀ (m : List Entry), m.Pairwise (fun a b => leKey a b = true) → (m.map (·.1)).Nodup →
      m.Pairwise (fun a b => a.1 < b.1) := by
    intro m
    induction m with
    | nil => intro _ _; exact List.Pairwise.nil
    | cons x xs ih =>
      intro hp hn
      rw [List.pairwise_cons] at hp ⊢
      rw [List.map_cons, List.nodup_cons] at hn
      refine ⟨fun y hy => ?_, ih hp.2 hn.2⟩
      have h1 := hp.1 y hy
      simp [leKey] at h1
      have : x.1 ≠ y.1 := fun e => hn.1 (e ▸ List.mem_map.mpr ⟨y, hy, rfl⟩)
      omega
  exact key _ hle hnd'

/-- **`print-size` does not depend on the hash map's iteration order**: any two enumerations of the
same set of (distinctly named) functions print identically. -/
theorem C20_printSize (l₁ l₂ : List Entry) (h : l₁.Perm l₂) (hnd : (l₁.map (·.1)).Nodup) :
    printSize l₁ = printSize l₂ := by
  have hnd2 : (l₂.map (·.1)).Nodup := (h.map _).nodup_iff.mp hnd
  exact sorted_perm_eq _ _
    (((List.mergeSort_perm l₁ leKey).trans h).trans (List.mergeSort_perm l₂ leKey).symm)
    (printSize_sorted l₁ hnd) (printSize_sorted l₂ hnd2)

/-- per-rule counters of a run report are summed: the total for a rule does not depend on the
order in which the per-iteration maps are merged (`RunReport::union_counts`) -/
def total (key : Nat) (l : List Entry) : Nat := (l.filter (·.1 = key)).foldl (fun s e => s + e.2) 0

theorem foldl_add_perm : ∀ {l₁ l₂ : List Entry}, l₁.Perm l₂ → ∀ s, l₁.foldl (fun s e => s + e.2) s = l₂.foldl (fun s e => s + e.2) s := by
  intro l₁ l₂ h
  induction h with
  | nil => intro s; rfl
  | cons x _ ih => intro s; simp [List.foldl, ih]
  | swap x y l => intro s; simp only [List.foldl]; congr 1; omega
  | trans _ _ ih1 ih2 => intro s; rw [ih1, ih2]

theorem C20_report (key : Nat) (l₁ l₂ : List Entry) (h : l₁.Perm l₂) : total key l₁ = total key l₂ :=
  foldl_add_perm (h.filter _) 0

example : printSize [(3, 10), (1, 5), (2, 7)] = printSize [(2, 7), (3, 10), (1, 5)] :=
  C20_printSize _ _ (by decide) (by decide)

end EgglogVerif.Repro
