/-
C03 — Semi-naive evaluation is observationally identical to naive evaluation: the delta
decomposition (`egglog-bridge/src/rule.rs`, `add_rules_from_cached`: one variant per atom,
"atoms before the focus read the OLD rows, the focus atom the NEW rows, atoms after it ALL rows").

Tuples of a join are modelled as lists choosing one row per atom; the join condition
(consistent substitution, guards) is an arbitrary predicate `ok` on such tuples, which is a
filter and therefore distributes over the decomposition.
-/
namespace EgglogVerif.Seminaive

variable {Row : Type}

/-- all ways of choosing one row per atom, in atom order -/
def product : List (List Row) → List (List Row)
  | [] => [[]]
  | rows :: rest => rows.flatMap fun r => (product rest).map (r :: ·)

/-- the N variants, as the code enumerates them -/
def deltaMatches : List (List Row) → List (List Row) → List (List Row)
  | [], [] => []
  | o :: os, n :: ns =>
    -- focus on the first atom: new × all …
    (n.flatMap fun r => (product ((os.zip ns).map fun p => p.1 ++ p.2)).map (r :: ·)) ++
    -- … or the first atom is old and the focus is further right
    (o.flatMap fun r => (deltaMatches os ns).map (r :: ·))
  | _, _ => []

/-- position `i` of tuple `t` holds a row of `rows[i]` -/
def At (rows : List (List Row)) (t : List Row) (i : Nat) : Prop :=
  ∃ r l, t[i]? = some r ∧ rows[i]? = some l ∧ r ∈ l

theorem mem_product : ∀ (rows : List (List Row)) (t : List Row),
    t ∈ product rows ↔ t.length = rows.length ∧ ∀ i, i < rows.length → At rows t i := by
  intro rows
  induction rows with
  | nil =>
    intro t
    simp only [product, List.mem_singleton, List.length_nil]
    constructor
    · rintro rfl; exact ⟨rfl, fun i h => absurd h (by simp)⟩
    · rintro ⟨h, _⟩; exact List.eq_nil_of_length_eq_zero h
  | cons r rest ih =>
    intro t
    simp only [product, List.mem_flatMap, List.mem_map]
    constructor
    · rintro ⟨x, hx, t', ht', rfl⟩
      obtain ⟨hl, hm⟩ := (ih t').mp ht'
      refine ⟨by simp [hl], fun i hi => ?_⟩
      cases i with
      | zero => exact ⟨x, r, by simp, by simp, hx⟩
      | succ i =>
        obtain ⟨a, l, h1, h2, h3⟩ := hm i (by simpa using hi)
        exact ⟨a, l, by simpa using h1, by simpa using h2, h3⟩
    · rintro ⟨hl, hm⟩
      cases t with
      | nil => simp at hl
      | cons x t' =>
        obtain ⟨a, l, h1, h2, h3⟩ := hm 0 (by simp)
        simp at h1 h2; subst h1 h2
        refine ⟨x, h3, t', (ih t').mpr ⟨by simpa using hl, fun i hi => ?_⟩, rfl⟩
        obtain ⟨b, l', g1, g2, g3⟩ := hm (i + 1) (by simpa using hi)
        exact ⟨b, l', by simpa using g1, by simpa using g2, g3⟩

/-- **Nothing is lost and nothing is invented by the delta decomposition**: a tuple is produced by
some semi-naive variant iff it is a match over ALL rows that uses a NEW row at some position. -/
theorem C03_delta : ∀ (old new : List (List Row)) (t : List Row), old.length = new.length →
    (t ∈ deltaMatches old new ↔
      t ∈ product ((old.zip new).map fun p => p.1 ++ p.2) ∧ ∃ i, At new t i) := by
  intro old
  induction old with
  | nil =>
    intro new t hl
    cases new with
    | nil =>
      simp only [deltaMatches, product, List.zip_nil_left, List.map_nil, List.mem_singleton, List.not_mem_nil, false_iff]
      rintro ⟨rfl, i, r, l, h1, _⟩; simp at h1
    | cons _ _ => simp at hl
  | cons o os ih =>
    intro new t hl
    cases new with
    | nil => simp at hl
    | cons n ns =>
      have hl' : os.length = ns.length := by simpa using hl
      simp only [deltaMatches, List.mem_append, List.mem_flatMap, List.mem_map, List.zip_cons_cons, List.map_cons, product]
      constructor
      · rintro (⟨x, hx, t', ht', rfl⟩ | ⟨x, hx, t', ht', rfl⟩)
        · exact ⟨⟨x, Or.inr hx, t', ht', rfl⟩, 0, x, n, by simp, by simp, hx⟩
        · obtain ⟨hp, i, r, l, h1, h2, h3⟩ := (ih ns t' hl').mp ht'
          exact ⟨⟨x, Or.inl hx, t', hp, rfl⟩, i + 1, r, l, by simpa using h1, by simpa using h2, h3⟩
      · rintro ⟨⟨x, hx, t', ht', rfl⟩, i, r, l, h1, h2, h3⟩
        rcases hx with hxo | hxn
        · cases i with
          | zero =>
            simp at h1 h2; subst h1 h2
            left; exact ⟨x, h3, t', ht', rfl⟩
          | succ i =>
            right
            exact ⟨x, hxo, t', (ih ns t' hl').mpr ⟨ht', i, r, l, by simpa using h1, by simpa using h2, h3⟩, rfl⟩
        · left; exact ⟨x, hxn, t', ht', rfl⟩

/-- the join condition is a filter: it commutes with the decomposition -/
theorem C03_delta_filtered (ok : List Row → Bool) (old new : List (List Row)) (t : List Row) (hl : old.length = new.length) :
    t ∈ (deltaMatches old new).filter ok ↔
      (t ∈ (product ((old.zip new).map fun p => p.1 ++ p.2)).filter ok ∧ ∃ i, At new t i) := by
  simp only [List.mem_filter, C03_delta old new t hl]
  constructor
  · rintro ⟨⟨a, b⟩, c⟩; exact ⟨⟨a, c⟩, b⟩
  · rintro ⟨⟨a, c⟩, b⟩; exact ⟨⟨a, b⟩, c⟩

example : deltaMatches [[1], [10]] [[2], [20]] = [[2, 10], [2, 20], [1, 20]] := by decide

end EgglogVerif.Seminaive
