/-
C03 — Semi-naive evaluation is observationally identical to naive evaluation: the delta
decomposition (`egglog-bridge/src/rule.rs`, `add_rules_from_cached`: one variant per atom,
"atoms before the focus read the OLD rows, the focus atom the NEW rows, atoms after it ALL rows").

Tuples of a join are modelled as lists choosing one row per atom; the join condition
(consistent substitution, guards) is an arbitrary predicate `ok` on such tuples, which is a
filter and therefore distributes over the decomposition.
-/
namespace EgglogVerif.Seminaive

variable {Row : Type}

/-- all ways of choosing one row per atom, in atom order -/
def product : List (List Row) → List (List Row)
  | [] => [[]]
  | rows :: rest => rows.flatMap fun r => (product rest).map (r :: ·)

/-- the N variants, as the code enumerates them -/
def deltaMatches : List (List Row) → List (List Row) → List (List Row)
  | [], [] => []
  | o :: os, n :: ns =>
    -- focus on the first atom: new × all …
    (n.flatMap fun r => (product ((os.zip ns).map fun p => p.1 ++ p.2)).map (r :: ·)) ++
    -- … or the first atom is old and the focus is further right
    (o.flatMap fun r => (deltaMatches os ns).map (r :: ·))
  | _, _ => []

/-- position `i` of tuple `t` holds a row of `rows[i]` -/
def At (rows : List (List Row)) (t : List Row) (i : Nat) : Prop :=
  ∃ r l, t[i]? = some r ∧ rows[i]? = some l ∧ r ∈ l

theorem mem_product : ∀ (rows : List (List Row)) (t : List Row),
    t ∈ product rows ↔ t.length = rows.length ∧ ∀ i, i < rows.length → At rows t i := by
  intro rows
  induction rows with
  | nil =>
    intro t
    simp only [product, List.mem_singleton, List.length_nil]
    constructor
    · rintro rfl; exact ⟨rfl, fun i h => absurd h (by simp)⟩
    · rintro ⟨h, _⟩; exact List.eq_nil_of_length_eq_zero h
  | cons r rest ih =>
    intro t
    simp only [product, List.mem_flatMap, List.mem_map]
    constructor
    · rintro ⟨x, hx, t', ht', rfl⟩
      obtain ⟨hl, hm⟩ := (ih t').mp ht'
      refine ⟨by simp [hl], fun i hi => ?_⟩
      cases i with
      | zero => exact ⟨x, r, by simp, by simp, hx⟩
      | succ i =>
        obtain ⟨a, l, h1, h2, h3⟩ := hm i (by simpa using hi)
        exact ⟨a, l, by simpa using h1, by simpa using h2, h3⟩
    · rintro ⟨hl, hm⟩
      cases t with
      | nil => simp at hl
      | cons x t' =>
        obtain ⟨a, l, h1, h2, h3⟩ := hm 0 (by simp)
        simp at h1 h2; subst h1 h2
        refine ⟨x, h3, t', (ih t').mpr ⟨by simpa using hl, fun i hi => ?_⟩, rfl⟩
        obtain ⟨b, l', g1, g2, g3⟩ := hm (i + 1) (by simpa using hi)
        exact ⟨b, l', by simpa using g1, by simpa using g2, g3⟩

/-- **Nothing is lost and nothing is invented by the delta decomposition**: a tuple is produced by
some semi-naive variant iff it is a match over ALL rows that uses a NEW row at some position. -/
theorem C03_delta : ∀ (old new : List (List Row)) (t : List Row), old.length = new.length →
    (t ∈ deltaMatches old new ↔
      t ∈ product ((old.zip new).map fun p => p.1 ++ p.2) ∧ ∃ i, At new t i) := by
  intro old
  induction old with
  | nil =>
    intro new t hl
    cases new with
    | nil =>
      simp only [deltaMatches, product, List.zip_nil_left, List.map_nil, List.mem_singleton, List.not_mem_nil, false_iff]
      rintro ⟨rfl, i, r, l, h1, _⟩; simp at h1
    | cons _ _ => simp at hl
  | cons o os ih =>
    intro new t hl
    cases new with
    | nil => simp at hl
    | cons n ns =>
      have hl' : os.length = ns.length := by simpa using hl
      simp only [deltaMatches, List.mem_append, List.mem_flatMap, List.mem_map, List.zip_cons_cons, List.map_cons, product]
      constructor
      · rintro (⟨x, hx, t', ht', rfl⟩ | ⟨x, hx, t', ht', rfl⟩)
        · exact ⟨⟨x, Or.inr hx, t', ht', rfl⟩, 0, x, n, by simp, by simp, hx⟩
        · obtain ⟨hp, i, r, l, h1, h2, h3⟩ := (ih ns t' hl').mp ht'
          exact ⟨⟨x, Or.inl hx, t', hp, rfl⟩, i + 1, r, l, by simpa using h1, by simpa using h2, h3⟩
      · rintro ⟨⟨x, hx, t', ht', rfl⟩, i, r, l, h1, h2, h3⟩
        rcases hx with hxo | hxn
        · cases i with
          | zero =>
            simp at h1 h2; subst h1 h2
            left; exact ⟨x, h3, t', ht', rfl⟩
          | succ i =>
            right
            exact ⟨x, hxo, t', (ih ns t' hl').mpr ⟨ht', i, r, l, by simpa using h1, by simpa using h2, h3⟩, rfl⟩
        · left; exact ⟨x, hxn, t', ht', rfl⟩

/-- the join condition is a filter: it commutes with the decomposition -/
theorem C03_delta_filtered (ok : List Row → Bool) (old new : List (List Row)) (t : List Row) (hl : old.length = new.length) :
    t ∈ (deltaMatches old new).filter ok ↔
      (t ∈ (product ((old.zip new).map fun p => p.1 ++ p.2)).filter ok ∧ ∃ i, At new t i) := by
  simp only [List.mem_filter, C03_delta old new t hl]
  constructor
  · rintro ⟨⟨a, b⟩, c⟩; exact ⟨⟨a, c⟩, b⟩
  · rintro ⟨⟨a, c⟩, b⟩; exact ⟨⟨a, b⟩, c⟩

example : deltaMatches [[1], [10]] [[2], [20]] = [[2, 10], [2, 20], [1, 20]] := by decide

/-! ### whole iterations: the semi-naive sequence of databases equals the naive one -/

/-- a rule: the table each body atom reads, the join condition, and the facts its head writes for a match -/
structure SRule (Row : Type) where
  atoms : List Nat
  ok : List Row → Bool
  head : List Row → List (Nat × Row)

/-- a database: the rows of each table (lists read as sets) -/
abbrev SDB (Row : Type) := Nat → List Row

def SDB.has (D : SDB Row) (f : Nat × Row) : Prop := f.2 ∈ D f.1

/-- facts written by one naive iteration of the rules over `D` -/
def naiveOut (rules : List (SRule Row)) (D : SDB Row) : List (Nat × Row) :=
  rules.flatMap fun r => ((product (r.atoms.map D)).filter r.ok).flatMap r.head

/-- facts written by one semi-naive iteration: only the delta variants -/
def semiOut (rules : List (SRule Row)) (old new : SDB Row) : List (Nat × Row) :=
  rules.flatMap fun r => ((deltaMatches (r.atoms.map old) (r.atoms.map new)).filter r.ok).flatMap r.head

theorem zip_map_append (atoms : List Nat) (old new : SDB Row) :
    ((atoms.map old).zip (atoms.map new)).map (fun p => p.1 ++ p.2) = atoms.map (fun a => old a ++ new a) := by
  induction atoms with
  | nil => rfl
  | cons a as ih => simp [ih]

/-- the tuple lies within the OLD rows of every atom -/
theorem product_old_or_new (atoms : List Nat) (old new : SDB Row) (t : List Row)
    (ht : t ∈ product (atoms.map (fun a => old a ++ new a))) :
    t ∈ product (atoms.map old) ∨ ∃ i, At (atoms.map new) t i := by
  induction atoms generalizing t with
  | nil => left; simpa [product] using ht
  | cons a as ih =>
    simp only [List.map_cons, product, List.mem_flatMap, List.mem_map] at ht
    obtain ⟨x, hx, t', ht', rfl⟩ := ht
    rcases List.mem_append.mp hx with hxo | hxn
    · rcases ih t' ht' with h | ⟨i, r, l, h1, h2, h3⟩
      · left
        simp only [List.map_cons, product, List.mem_flatMap, List.mem_map]
        exact ⟨x, hxo, t', h, rfl⟩
      · right; exact ⟨i + 1, r, l, by simpa using h1, by simpa using h2, h3⟩
    · right; exact ⟨0, x, new a, by simp, by simp, hxn⟩

theorem product_mono (atoms : List Nat) (A B : SDB Row) (h : ∀ a r, r ∈ A a → r ∈ B a) (t : List Row)
    (ht : t ∈ product (atoms.map A)) : t ∈ product (atoms.map B) := by
  induction atoms generalizing t with
  | nil => simpa [product] using ht
  | cons a as ih =>
    simp only [List.map_cons, product, List.mem_flatMap, List.mem_map] at ht ⊢
    obtain ⟨x, hx, t', ht', rfl⟩ := ht
    exact ⟨x, h a x hx, t', ih t' ht', rfl⟩

/-- everything the rules derive from the OLD rows alone is already in the database -/
def Applied (rules : List (SRule Row)) (old new : SDB Row) : Prop :=
  ∀ f, f ∈ naiveOut rules old → f.2 ∈ old f.1 ++ new f.1

/-- **One iteration**: provided the matches over the old rows were applied before, the semi-naive
iteration writes — up to facts that are already present — exactly what the naive iteration over
the whole database writes: no match is lost, none is invented. -/
theorem C03_iteration (rules : List (SRule Row)) (old new : SDB Row) (hap : Applied rules old new) (f : Nat × Row) :
    (f ∈ semiOut rules old new ∨ f.2 ∈ old f.1 ++ new f.1) ↔
    (f ∈ naiveOut rules (fun a => old a ++ new a) ∨ f.2 ∈ old f.1 ++ new f.1) := by
  constructor
  · rintro (h | h)
    · left
      simp only [semiOut, naiveOut, List.mem_flatMap, List.mem_filter] at h ⊢
      obtain ⟨r, hr, t, ⟨ht, hok⟩, hf⟩ := h
      have := (C03_delta (r.atoms.map old) (r.atoms.map new) t (by simp)).mp ht
      rw [zip_map_append] at this
      exact ⟨r, hr, t, ⟨this.1, hok⟩, hf⟩
    · exact Or.inr h
  · rintro (h | h)
    · simp only [naiveOut, List.mem_flatMap, List.mem_filter] at h
      obtain ⟨r, hr, t, ⟨ht, hok⟩, hf⟩ := h
      rcases product_old_or_new r.atoms old new t ht with hold | hnew
      · right
        apply hap
        simp only [naiveOut, List.mem_flatMap, List.mem_filter]
        exact ⟨r, hr, t, ⟨hold, hok⟩, hf⟩
      · left
        simp only [semiOut, List.mem_flatMap, List.mem_filter]
        refine ⟨r, hr, t, ⟨?_, hok⟩, hf⟩
        apply (C03_delta (r.atoms.map old) (r.atoms.map new) t (by simp)).mpr
        rw [zip_map_append]
        exact ⟨ht, hnew⟩
    · exact Or.inr h

/-- add facts to a database -/
def addFacts (D : SDB Row) (fs : List (Nat × Row)) : SDB Row :=
  fun a => D a ++ (fs.filter (fun f => f.1 = a)).map (·.2)

theorem mem_addFacts (D : SDB Row) (fs : List (Nat × Row)) (a : Nat) (r : Row) :
    r ∈ addFacts D fs a ↔ r ∈ D a ∨ (a, r) ∈ fs := by
  unfold addFacts
  simp only [List.mem_append, List.mem_map, List.mem_filter, decide_eq_true_eq]
  constructor
  · rintro (h | ⟨f, ⟨hf, rfl⟩, rfl⟩)
    · exact Or.inl h
    · exact Or.inr hf
  · rintro (h | h)
    · exact Or.inl h
    · exact Or.inr ⟨(a, r), ⟨h, rfl⟩, rfl⟩

/-- `k` naive iterations -/
def naiveRun (rules : List (SRule Row)) : Nat → SDB Row → SDB Row
  | 0, D => D
  | k + 1, D => naiveRun rules k (addFacts D (naiveOut rules D))

/-- `k` semi-naive iterations on (old, new): the new rows become old, the facts just written new -/
def semiRun (rules : List (SRule Row)) : Nat → SDB Row × SDB Row → SDB Row × SDB Row
  | 0, s => s
  | k + 1, (old, new) =>
    semiRun rules k (fun a => old a ++ new a, fun a => ((semiOut rules old new).filter (fun f => f.1 = a)).map (·.2))

/-- two databases with the same facts -/
def SameFacts (A B : SDB Row) : Prop := ∀ a r, r ∈ A a ↔ r ∈ B a

theorem naiveOut_congr (rules : List (SRule Row)) {A B : SDB Row} (h : SameFacts A B) (f : Nat × Row) :
    f ∈ naiveOut rules A ↔ f ∈ naiveOut rules B := by
  simp only [naiveOut, List.mem_flatMap, List.mem_filter]
  constructor
  · rintro ⟨r, hr, t, ⟨ht, hok⟩, hf⟩
    exact ⟨r, hr, t, ⟨product_mono r.atoms A B (fun a x hx => (h a x).mp hx) t ht, hok⟩, hf⟩
  · rintro ⟨r, hr, t, ⟨ht, hok⟩, hf⟩
    exact ⟨r, hr, t, ⟨product_mono r.atoms B A (fun a x hx => (h a x).mpr hx) t ht, hok⟩, hf⟩

theorem naiveRun_congr (rules : List (SRule Row)) : ∀ (k : Nat) {A B : SDB Row}, SameFacts A B →
    SameFacts (naiveRun rules k A) (naiveRun rules k B) := by
  intro k
  induction k with
  | zero => intro A B h; exact h
  | succ k ih =>
    intro A B h
    apply ih
    intro a r
    rw [mem_addFacts, mem_addFacts, h a r, naiveOut_congr rules h]

/-- **Every iteration of every schedule of single-ruleset runs**: starting from a database all of
whose rows are new (nothing applied yet), after any number `k` of iterations the semi-naive engine
and the naive engine hold exactly the same facts. -/
theorem C03_run (rules : List (SRule Row)) : ∀ (k : Nat) (old new : SDB Row), Applied rules old new →
    SameFacts (fun a => (semiRun rules k (old, new)).1 a ++ (semiRun rules k (old, new)).2 a)
      (naiveRun rules k (fun a => old a ++ new a)) := by
  intro k
  induction k with
  | zero => intro old new _ a r; exact Iff.rfl
  | succ k ih =>
    intro old new hap
    simp only [semiRun, naiveRun]
    -- the next semi-naive state has applied everything derivable from its old rows
    have hap' : Applied rules (fun a => old a ++ new a)
        (fun a => ((semiOut rules old new).filter (fun f => f.1 = a)).map (·.2)) := by
      intro f hf
      have := (C03_iteration rules old new hap f).mpr (Or.inl hf)
      rcases this with h | h
      · apply List.mem_append_right
        simp only [List.mem_map, List.mem_filter, decide_eq_true_eq]
        exact ⟨f, ⟨h, rfl⟩, rfl⟩
      · exact List.mem_append_left _ h
    have step := ih (fun a => old a ++ new a)
      (fun a => ((semiOut rules old new).filter (fun f => f.1 = a)).map (·.2)) hap'
    intro a r
    rw [step a r]
    apply naiveRun_congr rules k
    intro a r
    rw [mem_addFacts]
    have key := C03_iteration rules old new hap (a, r)
    simp only at key
    constructor
    · intro h
      rcases List.mem_append.mp h with h | h
      · exact Or.inl h
      · simp only [List.mem_map, List.mem_filter, decide_eq_true_eq] at h
        obtain ⟨f, ⟨hf, rfl⟩, rfl⟩ := h
        rcases key.mp (Or.inl hf) with h' | h'
        · exact Or.inr h'
        · exact Or.inl h'
    · rintro (h | h)
      · exact List.mem_append_left _ h
      · rcases key.mpr (Or.inl h) with h' | h'
        · apply List.mem_append_right
          simp only [List.mem_map, List.mem_filter, decide_eq_true_eq]
          exact ⟨(a, r), ⟨h', rfl⟩, rfl⟩
        · exact List.mem_append_left _ h'

/-- from a fresh database (everything new, nothing old) the hypothesis holds trivially whenever no
rule has an empty body (a rule without atoms would fire on the empty old database) -/
theorem C03_run_fresh (rules : List (SRule Row)) (hne : ∀ r ∈ rules, r.atoms ≠ []) (k : Nat) (D : SDB Row) :
    SameFacts (fun a => (semiRun rules k (fun _ => [], D)).1 a ++ (semiRun rules k (fun _ => [], D)).2 a)
      (naiveRun rules k D) := by
  have hap : Applied rules (fun _ => []) D := by
    intro f hf
    simp only [naiveOut, List.mem_flatMap, List.mem_filter] at hf
    obtain ⟨r, hr, t, ⟨ht, _⟩, _⟩ := hf
    exfalso
    have hne' := hne r hr
    cases hra : r.atoms with
    | nil => exact hne' hra
    | cons a as => rw [hra] at ht; simp [product] at ht
  have := C03_run rules k (fun _ => []) D hap
  intro a r
  rw [this a r]
  apply naiveRun_congr rules k
  intro a r; simp

end EgglogVerif.Seminaive
