import EgglogVerif.Model.ProofCk
/-
C12 — the checker accepts a proof only if each step is justified (equational layer).

`C12_sound`: if the structural checker accepts a proof, then in EVERY interpretation of the terms
that respects congruence and validates the leaf propositions (the steps justified by the program:
Fiat, Rule, MergeFn), every proposition of the proof holds — in particular its conclusion.  So a
proof with a swapped `Trans`, a wrong congruence index or a substituted term is accepted only if
the altered step is itself derivable.
-/
namespace EgglogVerif.ProofCk

/-- an interpretation of term ids that respects congruence over the term table -/
def Congruent (terms : Array Term) (den : Nat → Nat) : Prop :=
  ∀ a b ta tb, terms[a]? = some ta → terms[b]? = some tb → ta.head = tb.head →
    ta.kids.map den = tb.kids.map den → den a = den b

def Holds (den : Nat → Nat) (s : Step) : Prop := den s.lhs = den s.rhs

theorem map_set (den : Nat → Nat) : ∀ (kids : List Nat) (i c : Nat) (x : Nat), kids[i]? = some x → den x = den c →
    (kids.set i c).map den = kids.map den := by
  intro kids
  induction kids with
  | nil => intro i c x h; simp at h
  | cons k ks ih =>
    intro i c x h hd
    cases i with
    | zero => simp at h; subst h; simp [hd]
    | succ i => simp at h; simp [ih i c x h hd]

theorem stepOk_sound {terms : Array Term} {den : Nat → Nat} (hc : Congruent terms den)
    {prev : List Step} (hprev : ∀ s ∈ prev, Holds den s) {s : Step}
    {prog : Prog}
    (hleaf : s.just = .leaf ∨ s.just = .fiat → Holds den s) (hrule : ∀ r ps σ, s.just = .rule r ps σ → Holds den s)
    (hok : stepOk prog terms prev s = true) : Holds den s := by
  unfold stepOk at hok
  cases hj : s.just with
  | leaf => exact hleaf (.inl hj)
  | fiat => exact hleaf (.inr hj)
  | rule r ps σ => exact hrule r ps σ hj
  | sym p =>
    rw [hj] at hok
    simp only at hok
    cases hp : prev[p]? with
    | none => rw [hp] at hok; simp at hok
    | some sp =>
      rw [hp] at hok
      simp only [Bool.and_eq_true, beq_iff_eq] at hok
      have := hprev sp (List.mem_of_getElem? hp)
      unfold Holds at *
      rw [hok.1, hok.2]; exact this.symm
  | trans p q =>
    rw [hj] at hok
    simp only at hok
    cases hp : prev[p]? with
    | none => rw [hp] at hok; simp at hok
    | some sp =>
      cases hq : prev[q]? with
      | none => rw [hp, hq] at hok; simp at hok
      | some sq =>
        rw [hp, hq] at hok
        simp only [Bool.and_eq_true, beq_iff_eq] at hok
        have h1 := hprev sp (List.mem_of_getElem? hp)
        have h2 := hprev sq (List.mem_of_getElem? hq)
        unfold Holds at *
        rw [hok.1.2, hok.2, h1, hok.1.1, h2]
  | congr p i q =>
    rw [hj] at hok
    simp only at hok
    cases hp : prev[p]? with
    | none => rw [hp] at hok; simp at hok
    | some sp =>
      cases hq : prev[q]? with
      | none => rw [hp, hq] at hok; simp at hok
      | some sq =>
        rw [hp, hq] at hok
        simp only at hok
        cases ht : terms[sp.rhs]? with
        | none => rw [ht] at hok; simp at hok
        | some t =>
          cases ht' : terms[s.rhs]? with
          | none => rw [ht, ht'] at hok; simp at hok
          | some t' =>
            rw [ht, ht'] at hok
            simp only [Bool.and_eq_true, beq_iff_eq, decide_eq_true_eq] at hok
            obtain ⟨⟨⟨⟨h1, h2⟩, _⟩, h4⟩, h5⟩ := hok
            have hp' := hprev sp (List.mem_of_getElem? hp)
            have hq' := hprev sq (List.mem_of_getElem? hq)
            unfold Holds at *
            rw [h1, hp']
            apply hc sp.rhs s.rhs t t' ht ht' h2
            rw [h5]
            exact (map_set den t.kids i sq.rhs sq.lhs h4 hq').symm

theorem checkFrom_sound {terms : Array Term} {den : Nat → Nat} (hc : Congruent terms den) {prog : Prog} :
    ∀ (steps prev : List Step), (∀ s ∈ prev, Holds den s) →
      (∀ s ∈ steps, s.just = .leaf ∨ s.just = .fiat → Holds den s) →
      (∀ s ∈ steps, ∀ r ps σ, s.just = .rule r ps σ → Holds den s) → checkFrom prog terms prev steps = true →
      ∀ s ∈ steps, Holds den s := by
  intro steps
  induction steps with
  | nil => intro prev _ _ _ _ s hs; cases hs
  | cons s rest ih =>
    intro prev hprev hleaf hrule hok x hx
    simp only [checkFrom, Bool.and_eq_true] at hok
    have hs : Holds den s := stepOk_sound hc hprev (hleaf s List.mem_cons_self) (hrule s List.mem_cons_self) hok.1
    rcases List.mem_cons.mp hx with rfl | hx'
    · exact hs
    · refine ih (prev ++ [s]) ?_ (fun y hy => hleaf y (List.mem_cons_of_mem _ hy))
        (fun y hy => hrule y (List.mem_cons_of_mem _ hy)) hok.2 x hx'
      intro y hy
      rcases List.mem_append.mp hy with h | h
      · exact hprev y h
      · simp at h; subst h; exact hs

/-- **Soundness of the structural checker** (equational layer): an accepted proof proves only what
follows from its program-justified steps (leaves, fiat and rule steps — for the latter two see
`C12_rule_sound` in C12r) by symmetry, transitivity and congruence. -/
theorem C12_sound (prog : Prog) (terms : Array Term) (steps : List Step) (den : Nat → Nat) (hc : Congruent terms den)
    (hleaf : ∀ s ∈ steps, s.just = .leaf ∨ s.just = .fiat → Holds den s)
    (hrule : ∀ s ∈ steps, ∀ r ps σ, s.just = .rule r ps σ → Holds den s)
    (hok : checkProof prog terms steps = true) :
    ∀ s ∈ steps, Holds den s :=
  checkFrom_sound hc steps [] (fun s h => by cases h) hleaf hrule hok

/-- a step that refers to a later (or missing) step is never accepted: proofs are well-founded -/
theorem C12_wellfounded (prog : Prog) (terms : Array Term) (prev : List Step) (p : Nat) (l r : Nat) (h : prev.length ≤ p) :
    stepOk prog terms prev ⟨.sym p, l, r⟩ = false := by
  simp [stepOk, List.getElem?_eq_none h]

/-- swapping the operands of a `Trans` whose middle terms differ is rejected -/
theorem C12_swapped_trans_rejected (prog : Prog) (terms : Array Term) (prev : List Step) (p q : Nat) (sp sq : Step)
    (hp : prev[p]? = some sp) (hq : prev[q]? = some sq) (hne : sq.rhs ≠ sp.lhs) (l r : Nat) :
    stepOk prog terms prev ⟨.trans q p, l, r⟩ = false := by
  simp [stepOk, hp, hq, hne]

/-- non-vacuity: f(a) = f(b) from a = b -/
example : checkProof ⟨[], [], []⟩ #[⟨0, []⟩, ⟨1, []⟩, ⟨2, [0]⟩, ⟨2, [1]⟩]
    [⟨.leaf, 0, 1⟩, ⟨.leaf, 2, 2⟩, ⟨.congr 1 0 0, 2, 3⟩, ⟨.sym 2, 3, 2⟩] = true := by decide

end EgglogVerif.ProofCk
