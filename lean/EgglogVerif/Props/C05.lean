import EgglogVerif.Lemmas.Merge
/-
C05 — A function's value is the merge of everything ever written to its key.

All statements are for EVERY merge function `m` with the stated algebraic laws, every key and
value type, every list of writes (any length), every initial table.
-/
set_option linter.unusedSectionVars false
set_option linter.unusedSimpArgs false
namespace EgglogVerif.Merge

variable {K V : Type} [DecidableEq K] [DecidableEq V]

/-- serial insertion into an empty table leaves, at every key, the fold of the merge over the
values written to that key in arrival order (no law needed). -/
theorem C05_serial (m : V → V → V) (ws : List (K × V)) (k : K) :
    serialInsert m empty ws k = specVal m ws k := by
  rw [serialInsert_apply]; exact applyVals_none m _

/-- the specification does not depend on the ORDER of the writes (any permutation). -/
theorem C05_perm {m : V → V → V} (h : ACI m) {ws ws' : List (K × V)} (p : ws.Perm ws') (k : K) :
    specVal m ws k = specVal m ws' k :=
  foldVals_perm h ((p.filter _).map _)

/-- nor on how the writes are BATCHED into successive flushes (commands, rule iterations). -/
theorem C05_batch (m : V → V → V) (t : Tbl K V) (ws₁ ws₂ : List (K × V)) :
    serialInsert m (serialInsert m t ws₁) ws₂ = serialInsert m t (ws₁ ++ ws₂) := by
  simp [serialInsert, List.foldl_append]

/-- duplicates of a write are absorbed (idempotence). -/
theorem C05_dup {m : V → V → V} (h : ACI m) (t : Tbl K V) (kv : K × V) (k : K) :
    serialInsert m t [kv, kv] k = serialInsert m t [kv] k := by
  simp only [serialInsert, List.foldl_cons, List.foldl_nil, write]
  by_cases hk : k = kv.1
  · simp only [hk, if_true, mergeOpt]
    cases t kv.1 with
    | none => simp [h.idem]
    | some c => simp [h.assoc, h.idem]
  · simp [hk]

/-- the staged path (`StagedOutputs` + flush, i.e. `parallel_insert` on one shard): folding the
in-batch collisions first and merging the result into the table gives what serial insertion
gives (associativity is all that is needed). -/
theorem C05_staged {m : V → V → V} (hassoc : ∀ a b c, m (m a b) c = m a (m b c))
    (t : Tbl K V) (ws : List (K × V)) (k : K) :
    stagedInsert m t ws k = serialInsert m t ws k := by
  have H := flushLike_apply (fun (t : Tbl K V) k => match stage m ws k with | none => t | some v => write m t (k, v))
    ?hloc ?hdep (batchKeys ws) t k (nodup_firstKeys _)
  · show List.foldl (fun (t : Tbl K V) k => match stage m ws k with | none => t | some v => write m t (k, v)) t (batchKeys ws) k = _
    rw [H]
    rw [serialInsert_apply]
    have hst : stage m ws k = foldVals m (valsFor ws k) := C05_serial m ws k
    by_cases hk : k ∈ batchKeys ws
    · rw [if_pos hk]
      simp only [hst]
      have hne : valsFor ws k ≠ [] := (valsFor_ne_nil ws k).mpr ((mem_firstKeys _ _).mp hk)
      cases hv : valsFor ws k with
      | nil => exact absurd hv hne
      | cons v vs =>
        simp only [foldVals, write, if_true]
        exact mergeOpt_fold hassoc (t k) v vs
    · rw [if_neg hk]
      have : valsFor ws k = [] := by
        by_cases hv : valsFor ws k = []
        · exact hv
        · exact absurd ((mem_firstKeys _ _).mpr ((valsFor_ne_nil ws k).mp hv)) hk
      rw [this]; rfl
  · intro t a k' hne
    cases stage m ws a with
    | none => rfl
    | some v => simp [write, hne]
  · intro t t' a heq
    cases stage m ws a with
    | none => exact heq
    | some v => simp [write, heq]

/-- the per-shard parallel path: any shard assignment, shards processed in any duplicate-free
order, gives the serial result at every key whose shard is processed. -/
theorem C05_parallel {m : V → V → V} (hassoc : ∀ a b c, m (m a b) c = m a (m b c))
    (shard : K → Nat) :
    ∀ (shards : List Nat), shards.Nodup → ∀ (t : Tbl K V) (ws : List (K × V)) (k : K),
      parallelInsert m shard shards t ws k =
        if shard k ∈ shards then serialInsert m t ws k else t k := by
  intro shards
  induction shards with
  | nil => intro _ t ws k; rfl
  | cons s rest ih =>
    intro hnd t ws k
    have hnd' := List.nodup_cons.mp hnd
    simp only [parallelInsert, List.foldl_cons] at *
    rw [ih hnd'.2]
    have hvals : valsFor (ws.filter (fun kv => shard kv.1 = s)) k =
        if shard k = s then valsFor ws k else [] := by
      unfold valsFor
      rw [List.filter_filter]
      by_cases hs : shard k = s
      · rw [if_pos hs]; congr 1
        apply List.filter_congr
        intro kv _
        by_cases hkv : kv.1 = k
        · simp [hkv, hs]
        · simp [hkv]
      · rw [if_neg hs]
        have : List.filter (fun kv : K × V => (decide (kv.1 = k) && decide (shard kv.1 = s))) ws = [] := by
          apply List.filter_eq_nil_iff.mpr
          intro kv _
          by_cases hkv : kv.1 = k
          · simp [hkv, hs]
          · simp [hkv]
        rw [this]; rfl
    have ht1 : stagedInsert m t (ws.filter (fun kv => shard kv.1 = s)) k =
        if shard k = s then serialInsert m t ws k else t k := by
      rw [C05_staged hassoc, serialInsert_apply, hvals]
      by_cases hs : shard k = s
      · simp only [hs, if_true]; rw [serialInsert_apply]
      · simp only [hs, if_false]; rfl
    by_cases hs : shard k = s
    · subst hs
      simp only [hnd'.1, if_false, List.mem_cons, true_or, if_true]
      rw [ht1, if_pos rfl]
    · simp only [List.mem_cons, hs, false_or]
      split
      · rw [serialInsert_apply, ht1, if_neg hs, serialInsert_apply]
      · rw [ht1, if_neg hs]

/-- **main statement**: however the multiset of writes is permuted, cut into batches, and
whichever of the three insertion paths handles each batch, the value stored for `k` is the fold
of the merge over all values written to `k`. -/
inductive Path | serial | staged | parallel (nshards : Nat)

def runBatch (m : V → V → V) (shard : K → Nat) (t : Tbl K V) : Path × List (K × V) → Tbl K V
  | (.serial, ws) => serialInsert m t ws
  | (.staged, ws) => stagedInsert m t ws
  | (.parallel n, ws) => parallelInsert m (fun k => shard k % (n + 1)) (List.range (n + 1)) t ws

theorem runBatch_eq {m : V → V → V} (h : ACI m) (shard : K → Nat) (t : Tbl K V)
    (b : Path × List (K × V)) (k : K) : runBatch m shard t b k = serialInsert m t b.2 k := by
  obtain ⟨p, ws⟩ := b
  cases p with
  | serial => rfl
  | staged => exact C05_staged h.assoc t ws k
  | parallel n =>
    simp only [runBatch]
    rw [C05_parallel h.assoc _ _ List.nodup_range]
    simp [Nat.mod_lt]

theorem C05_value {m : V → V → V} (h : ACI m) (shard : K → Nat)
    (batches : List (Path × List (K × V))) (all : List (K × V))
    (hperm : (batches.flatMap (·.2)).Perm all) (k : K) :
    batches.foldl (runBatch m shard) empty k = specVal m all k := by
  have key : ∀ (bs : List (Path × List (K × V))) (t : Tbl K V) (k : K),
      bs.foldl (runBatch m shard) t k = serialInsert m t (bs.flatMap (·.2)) k := by
    intro bs
    induction bs with
    | nil => intro t k; rfl
    | cons b bs ih =>
      intro t k
      simp only [List.foldl_cons, List.flatMap_cons]
      rw [ih, serialInsert_apply, runBatch_eq h, ← C05_batch, serialInsert_apply (t := serialInsert m t b.2)]
  rw [key, C05_serial, C05_perm h hperm]

/-- rebuild re-insertion: when a union collapses keys (`c` canonicalises them), the value left
at a canonical key is the fold over every row whose key collapsed onto it. -/
theorem C05_rebuild (m : V → V → V) (c : K → K) (rows : List (K × V)) (k' : K) :
    rebuildInsert m c rows k' = foldVals m ((rows.filter (fun kv => c kv.1 = k')).map (·.2)) := by
  unfold rebuildInsert
  rw [C05_serial]
  unfold specVal valsFor
  congr 1
  induction rows with
  | nil => rfl
  | cons r rows ih =>
    simp only [List.map_cons, List.filter_cons]
    by_cases hr : c r.1 = k' <;> simp [hr, ih]

/-- `:no-merge`: if insertion succeeds every written pair is stored as written … -/
theorem C05_nomerge_ok : ∀ (ws : List (K × V)) (t t' : Tbl K V),
    serialInsertAssert t ws = .ok t' →
      (∀ kv ∈ ws, t' kv.1 = some kv.2) ∧ (∀ k v, t k = some v → t' k = some v) := by
  intro ws
  induction ws with
  | nil => intro t t' h; simp only [serialInsertAssert] at h; cases h; simp
  | cons kv ws ih =>
    intro t t' h
    simp only [serialInsertAssert] at h
    cases hw : writeAssert t kv with
    | error e => rw [hw] at h; cases h
    | ok t1 =>
      rw [hw] at h
      obtain ⟨i1, i2⟩ := ih t1 t' h
      have ht1 : t1 kv.1 = some kv.2 ∧ ∀ k v, t k = some v → t1 k = some v := by
        unfold writeAssert at hw
        cases htk : t kv.1 with
        | none =>
          rw [htk] at hw; cases hw
          refine ⟨by simp, fun k v hkv => ?_⟩
          by_cases hk : k = kv.1
          · rw [hk, htk] at hkv; cases hkv
          · simp [hk, hkv]
        | some c =>
          rw [htk] at hw
          simp only at hw
          split at hw
          · cases hw; rename_i hc; exact ⟨by rw [htk, hc], fun _ _ h => h⟩
          · cases hw
      refine ⟨fun x hx => ?_, fun k v hkv => i2 k v (ht1.2 k v hkv)⟩
      rcases List.mem_cons.mp hx with rfl | hx
      · exact i2 _ _ ht1.1
      · exact i1 x hx

/-- … so two different values for one key can never both be accepted: an error is raised. -/
theorem C05_nomerge_conflict (ws : List (K × V)) (k : K) (v₁ v₂ : V)
    (h₁ : (k, v₁) ∈ ws) (h₂ : (k, v₂) ∈ ws) (hne : v₁ ≠ v₂) :
    ∃ e, serialInsertAssert (empty : Tbl K V) ws = .error e := by
  cases h : serialInsertAssert (empty : Tbl K V) ws with
  | error e => exact ⟨e, rfl⟩
  | ok t' =>
    have := (C05_nomerge_ok ws empty t' h).1
    have a := this _ h₁
    have b := this _ h₂
    simp only at a b
    rw [a] at b
    exact absurd (Option.some.inj b) hne

/-- **Defect 1 (pinned commit), by witness.** With a non-total lattice (here pairs of booleans
under component-wise `or`, i.e. a two-element set under union) the flush AS CODED AT THE PINNED
COMMIT stores the incoming value instead of the merged one. -/
def orPair (a b : Bool × Bool) : Bool × Bool := (a.1 || b.1, a.2 || b.2)

theorem orPair_ACI : ACI orPair :=
  ⟨fun ⟨a1, a2⟩ ⟨b1, b2⟩ ⟨c1, c2⟩ => by simp [orPair, Bool.or_assoc],
   fun ⟨a1, a2⟩ ⟨b1, b2⟩ => by simp [orPair, Bool.or_comm],
   fun ⟨a1, a2⟩ => by simp [orPair]⟩

theorem C05_pinned_flush_defect :
    stagedInsertPinned orPair (write orPair (empty : Tbl Nat (Bool × Bool)) (0, (true, false)))
        [(0, (false, true))] 0 = some (false, true) ∧
    specVal orPair [((0 : Nat), (true, false)), (0, (false, true))] 0 = some (true, true) := by
  constructor <;> rfl

/-- non-vacuity of `C05_value`: three batches on three paths, a key written four times -/
example : [(Path.serial, [((1 : Nat), (5 : Nat)), (2, 7)]), (.staged, [(1, 3), (1, 9)]), (.parallel 3, [(2, 1), (1, 4)])].foldl
    (runBatch Nat.min (fun k => k * 7)) empty 1 = some 3 := by decide

end EgglogVerif.Merge
