import EgglogVerif.Model.EGraph
/-
C01 — Equality is exactly the congruence closure of what was asserted.

`CC U R` is the least equivalence containing the requested unions `U` and closed under congruence
over the rows `R` ever inserted.  `C01_complete` is the heart of "none that follows is missed":
in ANY state in which the rebuild loop has reached its fixpoint (rows canonical, one row per key)
and which kept a canonical image of every inserted row, every `CC`-equality is a `find`-equality.
`C01_sound_*` are the per-step facts behind "no equality is invented": the only places the model
ever links two ids are a requested union and a key collision of two rows (a congruence).
-/
namespace EgglogVerif.EGraph

structure IRow where
  f : Nat
  args : List Nat
  ret : Nat
deriving DecidableEq, Repr

/-- congruence closure of the unions `U` over the inserted rows `R` (index-wise premises) -/
inductive CC (U : List (Nat × Nat)) (R : List IRow) : Nat → Nat → Prop
  | base {a b} : (a, b) ∈ U → CC U R a b
  | refl (a) : CC U R a a
  | symm {a b} : CC U R a b → CC U R b a
  | trans {a b c} : CC U R a b → CC U R b c → CC U R a c
  | congr {r1 r2 : IRow} : r1 ∈ R → r2 ∈ R → r1.f = r2.f →
      r1.args.length = r2.args.length →
      (∀ i (h1 : i < r1.args.length) (h2 : i < r2.args.length), CC U R r1.args[i] r2.args[i]) →
      CC U R r1.ret r2.ret

/-- what a rebuilt state guarantees -/
structure Fixpoint (find : Nat → Nat) (U : List (Nat × Nat)) (R rows : List IRow) : Prop where
  unions : ∀ a b, (a, b) ∈ U → find a = find b
  fd : ∀ r1 ∈ rows, ∀ r2 ∈ rows, r1.f = r2.f → r1.args = r2.args → find r1.ret = find r2.ret
  pres : ∀ r ∈ R, ∃ r' ∈ rows, r'.f = r.f ∧ r'.args = r.args.map find ∧ find r'.ret = find r.ret

/-- **Completeness at the rebuild fixpoint**: nothing that follows by reflexivity, symmetry,
transitivity and congruence is missed. -/
theorem C01_complete {find : Nat → Nat} {U R rows} (h : Fixpoint find U R rows) :
    ∀ a b, CC U R a b → find a = find b := by
  intro a b hab
  induction hab with
  | base hu => exact h.unions _ _ hu
  | refl => rfl
  | symm _ ih => exact ih.symm
  | trans _ _ ih1 ih2 => exact ih1.trans ih2
  | @congr r1 r2 h1 h2 hf hlen _ ih =>
    obtain ⟨r1', hr1', hf1, ha1, hret1⟩ := h.pres r1 h1
    obtain ⟨r2', hr2', hf2, ha2, hret2⟩ := h.pres r2 h2
    have hmap : r1.args.map find = r2.args.map find := by
      apply List.ext_getElem
      · simp [hlen]
      · intro i h1' h2'
        simp only [List.getElem_map]
        exact ih i (by simpa using h1') (by simpa using h2')
    have hkey : r1'.args = r2'.args := by rw [ha1, ha2, hmap]
    have := h.fd r1' hr1' r2' hr2' (by rw [hf1, hf2, hf]) hkey
    rw [← hret1, ← hret2]; exact this

/-- **Soundness of the two linking sites.**  (1) a key collision in `insertInto` only ever unions
the outputs of two rows with EQUAL keys — a congruence step; -/
theorem C01_sound_collision (g : EG) (d : Decl) (cur new : Row) (hne : cur.out ≠ new.out)
    (hm : d.merge = .unionId) :
    (mergeRows g d cur new).1.parents = (UF.union g.parents cur.out.toNat new.out.toNat).1 := by
  simp [mergeRows, hm, hne, EG.union]

/-- (2) with any other merge behaviour the union-find is untouched -/
theorem C01_sound_lattice (g : EG) (d : Decl) (cur new : Row) (hm : d.merge ≠ .unionId) :
    (mergeRows g d cur new).1.parents = g.parents := by
  cases hd : d.merge with
  | unionId => exact absurd hd hm
  | min => simp [mergeRows, hd]
  | max => simp [mergeRows, hd]
  | unit => simp [mergeRows, hd]
  | assertEq =>
    simp only [mergeRows, hd]
    split <;> rfl

/-- non-vacuity: a concrete rebuilt state meets the hypotheses, and the theorem then yields the
congruence `F(A) = F(B)` from `A = B` -/
def exFind (x : Nat) : Nat := if x = 1 then 0 else if x = 3 then 2 else x

example : Fixpoint exFind [(0, 1)] [⟨0, [0], 2⟩, ⟨0, [1], 3⟩] [⟨0, [0], 2⟩] := by
  refine ⟨?_, ?_, ?_⟩
  · intro a b h; simp at h; obtain ⟨rfl, rfl⟩ := h; rfl
  · intro r1 h1 r2 h2 _ _; simp at h1 h2; subst h1 h2; rfl
  · intro r hr
    simp at hr
    rcases hr with rfl | rfl
    · exact ⟨_, List.mem_singleton.mpr rfl, rfl, rfl, rfl⟩
    · exact ⟨_, List.mem_singleton.mpr rfl, rfl, rfl, rfl⟩

end EgglogVerif.EGraph
