import EgglogVerif.Lemmas.EGraphInv
import EgglogVerif.Lemmas.EGraphFix
import EgglogVerif.Lemmas.EGraphTerm
/-
C01 — Equality is exactly the congruence closure of what was asserted.

`CC ds U R` (Lemmas/EGraphInv.lean) is the least equivalence on ids that contains the requested
unions `U` and is closed under congruence over the rows `R` ever inserted into constructor tables
(id columns related, base-value columns equal ⇒ outputs related).

The theorems below are about the EXECUTABLE model (`Model/EGraph.lean`) that the correspondence
harness runs side by side with the real engine:

* `C01_reach`    — every state reachable from an empty database by ANY sequence of unions, row
                   insertions, constructor calls and rebuild passes satisfies the history invariant
                   `Inv` for the unions / rows recorded along the way;
* `C01_actions`  — so does the state after any rule head / top-level action without `delete`;
* `C01_sound`    — in every such state, two ids with the same representative are `CC`-related:
                   no equality is invented (holds between rebuilds too);
* `C01_complete` — in every such state that is canonical, `CC`-related ids have the same
                   representative: none that follows is missed;
* `C01_exact`    — whenever the rebuild loop reports its fixpoint, `find a = find b ↔ CC a b`.
-/
namespace EgglogVerif.EGraph
open EgglogVerif

/-! ### the state-changing primitives, with their ghost history -/

inductive GOp where
  | union (a b : Int)
  | insert (f : Nat) (r : Row)
  | create (f : Nat) (args : List Int)
  | rebuildPass
deriving Repr

def GOp.apply (g : EG) : GOp → EG
  | .union a b => g.union a b
  | .insert f r => g.insertRow f r
  | .create f args => (g.lookupOrCreate f args).1
  | .rebuildPass => EGraph.rebuildPass g

def insRow (g : EG) (f : Nat) (r : Row) : List IRow :=
  if f < g.tables.size then [⟨f, r.args, r.out⟩] else []

/-- unions requested / rows inserted by one primitive -/
def GOp.hist (g : EG) : GOp → List (Nat × Nat) × List IRow
  | .union a b => ([(a.toNat, b.toNat)], [])
  | .insert f r => ([], insRow g f r)
  | .create f args => ([], createRow g f args)
  | .rebuildPass => ([], [])

structure Traced where
  g : EG
  U : List (Nat × Nat)
  R : List IRow

def Traced.step (t : Traced) (op : GOp) : Traced :=
  ⟨op.apply t.g, (op.hist t.g).1 ++ t.U, (op.hist t.g).2 ++ t.R⟩

def Traced.run (t : Traced) (ops : List GOp) : Traced := ops.foldl Traced.step t

/-- the empty database over the declarations `decls` -/
def EG.init (decls : Array Decl) : EG := { decls := decls, tables := Array.replicate decls.size [] }

def declOf (decls : Array Decl) (f : Nat) : Decl := decls.getD f ⟨[], false, .unit⟩

theorem Inv.insertRow' {ds : Nat → Decl} {g : EG} {U R} (i : Inv ds g U R) (f : Nat) (r : Row) :
    Inv ds (g.insertRow f r) U (insRow g f r ++ R) := by
  unfold insRow
  split
  · rename_i hf; exact i.insertRow f r hf
  · rename_i hf; exact i.insertRow_oob f r (Nat.le_of_not_lt hf)

theorem Inv.init (decls : Array Decl) : Inv (declOf decls) (EG.init decls) [] [] := by
  have hw : (EG.init decls).WF := by
    intro x
    show UF.par #[] x ≤ x
    rw [UF.par_ge_size (by simp)]; exact Nat.le_refl _
  have htab : ∀ f, (EG.init decls).table f = [] := by
    intro f
    unfold EG.table EG.init
    simp only [Array.getD_eq_getD_getElem?, Array.getElem?_replicate]
    split <;> rfl
  refine ⟨hw, fun _ => rfl, fun a b h => by simp at h, fun r h => by simp at h, ?_, ?_⟩
  · intro x y hxy
    have hx : (EG.init decls).rt x = x := UF.root_of_fix hw (UF.par_ge_size (by simp [EG.init]))
    have hy : (EG.init decls).rt y = y := UF.root_of_fix hw (UF.par_ge_size (by simp [EG.init]))
    rw [hx, hy] at hxy
    subst hxy; exact CC.refl _
  · intro f y hy; rw [htab f] at hy; simp at hy

theorem Inv.gop {ds : Nat → Decl} {t : Traced} (i : Inv ds t.g t.U t.R) (op : GOp) :
    Inv ds (t.step op).g (t.step op).U (t.step op).R := by
  cases op with
  | union a b => exact i.union a b
  | insert f r => exact i.insertRow' f r
  | create f args => exact i.lookupOrCreate f args
  | rebuildPass => exact i.rebuildPass

/-- **Every reachable state satisfies the history invariant** (any operation sequence, any
declarations, rebuild passes at arbitrary moments). -/
theorem C01_reach (decls : Array Decl) (ops : List GOp) :
    let t := (Traced.mk (EG.init decls) [] []).run ops
    Inv (declOf decls) t.g t.U t.R := by
  have key : ∀ (ops : List GOp) (t : Traced), Inv (declOf decls) t.g t.U t.R →
      Inv (declOf decls) (t.run ops).g (t.run ops).U (t.run ops).R := by
    intro ops
    induction ops with
    | nil => intro t i; exact i
    | cons op ops ih => intro t i; exact ih (t.step op) (i.gop op)
  exact key ops _ (Inv.init decls)

/-- **No equality is invented**: in every state satisfying the invariant (in particular every
reachable one, also between rebuilds) equal representatives are justified by the history. -/
theorem C01_sound {ds : Nat → Decl} {g : EG} {U R} (i : Inv ds g U R) (a b : Int)
    (h : g.find a = g.find b) : CC ds U R a.toNat b.toNat :=
  i.sound _ _ ((find_eq_iff i.wf a b).mp h)

/-- **Nothing that follows is missed**: in a canonical state satisfying the invariant, every
equality derivable from the history by reflexivity, symmetry, transitivity and congruence holds. -/
theorem C01_complete {ds : Nat → Decl} {g : EG} {U R} (i : Inv ds g U R) (c : Canonical g) :
    ∀ x y, CC ds U R x y → g.rt x = g.rt y := by
  intro x y hxy
  induction hxy with
  | base hu => exact i.unions _ _ hu
  | refl => rfl
  | symm _ ih => exact ih.symm
  | trans _ _ ih1 ih2 => exact ih1.trans ih2
  | @congr r1 r2 h1 h2 hf hm hl _ hb ih =>
    obtain ⟨y1, hy1, a1, o1⟩ := i.pres r1 h1
    obtain ⟨y2, hy2, a2, o2⟩ := i.pres r2 h2
    rw [← hf] at hy2 a2 o2
    rw [i.decl] at a1 a2 o1 o2
    -- the two inserted keys canonicalise to the same key
    have hkeys : canonArgs g (ds r1.f).argIsId r1.args = canonArgs g (ds r1.f).argIsId r2.args :=
      (canonArgs_eq_iff i.wf _ _ _).mpr ⟨hl, fun k k1 k2 => ⟨fun hk => ih k k1 k2 hk, fun hk => hb k k1 k2 hk⟩⟩
    -- stored keys are canonical, so the two images have the same key, hence are the same row
    have c1 := (c.rows r1.f y1 hy1).1
    have c2 := (c.rows r1.f y2 hy2).1
    unfold ArgsCanon at c1 c2
    rw [i.decl] at c1 c2
    have hsame : y1.args = y2.args := by rw [← c1, ← c2, a1, a2, hkeys]
    have : y1 = y2 := uniqueKeys_eq (c.keys r1.f) hy1 hy2 hsame
    subst this
    rw [← o1 hm, ← o2 hm]

/-- **Exactness at the rebuild fixpoint.**  Whenever the rebuild loop of the model reports that it
reached its fixpoint, the equalities of the resulting database are exactly the congruence closure
of the unions requested and rows inserted so far. -/
theorem C01_exact {ds : Nat → Decl} {g : EG} {U R} (i : Inv ds g U R) (fuel : Nat)
    (hfix : (rebuild fuel g).2 = true) (a b : Int) :
    (rebuild fuel g).1.find a = (rebuild fuel g).1.find b ↔ CC ds U R a.toNat b.toNat := by
  have i' := Inv.rebuild fuel i
  obtain ⟨c, _⟩ := rebuild_canonical fuel g i.wf hfix
  constructor
  · exact C01_sound i' a b
  · intro h; exact (find_eq_iff i'.wf a b).mpr (C01_complete i' c _ _ h)

/-- **Unconditional exactness**: when every stored output id is an id of the union-find, the
rebuild loop run with `size + 2` passes of fuel always reaches its fixpoint (`rebuild_total`), so
the equalities it leaves are exactly the congruence closure of the history — no hypothesis about
the loop is left. -/
theorem C01_exact_total {ds : Nat → Decl} {g : EG} {U R} (i : Inv ds g U R) (hr : OutsInRange g g.parents.size)
    (a b : Int) :
    (rebuild (g.parents.size + 2) g).1.find a = (rebuild (g.parents.size + 2) g).1.find b ↔ CC ds U R a.toNat b.toNat :=
  C01_exact i _ (rebuild_total i.wf hr) a b

/-! ### any rebuild strategy -/

/-- a rebuild strategy: any sequence of full or partial (index-driven, incremental) passes over
any tables in any order -/
inductive RStep where
  | full (f : Nat)
  | some (f : Nat) (sel : Row → Bool)

def RStep.apply (g : EG) : RStep → EG
  | .full f => rebuildTable g f
  | .some f sel => rebuildSome g f sel

/-- **Whatever the rebuild strategy** — which tables it visits, in which order, and which rows of
each it chooses to re-canonicalise (all of them, or only those an index reports as mentioning a
displaced id) — **the equalities it ends with are exactly the congruence closure of the history,
provided it ends in a canonical database.**  An incremental strategy can fail to canonicalise a
row (a stale index: the seeded C01 change), which the canonicity check decides on the result; it
cannot invent an equality or lose one. -/
theorem C01_any_strategy {ds : Nat → Decl} {g : EG} {U R} (i : Inv ds g U R) (steps : List RStep)
    (c : Canonical (steps.foldl RStep.apply g)) (a b : Int) :
    (steps.foldl RStep.apply g).find a = (steps.foldl RStep.apply g).find b ↔ CC ds U R a.toNat b.toNat := by
  have key : ∀ (steps : List RStep) (g : EG), Inv ds g U R → Inv ds (steps.foldl RStep.apply g) U R := by
    intro steps
    induction steps with
    | nil => intro g i; exact i
    | cons st sts ih =>
      intro g i
      apply ih
      cases st with
      | full f => exact i.rebuildTable f
      | some f sel => exact i.rebuildSome f sel
  have i' := key steps g i
  constructor
  · exact C01_sound i' a b
  · intro h; exact (find_eq_iff i'.wf a b).mpr (C01_complete i' c _ _ h)

/-! ### rule heads and top-level actions -/

def NoDelete : Action → Prop
  | .delete _ _ => False
  | _ => True

/-- unions requested / rows inserted by one action (mirrors `runAction`) -/
def actionHist (acc : EG × Subst) : Action → List (Nat × Nat) × List IRow
  | .call _ f args =>
    match args.mapM (evalTm acc.2) with
    | none => ([], [])
    | some vs => ([], createRow acc.1 f vs)
  | .union a b =>
    match evalTm acc.2 a, evalTm acc.2 b with
    | some x, some y => ([(x.toNat, y.toNat)], [])
    | _, _ => ([], [])
  | .set f args v =>
    match args.mapM (evalTm acc.2), evalTm acc.2 v with
    | some vs, some x => ([], insRow acc.1 f ⟨vs, x, false⟩)
    | _, _ => ([], [])
  | .subsume f args =>
    match args.mapM (evalTm acc.2) with
    | none => ([], [])
    | some vs =>
      match lookupRow (acc.1.table f) vs with
      | some r => ([], insRow acc.1 f { r with sub := true })
      | none =>
        ([], insRow (acc.1.lookupOrCreate f vs).1 f ⟨vs, (acc.1.lookupOrCreate f vs).2, true⟩ ++ createRow acc.1 f vs)
  | _ => ([], [])

theorem Inv.err {ds : Nat → Decl} {g : EG} {U R} (i : Inv ds g U R) : Inv ds { g with err := true } U R :=
  i.congr i.wf (fun _ => rfl) rfl rfl

/-- **Every action other than `delete` preserves the invariant**, with the history it adds. -/
theorem C01_actions {ds : Nat → Decl} {acc : EG × Subst} {U R} (i : Inv ds acc.1 U R) (a : Action)
    (hnd : NoDelete a) :
    Inv ds (runAction acc a).1 ((actionHist acc a).1 ++ U) ((actionHist acc a).2 ++ R) := by
  cases a with
  | call dst f args =>
    simp only [runAction, actionHist]
    cases args.mapM (evalTm acc.2) with
    | none => exact i.err
    | some vs => exact i.lookupOrCreate f vs
  | prim dst op args =>
    simp only [runAction, actionHist]
    cases args.mapM (evalTm acc.2) with
    | none => exact i.err
    | some vs =>
      simp only
      cases primEval op vs with
      | none => exact i.err
      | some v => exact i
  | union x y =>
    simp only [runAction, actionHist]
    cases evalTm acc.2 x with
    | none => exact i.err
    | some vx =>
      cases evalTm acc.2 y with
      | none => exact i.err
      | some vy => exact i.union vx vy
  | set f args v =>
    simp only [runAction, actionHist]
    cases args.mapM (evalTm acc.2) with
    | none => exact i.err
    | some vs =>
      cases evalTm acc.2 v with
      | none => exact i.err
      | some x => exact i.insertRow' f _
  | subsume f args =>
    simp only [runAction, actionHist]
    cases args.mapM (evalTm acc.2) with
    | none => exact i.err
    | some vs =>
      simp only
      cases lookupRow (acc.1.table f) vs with
      | some r => exact i.insertRow' f _
      | none =>
        simp only
        have := (i.lookupOrCreate f vs).insertRow' f ⟨vs, (acc.1.lookupOrCreate f vs).2, true⟩
        rw [List.append_assoc]
        exact this
  | delete f args => exact absurd hnd (by simp [NoDelete])
  | panic => exact i.err

/-- **Every action list without `delete`** (a rule head for one match, or a top-level command;
a failing action halts the rest of the list) **preserves the invariant**; the history only grows. -/
theorem C01_action_list {ds : Nat → Decl} : ∀ (as : List Action) (acc : EG × Subst) {U R},
    (∀ a ∈ as, NoDelete a) → Inv ds acc.1 U R →
    ∃ U' R', Inv ds (runActionsFrom acc as) U' R' ∧ (∀ p, p ∈ U → p ∈ U') ∧ (∀ r, r ∈ R → r ∈ R') := by
  intro as
  induction as with
  | nil => intro acc U R _ i; exact ⟨U, R, i, fun _ h => h, fun _ h => h⟩
  | cons a as ih =>
    intro acc U R hnd i
    have i1 := C01_actions i a (hnd a List.mem_cons_self)
    simp only [runActionsFrom]
    split
    · exact ⟨_, _, i1, fun _ h => List.mem_append_right _ h, fun _ h => List.mem_append_right _ h⟩
    · obtain ⟨U', R', i2, hu, hr⟩ := ih (runAction acc a) (fun b hb => hnd b (List.mem_cons_of_mem _ hb)) i1
      exact ⟨U', R', i2, fun p h => hu p (List.mem_append_right _ h), fun r h => hr r (List.mem_append_right _ h)⟩

/-- **One iteration of any ruleset whose heads contain no `delete`**: whatever matches were found
and in whatever order their heads ran, the state after the iteration satisfies the invariant for
a history extending the old one — so (`C01_exact`) its equalities are exactly the congruence
closure of everything asserted so far, rule-derived unions and rows included. -/
theorem C01_stepRules {ds : Nat → Decl} (fuel : Nat) (g : EG) (rules : List Rule) {U R}
    (hnd : ∀ r ∈ rules, ∀ a ∈ r.head, NoDelete a) (i : Inv ds g U R) :
    ∃ U' R', Inv ds (stepRules fuel g rules).1 U' R' ∧ (∀ p, p ∈ U → p ∈ U') ∧ (∀ r, r ∈ R → r ∈ R') := by
  have key : ∀ (work : List (Subst × List Action)) (g : EG) {U R}, (∀ w ∈ work, ∀ a ∈ w.2, NoDelete a) → Inv ds g U R →
      ∃ U' R', Inv ds (work.foldl (fun g (sh : Subst × List Action) => runActions g sh.1 sh.2) g) U' R' ∧
        (∀ p, p ∈ U → p ∈ U') ∧ (∀ r, r ∈ R → r ∈ R') := by
    intro work
    induction work with
    | nil => intro g U R _ i; exact ⟨U, R, i, fun _ h => h, fun _ h => h⟩
    | cons w ws ih =>
      intro g U R hw i
      simp only [List.foldl_cons]
      obtain ⟨U1, R1, i1, hu1, hr1⟩ := C01_action_list w.2 (g, w.1) (hw w List.mem_cons_self) i
      obtain ⟨U2, R2, i2, hu2, hr2⟩ := ih (runActions g w.1 w.2) (fun x hx => hw x (List.mem_cons_of_mem _ hx)) i1
      exact ⟨U2, R2, i2, fun p h => hu2 p (hu1 p h), fun r h => hr2 r (hr1 r h)⟩
  have hwork : ∀ w ∈ (rules.flatMap fun r => (matchAll g false r.body).map fun s => (s, r.head)), ∀ a ∈ w.2, NoDelete a := by
    intro w hw a ha
    simp only [List.mem_flatMap, List.mem_map] at hw
    obtain ⟨r, hr, s, _, rfl⟩ := hw
    exact hnd r hr a ha
  obtain ⟨U', R', i', hu, hr⟩ := key _ g hwork i
  exact ⟨U', R', Inv.rebuild fuel i', hu, hr⟩

/-! ### non-vacuity: a concrete run -/

/-- `A`, `B` nullary, `F` unary; insert `A`, `B`, `F(A)`, `F(B)`, union `A` `B`, rebuild. -/
def exDecls : Array Decl := #[⟨[], true, .unionId⟩, ⟨[], true, .unionId⟩, ⟨[true], true, .unionId⟩]
def exOps : List GOp := [.create 0 [], .create 1 [], .create 2 [0], .create 2 [1], .union 0 1]

def exT : Traced := (Traced.mk (EG.init exDecls) [] []).run exOps

/-- the hypotheses of `C01_exact` are met by this run (the invariant by `C01_reach`, the flag by
kernel evaluation), and it is not trivial: `F(A) = F(B)` holds, `A = F(A)` does not -/
example : (rebuild 10 exT.g).2 = true ∧ (rebuild 10 exT.g).1.find 2 = (rebuild 10 exT.g).1.find 3 ∧
    (rebuild 10 exT.g).1.find 0 ≠ (rebuild 10 exT.g).1.find 2 := by
  decide +kernel

example : CC (declOf exDecls) exT.U exT.R 2 3 :=
  (C01_exact (C01_reach exDecls exOps) 10 (by decide +kernel) 2 3).mp (by decide +kernel)

/-- **Soundness of the two linking sites** (kept from the first version of this file): a key
collision in `insertInto` only ever unions the outputs of two rows with EQUAL keys; -/
theorem C01_sound_collision (g : EG) (d : Decl) (cur new : Row) (hne : cur.out ≠ new.out)
    (hm : d.merge = .unionId) :
    (mergeRows g d cur new).1.parents = (UF.union g.parents cur.out.toNat new.out.toNat).1 := by
  simp [mergeRows, hm, hne, EG.union]

/-- with any other merge behaviour the union-find is untouched -/
theorem C01_sound_lattice (g : EG) (d : Decl) (cur new : Row) (hm : d.merge ≠ .unionId) :
    (mergeRows g d cur new).1.parents = g.parents := by
  rw [mergeRows_parents, if_neg (fun h => hm h.1)]

end EgglogVerif.EGraph
