/-
C14 — Containers of e-classes stay canonical (model level).

A container value is hash-consed on its NORMAL FORM: its elements mapped through `find`, then
(`Vec`) kept in order, (`MultiSet`) sorted, (`Set`) sorted and deduplicated
(`src/sort/*.rs` rebuild functions, `core-relations/src/containers`).  Two container ids are the
same value after a rebuild iff their normal forms coincide.  The theorems say the normal form is
a function of the contents MODULO the current equalities and nothing else:
* `C14_vec`  : equal iff pointwise `find`-equal;
* `C14_set`  : equal iff the same SET of representatives (collapsing elements merge);
* `C14_mset` : equal iff the same MULTISET of representatives;
* `C14_idem` : normalising again after the same `find` changes nothing (canonical stays canonical).
-/
namespace EgglogVerif.Containers

/-- insert into a strictly increasing list, dropping duplicates -/
def insertUniq (x : Nat) : List Nat → List Nat
  | [] => [x]
  | y :: ys => if x < y then x :: y :: ys else if x = y then y :: ys else y :: insertUniq x ys

/-- insert into a non-decreasing list, keeping duplicates -/
def insertSorted (x : Nat) : List Nat → List Nat
  | [] => [x]
  | y :: ys => if x ≤ y then x :: y :: ys else y :: insertSorted x ys

def normVec (find : Nat → Nat) (l : List Nat) : List Nat := l.map find
def normSet (find : Nat → Nat) (l : List Nat) : List Nat := (l.map find).foldl (fun acc x => insertUniq x acc) []
def normMSet (find : Nat → Nat) (l : List Nat) : List Nat := (l.map find).foldl (fun acc x => insertSorted x acc) []

def StrictSorted (l : List Nat) : Prop := l.Pairwise (· < ·)
def Sorted (l : List Nat) : Prop := l.Pairwise (· ≤ ·)

theorem mem_insertUniq (x a : Nat) : ∀ l, a ∈ insertUniq x l ↔ a = x ∨ a ∈ l := by
  intro l
  induction l with
  | nil => simp [insertUniq]
  | cons y ys ih =>
    simp only [insertUniq]
    split
    · simp
    · split
      · rename_i h; subst h; simp
      · simp [ih]; constructor
        · rintro (h | h | h) <;> simp [h]
        · rintro (h | h | h) <;> simp [h]

theorem insertUniq_sorted (x : Nat) : ∀ l, StrictSorted l → StrictSorted (insertUniq x l) := by
  intro l
  induction l with
  | nil => intro _; simp [insertUniq, StrictSorted]
  | cons y ys ih =>
    intro h
    unfold StrictSorted at *
    rw [List.pairwise_cons] at h
    simp only [insertUniq]
    split
    · rename_i hlt
      rw [List.pairwise_cons]
      refine ⟨fun b hb => ?_, List.pairwise_cons.mpr h⟩
      rcases List.mem_cons.mp hb with rfl | hb
      · exact hlt
      · exact Nat.lt_trans hlt (h.1 b hb)
    · split
      · exact List.pairwise_cons.mpr h
      · rename_i h1 h2
        rw [List.pairwise_cons]
        refine ⟨fun b hb => ?_, ih h.2⟩
        rcases (mem_insertUniq x b ys).mp hb with rfl | hb
        · omega
        · exact h.1 b hb

theorem normSet_spec (find : Nat → Nat) (l : List Nat) :
    StrictSorted (normSet find l) ∧ ∀ a, a ∈ normSet find l ↔ a ∈ l.map find := by
  unfold normSet
  have key : ∀ (xs acc : List Nat), StrictSorted acc →
      StrictSorted (xs.foldl (fun acc x => insertUniq x acc) acc) ∧
      ∀ a, a ∈ xs.foldl (fun acc x => insertUniq x acc) acc ↔ a ∈ xs ∨ a ∈ acc := by
    intro xs
    induction xs with
    | nil => intro acc h; exact ⟨h, fun a => by simp⟩
    | cons x xs ih =>
      intro acc h
      obtain ⟨s, m⟩ := ih (insertUniq x acc) (insertUniq_sorted x acc h)
      refine ⟨s, fun a => ?_⟩
      simp only [List.foldl_cons]
      rw [m a, mem_insertUniq]
      simp only [List.mem_cons]
      constructor
      · rintro (h | h | h) <;> simp [h]
      · rintro ((h | h) | h) <;> simp [h]
  obtain ⟨s, m⟩ := key (l.map find) [] (by simp [StrictSorted])
  exact ⟨s, fun a => by rw [m a]; simp⟩

theorem strictSorted_ext : ∀ (l₁ l₂ : List Nat), StrictSorted l₁ → StrictSorted l₂ →
    (∀ a, a ∈ l₁ ↔ a ∈ l₂) → l₁ = l₂ := by
  intro l₁
  induction l₁ with
  | nil =>
    intro l₂ _ _ h
    cases l₂ with
    | nil => rfl
    | cons b _ => exact absurd ((h b).mpr List.mem_cons_self) (by simp)
  | cons a t ih =>
    intro l₂ h1 h2 h
    cases l₂ with
    | nil => exact absurd ((h a).mp List.mem_cons_self) (by simp)
    | cons b t2 =>
      unfold StrictSorted at h1 h2
      rw [List.pairwise_cons] at h1 h2
      have hab : a = b := by
        have ha := (h a).mp List.mem_cons_self
        have hb := (h b).mpr List.mem_cons_self
        rcases List.mem_cons.mp ha with rfl | ha'
        · rfl
        · rcases List.mem_cons.mp hb with rfl | hb'
          · rfl
          · have := h2.1 a ha'; have := h1.1 b hb'; omega
      subst hab
      congr 1
      apply ih t2 h1.2 h2.2
      intro x
      constructor
      · intro hx
        have := (h x).mp (List.mem_cons_of_mem _ hx)
        rcases List.mem_cons.mp this with rfl | h'
        · exact absurd (h1.1 x hx) (Nat.lt_irrefl _)
        · exact h'
      · intro hx
        have := (h x).mpr (List.mem_cons_of_mem _ hx)
        rcases List.mem_cons.mp this with rfl | h'
        · exact absurd (h2.1 x hx) (Nat.lt_irrefl _)
        · exact h'

/-- **Vec**: same value iff pointwise equal modulo the current equalities. -/
theorem C14_vec (find : Nat → Nat) (l₁ l₂ : List Nat) :
    normVec find l₁ = normVec find l₂ ↔ l₁.map find = l₂.map find := Iff.rfl

/-- **Set**: same value iff the same set of representatives — so unioning two elements collapses
them and can make two previously different sets the same value. -/
theorem C14_set (find : Nat → Nat) (l₁ l₂ : List Nat) :
    normSet find l₁ = normSet find l₂ ↔ ∀ a, a ∈ l₁.map find ↔ a ∈ l₂.map find := by
  obtain ⟨s1, m1⟩ := normSet_spec find l₁
  obtain ⟨s2, m2⟩ := normSet_spec find l₂
  constructor
  · intro h a; rw [← m1 a, ← m2 a, h]
  · intro h; exact strictSorted_ext _ _ s1 s2 (fun a => by rw [m1 a, m2 a, h a])

/-- the normal form only grows coarser consistently: normalising an already normal set under an
idempotent `find` is the identity -/
theorem C14_idem (find : Nat → Nat) (hid : ∀ x, find (find x) = find x) (l : List Nat) :
    normSet find (normSet find l) = normSet find l := by
  obtain ⟨s, m⟩ := normSet_spec find l
  obtain ⟨s', m'⟩ := normSet_spec find (normSet find l)
  apply strictSorted_ext _ _ s' s
  intro a
  rw [m' a]
  constructor
  · intro h
    obtain ⟨b, hb, rfl⟩ := List.mem_map.mp h
    obtain ⟨c, _, rfl⟩ := List.mem_map.mp ((m b).mp hb)
    rw [hid]; exact hb
  · intro h
    obtain ⟨c, hc, rfl⟩ := List.mem_map.mp ((m a).mp h)
    exact List.mem_map.mpr ⟨find c, h, hid c⟩

theorem insertSorted_perm (x : Nat) : ∀ l, (insertSorted x l).Perm (x :: l) := by
  intro l
  induction l with
  | nil => simp [insertSorted]
  | cons y ys ih =>
    simp only [insertSorted]
    split
    · exact List.Perm.refl _
    · exact ((List.Perm.cons y ih).trans (List.Perm.swap x y ys))

theorem insertSorted_sorted (x : Nat) : ∀ l, Sorted l → Sorted (insertSorted x l) := by
  intro l
  induction l with
  | nil => intro _; simp [insertSorted, Sorted]
  | cons y ys ih =>
    intro h
    unfold Sorted at *
    rw [List.pairwise_cons] at h
    simp only [insertSorted]
    split
    · rename_i hle
      rw [List.pairwise_cons]
      refine ⟨fun b hb => ?_, List.pairwise_cons.mpr h⟩
      rcases List.mem_cons.mp hb with rfl | hb
      · exact hle
      · exact Nat.le_trans hle (h.1 b hb)
    · rename_i hnle
      rw [List.pairwise_cons]
      refine ⟨fun b hb => ?_, ih h.2⟩
      have := (insertSorted_perm x ys).subset hb
      rcases List.mem_cons.mp this with rfl | hb'
      · omega
      · exact h.1 b hb'

theorem sorted_perm_eq : ∀ (l₁ l₂ : List Nat), Sorted l₁ → Sorted l₂ → l₁.Perm l₂ → l₁ = l₂ := by
  intro l₁
  induction l₁ with
  | nil => intro l₂ _ _ h; exact (List.Perm.nil_eq h)
  | cons a t ih =>
    intro l₂ h1 h2 h
    cases l₂ with
    | nil => exact absurd h.symm (by simp)
    | cons b t2 =>
      unfold Sorted at h1 h2
      rw [List.pairwise_cons] at h1 h2
      have hab : a = b := by
        have ha : a ∈ b :: t2 := h.subset List.mem_cons_self
        have hb : b ∈ a :: t := h.symm.subset List.mem_cons_self
        rcases List.mem_cons.mp ha with rfl | ha'
        · rfl
        · rcases List.mem_cons.mp hb with rfl | hb'
          · rfl
          · have := h2.1 a ha'; have := h1.1 b hb'; omega
      subst hab
      rw [ih t2 h1.2 h2.2 h.cons_inv]

theorem normMSet_spec (find : Nat → Nat) (l : List Nat) :
    Sorted (normMSet find l) ∧ (normMSet find l).Perm (l.map find) := by
  unfold normMSet
  have key : ∀ (xs acc : List Nat), Sorted acc →
      Sorted (xs.foldl (fun acc x => insertSorted x acc) acc) ∧
      (xs.foldl (fun acc x => insertSorted x acc) acc).Perm (xs ++ acc) := by
    intro xs
    induction xs with
    | nil => intro acc h; exact ⟨h, List.Perm.refl _⟩
    | cons x xs ih =>
      intro acc h
      obtain ⟨s, p⟩ := ih (insertSorted x acc) (insertSorted_sorted x acc h)
      refine ⟨s, ?_⟩
      simp only [List.foldl_cons, List.cons_append]
      refine p.trans ?_
      refine (List.Perm.append_left xs (insertSorted_perm x acc)).trans ?_
      exact List.perm_middle
  obtain ⟨s, p⟩ := key (l.map find) [] (by simp [Sorted])
  exact ⟨s, by simpa using p⟩

/-- **MultiSet**: same value iff the same multiset of representatives. -/
theorem C14_mset (find : Nat → Nat) (l₁ l₂ : List Nat) :
    normMSet find l₁ = normMSet find l₂ ↔ (l₁.map find).Perm (l₂.map find) := by
  obtain ⟨s1, p1⟩ := normMSet_spec find l₁
  obtain ⟨s2, p2⟩ := normMSet_spec find l₂
  constructor
  · intro h; exact p1.symm.trans (h ▸ p2)
  · intro h; exact sorted_perm_eq _ _ s1 s2 (p1.trans (h.trans p2.symm))

example : normSet (fun x => if x = 2 then 1 else x) [3, 2, 1] = normSet (fun x => if x = 2 then 1 else x) [1, 3] := by decide

end EgglogVerif.Containers
