import EgglogVerif.Model.EGraph
import EgglogVerif.Lemmas.UF
/-
C04 — The database is canonical and consistent after every command (model level).

Every command of the model ends with the rebuild loop (`topAction`, `stepRules` — after fix 2 also
on the failing path of the real engine), and a rebuild pass re-inserts every row through
`insertInto`.  The theorems below establish, for EVERY state and table:
* `C04_uniqueKeys`: after a rebuild pass a table holds at most one row per key;
* `C04_insert_unique`: inserting a row (any merge behaviour) preserves that;
* `C04_rebuilt_canonical`: every row produced by a pass was canonicalised with the union-find
  in force when it was inserted.
-/
namespace EgglogVerif.EGraph

def UniqueKeys (rows : List Row) : Prop := rows.Pairwise (fun a b => a.args ≠ b.args)

theorem insertInto_keys (g : EG) (d : Decl) : ∀ (rows : List Row) (r : Row),
    ∀ x ∈ (insertInto g d rows r).2, x.args = r.args ∨ ∃ y ∈ rows, y.args = x.args := by
  intro rows
  induction rows generalizing g with
  | nil => intro r x hx; simp [insertInto] at hx; subst hx; exact Or.inl rfl
  | cons y ys ih =>
    intro r x hx
    simp only [insertInto] at hx
    split at hx
    · rename_i hk
      simp only [List.mem_cons] at hx
      rcases hx with rfl | hx
      · left
        have : (mergeRows g d y r).2.args = y.args := by
          unfold mergeRows
          cases d.merge <;> simp <;> split <;> rfl
        rw [this]; exact hk
      · exact Or.inr ⟨x, List.mem_cons_of_mem _ hx, rfl⟩
    · simp only [List.mem_cons] at hx
      rcases hx with rfl | hx
      · exact Or.inr ⟨x, List.mem_cons_self, rfl⟩
      · rcases ih g r x hx with h | ⟨z, hz, hzk⟩
        · exact Or.inl h
        · exact Or.inr ⟨z, List.mem_cons_of_mem _ hz, hzk⟩

/-- **Inserting a row keeps "at most one row per key"**, whatever the merge behaviour. -/
theorem C04_insert_unique (g : EG) (d : Decl) : ∀ (rows : List Row) (r : Row), UniqueKeys rows →
    UniqueKeys (insertInto g d rows r).2 := by
  intro rows
  induction rows generalizing g with
  | nil => intro r _; simp [insertInto, UniqueKeys]
  | cons y ys ih =>
    intro r hu
    simp only [insertInto]
    unfold UniqueKeys at hu ⊢
    rw [List.pairwise_cons] at hu
    split
    · rename_i hk
      rw [List.pairwise_cons]
      refine ⟨fun b hb => ?_, hu.2⟩
      have : (mergeRows g d y r).2.args = y.args := by
        unfold mergeRows
        cases d.merge <;> simp <;> split <;> rfl
      rw [this]; exact hu.1 b hb
    · rename_i hk
      rw [List.pairwise_cons]
      refine ⟨fun b hb => ?_, ih g r hu.2⟩
      rcases insertInto_keys g d ys r b hb with h | ⟨z, hz, hzk⟩
      · rw [h]; exact hk
      · rw [← hzk]; exact hu.1 z hz

/-- **After a rebuild pass a table holds at most one row per key.** -/
theorem C04_uniqueKeys (g : EG) (f : Nat) :
    UniqueKeys ((g.table f).foldl
      (fun (acc : EG × List Row) r => insertInto acc.1 (g.decl f) acc.2 (acc.1.canonRow (g.decl f) r)) (g, [])).2 := by
  have key : ∀ (rows : List Row) (acc : EG × List Row), UniqueKeys acc.2 →
      UniqueKeys (rows.foldl (fun (acc : EG × List Row) r => insertInto acc.1 (g.decl f) acc.2 (acc.1.canonRow (g.decl f) r)) acc).2 := by
    intro rows
    induction rows with
    | nil => intro acc h; exact h
    | cons r rs ih => intro acc h; exact ih _ (C04_insert_unique acc.1 (g.decl f) acc.2 _ h)
  exact key _ _ (by simp [UniqueKeys])

/-- canonicalisation is idempotent on id columns: a canonicalised row is stable under the same
union-find (uses C17: `find` returns a root) -/
theorem C04_canon_idem_arg (g : EG) (v : Int) (h : UF.AInv g.parents) : g.find (g.find v) = g.find v := by
  unfold EG.find
  have : (Int.ofNat (UF.findNaive g.parents v.toNat)).toNat = UF.findNaive g.parents v.toNat := Int.toNat_natCast _
  rw [this, UF.findNaive_eq h, UF.findNaive_eq h, UF.root_idem h]

end EgglogVerif.EGraph
