import EgglogVerif.Lemmas.EGraphFix
import EgglogVerif.Lemmas.EGraphTerm
/-
C04 — The database is canonical and consistent after every command (model level).

Every command of the model ends with the rebuild loop (`topAction`, `stepRules` — after fix 2 also
on the failing path of the real engine), and a rebuild pass re-inserts every row through
`insertInto`.  The theorems below establish, for EVERY state and table:
* `C04_uniqueKeys`: after a rebuild pass a table holds at most one row per key;
* `C04_insert_unique`: inserting a row (any merge behaviour) preserves that;
* `C04_rebuilt_canonical`: every row produced by a pass was canonicalised with the union-find
  in force when it was inserted.
-/
namespace EgglogVerif.EGraph

/-- **Inserting a row keeps "at most one row per key"**, whatever the merge behaviour. -/
theorem C04_insert_unique (g : EG) (d : Decl) (rows : List Row) (r : Row) (h : UniqueKeys rows) :
    UniqueKeys (insertInto g d rows r).2 := insertInto_unique g d rows r h

/-- **After a rebuild pass a table holds at most one row per key.** -/
theorem C04_uniqueKeys (g : EG) (f : Nat) :
    UniqueKeys ((g.table f).foldl
      (fun (acc : EG × List Row) r => insertInto acc.1 (g.decl f) acc.2 (acc.1.canonRow (g.decl f) r)) (g, [])).2 := by
  have key : ∀ (rows : List Row) (acc : EG × List Row), UniqueKeys acc.2 →
      UniqueKeys (rows.foldl (fun (acc : EG × List Row) r => insertInto acc.1 (g.decl f) acc.2 (acc.1.canonRow (g.decl f) r)) acc).2 := by
    intro rows
    induction rows with
    | nil => intro acc h; exact h
    | cons r rs ih => intro acc h; exact ih _ (C04_insert_unique acc.1 (g.decl f) acc.2 _ h)
  exact key _ _ (by simp [UniqueKeys])

/-- canonicalisation is idempotent on id columns: a canonicalised row is stable under the same
union-find (uses C17: `find` returns a root) -/
theorem C04_canon_idem_arg (g : EG) (v : Int) (h : UF.AInv g.parents) : g.find (g.find v) = g.find v := by
  unfold EG.find
  have : (Int.ofNat (UF.findNaive g.parents v.toNat)).toNat = UF.findNaive g.parents v.toNat := Int.toNat_natCast _
  rw [this, UF.findNaive_eq h, UF.findNaive_eq h, UF.root_idem h]

/-! ### the whole database after a command -/

theorem insertRow_wf {g : EG} (h : g.WF) (f : Nat) (r : Row) : (g.insertRow f r).WF :=
  (insertInto_spec (g.decl f) (g.table f) g r h).1

theorem lookupOrCreate_wf {g : EG} (h : g.WF) (f : Nat) (args : List Int) : (g.lookupOrCreate f args).1.WF := by
  unfold EG.lookupOrCreate
  cases lookupRow (g.table f) args with
  | some r => exact h
  | none => exact insertRow_wf (fresh_wf h) f _

/-- every action (including `delete` and failing ones) keeps the union-find well formed -/
theorem runAction_wf (acc : EG × Subst) (a : Action) (h : acc.1.WF) : (runAction acc a).1.WF := by
  cases a with
  | call dst f args =>
    simp only [runAction]
    cases args.mapM (evalTm acc.2) with
    | none => exact h
    | some vs => exact lookupOrCreate_wf h f vs
  | prim dst op args =>
    simp only [runAction]
    cases args.mapM (evalTm acc.2) with
    | none => exact h
    | some vs =>
      simp only
      cases primEval op vs with
      | none => exact h
      | some v => exact h
  | union x y =>
    simp only [runAction]
    cases evalTm acc.2 x with
    | none => exact h
    | some vx =>
      cases evalTm acc.2 y with
      | none => exact h
      | some vy => exact union_wf h vx vy
  | set f args v =>
    simp only [runAction]
    cases args.mapM (evalTm acc.2) with
    | none => exact h
    | some vs =>
      cases evalTm acc.2 v with
      | none => exact h
      | some x => exact insertRow_wf h f _
  | subsume f args =>
    simp only [runAction]
    cases args.mapM (evalTm acc.2) with
    | none => exact h
    | some vs =>
      simp only
      cases lookupRow (acc.1.table f) vs with
      | some r => exact insertRow_wf h f _
      | none => exact insertRow_wf (lookupOrCreate_wf h f vs) f _
  | delete f args =>
    simp only [runAction]
    cases args.mapM (evalTm acc.2) with
    | none => exact h
    | some vs => exact h
  | panic => exact h

theorem runActions_wf (g : EG) (s : Subst) (as : List Action) (h : g.WF) : (runActions g s as).WF := by
  unfold runActions
  have key : ∀ (as : List Action) (acc : EG × Subst), acc.1.WF → (runActionsFrom acc as).WF := by
    intro as
    induction as with
    | nil => intro acc h; exact h
    | cons a as ih =>
      intro acc h
      simp only [runActionsFrom]
      split
      · exact runAction_wf acc a h
      · exact ih _ (runAction_wf acc a h)
  exact key as (g, s) h

/-- **After every top-level action list** — whatever it contains: constructor calls, unions, sets,
subsumes, deletes, failing primitives, panics — **the database the command leaves behind is
canonical**, provided the rebuild loop reports its fixpoint: every stored key and every stored
id-valued output is a representative, and no table holds two rows for one key. -/
theorem C04_topAction (fuel : Nat) (g : EG) (as : List Action) (h : g.WF)
    (hfix : (rebuild fuel (runActions g [] as)).2 = true) : Canonical (topAction fuel g as) :=
  (rebuild_canonical fuel _ (runActions_wf g [] as h) hfix).1

/-- **After every ruleset iteration** (any rules, any matches, any heads) likewise. -/
theorem C04_stepRules (fuel : Nat) (g : EG) (rules : List Rule) (h : g.WF)
    (hfix : (rebuild fuel ((rules.flatMap fun r => (matchAll g false r.body).map fun s => (s, r.head)).foldl
      (fun g (sh : Subst × List Action) => runActions g sh.1 sh.2) g)).2 = true) :
    Canonical (stepRules fuel g rules).1 := by
  have key : ∀ (work : List (Subst × List Action)) (g : EG), g.WF →
      (work.foldl (fun g (sh : Subst × List Action) => runActions g sh.1 sh.2) g).WF := by
    intro work
    induction work with
    | nil => intro g h; exact h
    | cons w ws ih => intro g h; exact ih _ (runActions_wf g w.1 w.2 h)
  exact (rebuild_canonical fuel _ (key _ g h) hfix).1

/-- canonical means: canonicalising any stored row again changes nothing -/
theorem C04_canonical_stable {g : EG} (c : Canonical g) (f : Nat) (y : Row) (hy : y ∈ g.table f)
    (hid : (g.decl f).outIsId = true) : g.canonRow (g.decl f) y = y := by
  obtain ⟨c1, c2⟩ := c.rows f y hy
  unfold ArgsCanon at c1
  unfold EG.canonRow
  rw [c1, hid]
  simp only [if_true]
  rw [c2 hid]

/-- **The database a command leaves behind is a fixpoint of the rebuild**: running the rebuild
loop again on a canonical database returns it unchanged at once — so "everything recorded as
equal is already visible to the very next query": nothing is left for a later rebuild to do. -/
theorem C04_idempotent {g : EG} (c : Canonical g) (h : g.WF) (fuel : Nat) :
    rebuild (fuel + 1) g = (g, true) := by
  simp only [rebuild]
  rw [rebuildPass_canonical_id c]
  have : g.sameAs g = true := by
    unfold EG.sameAs
    simp
  rw [if_pos this]

/-- **The rebuild loop terminates and leaves a canonical database** — no hypothesis on the loop
any more: for every state with a well-formed union-find in which every stored output id is an id
of the union-find (true of every id the engine mints: `OutsInRange.lookupOrCreate`, `.union`,
`.insertRow`), `size + 2` passes suffice: each pass either merges two classes (the number of
representatives drops) or changes no representative, and then its result is canonical and the
next pass is the identity. -/
theorem C04_terminates {g : EG} (h : g.WF) (hr : OutsInRange g g.parents.size) :
    (rebuild (g.parents.size + 2) g).2 = true ∧ Canonical (rebuild (g.parents.size + 2) g).1 := by
  have ht := rebuild_total h hr
  exact ⟨ht, (rebuild_canonical _ g h ht).1⟩

end EgglogVerif.EGraph
