import EgglogVerif.Model.Displaced
import EgglogVerif.Lemmas.UF
/-
C16 (the union-find table) — `DisplacedTable` behaves like the keyed map
`{ child ↦ (its current representative, the timestamp at which it was displaced) }` whose keys are
exactly the ids that are not their own representative.

* `C16_displaced_inv`     — the invariant (`lookup_table` is the inverse of the row list, one row per
                            displaced id, the rows' keys are exactly the non-representatives) holds
                            after every sequence of inserts and clears;
* `C16_displaced_getRow`  — point lookups return exactly that map;
* `C16_displaced_scan`    — a full scan returns each displaced id once, with its CURRENT representative
                            (rows are expanded on demand, so a later union is reflected at once);
* `C16_displaced_clear`   — `clear` is a fresh table; `C16_displaced_pinned_clear` — the pinned `clear`
                            (defect 7) leaves the lookup table pointing at rows that no longer exist.
-/
namespace EgglogVerif.Displaced
open EgglogVerif UF

def DT.rt (t : DT) (x : Nat) : Nat := root (par t.uf) x

structure DInv (t : DT) : Prop where
  wf : AInv t.uf
  kids : ∀ x, (∃ ts, (x, ts) ∈ t.displaced) ↔ t.rt x ≠ x
  nodup : (t.displaced.map (·.1)).Nodup
  look : ∀ k i, t.lookup k = some i ↔ ∃ ts, t.displaced[i]? = some (k, ts)

theorem DInv.empty : DInv {} := by
  refine ⟨?_, ?_, by simp, ?_⟩
  · intro x; show par #[] x ≤ x; rw [par_ge_size (by simp)]; exact Nat.le_refl _
  · intro x
    have h0 : AInv (#[] : Parents) := by intro y; rw [par_ge_size (by simp)]; exact Nat.le_refl _
    have : ({} : DT).rt x = x := root_of_fix h0 (par_ge_size (by simp))
    simp [this]
  · intro k i; simp

/-- the two `find`s and the `union` of `insert_impl`, spelled out -/
theorem insert_roots (t : DT) (a b : Nat) (h : AInv t.uf) :
    let p1 := (find t.uf a).1
    let p2 := (find p1 b).1
    AInv p2 ∧ (∀ x, root (par p2) x = t.rt x) ∧ (find t.uf a).2 = t.rt a ∧ (find p1 b).2 = t.rt b := by
  intro p1 p2
  obtain ⟨a1, a2, a3, _⟩ := find_spec t.uf a h
  obtain ⟨b1, b2, b3, _⟩ := find_spec (find t.uf a).1 b a1
  refine ⟨b1, fun x => by show root (par (find (find t.uf a).1 b).1) x = _; rw [b3, a3]; rfl, a2, ?_⟩
  show (find (find t.uf a).1 b).2 = _
  rw [b2, a3]; rfl

/-- the shape of the state after an insert that really unions two classes, with the facts that matter -/
theorem insert_ne_shape (t : DT) (a b ts : Nat) (h : AInv t.uf) (hne : t.rt a ≠ t.rt b) :
    ∃ p5, AInv p5 ∧
      (∀ x, root (par p5) x = if t.rt x = max (t.rt a) (t.rt b) then min (t.rt a) (t.rt b) else t.rt x) ∧
      (t.insert a b ts).1 = { uf := p5, displaced := t.displaced ++ [(max (t.rt a) (t.rt b), ts)], lookup := fun k => if k = max (t.rt a) (t.rt b) then some t.displaced.length else t.lookup k } := by
  obtain ⟨w2, r2, ea, eb⟩ := insert_roots t a b h
  obtain ⟨u1, u2, u3⟩ := union_spec (find (find t.uf a).1 b).1 a b w2
  simp only [r2] at u2 u3
  rw [if_pos hne] at u2
  unfold DT.insert
  simp only
  rw [ea, eb, if_neg hne]
  generalize hU : union (find (find t.uf a).1 b).1 a b = U at u1 u2 u3
  obtain ⟨p3, parent, child⟩ := U
  simp only at u1 u2 u3 ⊢
  obtain ⟨rfl, rfl⟩ := Prod.mk.inj u2
  obtain ⟨c1, _, c3, _⟩ := find_spec p3 (min (t.rt a) (t.rt b)) u1
  generalize hF1 : find p3 (min (t.rt a) (t.rt b)) = F1 at c1 c3
  obtain ⟨p4, r4⟩ := F1
  simp only at c1 c3 ⊢
  obtain ⟨d1, _, d3, _⟩ := find_spec p4 (max (t.rt a) (t.rt b)) c1
  generalize hF2 : find p4 (max (t.rt a) (t.rt b)) = F2 at d1 d3
  obtain ⟨p5, r5⟩ := F2
  simp only at d1 d3 ⊢
  refine ⟨p5, d1, fun x => ?_, rfl⟩
  rw [d3, c3, u3]
  simp only [hne, ne_eq, not_false_eq_true, true_and]

theorem DInv.insert {t : DT} (i : DInv t) (a b ts : Nat) : DInv (t.insert a b ts).1 := by
  by_cases hne : t.rt a = t.rt b
  · -- already in one class: only path compression happened
    obtain ⟨w2, r2, ea, eb⟩ := insert_roots t a b i.wf
    have hshape : (t.insert a b ts).1 = { t with uf := (find (find t.uf a).1 b).1 } := by
      unfold DT.insert
      simp only
      rw [ea, eb, if_pos hne]
    rw [hshape]
    refine ⟨w2, fun x => ?_, i.nodup, i.look⟩
    have : DT.rt { t with uf := (find (find t.uf a).1 b).1 } x = t.rt x := r2 x
    rw [this]; exact i.kids x
  · obtain ⟨p5, d1, hroot, hshape⟩ := insert_ne_shape t a b ts i.wf hne
    rw [hshape]
    have hmaxroot : t.rt (max (t.rt a) (t.rt b)) = max (t.rt a) (t.rt b) := by
      rcases Nat.le_total (t.rt a) (t.rt b) with hle | hle
      · rw [Nat.max_eq_right hle]; exact root_idem i.wf b
      · rw [Nat.max_eq_left hle]; exact root_idem i.wf a
    have hlt : min (t.rt a) (t.rt b) < max (t.rt a) (t.rt b) := by omega
    have hnotold : ¬ ∃ ts', (max (t.rt a) (t.rt b), ts') ∈ t.displaced := by
      intro hex; exact (i.kids _).mp hex hmaxroot
    refine ⟨d1, ?_, ?_, ?_⟩
    · intro x
      show (∃ ts', (x, ts') ∈ t.displaced ++ [(max (t.rt a) (t.rt b), ts)]) ↔ root (par p5) x ≠ x
      rw [hroot x]
      constructor
      · rintro ⟨ts', hm⟩
        simp only [List.mem_append, List.mem_singleton, Prod.mk.injEq] at hm
        rcases hm with hm | ⟨rfl, _⟩
        · have hold := (i.kids x).mp ⟨ts', hm⟩
          split
          · rename_i hx
            have : t.rt x ≤ x := root_le i.wf x
            omega
          · exact hold
        · rw [if_pos hmaxroot]; omega
      · intro hx
        by_cases hc : t.rt x = max (t.rt a) (t.rt b)
        · by_cases hxe : x = max (t.rt a) (t.rt b)
          · exact ⟨ts, by simp [hxe]⟩
          · have hold : t.rt x ≠ x := by rw [hc]; exact fun e => hxe e.symm
            obtain ⟨ts', hm⟩ := (i.kids x).mpr hold
            exact ⟨ts', List.mem_append_left _ hm⟩
        · rw [if_neg hc] at hx
          obtain ⟨ts', hm⟩ := (i.kids x).mpr hx
          exact ⟨ts', List.mem_append_left _ hm⟩
    · show ((t.displaced ++ [(max (t.rt a) (t.rt b), ts)]).map (·.1)).Nodup
      rw [List.map_append, List.nodup_append]
      refine ⟨i.nodup, by simp, ?_⟩
      intro x hx y hy
      simp only [List.map_cons, List.map_nil, List.mem_singleton] at hy
      subst hy
      intro e; subst e
      obtain ⟨p, hp, hpe⟩ := List.mem_map.mp hx
      exact hnotold ⟨p.2, by rw [← hpe]; exact hp⟩
    · intro k j
      show (if k = max (t.rt a) (t.rt b) then some t.displaced.length else t.lookup k) = some j ↔
        ∃ ts', (t.displaced ++ [(max (t.rt a) (t.rt b), ts)])[j]? = some (k, ts')
      by_cases hk : k = max (t.rt a) (t.rt b)
      · subst hk
        rw [if_pos rfl]
        constructor
        · intro e
          have : j = t.displaced.length := (Option.some.inj e).symm
          subst this
          exact ⟨ts, by simp⟩
        · rintro ⟨ts', hj⟩
          by_cases hjl : j < t.displaced.length
          · rw [List.getElem?_append_left hjl] at hj
            exact absurd ⟨ts', List.mem_of_getElem? hj⟩ hnotold
          · have hjl' : t.displaced.length ≤ j := Nat.le_of_not_lt hjl
            rw [List.getElem?_append_right hjl'] at hj
            have : j - t.displaced.length = 0 := by
              apply Classical.byContradiction
              intro hne0
              have : ([(max (t.rt a) (t.rt b), ts)] : List (Nat × Nat))[j - t.displaced.length]? = none := by
                apply List.getElem?_eq_none; simp; omega
              rw [this] at hj; cases hj
            have : j = t.displaced.length := by omega
            rw [this]
      · rw [if_neg hk]
        rw [i.look k j]
        constructor
        · rintro ⟨ts', hj⟩
          have hjl : j < t.displaced.length := by
            apply Classical.byContradiction
            intro hge
            rw [List.getElem?_eq_none (Nat.le_of_not_lt hge)] at hj; cases hj
          exact ⟨ts', by rw [List.getElem?_append_left hjl]; exact hj⟩
        · rintro ⟨ts', hj⟩
          by_cases hjl : j < t.displaced.length
          · rw [List.getElem?_append_left hjl] at hj; exact ⟨ts', hj⟩
          · have hjl' : t.displaced.length ≤ j := Nat.le_of_not_lt hjl
            rw [List.getElem?_append_right hjl'] at hj
            by_cases h0 : j - t.displaced.length = 0
            · rw [h0] at hj
              simp only [List.getElem?_cons_zero, Option.some.injEq, Prod.mk.injEq] at hj
              exact absurd hj.1.symm hk
            · have : ([(max (t.rt a) (t.rt b), ts)] : List (Nat × Nat))[j - t.displaced.length]? = none := by
                apply List.getElem?_eq_none; simp; omega
              rw [this] at hj; cases hj

theorem DInv.clear {t : DT} (_ : DInv t) : DInv t.clear := by
  have hw : AInv (reset t.uf) := by intro x; rw [par_reset]; exact Nat.le_refl _
  refine ⟨hw, fun x => ?_, by simp [DT.clear], fun k i => by simp [DT.clear]⟩
  have : t.clear.rt x = x := root_of_fix hw (par_reset t.uf x)
  simp [DT.clear, this]
  exact this

/-- operations on the table -/
inductive DOp where
  | insert (a b ts : Nat)
  | clear

def dstep (t : DT) : DOp → DT
  | .insert a b ts => (t.insert a b ts).1
  | .clear => t.clear

/-- **The invariant holds after every sequence of inserts and clears.** -/
theorem C16_displaced_inv (ops : List DOp) : DInv (ops.foldl dstep {}) := by
  have key : ∀ (ops : List DOp) (t : DT), DInv t → DInv (ops.foldl dstep t) := by
    intro ops
    induction ops with
    | nil => intro t i; exact i
    | cons op ops ih =>
      intro t i
      apply ih
      cases op with
      | insert a b ts => exact i.insert a b ts
      | clear => exact i.clear
  exact key ops {} DInv.empty

/-- **Point lookups are the keyed map** `child ↦ (current representative, timestamp)`; ids that are
their own representative have no row. -/
theorem C16_displaced_getRow {t : DT} (i : DInv t) (k : Nat) :
    (t.rt k = k → t.getRow k = none) ∧
    (t.rt k ≠ k → ∃ ts, (k, ts) ∈ t.displaced ∧ t.getRow k = some (k, t.rt k, ts)) := by
  constructor
  · intro hk
    unfold DT.getRow
    cases hl : t.lookup k with
    | none => rfl
    | some j =>
      obtain ⟨ts, hj⟩ := (i.look k j).mp hl
      exact absurd hk ((i.kids k).mp ⟨ts, List.mem_of_getElem? hj⟩)
  · intro hk
    obtain ⟨ts, hm⟩ := (i.kids k).mpr hk
    obtain ⟨j, hj⟩ := List.getElem?_of_mem hm
    have hl := (i.look k j).mpr ⟨ts, hj⟩
    refine ⟨ts, hm, ?_⟩
    unfold DT.getRow DT.expand
    rw [hl]
    simp only [Option.bind_some, hj, Option.map_some]
    rw [findNaive_eq i.wf]; rfl

/-- **A full scan returns each displaced id exactly once, with its current representative.** -/
theorem C16_displaced_scan {t : DT} (i : DInv t) :
    (t.scan.map (·.1)).Nodup ∧ ∀ c p ts, (c, p, ts) ∈ t.scan ↔ ((c, ts) ∈ t.displaced ∧ p = t.rt c) := by
  constructor
  · have : t.scan.map (·.1) = t.displaced.map (·.1) := by
      unfold DT.scan; simp [List.map_map, Function.comp_def]
    rw [this]; exact i.nodup
  · intro c p ts
    unfold DT.scan
    simp only [List.mem_map, Prod.mk.injEq]
    constructor
    · rintro ⟨⟨c', ts'⟩, hm, rfl, rfl, rfl⟩
      exact ⟨hm, findNaive_eq i.wf _⟩
    · rintro ⟨hm, rfl⟩
      exact ⟨(c, ts), hm, rfl, findNaive_eq i.wf c, rfl⟩

/-- **`clear` gives a fresh table**: no rows, no lookups, every id its own representative. -/
theorem C16_displaced_clear (t : DT) (k : Nat) : t.clear.scan = [] ∧ t.clear.getRow k = none ∧ t.clear.rt k = k := by
  have hw : AInv (reset t.uf) := by intro x; rw [par_reset]; exact Nat.le_refl _
  refine ⟨rfl, rfl, root_of_fix hw (par_reset t.uf k)⟩

/-- **Defect 7 (pinned `clear`)**: after a row was displaced, the pinned `clear` leaves a lookup
entry that points at a row which no longer exists. -/
theorem C16_displaced_pinned_clear :
    let t := (({} : DT).insert 0 1 5).1
    t.clearPinned.lookup 1 = some 0 ∧ t.clearPinned.displaced[0]? = none ∧ ¬ DInv t.clearPinned := by
  refine ⟨by decide, by decide, ?_⟩
  intro h
  have := (h.look 1 0).mp (by decide)
  obtain ⟨ts, hts⟩ := this
  have : ((({} : DT).insert 0 1 5).1.clearPinned).displaced[0]? = none := by decide
  rw [this] at hts; cases hts

/-! ### timestamp-range subsets -/

/-- rows are in non-decreasing timestamp order -/
def TsSorted (d : List (Nat × Nat)) : Prop := d.Pairwise (fun a b => a.2 ≤ b.2)

theorem TsSorted.snoc {d : List (Nat × Nat)} (h : TsSorted d) (r : Nat × Nat) (hok : tsOk d r.2 = true) :
    TsSorted (d ++ [r]) := by
  unfold TsSorted at *
  rw [List.pairwise_append]
  refine ⟨h, List.pairwise_singleton _ _, ?_⟩
  intro a ha b hb
  simp only [List.mem_singleton] at hb
  subst hb
  unfold tsOk at hok
  cases hl : d.getLast? with
  | none =>
    rw [List.getLast?_eq_none_iff] at hl
    subst hl; cases ha
  | some l =>
    rw [hl] at hok
    simp only [decide_eq_true_eq] at hok
    -- every row is ≤ the last one
    have hlast : a.2 ≤ l.2 := by
      obtain ⟨pre, rfl⟩ : ∃ pre, d = pre ++ [l] := by
        have := List.getLast?_eq_some_iff.mp hl
        obtain ⟨pre, hpre⟩ := this
        exact ⟨pre, hpre⟩
      rw [List.pairwise_append] at h
      rcases List.mem_append.mp ha with h1 | h1
      · exact h.2.2 a h1 l (by simp)
      · simp only [List.mem_singleton] at h1; subst h1; exact Nat.le_refl _
    exact Nat.le_trans hlast hok

theorem sorted_dropWhile_lt (val : Nat) : ∀ (d : List (Nat × Nat)), TsSorted d →
    ∀ x ∈ d.dropWhile (fun r => r.2 < val), val ≤ x.2 := by
  intro d
  induction d with
  | nil => intro _ x hx; cases hx
  | cons y ys ih =>
    intro hs x hx
    have hs' := List.pairwise_cons.mp hs
    rw [List.dropWhile_cons] at hx
    split at hx
    · exact ih hs'.2 x hx
    · rename_i hy
      simp only [decide_eq_true_eq, Nat.not_lt] at hy
      rcases List.mem_cons.mp hx with h1 | h1
      · subst h1; exact hy
      · exact Nat.le_trans hy (hs'.1 x h1)

theorem sorted_dropWhile_eq (val : Nat) : ∀ (d : List (Nat × Nat)), TsSorted d → (∀ x ∈ d, val ≤ x.2) →
    ∀ x ∈ d.dropWhile (fun r => r.2 == val), val < x.2 := by
  intro d
  induction d with
  | nil => intro _ _ x hx; cases hx
  | cons y ys ih =>
    intro hs hge x hx
    have hs' := List.pairwise_cons.mp hs
    rw [List.dropWhile_cons] at hx
    split at hx
    · exact ih hs'.2 (fun z hz => hge z (List.mem_cons_of_mem _ hz)) x hx
    · rename_i hy
      simp only [beq_iff_eq] at hy
      have hy' : val < y.2 := Nat.lt_of_le_of_ne (hge y List.mem_cons_self) (fun h => hy h.symm)
      rcases List.mem_cons.mp hx with h1 | h1
      · subst h1; exact hy'
      · exact Nat.lt_of_lt_of_le hy' (hs'.1 x h1)

theorem TsSorted.dropWhile {d : List (Nat × Nat)} (h : TsSorted d) (p : Nat × Nat → Bool) : TsSorted (d.dropWhile p) :=
  List.Pairwise.sublist (List.dropWhile_sublist p) h

theorem filter_all {p : Nat × Nat → Bool} : ∀ (l : List (Nat × Nat)), (∀ x ∈ l, p x = true) → l.filter p = l
  | [], _ => rfl
  | x :: xs, h => by
    rw [List.filter_cons, if_pos (h x List.mem_cons_self), filter_all xs (fun y hy => h y (List.mem_cons_of_mem _ hy))]

theorem filter_none {p : Nat × Nat → Bool} : ∀ (l : List (Nat × Nat)), (∀ x ∈ l, p x = false) → l.filter p = []
  | [], _ => rfl
  | x :: xs, h => by
    rw [List.filter_cons, h x List.mem_cons_self]
    simp only [Bool.false_eq_true, if_false]
    exact filter_none xs (fun y hy => h y (List.mem_cons_of_mem _ hy))

theorem slice_pre (A R : List (Nat × Nat)) : slice (A ++ R) (0, A.length) = A := by simp [slice]
theorem slice_post (A R : List (Nat × Nat)) : slice (A ++ R) (A.length, (A ++ R).length) = R := by simp [slice]
theorem slice_mid (A B C : List (Nat × Nat)) : slice (A ++ (B ++ C)) (A.length, A.length + B.length) = B := by
  simp [slice]
theorem slice_pre2 (A B C : List (Nat × Nat)) : slice (A ++ (B ++ C)) (0, A.length + B.length) = A ++ B := by
  simp [slice, ← List.append_assoc]
theorem slice_post2 (A B C : List (Nat × Nat)) : slice (A ++ (B ++ C)) (A.length + B.length, (A ++ (B ++ C)).length) = C := by
  have : A ++ (B ++ C) = (A ++ B) ++ C := by simp
  rw [this, ← List.length_append]
  exact slice_post (A ++ B) C

theorem mem_takeWhile_sat {p : Nat × Nat → Bool} : ∀ (l : List (Nat × Nat)) (x : Nat × Nat), x ∈ l.takeWhile p → p x = true
  | [], _, h => by cases h
  | y :: ys, x, h => by
    rw [List.takeWhile_cons] at h
    split at h
    · rename_i hy
      rcases List.mem_cons.mp h with h1 | h1
      · subst h1; exact hy
      · exact mem_takeWhile_sat ys x h1
    · cases h

/-- the three segments of a timestamp-sorted table around a value -/
theorem ts_segments (d : List (Nat × Nat)) (hs : TsSorted d) (val : Nat) :
    ∃ A B C : List (Nat × Nat), d = A ++ (B ++ C) ∧ (∀ x ∈ A, x.2 < val) ∧ (∀ x ∈ B, x.2 = val) ∧ (∀ x ∈ C, val < x.2) ∧
      tsBounds d val = if A.length < A.length + B.length then .ok (A.length, A.length + B.length) else .error A.length := by
  refine ⟨d.takeWhile (fun r => r.2 < val), (d.dropWhile (fun r => r.2 < val)).takeWhile (fun r => r.2 == val),
    (d.dropWhile (fun r => r.2 < val)).dropWhile (fun r => r.2 == val), ?_, ?_, ?_, ?_, rfl⟩
  · rw [List.takeWhile_append_dropWhile, List.takeWhile_append_dropWhile]
  · intro x hx; simpa using mem_takeWhile_sat _ x hx
  · intro x hx; simpa using mem_takeWhile_sat _ x hx
  · exact sorted_dropWhile_eq val _ (hs.dropWhile _) (sorted_dropWhile_lt val d hs)

/-- the range `fast_subset` returns, in terms of the segment lengths -/
def tsForm (a b n : Nat) : TsC → Nat × Nat
  | .lt => (0, a) | .le => (0, a + b) | .gt => (a + b, n) | .ge => (a, n) | .eq => (a, a + b)

/-- **Timestamp-range subsets**: on a table whose rows carry non-decreasing timestamps, the dense
range that `fast_subset` returns for `ts < v`, `ts ≤ v`, `ts > v`, `ts ≥ v`, `ts = v` holds exactly
the rows that satisfy the constraint, in table order. -/
theorem C16_displaced_ts_range (d : List (Nat × Nat)) (hs : TsSorted d) (k : TsC) (val : Nat) (r : Nat × Nat)
    (h : tsRange d k val = some r) : slice d r = d.filter (fun row => k.sat val row.2) := by
  obtain ⟨A, B, C, hd, hA, hB, hC, hb⟩ := ts_segments d hs val
  have hr : r = tsForm A.length B.length d.length k := by
    unfold tsRange at h
    rw [hb] at h
    by_cases hlt : A.length < A.length + B.length
    · rw [if_pos hlt] at h
      cases k <;> simp only [Option.some.injEq] at h <;> exact h.symm
    · rw [if_neg hlt] at h
      have hB0 : B.length = 0 := by omega
      cases k <;> simp only [Option.some.injEq, reduceCtorEq] at h <;> simp [tsForm, hB0, ← h]
  have hf : ∀ p : Nat × Nat → Bool, d.filter p = A.filter p ++ (B.filter p ++ C.filter p) := by
    intro p; rw [hd]; simp [List.filter_append]
  rw [hr, hf]
  cases k with
  | lt =>
    simp only [TsC.sat, tsForm]
    rw [filter_all A (fun x hx => by simpa using hA x hx), filter_none B (fun x hx => by simp [hB x hx]),
      filter_none C (fun x hx => by have := hC x hx; simp; omega)]
    rw [hd]; simpa using slice_pre A (B ++ C)
  | le =>
    simp only [TsC.sat, tsForm]
    rw [filter_all A (fun x hx => by have := hA x hx; simp; omega), filter_all B (fun x hx => by simp [hB x hx]),
      filter_none C (fun x hx => by have := hC x hx; simp; omega)]
    rw [hd]; simpa using slice_pre2 A B C
  | gt =>
    simp only [TsC.sat, tsForm]
    rw [filter_none A (fun x hx => by have := hA x hx; simp; omega), filter_none B (fun x hx => by simp [hB x hx]),
      filter_all C (fun x hx => by simpa using hC x hx)]
    have := slice_post2 A B C
    rw [← hd] at this
    simpa using this
  | ge =>
    simp only [TsC.sat, tsForm]
    rw [filter_none A (fun x hx => by have := hA x hx; simp; omega), filter_all B (fun x hx => by simp [hB x hx]),
      filter_all C (fun x hx => by have := hC x hx; simp; omega)]
    have := slice_post A (B ++ C)
    rw [← hd] at this
    simpa using this
  | eq =>
    simp only [TsC.sat, tsForm]
    rw [filter_none A (fun x hx => by have := hA x hx; simp; omega), filter_all B (fun x hx => by simp [hB x hx]),
      filter_none C (fun x hx => by have := hC x hx; simp; omega)]
    rw [hd]; simpa using slice_mid A B C

/-- an `=` constraint for which there is no fast subset selects nothing -/
theorem C16_displaced_ts_eq_none (d : List (Nat × Nat)) (hs : TsSorted d) (val : Nat)
    (h : tsRange d .eq val = none) : d.filter (fun row => row.2 == val) = [] := by
  obtain ⟨A, B, C, hd, hA, hB, hC, hb⟩ := ts_segments d hs val
  unfold tsRange at h
  rw [hb] at h
  by_cases hlt : A.length < A.length + B.length
  · rw [if_pos hlt] at h; cases h
  · have hB0 : B = [] := List.length_eq_zero_iff.mp (by omega)
    rw [hd, hB0]
    simp only [List.nil_append, List.filter_append]
    rw [filter_none A (fun x hx => by have := hA x hx; simp; omega), filter_none C (fun x hx => by have := hC x hx; simp; omega)]
    rfl

/-- the timestamp order is kept by every insertion the table accepts -/
theorem C16_displaced_ts_sorted (d : List (Nat × Nat)) (hs : TsSorted d) (c ts : Nat) (hok : tsOk d ts = true) :
    TsSorted (d ++ [(c, ts)]) := hs.snoc (c, ts) hok

example : tsRange [(5, 1), (3, 1), (9, 2), (4, 4)] .ge 2 = some (2, 4) := by decide
example : tsRange [(5, 1), (3, 1), (9, 2), (4, 4)] .eq 3 = none := by decide
example : slice [(5, 1), (3, 1), (9, 2), (4, 4)] (0, 2) = [(5, 1), (3, 1)] := by decide

end EgglogVerif.Displaced
