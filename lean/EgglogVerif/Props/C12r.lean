import EgglogVerif.Props.C12
/-
C12 — the rule layer of the proof checker: "the checker accepts a proof only if each step is
justified by that program".

`Derivable prog terms leaf` is the least set of propositions that contains the leaf propositions
(MergeFn steps), `t = t` for literals, the propositions of the program's TOP-LEVEL ACTIONS, and is
closed under symmetry, transitivity, congruence and the RULES OF THE CHECKING PROGRAM (a rule
instance whose body facts are all derivable yields its head propositions).  `C12_rule_sound`: a
proof the checker accepts against `prog` proves only derivable propositions — for every closed
set `D`, hence for the least one (`C12_accepted_derivable`).  Consequently
(`C12_altered_program_rejected`) the same proof checked against an altered program that no
longer derives its conclusion is rejected; `C12_rule_missing_rejected`, `C12_rule_premise_count`,
`C12_rule_fact_checked` and `C12_fiat_unjustified_rejected` are the single-point forms: a removed
rule, a rule that gained or lost a body fact, a premise that does not match its body fact, a
removed or altered top-level fact.
-/
namespace EgglogVerif.ProofCk

/-- `b` is a subterm of `a` in the term table -/
inductive Reach (terms : Array Term) : Nat → Nat → Prop
  | refl (a : Nat) : Reach terms a a
  | step {a : Nat} {t : Term} {k b : Nat} : terms[a]? = some t → k ∈ t.kids → Reach terms k b → Reach terms a b

/-- the body facts of a rule instance are matched, in order and one for one, by the propositions
`prems` -/
def Matches (terms : Array Term) (σ : List (Nat × Nat)) : List RFact → List (Nat × Nat) → Prop
  | [], [] => True
  | f :: fs, p :: ps =>
    ((f.anyLhs = true ∨ instId terms σ f.lhs = some p.1) ∧ instId terms σ f.rhs = some p.2) ∧ Matches terms σ fs ps
  | _, _ => False

/-- a set of propositions closed under the inference steps the checker knows, for the rules of
one program -/
structure Closed (prog : Prog) (terms : Array Term) (D : Nat → Nat → Prop) : Prop where
  lit : ∀ a t, terms[a]? = some t → t.head ∈ prog.lits → D a a
  fiatEq : ∀ xy ∈ (runActs terms [] prog.globals).eqs, D xy.1 xy.2
  fiatRefl : ∀ x ∈ (runActs terms [] prog.globals).roots, ∀ y, Reach terms x y → D y y
  sym : ∀ a b, D a b → D b a
  trans : ∀ a b c, D a b → D b c → D a c
  congr : ∀ l t t' c c' i tt, D l t → D c c' → terms[t]? = some tt → tt.kids[i]? = some c →
    terms[t']? = some ⟨tt.head, tt.kids.set i c'⟩ → D l t'
  ruleEq : ∀ rl ∈ prog.rules, ∀ σ prems, (∀ p ∈ prems, D p.1 p.2) → Matches terms σ rl.body prems →
    ∀ xy ∈ (runActs terms σ rl.head).eqs, D xy.1 xy.2
  ruleRefl : ∀ rl ∈ prog.rules, ∀ σ prems, (∀ p ∈ prems, D p.1 p.2) → Matches terms σ rl.body prems →
    ∀ x ∈ (runActs terms σ rl.head).roots, ∀ y, Reach terms x y → D y y

/-- what the program derives from the leaf propositions -/
inductive Derivable (prog : Prog) (terms : Array Term) (leaf : Nat → Nat → Prop) : Nat → Nat → Prop
  | leaf {a b} : leaf a b → Derivable prog terms leaf a b
  | lit {a t} : terms[a]? = some t → t.head ∈ prog.lits → Derivable prog terms leaf a a
  | fiatEq {xy : Nat × Nat} : xy ∈ (runActs terms [] prog.globals).eqs → Derivable prog terms leaf xy.1 xy.2
  | fiatRefl {x y} : x ∈ (runActs terms [] prog.globals).roots → Reach terms x y → Derivable prog terms leaf y y
  | sym {a b} : Derivable prog terms leaf a b → Derivable prog terms leaf b a
  | trans {a b c} : Derivable prog terms leaf a b → Derivable prog terms leaf b c → Derivable prog terms leaf a c
  | congr {l t t' c c' i tt} : Derivable prog terms leaf l t → Derivable prog terms leaf c c' →
      terms[t]? = some tt → tt.kids[i]? = some c → terms[t']? = some ⟨tt.head, tt.kids.set i c'⟩ →
      Derivable prog terms leaf l t'
  | ruleEq {rl σ} {prems : List (Nat × Nat)} {xy : Nat × Nat} : rl ∈ prog.rules →
      (∀ p ∈ prems, Derivable prog terms leaf p.1 p.2) → Matches terms σ rl.body prems →
      xy ∈ (runActs terms σ rl.head).eqs → Derivable prog terms leaf xy.1 xy.2
  | ruleRefl {rl σ} {prems : List (Nat × Nat)} {x y} : rl ∈ prog.rules →
      (∀ p ∈ prems, Derivable prog terms leaf p.1 p.2) → Matches terms σ rl.body prems →
      x ∈ (runActs terms σ rl.head).roots → Reach terms x y → Derivable prog terms leaf y y

theorem Derivable.closed (prog : Prog) (terms : Array Term) (leaf : Nat → Nat → Prop) :
    Closed prog terms (Derivable prog terms leaf) where
  lit := fun _ _ h1 h2 => .lit h1 h2
  fiatEq := fun _ h => .fiatEq h
  fiatRefl := fun _ hx _ hr => .fiatRefl hx hr
  sym := fun _ _ h => .sym h
  trans := fun _ _ _ h1 h2 => .trans h1 h2
  congr := fun _ _ _ _ _ _ _ h1 h2 h3 h4 h5 => .congr h1 h2 h3 h4 h5
  ruleEq := fun _ hrl _ _ hp hm _ hxy => .ruleEq hrl hp hm hxy
  ruleRefl := fun _ hrl _ _ hp hm _ hx _ hr => .ruleRefl hrl hp hm hx hr

/-- the least closed set: `Derivable` is below every closed set that contains the leaves -/
theorem Derivable.least {prog : Prog} {terms : Array Term} {leaf D : Nat → Nat → Prop}
    (hD : Closed prog terms D) (hl : ∀ a b, leaf a b → D a b) :
    ∀ {a b}, Derivable prog terms leaf a b → D a b := by
  intro a b h
  induction h with
  | leaf h => exact hl _ _ h
  | lit h1 h2 => exact hD.lit _ _ h1 h2
  | fiatEq h => exact hD.fiatEq _ h
  | fiatRefl hx hr => exact hD.fiatRefl _ hx _ hr
  | sym _ ih => exact hD.sym _ _ ih
  | trans _ _ ih1 ih2 => exact hD.trans _ _ _ ih1 ih2
  | congr _ _ h3 h4 h5 ih1 ih2 => exact hD.congr _ _ _ _ _ _ _ ih1 ih2 h3 h4 h5
  | ruleEq hrl _ hm hxy ih => exact hD.ruleEq _ hrl _ _ ih hm _ hxy
  | ruleRefl hrl _ hm hx hr ih => exact hD.ruleRefl _ hrl _ _ ih hm _ hx _ hr

/-! ### the computable pieces against their specifications -/

theorem reach_sound (terms : Array Term) : ∀ (fuel a b : Nat), reach terms fuel a b = true → Reach terms a b := by
  intro fuel
  induction fuel with
  | zero =>
    intro a b h
    simp only [reach, beq_iff_eq] at h
    subst h; exact .refl a
  | succ n ih =>
    intro a b h
    simp only [reach, Bool.or_eq_true, beq_iff_eq] at h
    rcases h with h | h
    · subst h; exact .refl a
    · cases ht : terms[a]? with
      | none => rw [ht] at h; simp at h
      | some t =>
        rw [ht] at h
        simp only [List.any_eq_true] at h
        obtain ⟨k, hk, hr⟩ := h
        exact .step ht hk (ih k b hr)

theorem factsOk_matches (terms : Array Term) (σ : List (Nat × Nat)) (prev : List Step) :
    ∀ (fs : List RFact) (ps : List Nat), factsOk terms σ prev fs ps = true →
      ∃ prems : List (Nat × Nat), prems.length = ps.length ∧
        (∀ p ∈ prems, ∃ sp ∈ prev, p = (sp.lhs, sp.rhs)) ∧ Matches terms σ fs prems := by
  intro fs
  induction fs with
  | nil =>
    intro ps h
    cases ps with
    | nil => exact ⟨[], rfl, (fun p hp => by cases hp), trivial⟩
    | cons p ps => simp [factsOk] at h
  | cons f fs ih =>
    intro ps h
    cases ps with
    | nil => simp [factsOk] at h
    | cons p ps =>
      simp only [factsOk, Bool.and_eq_true] at h
      obtain ⟨hf, hrest⟩ := h
      obtain ⟨prems, hlen, hall, hm⟩ := ih ps hrest
      unfold factOk at hf
      cases hp : prev[p]? with
      | none => rw [hp] at hf; simp at hf
      | some sp =>
        rw [hp] at hf
        simp only [Bool.and_eq_true, Bool.or_eq_true, beq_iff_eq] at hf
        refine ⟨(sp.lhs, sp.rhs) :: prems, by simp [hlen], ?_, ?_⟩
        · intro q hq
          rcases List.mem_cons.mp hq with rfl | hq
          · exact ⟨sp, List.mem_of_getElem? hp, rfl⟩
          · exact hall q hq
        · exact ⟨⟨hf.1, hf.2⟩, hm⟩

theorem factsOk_length (terms : Array Term) (σ : List (Nat × Nat)) (prev : List Step) :
    ∀ (fs : List RFact) (ps : List Nat), factsOk terms σ prev fs ps = true → fs.length = ps.length := by
  intro fs
  induction fs with
  | nil => intro ps h; cases ps with
    | nil => rfl
    | cons p ps => simp [factsOk] at h
  | cons f fs ih => intro ps h; cases ps with
    | nil => simp [factsOk] at h
    | cons p ps =>
      simp only [factsOk, Bool.and_eq_true] at h
      simp [ih ps h.2]

/-- an accepted claim is one of the equalities, or `t = t` for a subterm of an evaluated expression -/
theorem propsOk_spec {terms : Array Term} {out : ActOut} {l r : Nat} (h : propsOk terms out l r = true) :
    (l, r) ∈ out.eqs ∨ (l = r ∧ ∃ x ∈ out.roots, Reach terms x l) := by
  unfold propsOk at h
  simp only [Bool.or_eq_true, List.contains_iff_mem, Bool.and_eq_true, beq_iff_eq, List.any_eq_true] at h
  rcases h with h | ⟨hlr, x, hx, hreach⟩
  · exact .inl h
  · exact .inr ⟨hlr, x, hx, reach_sound terms _ _ _ hreach⟩

/-- one accepted step, relative to any closed set that already contains the earlier steps -/
theorem stepOk_closed {prog : Prog} {terms : Array Term} {D : Nat → Nat → Prop}
    (hD : Closed prog terms D) {prev : List Step} (hprev : ∀ s ∈ prev, D s.lhs s.rhs) {s : Step}
    (hleaf : s.just = .leaf → D s.lhs s.rhs) (hok : stepOk prog terms prev s = true) : D s.lhs s.rhs := by
  unfold stepOk at hok
  cases hj : s.just with
  | leaf => exact hleaf hj
  | fiat =>
    rw [hj] at hok
    simp only [Bool.or_eq_true, Bool.and_eq_true, beq_iff_eq] at hok
    rcases hok with ⟨hlr, hlit⟩ | hp
    · unfold isLit at hlit
      cases ht : terms[s.lhs]? with
      | none => rw [ht] at hlit; simp at hlit
      | some t =>
        rw [ht] at hlit
        simp only [List.contains_iff_mem] at hlit
        rw [← hlr]; exact hD.lit _ _ ht hlit
    · rcases propsOk_spec hp with h | ⟨hlr, x, hx, hreach⟩
      · exact hD.fiatEq _ h
      · rw [← hlr]; exact hD.fiatRefl x hx _ hreach
  | rule r ps σ =>
    rw [hj] at hok
    simp only at hok
    cases hr : prog.rules[r]? with
    | none => rw [hr] at hok; simp at hok
    | some rl =>
      rw [hr] at hok
      simp only [Bool.and_eq_true] at hok
      obtain ⟨hfacts, hhead⟩ := hok
      have hmem : rl ∈ prog.rules := List.mem_of_getElem? hr
      obtain ⟨prems, _, hall, hm⟩ := factsOk_matches terms _ prev rl.body ps hfacts
      have hprems : ∀ p ∈ prems, D p.1 p.2 := by
        intro p hp
        obtain ⟨sp, hsp, rfl⟩ := hall p hp
        exact hprev sp hsp
      rcases propsOk_spec hhead with h | ⟨hlr, x, hx, hreach⟩
      · exact hD.ruleEq rl hmem _ prems hprems hm _ h
      · rw [← hlr]; exact hD.ruleRefl rl hmem _ prems hprems hm x hx _ hreach
  | sym p =>
    rw [hj] at hok
    simp only at hok
    cases hp : prev[p]? with
    | none => rw [hp] at hok; simp at hok
    | some sp =>
      rw [hp] at hok
      simp only [Bool.and_eq_true, beq_iff_eq] at hok
      have := hprev sp (List.mem_of_getElem? hp)
      rw [hok.1, hok.2]; exact hD.sym _ _ this
  | trans p q =>
    rw [hj] at hok
    simp only at hok
    cases hp : prev[p]? with
    | none => rw [hp] at hok; simp at hok
    | some sp =>
      cases hq : prev[q]? with
      | none => rw [hp, hq] at hok; simp at hok
      | some sq =>
        rw [hp, hq] at hok
        simp only [Bool.and_eq_true, beq_iff_eq] at hok
        have h1 := hprev sp (List.mem_of_getElem? hp)
        have h2 := hprev sq (List.mem_of_getElem? hq)
        rw [hok.1.2, hok.2]
        rw [hok.1.1] at h1
        exact hD.trans _ _ _ h1 h2
  | congr p i q =>
    rw [hj] at hok
    simp only at hok
    cases hp : prev[p]? with
    | none => rw [hp] at hok; simp at hok
    | some sp =>
      cases hq : prev[q]? with
      | none => rw [hp, hq] at hok; simp at hok
      | some sq =>
        rw [hp, hq] at hok
        simp only at hok
        cases ht : terms[sp.rhs]? with
        | none => rw [ht] at hok; simp at hok
        | some t =>
          cases ht' : terms[s.rhs]? with
          | none => rw [ht, ht'] at hok; simp at hok
          | some t' =>
            rw [ht, ht'] at hok
            simp only [Bool.and_eq_true, beq_iff_eq, decide_eq_true_eq] at hok
            obtain ⟨⟨⟨⟨h1, h2⟩, _⟩, h4⟩, h5⟩ := hok
            have hp' := hprev sp (List.mem_of_getElem? hp)
            have hq' := hprev sq (List.mem_of_getElem? hq)
            rw [h1]
            refine hD.congr sp.lhs sp.rhs s.rhs sq.lhs sq.rhs i t hp' hq' ht h4 ?_
            rw [ht']
            cases t' with
            | mk hd ks =>
              simp only [setKid] at h5
              simp only at h2
              rw [h2, h5]

theorem checkFrom_closed {prog : Prog} {terms : Array Term} {D : Nat → Nat → Prop}
    (hD : Closed prog terms D) :
    ∀ (steps prev : List Step), (∀ s ∈ prev, D s.lhs s.rhs) →
      (∀ s ∈ steps, s.just = .leaf → D s.lhs s.rhs) → checkFrom prog terms prev steps = true →
      ∀ s ∈ steps, D s.lhs s.rhs := by
  intro steps
  induction steps with
  | nil => intro prev _ _ _ s hs; cases hs
  | cons s rest ih =>
    intro prev hprev hleaf hok x hx
    simp only [checkFrom, Bool.and_eq_true] at hok
    have hs : D s.lhs s.rhs := stepOk_closed hD hprev (hleaf s List.mem_cons_self) hok.1
    rcases List.mem_cons.mp hx with rfl | hx'
    · exact hs
    · refine ih (prev ++ [s]) ?_ (fun y hy => hleaf y (List.mem_cons_of_mem _ hy)) hok.2 x hx'
      intro y hy
      rcases List.mem_append.mp hy with h | h
      · exact hprev y h
      · simp at h; subst h; exact hs

/-- **Soundness of the checker, rule steps included**: every proposition of a proof accepted
against the program `rules` lies in every set that contains the leaf propositions and is closed
under symmetry, transitivity, congruence and the rules of THAT program. -/
theorem C12_rule_sound (prog : Prog) (terms : Array Term) (steps : List Step) (D : Nat → Nat → Prop)
    (hD : Closed prog terms D) (hleaf : ∀ s ∈ steps, s.just = .leaf → D s.lhs s.rhs)
    (hok : checkProof prog terms steps = true) : ∀ s ∈ steps, D s.lhs s.rhs :=
  checkFrom_closed hD steps [] (fun s h => by cases h) hleaf hok

/-- … in particular in the least one: an accepted proof proves only what the checking program
derives from the leaves of the proof. -/
theorem C12_accepted_derivable (prog : Prog) (terms : Array Term) (steps : List Step)
    (hok : checkProof prog terms steps = true) :
    ∀ s ∈ steps, Derivable prog terms (fun a b => ∃ s ∈ steps, s.just = .leaf ∧ s.lhs = a ∧ s.rhs = b) s.lhs s.rhs :=
  C12_rule_sound prog terms steps _ (Derivable.closed prog terms _)
    (fun s hs hj => .leaf ⟨s, hs, hj, rfl, rfl⟩) hok


/-- **Soundness in models**: in every interpretation of the terms that respects congruence and
validates the checking program — its top-level equalities and every instance of its rules — and
the `MergeFn` leaves of the proof, every proposition of an accepted proof holds.  (`C12_sound` of
the equational layer is the case without Rule and Fiat steps.) -/
theorem C12_sound_in_models (prog : Prog) (terms : Array Term) (steps : List Step) (den : Nat → Nat)
    (hc : Congruent terms den)
    (hfiat : ∀ xy ∈ (runActs terms [] prog.globals).eqs, den xy.1 = den xy.2)
    (hrule : ∀ rl ∈ prog.rules, ∀ σ prems, (∀ p ∈ prems, den p.1 = den p.2) → Matches terms σ rl.body prems →
      ∀ xy ∈ (runActs terms σ rl.head).eqs, den xy.1 = den xy.2)
    (hleaf : ∀ s ∈ steps, s.just = .leaf → den s.lhs = den s.rhs)
    (hok : checkProof prog terms steps = true) : ∀ s ∈ steps, den s.lhs = den s.rhs := by
  have hD : Closed prog terms (fun a b => den a = den b) := {
    lit := fun _ _ _ _ => rfl
    fiatEq := hfiat
    fiatRefl := fun _ _ _ _ => rfl
    sym := fun _ _ h => h.symm
    trans := fun _ _ _ h1 h2 => h1.trans h2
    congr := by
      intro l t t' c c' i tt h1 h2 ht hk ht'
      refine h1.trans ?_
      apply hc t t' tt ⟨tt.head, tt.kids.set i c'⟩ ht ht' rfl
      exact (map_set den tt.kids i c' c hk h2).symm
    ruleEq := hrule
    ruleRefl := fun _ _ _ _ _ _ _ _ _ _ => rfl }
  exact C12_rule_sound prog terms steps _ hD hleaf hok

/-- **Alteration of the checking program**: a proof whose conclusion the altered program `prog'`
does not derive (from the proof's own leaves) is rejected when checked against `prog'` — whatever
the alteration was (rule removed, premise added, head changed, top-level fact removed or altered). -/
theorem C12_altered_program_rejected (prog' : Prog) (terms : Array Term) (steps : List Step) (s : Step)
    (hs : s ∈ steps)
    (hnot : ¬ Derivable prog' terms (fun a b => ∃ s ∈ steps, s.just = .leaf ∧ s.lhs = a ∧ s.rhs = b) s.lhs s.rhs) :
    checkProof prog' terms steps = false := by
  cases h : checkProof prog' terms steps with
  | false => rfl
  | true => exact absurd (C12_accepted_derivable prog' terms steps h s hs) hnot

/-- a step that names a rule the program does not have is rejected -/
theorem C12_rule_missing_rejected (prog : Prog) (terms : Array Term) (prev : List Step) (r : Nat)
    (ps : List Nat) (σ : List (Nat × Nat)) (l r' : Nat) (h : prog.rules[r]? = none) :
    stepOk prog terms prev ⟨.rule r ps σ, l, r'⟩ = false := by
  simp [stepOk, h]

/-- an accepted rule step supplies exactly one premise per body fact of the program's rule: a rule
that gained a premise (or a proof that dropped one) is rejected -/
theorem C12_rule_premise_count (prog : Prog) (terms : Array Term) (prev : List Step) (r : Nat)
    (ps : List Nat) (σ : List (Nat × Nat)) (l r' : Nat)
    (h : stepOk prog terms prev ⟨.rule r ps σ, l, r'⟩ = true) :
    ∃ rl, prog.rules[r]? = some rl ∧ rl.body.length = ps.length := by
  simp only [stepOk] at h
  cases hr : prog.rules[r]? with
  | none => rw [hr] at h; simp at h
  | some rl =>
    rw [hr] at h
    simp only [Bool.and_eq_true] at h
    exact ⟨rl, rfl, factsOk_length terms _ prev rl.body ps h.1⟩

theorem C12_dropped_premise_rejected (prog : Prog) (terms : Array Term) (prev : List Step) (r : Nat)
    (rl : Rule) (ps : List Nat) (σ : List (Nat × Nat)) (l r' : Nat)
    (hr : prog.rules[r]? = some rl) (hne : rl.body.length ≠ ps.length) :
    stepOk prog terms prev ⟨.rule r ps σ, l, r'⟩ = false := by
  cases h : stepOk prog terms prev ⟨.rule r ps σ, l, r'⟩ with
  | false => rfl
  | true =>
    obtain ⟨rl', h1, h2⟩ := C12_rule_premise_count prog terms prev r ps σ l r' h
    rw [hr] at h1; cases h1; exact absurd h2 hne

/-- every body fact of an accepted rule step is matched by the proposition of its own premise -/
theorem C12_rule_fact_checked (prog : Prog) (terms : Array Term) (prev : List Step) (r : Nat)
    (rl : Rule) (ps : List Nat) (σ : List (Nat × Nat)) (l r' : Nat) (hr : prog.rules[r]? = some rl)
    (h : stepOk prog terms prev ⟨.rule r ps σ, l, r'⟩ = true) (i : Nat) (f : RFact) (p : Nat)
    (hf : rl.body[i]? = some f) (hp : ps[i]? = some p) :
    ∃ sp, prev[p]? = some sp ∧ (f.anyLhs = true ∨ instId terms (σ ++ globalσ prog terms) f.lhs = some sp.lhs) ∧
      instId terms (σ ++ globalσ prog terms) f.rhs = some sp.rhs := by
  simp only [stepOk, hr, Bool.and_eq_true] at h
  have hfacts := h.1
  clear h hr
  generalize rl.body = fs at hf hfacts
  induction fs generalizing ps i with
  | nil => simp at hf
  | cons g gs ih =>
    cases ps with
    | nil => simp at hp
    | cons q qs =>
      simp only [factsOk, Bool.and_eq_true] at hfacts
      cases i with
      | zero =>
        simp only [List.getElem?_cons_zero, Option.some.injEq] at hf hp
        subst hf; subst hp
        have h1 := hfacts.1
        unfold factOk at h1
        cases hq : prev[q]? with
        | none => rw [hq] at h1; simp at h1
        | some sp =>
          rw [hq] at h1
          simp only [Bool.and_eq_true, Bool.or_eq_true, beq_iff_eq] at h1
          exact ⟨sp, rfl, h1.1, h1.2⟩
      | succ j =>
        simp only [List.getElem?_cons_succ] at hf hp
        exact ih qs j hp hf hfacts.2

/-- a Fiat step is accepted only for a literal's `t = t` or a proposition of the program's
top-level actions: with the fact removed or altered the step is rejected -/
theorem C12_fiat_unjustified_rejected (prog : Prog) (terms : Array Term) (prev : List Step) (l r : Nat)
    (hlit : ¬ (l = r ∧ isLit prog terms l = true))
    (heq : (l, r) ∉ (runActs terms [] prog.globals).eqs)
    (hrefl : l = r → ∀ x ∈ (runActs terms [] prog.globals).roots, ¬ Reach terms x l) :
    stepOk prog terms prev ⟨.fiat, l, r⟩ = false := by
  cases h : stepOk prog terms prev ⟨.fiat, l, r⟩ with
  | false => rfl
  | true =>
    exfalso
    simp only [stepOk, Bool.or_eq_true, Bool.and_eq_true, beq_iff_eq] at h
    rcases h with h | h
    · exact hlit h
    · rcases propsOk_spec h with h | ⟨hlr, x, hx, hreach⟩
      · exact heq h
      · exact hrefl hlr x hx hreach

/-! ### non-vacuity

terms: 0 = A, 1 = G(A), 2 = R(A), 3 = B, 4 = the literal 7.  Rule 0: `(= x (G y)) (R y) ⇒ (union x y)`.
Top-level actions: `(G (A))`, `(R (A))`.  Fiat steps G(A) = G(A), R(A) = R(A); the rule step derives
G(A) = A.  The same steps against the rule with one more premise, against a rule with another
head, against the program without the rule and against the program without its top-level facts
are rejected; so is the step with its second premise dropped. -/
section NonVacuity
def exTerms : Array Term := #[⟨0, []⟩, ⟨1, [0]⟩, ⟨2, [0]⟩, ⟨3, []⟩, ⟨4, []⟩]
def exRule : Rule := ⟨[⟨false, .var 0, .app 1 [.var 1]⟩, ⟨true, .app 2 [.var 1], .app 2 [.var 1]⟩], [.union (.var 0) (.var 1)]⟩
def exRuleMore : Rule := { exRule with body := exRule.body ++ [⟨false, .var 9, .app 3 []⟩] }
def exRuleHead : Rule := { exRule with head := [.union (.var 0) (.app 3 [])] }
def exFacts : List Act := [.expr (.app 1 [.app 0 []]), .expr (.app 2 [.app 0 []])]
def exProg (rs : List Rule) : Prog := ⟨rs, exFacts, [4]⟩
def exSteps : List Step := [⟨.fiat, 1, 1⟩, ⟨.fiat, 2, 2⟩, ⟨.rule 0 [0, 1] [(0, 1), (1, 0)], 1, 0⟩, ⟨.sym 2, 0, 1⟩, ⟨.fiat, 4, 4⟩]
example : checkProof (exProg [exRule]) exTerms exSteps = true := by decide +kernel
example : checkProof (exProg [exRuleMore]) exTerms exSteps = false := by decide +kernel
example : checkProof (exProg [exRuleHead]) exTerms exSteps = false := by decide +kernel
example : checkProof (exProg []) exTerms exSteps = false := by decide +kernel
/-- without the top-level facts the Fiat steps are unjustified -/
example : checkProof ⟨[exRule], [], [4]⟩ exTerms exSteps = false := by decide +kernel
/-- with only `(R (A))` left, `G(A) = G(A)` is unjustified; `A = A` (a subterm of `(R (A))`) still is justified -/
example : stepOk ⟨[exRule], [.expr (.app 2 [.app 0 []])], []⟩ exTerms [] ⟨.fiat, 1, 1⟩ = false := by decide +kernel
example : stepOk ⟨[exRule], [.expr (.app 2 [.app 0 []])], []⟩ exTerms [] ⟨.fiat, 0, 0⟩ = true := by decide +kernel
example : checkProof (exProg [exRule]) exTerms [⟨.fiat, 1, 1⟩, ⟨.fiat, 2, 2⟩, ⟨.rule 0 [0] [(0, 1), (1, 0)], 1, 0⟩] = false := by decide +kernel
/-- a refl claim for a subterm of an instantiated head expression is accepted, for any other term it is not -/
example : stepOk (exProg [exRule]) exTerms [⟨.fiat, 1, 1⟩, ⟨.fiat, 2, 2⟩] ⟨.rule 0 [0, 1] [(0, 1), (1, 0)], 0, 0⟩ = true := by decide +kernel
example : stepOk (exProg [exRule]) exTerms [⟨.fiat, 1, 1⟩, ⟨.fiat, 2, 2⟩] ⟨.rule 0 [0, 1] [(0, 1), (1, 0)], 3, 3⟩ = false := by decide +kernel
/-- a global `let` binds a variable that a rule may mention without the step's substitution binding it -/
example : stepOk ⟨[⟨[⟨true, .app 2 [.var 1], .app 2 [.var 1]⟩], [.union (.var 1) (.var 5)]⟩], [.letv 5 (.app 3 []), .expr (.app 2 [.app 0 []])], []⟩
    exTerms [⟨.fiat, 2, 2⟩] ⟨.rule 0 [0] [(1, 0)], 0, 3⟩ = true := by decide +kernel
end NonVacuity

end EgglogVerif.ProofCk
