import EgglogVerif.Props.C12
/-
C12 — the rule layer of the proof checker: "the checker accepts a proof only if each step is
justified by that program".

`Derivable rules terms leaf` is the least set of propositions that contains the leaf propositions
and is closed under symmetry, transitivity, congruence and the RULES OF THE CHECKING PROGRAM (a rule
instance whose body facts are all derivable yields its head propositions).  `C12_rule_sound`: a
proof the checker accepts against `rules` proves only derivable propositions — for every closed
set `D`, hence for the least one (`C12_accepted_derivable`).  Consequently
(`C12_altered_program_rejected`) the same proof checked against an altered program whose rules no
longer derive its conclusion is rejected; `C12_rule_missing_rejected`, `C12_rule_premise_count`
and `C12_rule_fact_checked` are the single-point forms: a removed rule, a rule that gained or lost
a body fact, a premise that does not match its body fact.
-/
namespace EgglogVerif.ProofCk

/-- `b` is a subterm of `a` in the term table -/
inductive Reach (terms : Array Term) : Nat → Nat → Prop
  | refl (a : Nat) : Reach terms a a
  | step {a : Nat} {t : Term} {k b : Nat} : terms[a]? = some t → k ∈ t.kids → Reach terms k b → Reach terms a b

/-- the body facts of a rule instance are matched, in order and one for one, by the propositions
`prems` -/
def Matches (terms : Array Term) (σ : List (Nat × Nat)) : List RFact → List (Nat × Nat) → Prop
  | [], [] => True
  | f :: fs, p :: ps =>
    ((f.anyLhs = true ∨ instId terms σ f.lhs = some p.1) ∧ instId terms σ f.rhs = some p.2) ∧ Matches terms σ fs ps
  | _, _ => False

/-- a set of propositions closed under the inference steps the checker knows, for the rules of
one program -/
structure Closed (rules : List Rule) (terms : Array Term) (D : Nat → Nat → Prop) : Prop where
  sym : ∀ a b, D a b → D b a
  trans : ∀ a b c, D a b → D b c → D a c
  congr : ∀ l t t' c c' i tt, D l t → D c c' → terms[t]? = some tt → tt.kids[i]? = some c →
    terms[t']? = some ⟨tt.head, tt.kids.set i c'⟩ → D l t'
  ruleEq : ∀ rl ∈ rules, ∀ σ prems, (∀ p ∈ prems, D p.1 p.2) → Matches terms σ rl.body prems →
    ∀ ab ∈ headEqs rl.head, ∀ x y, instId terms σ ab.1 = some x → instId terms σ ab.2 = some y → D x y
  ruleRefl : ∀ rl ∈ rules, ∀ σ prems, (∀ p ∈ prems, D p.1 p.2) → Matches terms σ rl.body prems →
    ∀ e ∈ headExprs rl.head, ∀ x y, instId terms σ e = some x → Reach terms x y → D y y

/-- what the program derives from the leaf propositions -/
inductive Derivable (rules : List Rule) (terms : Array Term) (leaf : Nat → Nat → Prop) : Nat → Nat → Prop
  | leaf {a b} : leaf a b → Derivable rules terms leaf a b
  | sym {a b} : Derivable rules terms leaf a b → Derivable rules terms leaf b a
  | trans {a b c} : Derivable rules terms leaf a b → Derivable rules terms leaf b c → Derivable rules terms leaf a c
  | congr {l t t' c c' i tt} : Derivable rules terms leaf l t → Derivable rules terms leaf c c' →
      terms[t]? = some tt → tt.kids[i]? = some c → terms[t']? = some ⟨tt.head, tt.kids.set i c'⟩ →
      Derivable rules terms leaf l t'
  | ruleEq {rl σ} {prems : List (Nat × Nat)} {ab : Pat × Pat} {x y} : rl ∈ rules →
      (∀ p ∈ prems, Derivable rules terms leaf p.1 p.2) → Matches terms σ rl.body prems →
      ab ∈ headEqs rl.head → instId terms σ ab.1 = some x → instId terms σ ab.2 = some y →
      Derivable rules terms leaf x y
  | ruleRefl {rl σ} {prems : List (Nat × Nat)} {e : Pat} {x y} : rl ∈ rules →
      (∀ p ∈ prems, Derivable rules terms leaf p.1 p.2) → Matches terms σ rl.body prems →
      e ∈ headExprs rl.head → instId terms σ e = some x → Reach terms x y →
      Derivable rules terms leaf y y

theorem Derivable.closed (rules : List Rule) (terms : Array Term) (leaf : Nat → Nat → Prop) :
    Closed rules terms (Derivable rules terms leaf) where
  sym := fun _ _ h => .sym h
  trans := fun _ _ _ h1 h2 => .trans h1 h2
  congr := fun _ _ _ _ _ _ _ h1 h2 h3 h4 h5 => .congr h1 h2 h3 h4 h5
  ruleEq := fun _ hrl _ _ hp hm _ hab _ _ hx hy => .ruleEq hrl hp hm hab hx hy
  ruleRefl := fun _ hrl _ _ hp hm _ he _ _ hx hr => .ruleRefl hrl hp hm he hx hr

/-- the least closed set: `Derivable` is below every closed set that contains the leaves -/
theorem Derivable.least {rules : List Rule} {terms : Array Term} {leaf D : Nat → Nat → Prop}
    (hD : Closed rules terms D) (hl : ∀ a b, leaf a b → D a b) :
    ∀ {a b}, Derivable rules terms leaf a b → D a b := by
  intro a b h
  induction h with
  | leaf h => exact hl _ _ h
  | sym _ ih => exact hD.sym _ _ ih
  | trans _ _ ih1 ih2 => exact hD.trans _ _ _ ih1 ih2
  | congr _ _ h3 h4 h5 ih1 ih2 => exact hD.congr _ _ _ _ _ _ _ ih1 ih2 h3 h4 h5
  | ruleEq hrl _ hm hab hx hy ih => exact hD.ruleEq _ hrl _ _ ih hm _ hab _ _ hx hy
  | ruleRefl hrl _ hm he hx hr ih => exact hD.ruleRefl _ hrl _ _ ih hm _ he _ _ hx hr

/-! ### the computable pieces against their specifications -/

theorem reach_sound (terms : Array Term) : ∀ (fuel a b : Nat), reach terms fuel a b = true → Reach terms a b := by
  intro fuel
  induction fuel with
  | zero =>
    intro a b h
    simp only [reach, beq_iff_eq] at h
    subst h; exact .refl a
  | succ n ih =>
    intro a b h
    simp only [reach, Bool.or_eq_true, beq_iff_eq] at h
    rcases h with h | h
    · subst h; exact .refl a
    · cases ht : terms[a]? with
      | none => rw [ht] at h; simp at h
      | some t =>
        rw [ht] at h
        simp only [List.any_eq_true] at h
        obtain ⟨k, hk, hr⟩ := h
        exact .step ht hk (ih k b hr)

theorem factsOk_matches (terms : Array Term) (σ : List (Nat × Nat)) (prev : List Step) :
    ∀ (fs : List RFact) (ps : List Nat), factsOk terms σ prev fs ps = true →
      ∃ prems : List (Nat × Nat), prems.length = ps.length ∧
        (∀ p ∈ prems, ∃ sp ∈ prev, p = (sp.lhs, sp.rhs)) ∧ Matches terms σ fs prems := by
  intro fs
  induction fs with
  | nil =>
    intro ps h
    cases ps with
    | nil => exact ⟨[], rfl, (fun p hp => by cases hp), trivial⟩
    | cons p ps => simp [factsOk] at h
  | cons f fs ih =>
    intro ps h
    cases ps with
    | nil => simp [factsOk] at h
    | cons p ps =>
      simp only [factsOk, Bool.and_eq_true] at h
      obtain ⟨hf, hrest⟩ := h
      obtain ⟨prems, hlen, hall, hm⟩ := ih ps hrest
      unfold factOk at hf
      cases hp : prev[p]? with
      | none => rw [hp] at hf; simp at hf
      | some sp =>
        rw [hp] at hf
        simp only [Bool.and_eq_true, Bool.or_eq_true, beq_iff_eq] at hf
        refine ⟨(sp.lhs, sp.rhs) :: prems, by simp [hlen], ?_, ?_⟩
        · intro q hq
          rcases List.mem_cons.mp hq with rfl | hq
          · exact ⟨sp, List.mem_of_getElem? hp, rfl⟩
          · exact hall q hq
        · exact ⟨⟨hf.1, hf.2⟩, hm⟩

theorem factsOk_length (terms : Array Term) (σ : List (Nat × Nat)) (prev : List Step) :
    ∀ (fs : List RFact) (ps : List Nat), factsOk terms σ prev fs ps = true → fs.length = ps.length := by
  intro fs
  induction fs with
  | nil => intro ps h; cases ps with
    | nil => rfl
    | cons p ps => simp [factsOk] at h
  | cons f fs ih => intro ps h; cases ps with
    | nil => simp [factsOk] at h
    | cons p ps =>
      simp only [factsOk, Bool.and_eq_true] at h
      simp [ih ps h.2]

/-- one accepted step, relative to any closed set that already contains the earlier steps -/
theorem stepOk_closed {rules : List Rule} {terms : Array Term} {D : Nat → Nat → Prop}
    (hD : Closed rules terms D) {prev : List Step} (hprev : ∀ s ∈ prev, D s.lhs s.rhs) {s : Step}
    (hleaf : s.just = .leaf → D s.lhs s.rhs) (hok : stepOk rules terms prev s = true) : D s.lhs s.rhs := by
  unfold stepOk at hok
  cases hj : s.just with
  | leaf => exact hleaf hj
  | rule r ps σ =>
    rw [hj] at hok
    simp only at hok
    cases hr : rules[r]? with
    | none => rw [hr] at hok; simp at hok
    | some rl =>
      rw [hr] at hok
      simp only [Bool.and_eq_true] at hok
      obtain ⟨hfacts, hhead⟩ := hok
      have hmem : rl ∈ rules := List.mem_of_getElem? hr
      obtain ⟨prems, _, hall, hm⟩ := factsOk_matches terms σ prev rl.body ps hfacts
      have hprems : ∀ p ∈ prems, D p.1 p.2 := by
        intro p hp
        obtain ⟨sp, hsp, rfl⟩ := hall p hp
        exact hprev sp hsp
      unfold headOk at hhead
      simp only [Bool.or_eq_true, List.any_eq_true, Bool.and_eq_true, beq_iff_eq] at hhead
      rcases hhead with ⟨ab, hab, hx, hy⟩ | ⟨hlr, e, he, hreach⟩
      · exact hD.ruleEq rl hmem σ prems hprems hm ab hab _ _ hx hy
      · cases hx : instId terms σ e with
        | none => rw [hx] at hreach; simp at hreach
        | some x =>
          rw [hx] at hreach
          have := hD.ruleRefl rl hmem σ prems hprems hm e he x s.lhs hx (reach_sound terms _ _ _ hreach)
          rw [← hlr]; exact this
  | sym p =>
    rw [hj] at hok
    simp only at hok
    cases hp : prev[p]? with
    | none => rw [hp] at hok; simp at hok
    | some sp =>
      rw [hp] at hok
      simp only [Bool.and_eq_true, beq_iff_eq] at hok
      have := hprev sp (List.mem_of_getElem? hp)
      rw [hok.1, hok.2]; exact hD.sym _ _ this
  | trans p q =>
    rw [hj] at hok
    simp only at hok
    cases hp : prev[p]? with
    | none => rw [hp] at hok; simp at hok
    | some sp =>
      cases hq : prev[q]? with
      | none => rw [hp, hq] at hok; simp at hok
      | some sq =>
        rw [hp, hq] at hok
        simp only [Bool.and_eq_true, beq_iff_eq] at hok
        have h1 := hprev sp (List.mem_of_getElem? hp)
        have h2 := hprev sq (List.mem_of_getElem? hq)
        rw [hok.1.2, hok.2]
        rw [hok.1.1] at h1
        exact hD.trans _ _ _ h1 h2
  | congr p i q =>
    rw [hj] at hok
    simp only at hok
    cases hp : prev[p]? with
    | none => rw [hp] at hok; simp at hok
    | some sp =>
      cases hq : prev[q]? with
      | none => rw [hp, hq] at hok; simp at hok
      | some sq =>
        rw [hp, hq] at hok
        simp only at hok
        cases ht : terms[sp.rhs]? with
        | none => rw [ht] at hok; simp at hok
        | some t =>
          cases ht' : terms[s.rhs]? with
          | none => rw [ht, ht'] at hok; simp at hok
          | some t' =>
            rw [ht, ht'] at hok
            simp only [Bool.and_eq_true, beq_iff_eq, decide_eq_true_eq] at hok
            obtain ⟨⟨⟨⟨h1, h2⟩, _⟩, h4⟩, h5⟩ := hok
            have hp' := hprev sp (List.mem_of_getElem? hp)
            have hq' := hprev sq (List.mem_of_getElem? hq)
            rw [h1]
            refine hD.congr sp.lhs sp.rhs s.rhs sq.lhs sq.rhs i t hp' hq' ht h4 ?_
            rw [ht']
            cases t' with
            | mk hd ks =>
              simp only [setKid] at h5
              simp only at h2
              rw [h2, h5]

theorem checkFrom_closed {rules : List Rule} {terms : Array Term} {D : Nat → Nat → Prop}
    (hD : Closed rules terms D) :
    ∀ (steps prev : List Step), (∀ s ∈ prev, D s.lhs s.rhs) →
      (∀ s ∈ steps, s.just = .leaf → D s.lhs s.rhs) → checkFrom rules terms prev steps = true →
      ∀ s ∈ steps, D s.lhs s.rhs := by
  intro steps
  induction steps with
  | nil => intro prev _ _ _ s hs; cases hs
  | cons s rest ih =>
    intro prev hprev hleaf hok x hx
    simp only [checkFrom, Bool.and_eq_true] at hok
    have hs : D s.lhs s.rhs := stepOk_closed hD hprev (hleaf s List.mem_cons_self) hok.1
    rcases List.mem_cons.mp hx with rfl | hx'
    · exact hs
    · refine ih (prev ++ [s]) ?_ (fun y hy => hleaf y (List.mem_cons_of_mem _ hy)) hok.2 x hx'
      intro y hy
      rcases List.mem_append.mp hy with h | h
      · exact hprev y h
      · simp at h; subst h; exact hs

/-- **Soundness of the checker, rule steps included**: every proposition of a proof accepted
against the program `rules` lies in every set that contains the leaf propositions and is closed
under symmetry, transitivity, congruence and the rules of THAT program. -/
theorem C12_rule_sound (rules : List Rule) (terms : Array Term) (steps : List Step) (D : Nat → Nat → Prop)
    (hD : Closed rules terms D) (hleaf : ∀ s ∈ steps, s.just = .leaf → D s.lhs s.rhs)
    (hok : checkProof rules terms steps = true) : ∀ s ∈ steps, D s.lhs s.rhs :=
  checkFrom_closed hD steps [] (fun s h => by cases h) hleaf hok

/-- … in particular in the least one: an accepted proof proves only what the checking program
derives from the leaves of the proof. -/
theorem C12_accepted_derivable (rules : List Rule) (terms : Array Term) (steps : List Step)
    (hok : checkProof rules terms steps = true) :
    ∀ s ∈ steps, Derivable rules terms (fun a b => ∃ s ∈ steps, s.just = .leaf ∧ s.lhs = a ∧ s.rhs = b) s.lhs s.rhs :=
  C12_rule_sound rules terms steps _ (Derivable.closed rules terms _)
    (fun s hs hj => .leaf ⟨s, hs, hj, rfl, rfl⟩) hok

/-- **Alteration of the checking program**: a proof whose conclusion the altered program `rules'`
does not derive (from the proof's own leaves) is rejected when checked against `rules'` — whatever
the alteration was (rule removed, premise added, head changed). -/
theorem C12_altered_program_rejected (rules' : List Rule) (terms : Array Term) (steps : List Step) (s : Step)
    (hs : s ∈ steps)
    (hnot : ¬ Derivable rules' terms (fun a b => ∃ s ∈ steps, s.just = .leaf ∧ s.lhs = a ∧ s.rhs = b) s.lhs s.rhs) :
    checkProof rules' terms steps = false := by
  cases h : checkProof rules' terms steps with
  | false => rfl
  | true => exact absurd (C12_accepted_derivable rules' terms steps h s hs) hnot

/-- a step that names a rule the program does not have is rejected -/
theorem C12_rule_missing_rejected (rules : List Rule) (terms : Array Term) (prev : List Step) (r : Nat)
    (ps : List Nat) (σ : List (Nat × Nat)) (l r' : Nat) (h : rules[r]? = none) :
    stepOk rules terms prev ⟨.rule r ps σ, l, r'⟩ = false := by
  simp [stepOk, h]

/-- an accepted rule step supplies exactly one premise per body fact of the program's rule: a rule
that gained a premise (or a proof that dropped one) is rejected -/
theorem C12_rule_premise_count (rules : List Rule) (terms : Array Term) (prev : List Step) (r : Nat)
    (ps : List Nat) (σ : List (Nat × Nat)) (l r' : Nat)
    (h : stepOk rules terms prev ⟨.rule r ps σ, l, r'⟩ = true) :
    ∃ rl, rules[r]? = some rl ∧ rl.body.length = ps.length := by
  simp only [stepOk] at h
  cases hr : rules[r]? with
  | none => rw [hr] at h; simp at h
  | some rl =>
    rw [hr] at h
    simp only [Bool.and_eq_true] at h
    exact ⟨rl, rfl, factsOk_length terms σ prev rl.body ps h.1⟩

theorem C12_dropped_premise_rejected (rules : List Rule) (terms : Array Term) (prev : List Step) (r : Nat)
    (rl : Rule) (ps : List Nat) (σ : List (Nat × Nat)) (l r' : Nat)
    (hr : rules[r]? = some rl) (hne : rl.body.length ≠ ps.length) :
    stepOk rules terms prev ⟨.rule r ps σ, l, r'⟩ = false := by
  cases h : stepOk rules terms prev ⟨.rule r ps σ, l, r'⟩ with
  | false => rfl
  | true =>
    obtain ⟨rl', h1, h2⟩ := C12_rule_premise_count rules terms prev r ps σ l r' h
    rw [hr] at h1; cases h1; exact absurd h2 hne

/-- every body fact of an accepted rule step is matched by the proposition of its own premise -/
theorem C12_rule_fact_checked (rules : List Rule) (terms : Array Term) (prev : List Step) (r : Nat)
    (rl : Rule) (ps : List Nat) (σ : List (Nat × Nat)) (l r' : Nat) (hr : rules[r]? = some rl)
    (h : stepOk rules terms prev ⟨.rule r ps σ, l, r'⟩ = true) (i : Nat) (f : RFact) (p : Nat)
    (hf : rl.body[i]? = some f) (hp : ps[i]? = some p) :
    ∃ sp, prev[p]? = some sp ∧ (f.anyLhs = true ∨ instId terms σ f.lhs = some sp.lhs) ∧
      instId terms σ f.rhs = some sp.rhs := by
  simp only [stepOk, hr, Bool.and_eq_true] at h
  have hfacts := h.1
  clear h hr
  generalize rl.body = fs at hf hfacts
  induction fs generalizing ps i with
  | nil => simp at hf
  | cons g gs ih =>
    cases ps with
    | nil => simp at hp
    | cons q qs =>
      simp only [factsOk, Bool.and_eq_true] at hfacts
      cases i with
      | zero =>
        simp only [List.getElem?_cons_zero, Option.some.injEq] at hf hp
        subst hf; subst hp
        have h1 := hfacts.1
        unfold factOk at h1
        cases hq : prev[q]? with
        | none => rw [hq] at h1; simp at h1
        | some sp =>
          rw [hq] at h1
          simp only [Bool.and_eq_true, Bool.or_eq_true, beq_iff_eq] at h1
          exact ⟨sp, rfl, h1.1, h1.2⟩
      | succ j =>
        simp only [List.getElem?_cons_succ] at hf hp
        exact ih qs j hp hf hfacts.2

/-! ### non-vacuity

terms: 0 = A, 1 = G(A), 2 = R(A), 3 = B.  Rule 0: `(= x (G y)) (R y) ⇒ (union x y)`.
Leaves: G(A) = G(A), R(A) = R(A); the rule step derives G(A) = A.  The same steps against the rule
with one more premise, against a rule with another head, and against the empty program are
rejected; so is the step with its second premise dropped. -/
section NonVacuity
def exTerms : Array Term := #[⟨0, []⟩, ⟨1, [0]⟩, ⟨2, [0]⟩, ⟨3, []⟩]
def exRule : Rule := ⟨[⟨false, .var 0, .app 1 [.var 1]⟩, ⟨true, .app 2 [.var 1], .app 2 [.var 1]⟩], [.union (.var 0) (.var 1)]⟩
def exRuleMore : Rule := { exRule with body := exRule.body ++ [⟨false, .var 9, .app 3 []⟩] }
def exRuleHead : Rule := { exRule with head := [.union (.var 0) (.app 3 [])] }
def exSteps : List Step := [⟨.leaf, 1, 1⟩, ⟨.leaf, 2, 2⟩, ⟨.rule 0 [0, 1] [(0, 1), (1, 0)], 1, 0⟩, ⟨.sym 2, 0, 1⟩]
example : checkProof [exRule] exTerms exSteps = true := by decide +kernel
example : checkProof [exRuleMore] exTerms exSteps = false := by decide +kernel
example : checkProof [exRuleHead] exTerms exSteps = false := by decide +kernel
example : checkProof [] exTerms exSteps = false := by decide +kernel
example : checkProof [exRule] exTerms [⟨.leaf, 1, 1⟩, ⟨.leaf, 2, 2⟩, ⟨.rule 0 [0] [(0, 1), (1, 0)], 1, 0⟩] = false := by decide +kernel
/-- a refl claim for a subterm of an instantiated head expression is accepted, for any other term it is not -/
example : stepOk [exRule] exTerms [⟨.leaf, 1, 1⟩, ⟨.leaf, 2, 2⟩] ⟨.rule 0 [0, 1] [(0, 1), (1, 0)], 0, 0⟩ = true := by decide +kernel
example : stepOk [exRule] exTerms [⟨.leaf, 1, 1⟩, ⟨.leaf, 2, 2⟩] ⟨.rule 0 [0, 1] [(0, 1), (1, 0)], 3, 3⟩ = false := by decide +kernel
end NonVacuity

end EgglogVerif.ProofCk
