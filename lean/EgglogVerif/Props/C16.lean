import EgglogVerif.Lemmas.Table
/-
C16 — The table store behaves like a keyed map.

Refinement of the `SortedWritesTable` model (rows + stale marks + hash index + compaction) to a
plain map `Key → Option Row`, for EVERY sequence of merges (staged removals then staged
insertions, with any merge function that keeps the key), compactions and clears.
-/
namespace EgglogVerif.Table

/-- operations on the store -/
inductive Op where
  | merge (dels : List Key) (ins : List Row)
  | rehash
  | clear

def step (m : Row → Row → Option Row) (t : Table) : Op → Table
  | .merge dels ins => t.merge m dels ins
  | .rehash => t.rehash
  | .clear => t.clear

def run (m : Row → Row → Option Row) (n : Nat) (ops : List Op) : Table := ops.foldl (step m) (Table.empty n)

/-- the specification: a plain keyed map -/
def eraseF (f : Key → Option Row) (k : Key) : Key → Option Row := fun k' => if k' = k then none else f k'

def specStep (n : Nat) (m : Row → Row → Option Row) (f : Key → Option Row) : Op → (Key → Option Row)
  | .merge dels ins => ins.foldl (upsert n m) (dels.foldl eraseF f)
  | .rehash => f
  | .clear => fun _ => none

def specRun (n : Nat) (m : Row → Row → Option Row) (ops : List Op) : Key → Option Row :=
  ops.foldl (specStep n m) (fun _ => none)

/-- the merge function never changes a row's key (true of every `MergeFn` egglog builds: the key
columns are copied from `cur`) -/
def KeepsKey (n : Nat) (m : Row → Row → Option Row) : Prop :=
  ∀ cur new merged, m cur new = some merged → keyOf n merged = keyOf n cur

theorem doDelete_spec : ∀ (ks : List Key) (t : Table), WF t →
    WF (t.doDelete ks) ∧ (t.doDelete ks).nKeys = t.nKeys ∧ (t.doDelete ks).getRow = ks.foldl eraseF t.getRow := by
  intro ks
  induction ks with
  | nil => intro t h; exact ⟨h, rfl, rfl⟩
  | cons k ks ih =>
    intro t h
    obtain ⟨w, hn, hg⟩ := deleteOne_spec h k
    obtain ⟨w2, hn2, hg2⟩ := ih _ w
    refine ⟨w2, hn2.trans hn, ?_⟩
    simp only [Table.doDelete, List.foldl_cons] at hg2 ⊢
    rw [hg2]
    congr 1
    funext k'
    rw [hg k']; rfl

theorem doInsert_spec {m : Row → Row → Option Row} : ∀ (rs : List Row) (t : Table), WF t → KeepsKey t.nKeys m →
    WF (t.doInsert m rs) ∧ (t.doInsert m rs).nKeys = t.nKeys ∧
      (t.doInsert m rs).getRow = rs.foldl (upsert t.nKeys m) t.getRow := by
  intro rs
  induction rs with
  | nil => intro t h _; exact ⟨h, rfl, rfl⟩
  | cons r rs ih =>
    intro t h hk
    obtain ⟨w, hn, hg⟩ := insertOne_spec h hk r
    obtain ⟨w2, hn2, hg2⟩ := ih _ w (hn ▸ hk)
    refine ⟨w2, hn2.trans hn, ?_⟩
    simp only [Table.doInsert, List.foldl_cons] at hg2 ⊢
    rw [hg2, hn]
    congr 1
    funext k'
    exact hg k'

theorem maybeRehash_spec {t : Table} (h : WF t) :
    WF t.maybeRehash ∧ t.maybeRehash.nKeys = t.nKeys ∧ t.maybeRehash.getRow = t.getRow ∧
      t.maybeRehash.scan = t.scan := by
  unfold Table.maybeRehash
  split
  · exact ⟨h, rfl, rfl, rfl⟩
  · obtain ⟨w, hn, hs, _, hg⟩ := rehash_spec h
    exact ⟨w, hn, funext hg, hs⟩

theorem step_spec {m : Row → Row → Option Row} {t : Table} (h : WF t) (hk : KeepsKey t.nKeys m) (op : Op) :
    WF (step m t op) ∧ (step m t op).nKeys = t.nKeys ∧ (step m t op).getRow = specStep t.nKeys m t.getRow op := by
  cases op with
  | merge dels ins =>
    obtain ⟨w1, n1, g1⟩ := doDelete_spec dels t h
    obtain ⟨w2, n2, g2⟩ := doInsert_spec ins _ w1 (n1 ▸ hk)
    obtain ⟨w3, n3, g3, _⟩ := maybeRehash_spec w2
    refine ⟨w3, n3.trans (n2.trans n1), ?_⟩
    simp only [step, Table.merge, specStep]
    rw [g3, g2, g1, n1]
  | rehash =>
    obtain ⟨w, hn, _, _, hg⟩ := rehash_spec h
    exact ⟨w, hn, funext hg⟩
  | clear =>
    simp only [step, Table.clear, specStep]
    split
    · rename_i hz
      refine ⟨h, rfl, ?_⟩
      funext k
      have : t.rows = [] := List.eq_nil_of_length_eq_zero hz
      cases hg : t.getRow k with
      | none => rfl
      | some r =>
        have := ((getRow_iff h k r).mp hg).1
        simp [Table.scan, ‹t.rows = []›] at this
    · exact ⟨⟨fun k i => by simp, by simp [live]⟩, rfl, by funext k; simp [Table.getRow]⟩

/-! ## Property theorems -/

/-- **Refinement**: after ANY operation sequence the store is well-formed (hash index in sync with
the live rows, one live row per key) and answers every point lookup like the plain map. -/
theorem C16_refine (m : Row → Row → Option Row) (n : Nat) (hk : KeepsKey n m) (ops : List Op) :
    WF (run m n ops) ∧ (run m n ops).getRow = specRun n m ops := by
  have key : ∀ (ops : List Op) (t : Table) (f : Key → Option Row), WF t → t.nKeys = n → t.getRow = f →
      WF (ops.foldl (step m) t) ∧ (ops.foldl (step m) t).getRow = ops.foldl (specStep n m) f := by
    intro ops
    induction ops with
    | nil => intro t f h _ hf; exact ⟨h, hf⟩
    | cons op ops ih =>
      intro t f h hn hf
      obtain ⟨w, hn', hg⟩ := step_spec h (hn ▸ hk) op
      simp only [List.foldl_cons]
      exact ih _ _ w (hn'.trans hn) (by rw [hg, hn, hf])
  exact key ops (Table.empty n) _ (WF.empty n) rfl (by funext k; simp [Table.getRow, Table.empty])

/-- **Full scans** return exactly the rows of the map, each once: live rows only, never a removed
or superseded row, never two rows for one key. -/
theorem C16_scan (m : Row → Row → Option Row) (n : Nat) (hk : KeepsKey n m) (ops : List Op) :
    (∀ r, r ∈ (run m n ops).scan ↔ specRun n m ops (keyOf (run m n ops).nKeys r) = some r) ∧
    (((run m n ops).scan).map (keyOf (run m n ops).nKeys)).Nodup := by
  obtain ⟨w, hg⟩ := C16_refine m n hk ops
  refine ⟨fun r => ?_, w.nodupKeys⟩
  rw [← hg]
  constructor
  · intro hr; exact (getRow_iff w _ r).mpr ⟨hr, rfl⟩
  · intro hr; exact ((getRow_iff w _ r).mp hr).1

/-- **Constrained scans / refine** return exactly the rows of the map that satisfy every
constraint. -/
theorem C16_scanWhere (m : Row → Row → Option Row) (n : Nat) (hk : KeepsKey n m) (ops : List Op)
    (cs : List Constraint) (r : Row) :
    r ∈ (run m n ops).scanWhere cs ↔
      specRun n m ops (keyOf (run m n ops).nKeys r) = some r ∧ cs.all (·.eval r) = true := by
  unfold Table.scanWhere
  rw [List.mem_filter, (C16_scan m n hk ops).1 r]

/-- **Compaction** keeps the live rows and their order, leaves no stale row and bumps the major
generation (row ids moved). -/
theorem C16_rehash (m : Row → Row → Option Row) (n : Nat) (hk : KeepsKey n m) (ops : List Op) :
    let t := run m n ops
    t.rehash.scan = t.scan ∧ (∀ o ∈ t.rehash.rows, o ≠ none) ∧ t.rehash.gen = t.gen + 1 ∧
      t.rehash.getRow = t.getRow := by
  obtain ⟨w, _⟩ := C16_refine m n hk ops
  obtain ⟨_, _, hs, hl, hg⟩ := rehash_spec w
  exact ⟨hs, hl, rfl, funext hg⟩

/-- **Clear** empties the map. -/
theorem C16_clear (m : Row → Row → Option Row) (n : Nat) (hk : KeepsKey n m) (ops : List Op) (k : Key) :
    (run m n (ops ++ [.clear])).getRow k = none := by
  rw [(C16_refine m n hk _).2]
  simp [specRun, List.foldl_append, specStep]

/-- non-vacuity: a concrete history with a collision, a removal and a compaction -/
example :
    let m : Row → Row → Option Row := fun cur new => if cur = new then none else some new
    let t := run m 1 [.merge [] [[1, 10], [2, 20], [1, 11]], .merge [[2]] [[3, 30]], .rehash]
    t.getRow [1] = some [1, 11] ∧ t.getRow [2] = none ∧ t.scan = [[1, 11], [3, 30]] := by decide

end EgglogVerif.Table
