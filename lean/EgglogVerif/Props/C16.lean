import EgglogVerif.Lemmas.Table
import EgglogVerif.Model.Index
/-
C16 — The table store behaves like a keyed map.

Refinement of the `SortedWritesTable` model (rows + stale marks + hash index + compaction) to a
plain map `Key → Option Row`, for EVERY sequence of merges (staged removals then staged
insertions, with any merge function that keeps the key), compactions and clears.
-/
namespace EgglogVerif.Table

/-- operations on the store -/
inductive Op where
  | merge (dels : List Key) (ins : List Row)
  | rehash
  | clear

def step (m : Row → Row → Option Row) (t : Table) : Op → Table
  | .merge dels ins => t.merge m dels ins
  | .rehash => t.rehash
  | .clear => t.clear

def run (m : Row → Row → Option Row) (n : Nat) (ops : List Op) : Table := ops.foldl (step m) (Table.empty n)

/-- the specification: a plain keyed map -/
def eraseF (f : Key → Option Row) (k : Key) : Key → Option Row := fun k' => if k' = k then none else f k'

def specStep (n : Nat) (m : Row → Row → Option Row) (f : Key → Option Row) : Op → (Key → Option Row)
  | .merge dels ins => ins.foldl (upsert n m) (dels.foldl eraseF f)
  | .rehash => f
  | .clear => fun _ => none

def specRun (n : Nat) (m : Row → Row → Option Row) (ops : List Op) : Key → Option Row :=
  ops.foldl (specStep n m) (fun _ => none)

/-- the merge function never changes a row's key (true of every `MergeFn` egglog builds: the key
columns are copied from `cur`) -/
def KeepsKey (n : Nat) (m : Row → Row → Option Row) : Prop :=
  ∀ cur new merged, m cur new = some merged → keyOf n merged = keyOf n cur

theorem doDelete_spec : ∀ (ks : List Key) (t : Table), WF t →
    WF (t.doDelete ks) ∧ (t.doDelete ks).nKeys = t.nKeys ∧ (t.doDelete ks).getRow = ks.foldl eraseF t.getRow := by
  intro ks
  induction ks with
  | nil => intro t h; exact ⟨h, rfl, rfl⟩
  | cons k ks ih =>
    intro t h
    obtain ⟨w, hn, hg⟩ := deleteOne_spec h k
    obtain ⟨w2, hn2, hg2⟩ := ih _ w
    refine ⟨w2, hn2.trans hn, ?_⟩
    simp only [Table.doDelete, List.foldl_cons] at hg2 ⊢
    rw [hg2]
    congr 1
    funext k'
    rw [hg k']; rfl

theorem doInsert_spec {m : Row → Row → Option Row} : ∀ (rs : List Row) (t : Table), WF t → KeepsKey t.nKeys m →
    WF (t.doInsert m rs) ∧ (t.doInsert m rs).nKeys = t.nKeys ∧
      (t.doInsert m rs).getRow = rs.foldl (upsert t.nKeys m) t.getRow := by
  intro rs
  induction rs with
  | nil => intro t h _; exact ⟨h, rfl, rfl⟩
  | cons r rs ih =>
    intro t h hk
    obtain ⟨w, hn, hg⟩ := insertOne_spec h hk r
    obtain ⟨w2, hn2, hg2⟩ := ih _ w (hn ▸ hk)
    refine ⟨w2, hn2.trans hn, ?_⟩
    simp only [Table.doInsert, List.foldl_cons] at hg2 ⊢
    rw [hg2, hn]
    congr 1
    funext k'
    exact hg k'

theorem maybeRehash_spec {t : Table} (h : WF t) :
    WF t.maybeRehash ∧ t.maybeRehash.nKeys = t.nKeys ∧ t.maybeRehash.getRow = t.getRow ∧
      t.maybeRehash.scan = t.scan := by
  unfold Table.maybeRehash
  split
  · exact ⟨h, rfl, rfl, rfl⟩
  · obtain ⟨w, hn, hs, _, hg⟩ := rehash_spec h
    exact ⟨w, hn, funext hg, hs⟩

theorem step_spec {m : Row → Row → Option Row} {t : Table} (h : WF t) (hk : KeepsKey t.nKeys m) (op : Op) :
    WF (step m t op) ∧ (step m t op).nKeys = t.nKeys ∧ (step m t op).getRow = specStep t.nKeys m t.getRow op := by
  cases op with
  | merge dels ins =>
    obtain ⟨w1, n1, g1⟩ := doDelete_spec dels t h
    obtain ⟨w2, n2, g2⟩ := doInsert_spec ins _ w1 (n1 ▸ hk)
    obtain ⟨w3, n3, g3, _⟩ := maybeRehash_spec w2
    refine ⟨w3, n3.trans (n2.trans n1), ?_⟩
    simp only [step, Table.merge, specStep]
    rw [g3, g2, g1, n1]
  | rehash =>
    obtain ⟨w, hn, _, _, hg⟩ := rehash_spec h
    exact ⟨w, hn, funext hg⟩
  | clear =>
    simp only [step, Table.clear, specStep]
    split
    · rename_i hz
      refine ⟨h, rfl, ?_⟩
      funext k
      have : t.rows = [] := List.eq_nil_of_length_eq_zero hz
      cases hg : t.getRow k with
      | none => rfl
      | some r =>
        have := ((getRow_iff h k r).mp hg).1
        simp [Table.scan, ‹t.rows = []›] at this
    · exact ⟨⟨fun k i => by simp, by simp [live]⟩, rfl, by funext k; simp [Table.getRow]⟩

/-! ## Property theorems -/

/-- **Refinement**: after ANY operation sequence the store is well-formed (hash index in sync with
the live rows, one live row per key) and answers every point lookup like the plain map. -/
theorem C16_refine (m : Row → Row → Option Row) (n : Nat) (hk : KeepsKey n m) (ops : List Op) :
    WF (run m n ops) ∧ (run m n ops).getRow = specRun n m ops := by
  have key : ∀ (ops : List Op) (t : Table) (f : Key → Option Row), WF t → t.nKeys = n → t.getRow = f →
      WF (ops.foldl (step m) t) ∧ (ops.foldl (step m) t).getRow = ops.foldl (specStep n m) f := by
    intro ops
    induction ops with
    | nil => intro t f h _ hf; exact ⟨h, hf⟩
    | cons op ops ih =>
      intro t f h hn hf
      obtain ⟨w, hn', hg⟩ := step_spec h (hn ▸ hk) op
      simp only [List.foldl_cons]
      exact ih _ _ w (hn'.trans hn) (by rw [hg, hn, hf])
  exact key ops (Table.empty n) _ (WF.empty n) rfl (by funext k; simp [Table.getRow, Table.empty])

/-- **Full scans** return exactly the rows of the map, each once: live rows only, never a removed
or superseded row, never two rows for one key. -/
theorem C16_scan (m : Row → Row → Option Row) (n : Nat) (hk : KeepsKey n m) (ops : List Op) :
    (∀ r, r ∈ (run m n ops).scan ↔ specRun n m ops (keyOf (run m n ops).nKeys r) = some r) ∧
    (((run m n ops).scan).map (keyOf (run m n ops).nKeys)).Nodup := by
  obtain ⟨w, hg⟩ := C16_refine m n hk ops
  refine ⟨fun r => ?_, w.nodupKeys⟩
  rw [← hg]
  constructor
  · intro hr; exact (getRow_iff w _ r).mpr ⟨hr, rfl⟩
  · intro hr; exact ((getRow_iff w _ r).mp hr).1

/-- **Constrained scans / refine** return exactly the rows of the map that satisfy every
constraint. -/
theorem C16_scanWhere (m : Row → Row → Option Row) (n : Nat) (hk : KeepsKey n m) (ops : List Op)
    (cs : List Constraint) (r : Row) :
    r ∈ (run m n ops).scanWhere cs ↔
      specRun n m ops (keyOf (run m n ops).nKeys r) = some r ∧ cs.all (·.eval r) = true := by
  unfold Table.scanWhere
  rw [List.mem_filter, (C16_scan m n hk ops).1 r]

/-- **Compaction** keeps the live rows and their order, leaves no stale row and bumps the major
generation (row ids moved). -/
theorem C16_rehash (m : Row → Row → Option Row) (n : Nat) (hk : KeepsKey n m) (ops : List Op) :
    let t := run m n ops
    t.rehash.scan = t.scan ∧ (∀ o ∈ t.rehash.rows, o ≠ none) ∧ t.rehash.gen = t.gen + 1 ∧
      t.rehash.getRow = t.getRow := by
  obtain ⟨w, _⟩ := C16_refine m n hk ops
  obtain ⟨_, _, hs, hl, hg⟩ := rehash_spec w
  exact ⟨hs, hl, rfl, funext hg⟩

/-- **Clear** empties the map. -/
theorem C16_clear (m : Row → Row → Option Row) (n : Nat) (hk : KeepsKey n m) (ops : List Op) (k : Key) :
    (run m n (ops ++ [.clear])).getRow k = none := by
  rw [(C16_refine m n hk _).2]
  simp [specRun, List.foldl_append, specStep]

/-- non-vacuity: a concrete history with a collision, a removal and a compaction -/
example :
    let m : Row → Row → Option Row := fun cur new => if cur = new then none else some new
    let t := run m 1 [.merge [] [[1, 10], [2, 20], [1, 11]], .merge [[2]] [[3, 30]], .rehash]
    t.getRow [1] = some [1, 11] ∧ t.getRow [2] = none ∧ t.scan = [[1, 11], [3, 30]] := by decide

/-! ### cached column indexes -/

/-- what the index recorded for a row id still describes the row at that id, if it is still live -/
def Agree (col : Nat) : List (Option Nat) → List (Option Row) → Prop
  | [], _ => True
  | _ :: _, [] => False
  | kv :: ks, r :: rs => (∀ row, r = some row → kv = some (row.getD col 0)) ∧ Agree col ks rs

theorem agree_set_none (col : Nat) : ∀ (vals : List (Option Nat)) (rows : List (Option Row)) (i : Nat),
    Agree col vals rows → Agree col vals (rows.set i none) := by
  intro vals
  induction vals with
  | nil => intro rows i _; trivial
  | cons kv ks ih =>
    intro rows i h
    cases rows with
    | nil => exact h
    | cons r rs =>
      cases i with
      | zero =>
        show Agree col (kv :: ks) (none :: rs)
        exact ⟨fun row hr => absurd hr (by simp), h.2⟩
      | succ j =>
        show Agree col (kv :: ks) (r :: rs.set j none)
        exact ⟨h.1, ih rs j h.2⟩

theorem agree_append (col : Nat) : ∀ (vals : List (Option Nat)) (rows extra : List (Option Row)),
    Agree col vals rows → Agree col vals (rows ++ extra) := by
  intro vals
  induction vals with
  | nil => intro rows extra _; trivial
  | cons kv ks ih =>
    intro rows extra h
    cases rows with
    | nil => exact absurd h (by simp [Agree])
    | cons r rs => exact ⟨h.1, ih rs extra h.2⟩

theorem agree_keyVals (col : Nat) : ∀ (rows : List (Option Row)), Agree col (keyVals col rows) rows := by
  intro rows
  induction rows with
  | nil => trivial
  | cons r rs ih =>
    refine ⟨fun row hr => ?_, ih⟩
    subst hr; rfl

theorem agree_extend (col : Nat) : ∀ (vals : List (Option Nat)) (rows : List (Option Row)), Agree col vals rows →
    Agree col (vals ++ keyVals col (rows.drop vals.length)) rows := by
  intro vals
  induction vals with
  | nil => intro rows _; simpa using agree_keyVals col rows
  | cons kv ks ih =>
    intro rows h
    cases rows with
    | nil => exact absurd h (by simp [Agree])
    | cons r rs => exact ⟨h.1, by simpa using ih rs h.2⟩

theorem agree_length (col : Nat) : ∀ (vals : List (Option Nat)) (rows : List (Option Row)), Agree col vals rows →
    vals.length ≤ rows.length := by
  intro vals
  induction vals with
  | nil => intro rows _; simp
  | cons kv ks ih =>
    intro rows h
    cases rows with
    | nil => exact absurd h (by simp [Agree])
    | cons r rs => simpa using ih rs h.2

/-- reading through an index that covers the whole table and agrees with it = filtering the scan -/
theorem zipLookup_spec (col v : Nat) : ∀ (vals : List (Option Nat)) (rows : List (Option Row)),
    Agree col vals rows → vals.length = rows.length →
    zipLookup v vals rows = (live rows).filter (fun r => r.getD col 0 == v) := by
  intro vals
  induction vals with
  | nil =>
    intro rows _ hl
    have : rows = [] := List.eq_nil_of_length_eq_zero (by simpa using hl.symm)
    subst this; rfl
  | cons kv ks ih =>
    intro rows h hl
    cases rows with
    | nil => simp at hl
    | cons r rs =>
      have hl' : ks.length = rs.length := by simpa using hl
      cases r with
      | none =>
        simp only [zipLookup, live, List.filterMap_cons]
        exact ih rs h.2 hl'
      | some row =>
        have hk := h.1 row rfl
        simp only [zipLookup, live, List.filterMap_cons, id, List.filter_cons]
        have ih' := ih rs h.2 hl'
        unfold live at ih'
        by_cases hv : row.getD col 0 = v
        · have hkv : kv = some v := by rw [hk, hv]
          rw [if_pos hkv, if_pos (beq_iff_eq.mpr hv), ih']
        · have hkv : kv ≠ some v := by rw [hk]; intro e; exact hv (Option.some.inj e)
          rw [if_neg hkv, if_neg (fun e => hv (beq_iff_eq.mp e)), ih']

/-- the invariant tying a cached index to its table: never ahead of the table's generation, and
within the same generation a prefix of the rows that agrees with what is still live there -/
structure IxInv (ix : Index) (t : Table) : Prop where
  le : ix.major ≤ t.gen
  agree : ix.major = t.gen → Agree ix.col ix.vals t.rows

theorem deleteOne_rows (t : Table) (k : Key) : (t.deleteOne k).gen = t.gen ∧
    ∀ col vals, Agree col vals t.rows → Agree col vals (t.deleteOne k).rows := by
  unfold Table.deleteOne
  cases t.hash k with
  | none => exact ⟨rfl, fun _ _ h => h⟩
  | some i => exact ⟨rfl, fun col vals h => agree_set_none col vals t.rows i h⟩

theorem insertOne_rows (m : Row → Row → Option Row) (t : Table) (r : Row) : (t.insertOne m r).gen = t.gen ∧
    ∀ col vals, Agree col vals t.rows → Agree col vals (t.insertOne m r).rows := by
  unfold Table.insertOne
  simp only
  cases t.hash (keyOf t.nKeys r) with
  | none => exact ⟨rfl, fun col vals h => agree_append col vals _ _ h⟩
  | some i =>
    simp only
    cases t.rowAt i with
    | none => exact ⟨rfl, fun _ _ h => h⟩
    | some cur =>
      simp only
      cases m cur r with
      | none => exact ⟨rfl, fun _ _ h => h⟩
      | some merged => exact ⟨rfl, fun col vals h => agree_append col vals _ _ (agree_set_none col vals _ i h)⟩

theorem IxInv.deleteOne {ix : Index} {t : Table} (i : IxInv ix t) (k : Key) : IxInv ix (t.deleteOne k) := by
  obtain ⟨g, a⟩ := deleteOne_rows t k
  exact ⟨g ▸ i.le, fun h => a _ _ (i.agree (g ▸ h))⟩

theorem IxInv.insertOne {ix : Index} {t : Table} (i : IxInv ix t) (m : Row → Row → Option Row) (r : Row) :
    IxInv ix (t.insertOne m r) := by
  obtain ⟨g, a⟩ := insertOne_rows m t r
  exact ⟨g ▸ i.le, fun h => a _ _ (i.agree (g ▸ h))⟩

theorem rehash_gen (t : Table) : t.rehash.gen = t.gen + 1 := by
  unfold Table.rehash
  split
  rfl

theorem IxInv.bump {ix : Index} {t t' : Table} (i : IxInv ix t) (hg : t'.gen = t.gen + 1) : IxInv ix t' :=
  ⟨by rw [hg]; exact Nat.le_succ_of_le i.le, fun h => by have := i.le; omega⟩

/-- **every table operation keeps every cached index valid or makes it detectably out of date** -/
theorem IxInv.step {ix : Index} {t : Table} (i : IxInv ix t) (m : Row → Row → Option Row) (op : Op) :
    IxInv ix (step m t op) := by
  cases op with
  | merge dels ins =>
    show IxInv ix (((t.doDelete dels).doInsert m ins).maybeRehash)
    have h1 : ∀ (ks : List Key) (t : Table), IxInv ix t → IxInv ix (t.doDelete ks) := by
      intro ks
      induction ks with
      | nil => intro t i; exact i
      | cons k ks ih => intro t i; exact ih _ (i.deleteOne k)
    have h2 : ∀ (rs : List Row) (t : Table), IxInv ix t → IxInv ix (t.doInsert m rs) := by
      intro rs
      induction rs with
      | nil => intro t i; exact i
      | cons r rs ih => intro t i; exact ih _ (i.insertOne m r)
    have i2 := h2 ins _ (h1 dels t i)
    unfold Table.maybeRehash
    split
    · exact i2
    · exact i2.bump (rehash_gen _)
  | rehash => exact IxInv.bump (t' := t.rehash) i (rehash_gen t)
  | clear =>
    show IxInv ix t.clear
    unfold Table.clear
    split
    · exact i
    · exact i.bump rfl

/-- a refresh brings the index up to date with the whole table -/
theorem IxInv.refresh {ix : Index} {t : Table} (i : IxInv ix t) :
    IxInv (ix.refresh t) t ∧ (ix.refresh t).major = t.gen ∧ (ix.refresh t).vals.length = t.rows.length ∧
      (ix.refresh t).col = ix.col := by
  unfold Index.refresh
  split
  · rename_i he
    have a := i.agree he
    have hl := agree_length _ _ _ a
    refine ⟨⟨Nat.le_of_eq he, fun _ => agree_extend _ _ _ a⟩, he, ?_, rfl⟩
    simp only [List.length_append, keyVals, List.length_map, List.length_drop]; omega
  · refine ⟨⟨Nat.le_refl _, fun _ => agree_keyVals _ _⟩, rfl, ?_, rfl⟩
    simp only [keyVals, List.length_map]

/-- histories: table operations interleaved with refreshes of one cached index at arbitrary moments -/
inductive IOp where
  | tbl (op : Op)
  | refresh

def istep (m : Row → Row → Option Row) (s : Table × Index) : IOp → Table × Index
  | .tbl op => (step m s.1 op, s.2)
  | .refresh => (s.1, s.2.refresh s.1)

def irun (m : Row → Row → Option Row) (n col : Nat) (ops : List IOp) : Table × Index :=
  ops.foldl (istep m) (Table.empty n, Index.fresh col)

theorem irun_inv (m : Row → Row → Option Row) (n col : Nat) (ops : List IOp) :
    IxInv (irun m n col ops).2 (irun m n col ops).1 ∧ (irun m n col ops).2.col = col := by
  unfold irun
  have key : ∀ (ops : List IOp) (s : Table × Index), IxInv s.2 s.1 → s.2.col = col →
      IxInv (ops.foldl (istep m) s).2 (ops.foldl (istep m) s).1 ∧ (ops.foldl (istep m) s).2.col = col := by
    intro ops
    induction ops with
    | nil => intro s i c; exact ⟨i, c⟩
    | cons op ops ih =>
      intro s i c
      cases op with
      | tbl o => exact ih (istep m s (.tbl o)) (i.step m o) c
      | refresh => exact ih (istep m s .refresh) i.refresh.1 (i.refresh.2.2.2.trans c)
  exact key ops _ ⟨Nat.le_refl _, fun _ => trivial⟩ rfl

/-- **Index lookups behave like the keyed map.**  After ANY history of merges, compactions and
clears with refreshes of the cached index at arbitrary moments (so the index is stale, partially
stale or from an older generation in between), refreshing and reading through the index returns
exactly the live rows whose indexed column has the requested value, in scan order — a lookup
obtained after a merge reflects that merge. -/
theorem C16_index (m : Row → Row → Option Row) (n col : Nat) (ops : List IOp) (v : Nat) :
    let s := irun m n col ops
    (s.2.refresh s.1).lookup s.1 v = s.1.scan.filter (fun r => r.getD col 0 == v) := by
  intro s
  obtain ⟨i, c⟩ := irun_inv m n col ops
  obtain ⟨i', _, hl, hc⟩ := i.refresh
  unfold Index.lookup Table.scan
  have := zipLookup_spec (s.2.refresh s.1).col v _ _ (i'.agree (by assumption)) hl
  rw [hc, c] at this
  exact this

/-- **A stale index is never wrong about what it returns**: even WITHOUT a refresh, within the same
generation everything read through the index is a live row with the requested value (it may miss
rows appended since — which is why the version check forces the refresh). -/
theorem C16_index_stale_sound (col v : Nat) : ∀ (vals : List (Option Nat)) (rows : List (Option Row)),
    Agree col vals rows → ∀ r ∈ zipLookup v vals rows, r ∈ live rows ∧ r.getD col 0 = v := by
  intro vals
  induction vals with
  | nil => intro rows _ r hr; simp [zipLookup] at hr
  | cons kv ks ih =>
    intro rows h r hr
    cases rows with
    | nil => simp [zipLookup] at hr
    | cons x xs =>
      cases x with
      | none =>
        simp only [zipLookup] at hr
        obtain ⟨a, b⟩ := ih xs h.2 r hr
        exact ⟨by simpa [live] using a, b⟩
      | some row =>
        simp only [zipLookup] at hr
        split at hr
        · rename_i hkv
          simp only [List.mem_cons] at hr
          rcases hr with rfl | hr
          · have := h.1 r rfl
            rw [hkv] at this
            exact ⟨by simp [live], (Option.some.inj this).symm⟩
          · obtain ⟨a, b⟩ := ih xs h.2 r hr
            exact ⟨by simp only [live, List.filterMap_cons, id, List.mem_cons]; right; simpa [live] using a, b⟩
        · obtain ⟨a, b⟩ := ih xs h.2 r hr
          exact ⟨by simp only [live, List.filterMap_cons, id, List.mem_cons]; right; simpa [live] using a, b⟩

end EgglogVerif.Table
