import EgglogVerif.Model.Pool
/-
C19 — The thread pool and shared-memory helpers are safe under any interleaving.

Every theorem quantifies over ALL event sequences of the corresponding transition system, i.e.
over every interleaving of the atomic steps (sequentially consistent atomics; the runtime
behaviour the model cannot exhibit — weak memory, lost wake-ups, OS scheduling — is named in the
evidence).
-/
namespace EgglogVerif.Pool

/-! ## scope completion -/

def Scope.Inv (s : Scope) : Prop :=
  s.expected = s.completed + s.queued + s.running + (if s.rootActive then 1 else 0) ∧
  s.done = (if s.completed = s.expected then 1 else 0) ∧
  s.spawned = s.finished + s.queued + s.running

theorem Scope.inv_init : Scope.init.Inv := by
  simp [Scope.Inv, Scope.init]

theorem Scope.inv_step {s s' : Scope} {e : Ev} (h : s.Inv) (hs : s.step e = some s') : s'.Inv := by
  obtain ⟨h1, h2, h3⟩ := h
  cases e with
  | spawn =>
    simp only [Scope.step] at hs
    split at hs
    · cases hs
      rename_i hen
      refine ⟨?_, ?_, ?_⟩ <;> simp only
      · omega
      · have hlt : s.completed ≠ s.expected := by
          cases hr : s.rootActive <;> simp [hr] at hen h1 <;> omega
        rw [if_neg hlt] at h2
        rw [if_neg (by omega)]; exact h2
      · omega
    · cases hs
  | start =>
    simp only [Scope.step] at hs
    split at hs
    · cases hs
      refine ⟨?_, ?_, ?_⟩ <;> simp only <;> first | omega | (split <;> omega)
    · cases hs
  | finish p =>
    simp only [Scope.step] at hs
    split at hs
    · cases hs
      simp only [completeOne]
      refine ⟨?_, ?_, ?_⟩ <;> simp only
      · omega
      · have hlt : s.completed ≠ s.expected := by split at h1 <;> omega
        rw [if_neg hlt] at h2
        split <;> omega
      · omega
    · cases hs
  | completeRoot p =>
    simp only [Scope.step] at hs
    split at hs
    · cases hs
      rename_i hr
      simp only [completeOne]
      simp only [hr, if_true] at h1
      refine ⟨?_, ?_, ?_⟩ <;> simp only
      · simp; omega
      · have hlt : s.completed ≠ s.expected := by omega
        rw [if_neg hlt] at h2
        split <;> omega
      · omega
    · cases hs

theorem Scope.inv_run : ∀ (es : List Ev) (s s' : Scope), s.Inv → Scope.run es s = some s' → s'.Inv := by
  intro es
  induction es with
  | nil => intro s s' h hr; simp [Scope.run] at hr; subst hr; exact h
  | cons e es ih =>
    intro s s' h hr
    simp only [Scope.run] at hr
    cases hst : s.step e with
    | none => rw [hst] at hr; cases hr
    | some s1 => rw [hst] at hr; exact ih s1 s' (Scope.inv_step h hst) hr

/-- **The counter invariant** holds in every reachable state, for every interleaving of spawns,
job starts, job completions (normal or panicking) and the root's completion. -/
theorem C19_inv (es : List Ev) (s : Scope) (h : Scope.run es Scope.init = some s) : s.Inv :=
  Scope.inv_run es _ _ Scope.inv_init h

/-- **The scope returns only after every transitively spawned task has run**: the completion
signal exists exactly when nothing is queued, running or still spawning, and then every spawned
job has finished (each exactly once: `finished = spawned`). -/
theorem C19_done (es : List Ev) (s : Scope) (h : Scope.run es Scope.init = some s) :
    (s.mayReturn = true ↔ (s.queued = 0 ∧ s.running = 0 ∧ s.rootActive = false)) ∧
    (s.mayReturn = true → s.finished = s.spawned) ∧ s.done ≤ 1 := by
  obtain ⟨h1, h2, h3⟩ := C19_inv es s h
  simp only [Scope.mayReturn, decide_eq_true_eq]
  refine ⟨⟨fun hd => ?_, fun hz => ?_⟩, fun hd => ?_, ?_⟩
  · have : s.completed = s.expected := by
      by_cases hc : s.completed = s.expected
      · exact hc
      · rw [if_neg hc] at h2; omega
    clear h2
    cases hr : s.rootActive <;> simp [hr] at h1 ⊢ <;> omega
  · obtain ⟨a, b, c⟩ := hz
    simp [c] at h1
    have : s.completed = s.expected := by omega
    rw [if_pos this] at h2; omega
  · have : s.completed = s.expected := by
      by_cases hc : s.completed = s.expected
      · exact hc
      · rw [if_neg hc] at h2; omega
    clear h2
    cases hr : s.rootActive <;> simp [hr] at h1 <;> omega
  · split at h2 <;> omega

/-- once the signal has been sent no event is enabled any more: in particular no late spawn can
use the (about to be destroyed) scope, and the signal is never sent twice. -/
theorem C19_terminal (es : List Ev) (s : Scope) (h : Scope.run es Scope.init = some s)
    (hd : s.mayReturn = true) (e : Ev) : s.step e = none := by
  obtain ⟨a, b, c⟩ := ((C19_done es s h).1).mp hd
  cases e <;> simp [Scope.step, a, b, c]

/-- a panic in any job or in the root closure is remembered until the scope ends -/
def Ev.isPanic : Ev → Bool
  | .finish p => p
  | .completeRoot p => p
  | _ => false

theorem C19_panic : ∀ (es : List Ev) (s s' : Scope), Scope.run es s = some s' →
    s'.panicked = (s.panicked || es.any Ev.isPanic) := by
  intro es
  induction es with
  | nil => intro s s' h; simp [Scope.run] at h; subst h; simp
  | cons e es ih =>
    intro s s' h
    simp only [Scope.run] at h
    cases hst : s.step e with
    | none => rw [hst] at h; cases h
    | some s1 =>
      rw [hst] at h
      rw [ih s1 s' h]
      have : s1.panicked = (s.panicked || e.isPanic) := by
        cases e <;> simp only [Scope.step] at hst <;> split at hst <;> cases hst <;>
          simp [Ev.isPanic, completeOne]
      rw [this]; simp [Bool.or_assoc]

/-! ## ReadOptimizedLock -/

def Lock.Inv (l : Lock) : Prop :=
  (∀ g, l.token = .readOk g → l.writing = false ∧ l.waitingFor = none ∧ ∀ x ∈ l.guards, x = g) ∧
  (l.token = .writeOngoing →
    (l.writing = true ∧ l.waitingFor = none ∧ l.guards = []) ∨
    (l.writing = false ∧ ∃ g, l.waitingFor = some g ∧ ∀ x ∈ l.guards, x = g))

theorem Lock.inv_init : Lock.init.Inv := by
  refine ⟨fun g hg => ?_, fun h => by simp [Lock.init] at h⟩
  simp [Lock.init]

theorem Lock.inv_step {l l' : Lock} {e : LEv} (h : l.Inv) (hs : l.step e = some l') : l'.Inv := by
  obtain ⟨h1, h2⟩ := h
  cases e with
  | readAcquire =>
    simp only [Lock.step] at hs
    cases ht : l.token with
    | writeOngoing => rw [ht] at hs; cases hs
    | readOk g =>
      rw [ht] at hs; cases hs
      obtain ⟨a, b, c⟩ := h1 g ht
      refine ⟨fun g' hg' => ?_, fun hw => by simp [ht] at hw⟩
      simp only [ht, Token.readOk.injEq] at hg'; subst hg'
      exact ⟨a, b, fun x hx => by
        rcases List.mem_cons.mp hx with rfl | hx
        · rfl
        · exact c x hx⟩
  | readRelease g =>
    simp only [Lock.step] at hs
    split at hs
    · cases hs
      refine ⟨fun g' hg' => ?_, fun hw => ?_⟩
      · obtain ⟨a, b, c⟩ := h1 g' hg'
        exact ⟨a, b, fun x hx => c x (List.mem_of_mem_erase hx)⟩
      · rcases h2 hw with ⟨a, b, c⟩ | ⟨a, g', b, c⟩
        · rename_i hmem; rw [c] at hmem; cases hmem
        · exact Or.inr ⟨a, g', b, fun x hx => c x (List.mem_of_mem_erase hx)⟩
    · cases hs
  | writeCas =>
    simp only [Lock.step] at hs
    cases ht : l.token with
    | writeOngoing => rw [ht] at hs; cases hs
    | readOk g =>
      rw [ht] at hs; cases hs
      obtain ⟨a, _, c⟩ := h1 g ht
      exact ⟨fun g' hg' => by simp at hg', fun _ => Or.inr ⟨a, g, rfl, c⟩⟩
  | writeEnter =>
    simp only [Lock.step] at hs
    cases hw : l.waitingFor with
    | none => rw [hw] at hs; cases hs
    | some g =>
      rw [hw] at hs
      simp only at hs
      split at hs
      · cases hs
      · cases hs
        rename_i hnot
        have htok : l.token = .writeOngoing := by
          cases ht : l.token with
          | writeOngoing => rfl
          | readOk g' => have := (h1 g' ht).2.1; rw [hw] at this; cases this
        rcases h2 htok with ⟨_, b, _⟩ | ⟨_, g', b, c⟩
        · rw [hw] at b; cases b
        · rw [hw] at b; cases b
          have hnil : l.guards = [] := by
            cases hg : l.guards with
            | nil => rfl
            | cons x xs =>
              have := c x (by rw [hg]; exact List.mem_cons_self)
              subst this
              exact absurd (by rw [hg]; exact List.mem_cons_self) hnot
          exact ⟨fun g' hg' => by simp [htok] at hg', fun _ => Or.inl ⟨rfl, rfl, hnil⟩⟩
  | writeRelease =>
    simp only [Lock.step] at hs
    split at hs
    · cases hs
      rename_i hwr
      have htok : l.token = .writeOngoing := by
        cases ht : l.token with
        | writeOngoing => rfl
        | readOk g' => have := (h1 g' ht).1; rw [hwr] at this; cases this
      rcases h2 htok with ⟨_, b, c⟩ | ⟨a, _⟩
      · refine ⟨fun g' _ => ⟨rfl, b, fun x hx => by rw [c] at hx; cases hx⟩, fun hw => by simp at hw⟩
      · rw [hwr] at a; cases a
    · cases hs

theorem Lock.inv_run : ∀ (es : List LEv) (l l' : Lock), l.Inv → Lock.run es l = some l' → l'.Inv := by
  intro es
  induction es with
  | nil => intro l l' h hr; simp [Lock.run] at hr; subst hr; exact h
  | cons e es ih =>
    intro l l' h hr
    simp only [Lock.run] at hr
    cases hst : l.step e with
    | none => rw [hst] at hr; cases hr
    | some l1 => rw [hst] at hr; exact ih l1 l' (Lock.inv_step h hst) hr

/-- **Readers and writers never overlap, and writers exclude each other**, for every
interleaving of acquisitions, releases, the writer's token swap and its wait for the readers. -/
theorem C19_rw (es : List LEv) (l : Lock) (h : Lock.run es Lock.init = some l) :
    (l.writing = true → l.guards = []) ∧
    (l.writing = true ∨ l.waitingFor.isSome → l.step .writeCas = none ∧ l.step .readAcquire = none) := by
  obtain ⟨h1, h2⟩ := Lock.inv_run es _ _ Lock.inv_init h
  have htok : l.writing = true ∨ l.waitingFor.isSome → l.token = .writeOngoing := by
    intro hw
    cases ht : l.token with
    | writeOngoing => rfl
    | readOk g =>
      obtain ⟨a, b, _⟩ := h1 g ht
      rcases hw with hw | hw
      · rw [a] at hw; cases hw
      · rw [b] at hw; cases hw
  refine ⟨fun hw => ?_, fun hw => ?_⟩
  · rcases h2 (htok (Or.inl hw)) with ⟨_, _, c⟩ | ⟨a, _⟩
    · exact c
    · rw [hw] at a; cases a
  · simp [Lock.step, htok hw]

/-! ## range reservation -/

/-- **Ranges handed out by `fetch_add` are pairwise disjoint and inside the final length**,
whatever the order in which concurrent reservations hit the counter. -/
theorem C19_ranges : ∀ (lens : List Nat) (head : Nat),
    let r := reserveAll lens head
    (∀ p ∈ r.1, head ≤ p.1 ∧ p.1 + p.2 ≤ r.2) ∧ head ≤ r.2 ∧
    r.1.Pairwise (fun a b => a.1 + a.2 ≤ b.1) := by
  intro lens
  induction lens with
  | nil => intro head; simp [reserveAll]
  | cons len rest ih =>
    intro head
    obtain ⟨i1, i2, i3⟩ := ih (head + len)
    simp only [reserveAll]
    refine ⟨fun p hp => ?_, by omega, ?_⟩
    · rcases List.mem_cons.mp hp with rfl | hp
      · simp; omega
      · have := i1 p hp; omega
    · rw [List.pairwise_cons]
      exact ⟨fun b hb => by have := i1 b hb; simp; omega, i3⟩

/-- non-vacuity: a nested-spawn history reaches the completion signal; a reader/writer history -/
example : (Scope.run [.spawn, .start, .spawn, .completeRoot false, .start, .finish true, .finish false] Scope.init).map
    (fun s => (s.mayReturn, s.finished, s.panicked)) = some (true, 2, true) := by decide
example : (Lock.run [.readAcquire, .writeCas, .readRelease 0, .writeEnter, .writeRelease, .readAcquire] Lock.init).map
    (fun l => (l.writing, l.guards)) = some (false, [1]) := by decide

end EgglogVerif.Pool
