import EgglogVerif.Model.Closure
/-
C14 — the dirty-id closure of a container rebuild is the full ancestor closure.

A container that changed in place keeps its id, so the rows that hold it — and the containers
that hold it, and the containers that hold those, at every depth — are only refreshed if their ids
are reported dirty.  `C14_closure_exact`: whenever the worklist loop ends, its result is exactly
the set of ancestors (reflexive, transitive) of the initially dirty ids; `C14_closure_closed`: it
is closed under "is contained in"; `C14_closure_total`: with `n` ids it ends within `n + 1` rounds.
-/
namespace EgglogVerif.Closure

/-- `b` is `a` or contains it, directly or through further containers -/
inductive Reach (parents : Nat → List Nat) : Nat → Nat → Prop
  | refl (a : Nat) : Reach parents a a
  | step {a p b : Nat} : p ∈ parents a → Reach parents p b → Reach parents a b

def Anc (parents : Nat → List Nat) (dirty : List Nat) (v : Nat) : Prop := ∃ d ∈ dirty, Reach parents d v

theorem Reach.tail {parents : Nat → List Nat} {a b p : Nat} (h : Reach parents a b) (hp : p ∈ parents b) :
    Reach parents a p := by
  induction h with
  | refl a => exact .step hp (.refl p)
  | step h1 _ ih => exact .step h1 (ih hp)

/-! ### one round -/

theorem foldl_addNew_seen (l : List Nat) : ∀ (fs : List Nat × List Nat) (v : Nat),
    v ∈ (l.foldl addNew fs).2 ↔ v ∈ fs.2 ∨ v ∈ l := by
  induction l with
  | nil => intro fs v; simp
  | cons x xs ih =>
    intro fs v
    simp only [List.foldl_cons, ih, List.mem_cons]
    unfold addNew
    split
    · rename_i hx
      constructor
      · rintro (h | h)
        · exact .inl h
        · exact .inr (.inr h)
      · rintro (h | h | h)
        · exact .inl h
        · subst h; exact .inl hx
        · exact .inr h
    · simp only [List.mem_append, List.mem_singleton]
      constructor
      · rintro ((h | h) | h)
        · exact .inl h
        · exact .inr (.inl h)
        · exact .inr (.inr h)
      · rintro (h | h | h)
        · exact .inl (.inl h)
        · exact .inl (.inr h)
        · exact .inr h

theorem foldl_addNew_frontier (l : List Nat) : ∀ (fs : List Nat × List Nat) (v : Nat),
    v ∈ (l.foldl addNew fs).1 → v ∈ fs.1 ∨ (v ∈ l ∧ v ∉ fs.2) := by
  induction l with
  | nil => intro fs v h; exact .inl h
  | cons x xs ih =>
    intro fs v h
    simp only [List.foldl_cons] at h
    rcases ih _ v h with h1 | ⟨h1, h2⟩
    · unfold addNew at h1
      split at h1
      · exact .inl h1
      · rename_i hx
        simp only [List.mem_append, List.mem_singleton] at h1
        rcases h1 with h1 | h1
        · exact .inl h1
        · subst h1; exact .inr ⟨List.mem_cons_self, hx⟩
    · refine .inr ⟨List.mem_cons_of_mem _ h1, ?_⟩
      unfold addNew at h2
      split at h2
      · exact h2
      · intro hv; exact h2 (List.mem_append_left _ hv)

/-- everything seen after the round is in the new frontier or was seen before -/
theorem foldl_addNew_split (l : List Nat) : ∀ (fs : List Nat × List Nat) (seen0 : List Nat),
    (∀ c ∈ fs.2, c ∈ fs.1 ∨ c ∈ seen0) → ∀ c ∈ (l.foldl addNew fs).2, c ∈ (l.foldl addNew fs).1 ∨ c ∈ seen0 := by
  induction l with
  | nil => intro fs seen0 h; exact h
  | cons x xs ih =>
    intro fs seen0 h
    simp only [List.foldl_cons]
    apply ih
    intro c hc
    unfold addNew at hc ⊢
    split
    · rename_i hx; rw [if_pos hx] at hc; exact h c hc
    · rename_i hx
      rw [if_neg hx] at hc
      simp only [List.mem_append, List.mem_singleton] at hc ⊢
      rcases hc with hc | hc
      · rcases h c hc with h' | h'
        · exact .inl (.inl h')
        · exact .inr h'
      · exact .inl (.inr hc)

/-- the new frontier is part of the new seen set -/
theorem foldl_addNew_sub (l : List Nat) : ∀ (fs : List Nat × List Nat),
    (∀ c ∈ fs.1, c ∈ fs.2) → ∀ c ∈ (l.foldl addNew fs).1, c ∈ (l.foldl addNew fs).2 := by
  induction l with
  | nil => intro fs h; exact h
  | cons x xs ih =>
    intro fs h
    simp only [List.foldl_cons]
    apply ih
    intro c hc
    unfold addNew at hc ⊢
    split
    · rename_i hx; rw [if_pos hx] at hc; exact h c hc
    · rename_i hx
      rw [if_neg hx] at hc
      simp only [List.mem_append, List.mem_singleton] at hc ⊢
      rcases hc with hc | hc
      · exact .inl (h c hc)
      · exact .inr hc

/-! ### the loop invariant -/

structure Inv (parents : Nat → List Nat) (dirty frontier seen : List Nat) : Prop where
  sub : ∀ c ∈ frontier, c ∈ seen
  closedOff : ∀ c ∈ seen, c ∉ frontier → ∀ p ∈ parents c, p ∈ seen
  sound : ∀ v ∈ seen, Anc parents dirty v
  start : ∀ d ∈ dirty, d ∈ seen

theorem Inv.init (parents : Nat → List Nat) (dirty : List Nat) : Inv parents dirty dirty dirty where
  sub := fun _ h => h
  closedOff := fun c hc hn => absurd hc hn
  sound := fun v hv => ⟨v, hv, .refl v⟩
  start := fun _ h => h

theorem Inv.round {parents : Nat → List Nat} {dirty frontier seen : List Nat} (h : Inv parents dirty frontier seen) :
    Inv parents dirty (roundStep parents frontier seen).1 (roundStep parents frontier seen).2 := by
  unfold roundStep
  refine ⟨?_, ?_, ?_, ?_⟩
  · exact foldl_addNew_sub _ ([], seen) (fun c hc => by cases hc)
  · intro c hc hnf p hp
    have hsplit := foldl_addNew_split (frontier.flatMap parents) ([], seen) seen (fun c hc => .inr hc) c hc
    rcases hsplit with h1 | h1
    · exact absurd h1 hnf
    · rw [foldl_addNew_seen]
      by_cases hcf : c ∈ frontier
      · exact .inr (List.mem_flatMap.mpr ⟨c, hcf, hp⟩)
      · exact .inl (h.closedOff c h1 hcf p hp)
  · intro v hv
    rw [foldl_addNew_seen] at hv
    rcases hv with hv | hv
    · exact h.sound v hv
    · obtain ⟨c, hc, hp⟩ := List.mem_flatMap.mp hv
      obtain ⟨d, hd, hr⟩ := h.sound c (h.sub c hc)
      exact ⟨d, hd, hr.tail hp⟩
  · intro d hd
    rw [foldl_addNew_seen]
    exact .inl (h.start d hd)

theorem loop_inv {parents : Nat → List Nat} {dirty : List Nat} : ∀ (fuel : Nat) (frontier seen s : List Nat),
    Inv parents dirty frontier seen → loop parents fuel frontier seen = some s → Inv parents dirty [] s := by
  intro fuel
  induction fuel with
  | zero =>
    intro frontier seen s h hl
    simp only [loop] at hl
    split at hl
    · rename_i he
      cases hl
      have : frontier = [] := List.isEmpty_iff.mp he
      subst this; exact h
    · cases hl
  | succ n ih =>
    intro frontier seen s h hl
    simp only [loop] at hl
    split at hl
    · rename_i he
      cases hl
      have : frontier = [] := List.isEmpty_iff.mp he
      subst this; exact h
    · exact ih _ _ s h.round hl

/-- **closed**: every container holding a dirty id is dirty -/
theorem C14_closure_closed (parents : Nat → List Nat) (fuel : Nat) (dirty s : List Nat)
    (h : closure parents fuel dirty = some s) : ∀ c ∈ s, ∀ p ∈ parents c, p ∈ s :=
  fun c hc p hp => (loop_inv fuel dirty dirty s (Inv.init parents dirty) h).closedOff c hc (by simp) p hp

/-- **exact**: the result is the set of ancestors of the initially dirty ids, at every depth -/
theorem C14_closure_exact (parents : Nat → List Nat) (fuel : Nat) (dirty s : List Nat)
    (h : closure parents fuel dirty = some s) : ∀ v, v ∈ s ↔ Anc parents dirty v := by
  have hinv := loop_inv fuel dirty dirty s (Inv.init parents dirty) h
  intro v
  constructor
  · exact hinv.sound v
  · rintro ⟨d, hd, hr⟩
    have hds := hinv.start d hd
    clear hd
    induction hr with
    | refl a => exact hds
    | step hp _ ih => exact ih (hinv.closedOff _ hds (by simp) _ hp)


/-! ### totality -/

theorem foldl_addNew_nodup (l : List Nat) : ∀ (fs : List Nat × List Nat), fs.2.Nodup → (l.foldl addNew fs).2.Nodup := by
  induction l with
  | nil => intro fs h; exact h
  | cons x xs ih =>
    intro fs h
    simp only [List.foldl_cons]
    apply ih
    unfold addNew
    split
    · exact h
    · rename_i hx
      simp only
      rw [List.nodup_append]
      refine ⟨h, by simp, ?_⟩
      intro a ha b hb
      simp only [List.mem_singleton] at hb
      subst hb
      intro hab; subst hab; exact hx ha

theorem foldl_addNew_length (l : List Nat) : ∀ (fs : List Nat × List Nat),
    (l.foldl addNew fs).2.length + fs.1.length = fs.2.length + (l.foldl addNew fs).1.length := by
  induction l with
  | nil => intro fs; simp [Nat.add_comm]
  | cons x xs ih =>
    intro fs
    simp only [List.foldl_cons]
    have := ih (addNew fs x)
    unfold addNew at this ⊢
    split
    · rename_i hx; rw [if_pos hx] at this; exact this
    · rename_i hx
      rw [if_neg hx] at this
      simp only [List.length_append, List.length_singleton] at this
      omega

theorem loop_empty (parents : Nat → List Nat) (fuel : Nat) (seen : List Nat) : loop parents fuel [] seen = some seen := by
  cases fuel <;> simp [loop]

theorem loop_total {parents : Nat → List Nat} {n : Nat} (hpar : ∀ c p, p ∈ parents c → p < n) :
    ∀ (fuel : Nat) (frontier seen : List Nat), seen.Nodup → (∀ v ∈ seen, v < n) →
      (frontier = [] ∨ n - seen.length + 1 ≤ fuel) → ∃ s, loop parents fuel frontier seen = some s := by
  intro fuel
  induction fuel with
  | zero =>
    intro frontier seen _ _ h
    rcases h with rfl | h
    · exact ⟨seen, loop_empty parents 0 seen⟩
    · omega
  | succ k ih =>
    intro frontier seen hnd hlt h
    by_cases he : frontier = []
    · subst he; exact ⟨seen, loop_empty parents _ seen⟩
    · have hfuel : n - seen.length + 1 ≤ k + 1 := by rcases h with h | h; exact absurd h he; exact h
      have hne : frontier.isEmpty = false := by
        cases frontier with
        | nil => exact absurd rfl he
        | cons a as => rfl
      simp only [loop, hne]
      have hnd' : (roundStep parents frontier seen).2.Nodup := foldl_addNew_nodup _ ([], seen) hnd
      have hlt' : ∀ v ∈ (roundStep parents frontier seen).2, v < n := by
        intro v hv
        unfold roundStep at hv
        rw [foldl_addNew_seen] at hv
        rcases hv with hv | hv
        · exact hlt v hv
        · obtain ⟨c, _, hp⟩ := List.mem_flatMap.mp hv
          exact hpar c v hp
      have hlen := foldl_addNew_length (frontier.flatMap parents) ([], seen)
      simp only [List.length_nil, Nat.add_zero] at hlen
      have hle : (roundStep parents frontier seen).2.length ≤ n := by
        have := List.Nodup.length_le_of_subset hnd' (l₂ := List.range n) (fun v hv => List.mem_range.mpr (hlt' v hv))
        simpa using this
      refine ih _ _ hnd' hlt' ?_
      by_cases hf : (roundStep parents frontier seen).1 = []
      · exact .inl hf
      · right
        have hpos : 0 < (roundStep parents frontier seen).1.length := List.length_pos_iff.mpr hf
        unfold roundStep at hpos hle ⊢
        omega

/-- **total**: with container ids below `n`, the loop ends within `n + 1` rounds -/
theorem C14_closure_total (parents : Nat → List Nat) (n fuel : Nat) (dirty : List Nat)
    (hpar : ∀ c p, p ∈ parents c → p < n) (hd : dirty.Nodup) (hlt : ∀ v ∈ dirty, v < n) (hfuel : n + 1 ≤ fuel) :
    ∃ s, closure parents fuel dirty = some s :=
  loop_total hpar fuel dirty dirty hd hlt (.inr (by omega))

/-- the closure as a total function of the dirty set, and its characterisation -/
theorem C14_closure (parents : Nat → List Nat) (n : Nat) (dirty : List Nat)
    (hpar : ∀ c p, p ∈ parents c → p < n) (hd : dirty.Nodup) (hlt : ∀ v ∈ dirty, v < n) :
    ∃ s, closure parents (n + 1) dirty = some s ∧ (∀ v, v ∈ s ↔ Anc parents dirty v) := by
  obtain ⟨s, hs⟩ := C14_closure_total parents n (n + 1) dirty hpar hd hlt (Nat.le_refl _)
  exact ⟨s, hs, C14_closure_exact parents (n + 1) dirty s hs⟩

/-- a three-deep nesting: 0 ∈ container 1 ∈ container 2 ∈ container 3; container 4 is unrelated -/
example : closure (fun v => if v = 0 then [1] else if v = 1 then [2] else if v = 2 then [3] else []) 10 [0]
    = some [0, 1, 2, 3] := by decide +kernel

end EgglogVerif.Closure
