import EgglogVerif.Model.Schedule
/-
C10 — Schedules mean what they say: run, repeat, saturate, seq, until.

Everything is proved for an ARBITRARY ruleset step function and `:until` test, hence for every
program, and for every schedule expression.
-/
namespace EgglogVerif.Schedule

variable {R U DB : Type} {step : R → DB → DB × Bool} {holds : U → DB → Bool}

@[simp] theorem dflt_union (r : Rep) : Rep.dflt.union r = r := by
  cases r; simp [Rep.union, Rep.dflt]

@[simp] theorem union_dflt (r : Rep) : r.union Rep.dflt = r := by
  cases r; simp [Rep.union, Rep.dflt]

theorem union_assoc (a b c : Rep) : (a.union b).union c = a.union (b.union c) := by
  cases a; cases b; cases c; simp [Rep.union, Bool.or_assoc, Bool.and_assoc, Nat.add_assoc]

/-- the executable schedule interpreter only produces results the relational semantics allows -/
theorem exec_sound : ∀ (f : Nat) (s : Sched R U) (db db' : DB) (r : Rep),
    exec step holds f s db = some (db', r) → Eval step holds s db db' r := by
  intro f
  induction f with
  | zero => intro s db db' r h; simp [exec] at h
  | succ f ih =>
    intro s db db' r h
    cases s with
    | run rs unt =>
      cases unt with
      | none =>
        simp only [exec] at h
        cases h
        exact Eval.runStep (fun x hx => by cases hx)
      | some u =>
        simp only [exec] at h
        by_cases hu : holds u db = true
        · rw [if_pos hu] at h; cases h; exact Eval.runUntil hu
        · rw [if_neg hu] at h; cases h
          exact Eval.runStep (fun x hx => by cases hx; simpa using hu)
    | rep n s =>
      cases n with
      | zero => simp only [exec] at h; cases h; exact Eval.rep0
      | succ n =>
        simp only [exec] at h
        cases h1 : exec step holds f s db with
        | none => rw [h1] at h; cases h
        | some p1 =>
          obtain ⟨db1, r1⟩ := p1
          rw [h1] at h
          simp only at h
          by_cases hc : r1.canStop = true
          · rw [if_pos hc] at h; cases h
            exact Eval.repStop (ih _ _ _ _ h1) hc
          · rw [if_neg hc] at h
            cases h2 : exec step holds f (.rep n s) db1 with
            | none => rw [h2] at h; cases h
            | some p2 =>
              obtain ⟨db2, r2⟩ := p2
              rw [h2] at h; cases h
              exact Eval.repCont (ih _ _ _ _ h1) (by simpa using hc) (ih _ _ _ _ h2)
    | sat s =>
      simp only [exec] at h
      cases h1 : exec step holds f s db with
      | none => rw [h1] at h; cases h
      | some p1 =>
        obtain ⟨db1, r1⟩ := p1
        rw [h1] at h
        simp only at h
        by_cases hc : r1.updated = true
        · simp only [hc, Bool.not_true, Bool.false_eq_true, if_false] at h
          cases h2 : exec step holds f (.sat s) db1 with
          | none => rw [h2] at h; cases h
          | some p2 =>
            obtain ⟨db2, r2⟩ := p2
            rw [h2] at h; cases h
            exact Eval.satCont (ih _ _ _ _ h1) hc (ih _ _ _ _ h2)
        · have hc' : r1.updated = false := by simpa using hc
          simp only [hc', Bool.not_false, if_true] at h
          cases h
          exact Eval.satStop (ih _ _ _ _ h1) hc'
    | seqNil => simp only [exec] at h; cases h; exact Eval.seqNil
    | seqCons s rest =>
      simp only [exec] at h
      cases h1 : exec step holds f s db with
      | none => rw [h1] at h; cases h
      | some p1 =>
        obtain ⟨db1, r1⟩ := p1
        rw [h1] at h
        simp only at h
        cases h2 : exec step holds f rest db1 with
        | none => rw [h2] at h; cases h
        | some p2 =>
          obtain ⟨db2, r2⟩ := p2
          rw [h2] at h; cases h
          exact Eval.seqCons (ih _ _ _ _ h1) (ih _ _ _ _ h2)

/-- the semantics is deterministic -/
theorem Eval.det {s : Sched R U} {db d1 d2 : DB} {r1 r2 : Rep}
    (h1 : Eval step holds s db d1 r1) (h2 : Eval step holds s db d2 r2) : d1 = d2 ∧ r1 = r2 := by
  induction h1 generalizing d2 r2 with
  | runUntil hu =>
    cases h2 with
    | runUntil _ => exact ⟨rfl, rfl⟩
    | runStep hn => have := hn _ rfl; simp_all
  | runStep hn =>
    cases h2 with
    | runUntil hu => have := hn _ rfl; simp_all
    | runStep _ => exact ⟨rfl, rfl⟩
  | rep0 => cases h2; exact ⟨rfl, rfl⟩
  | repStop _ hc ih =>
    cases h2 with
    | repStop e2 _ => obtain ⟨a, b⟩ := ih e2; subst a b; exact ⟨rfl, rfl⟩
    | repCont e2 hc2 _ => obtain ⟨a, b⟩ := ih e2; subst a b; simp_all
  | repCont _ hc _ ih1 ih2 =>
    cases h2 with
    | repStop e2 hc2 => obtain ⟨a, b⟩ := ih1 e2; subst a b; simp_all
    | repCont e2 _ e3 =>
      obtain ⟨a, b⟩ := ih1 e2; subst a b
      obtain ⟨a, b⟩ := ih2 e3; subst a b; exact ⟨rfl, rfl⟩
  | satStop _ hc ih =>
    cases h2 with
    | satStop e2 _ => obtain ⟨a, b⟩ := ih e2; subst a b; exact ⟨rfl, rfl⟩
    | satCont e2 hc2 _ => obtain ⟨a, b⟩ := ih e2; subst a b; simp_all
  | satCont _ hc _ ih1 ih2 =>
    cases h2 with
    | satStop e2 hc2 => obtain ⟨a, b⟩ := ih1 e2; subst a b; simp_all
    | satCont e2 _ e3 =>
      obtain ⟨a, b⟩ := ih1 e2; subst a b
      obtain ⟨a, b⟩ := ih2 e3; subst a b; exact ⟨rfl, rfl⟩
  | seqNil => cases h2; exact ⟨rfl, rfl⟩
  | seqCons _ _ ih1 ih2 =>
    cases h2 with
    | seqCons e2 e3 =>
      obtain ⟨a, b⟩ := ih1 e2; subst a b
      obtain ⟨a, b⟩ := ih2 e3; subst a b; exact ⟨rfl, rfl⟩

/-! ## `(run R n [:until u])` -/

def untilHolds (holds : U → DB → Bool) : Option U → DB → Bool
  | some x, db => holds x db
  | none, _ => false

/-- n successive single iterations of `r`, stopping before an iteration when `:until` holds and
after an iteration that changed nothing -/
def iterRun (step : R → DB → DB × Bool) (holds : U → DB → Bool) (r : R) (u : Option U) :
    Nat → DB → DB × Rep
  | 0, db => (db, Rep.dflt)
  | n + 1, db =>
    if untilHolds holds u db then (db, Rep.dflt)
    else
      let p := step r db
      if p.2 then
        let q := iterRun step holds r u n p.1
        (q.1, (Rep.single p.2).union q.2)
      else (p.1, Rep.single p.2)

/-- **`(run R n)`** (= `Repeat(n, Run R)`) is exactly `iterRun`. -/
theorem C10_run (r : R) (u : Option U) : ∀ (n : Nat) (db : DB),
    Eval step holds (.rep n (.run r u)) db (iterRun step holds r u n db).1 (iterRun step holds r u n db).2 := by
  intro n
  induction n with
  | zero => intro db; exact Eval.rep0
  | succ n ih =>
    intro db
    simp only [iterRun]
    by_cases hu : untilHolds holds u db = true
    · rw [if_pos hu]
      cases u with
      | none => simp [untilHolds] at hu
      | some x =>
        simp only [untilHolds] at hu
        have := Eval.repStop (n := n) (Eval.runUntil (r := r) (step := step) (holds := holds) hu) rfl
        simpa using this
    · rw [if_neg hu]
      have hrun : Eval step holds (.run r u) db (step r db).1 (Rep.dflt.union (Rep.single (step r db).2)) :=
        Eval.runStep (fun x hx => by subst hx; simpa [untilHolds] using hu)
      by_cases hch : (step r db).2 = true
      · rw [if_pos hch]
        have hcs : (Rep.dflt.union (Rep.single (step r db).2)).canStop = false := by
          simp [Rep.single, hch, Rep.union, Rep.dflt]
        have := Eval.repCont hrun hcs (ih (step r db).1)
        simpa using this
      · rw [if_neg hch]
        have hcs : (Rep.dflt.union (Rep.single (step r db).2)).canStop = true := by
          simp [Rep.single, hch, Rep.union, Rep.dflt]
        have := Eval.repStop (n := n) hrun hcs
        simpa using this

/-- `:until` stops BEFORE the first iteration at which the facts already hold. -/
theorem C10_until (r : R) (u : U) (n : Nat) (db db' : DB) (rp : Rep)
    (h : Eval step holds (.rep n (.run r (some u))) db db' rp) (hu : holds u db = true) :
    db' = db ∧ rp.iters = 0 := by
  have := (C10_run (step := step) (holds := holds) r (some u) n db).det h
  cases n with
  | zero => simp [iterRun] at this; exact ⟨this.1.symm, by rw [← this.2]; rfl⟩
  | succ n => simp [iterRun, untilHolds, hu] at this; exact ⟨this.1.symm, by rw [← this.2]; rfl⟩

/-! ## `seq` -/

theorem eval_seqNil_iff {db d : DB} {r : Rep} :
    Eval step holds (.seqNil : Sched R U) db d r ↔ d = db ∧ r = Rep.dflt := by
  constructor
  · intro h; cases h; exact ⟨rfl, rfl⟩
  · rintro ⟨rfl, rfl⟩; exact Eval.seqNil

theorem eval_seqCons_iff {s rest : Sched R U} {db d : DB} {r : Rep} :
    Eval step holds (.seqCons s rest) db d r ↔
      ∃ d1 r1 r2, Eval step holds s db d1 r1 ∧ Eval step holds rest d1 d r2 ∧ r = r1.union r2 := by
  constructor
  · intro h; cases h with
    | seqCons e1 e2 => exact ⟨_, _, _, e1, e2, rfl⟩
  · rintro ⟨d1, r1, r2, e1, e2, rfl⟩; exact Eval.seqCons e1 e2

theorem eval_seq1_iff {c : Sched R U} {db d : DB} {r : Rep} :
    Eval step holds (.seqCons c .seqNil) db d r ↔ Eval step holds c db d r := by
  rw [eval_seqCons_iff]
  constructor
  · rintro ⟨d1, r1, r2, e1, e2, rfl⟩
    cases e2; simpa using e1
  · intro e; exact ⟨d, r, Rep.dflt, e, Eval.seqNil, by simp⟩

/-- **seq associativity**: `(seq (seq a b) c)`, `(seq a (seq b c))` and `(seq a b c)` give the same
database and the same report. -/
theorem C10_seqAssoc (a b c : Sched R U) (db d : DB) (r : Rep) :
    (Eval step holds (.seqCons (.seqCons a (.seqCons b .seqNil)) (.seqCons c .seqNil)) db d r ↔
      Eval step holds (.seqCons a (.seqCons b (.seqCons c .seqNil))) db d r) ∧
    (Eval step holds (.seqCons a (.seqCons (.seqCons b (.seqCons c .seqNil)) .seqNil)) db d r ↔
      Eval step holds (.seqCons a (.seqCons b (.seqCons c .seqNil))) db d r) := by
  have cast : ∀ {s : Sched R U} {db d : DB} {r r' : Rep}, Eval step holds s db d r → r = r' →
      Eval step holds s db d r' := fun h e => e ▸ h
  refine ⟨⟨?_, ?_⟩, ⟨?_, ?_⟩⟩
  · intro h
    cases h with
    | seqCons h1 h2 =>
      cases h1 with
      | seqCons ha hb' =>
        cases hb' with
        | seqCons hb hn =>
          cases hn
          cases h2 with
          | seqCons hc hn2 =>
            cases hn2
            exact cast (Eval.seqCons ha (Eval.seqCons hb (Eval.seqCons hc Eval.seqNil))) (by simp [union_assoc])
  · intro h
    cases h with
    | seqCons ha h1 =>
      cases h1 with
      | seqCons hb h2 =>
        cases h2 with
        | seqCons hc hn =>
          cases hn
          exact cast (Eval.seqCons (Eval.seqCons ha (Eval.seqCons hb Eval.seqNil)) (Eval.seqCons hc Eval.seqNil))
            (by simp [union_assoc])
  · intro h
    cases h with
    | seqCons ha h1 =>
      cases h1 with
      | seqCons h2 hn =>
        cases hn
        cases h2 with
        | seqCons hb h3 =>
          cases h3 with
          | seqCons hc hn2 =>
            cases hn2
            exact cast (Eval.seqCons ha (Eval.seqCons hb (Eval.seqCons hc Eval.seqNil))) (by simp)
  · intro h
    cases h with
    | seqCons ha h1 =>
      cases h1 with
      | seqCons hb h2 =>
        cases h2 with
        | seqCons hc hn =>
          cases hn
          exact cast (Eval.seqCons ha (Eval.seqCons (Eval.seqCons hb (Eval.seqCons hc Eval.seqNil)) Eval.seqNil))
            (by simp)

/-! ## `saturate` and fixpoints

From here on the step function is assumed to report `changed = false` only when it left the
database as it was (true of `step_rules` for programs without deletions: `changed` is set by
every added or rewritten row and every union). -/

def StepHonest (step : R → DB → DB × Bool) : Prop := ∀ r db, (step r db).2 = false → (step r db).1 = db

theorem canStop_not_updated {s : Sched R U} {db d : DB} {r : Rep} (h : Eval step holds s db d r) :
    r.canStop = true → r.updated = false := by
  induction h with
  | runUntil _ => intro _; rfl
  | runStep _ => cases hh : (step _ _).2 <;> simp [Rep.union, Rep.dflt, Rep.single, hh]
  | rep0 => intro _; rfl
  | repStop _ _ ih => simpa using ih
  | repCont _ hc _ _ _ => simp [Rep.union, hc]
  | satStop _ _ ih => simpa using ih
  | satCont _ _ _ ih1 ih2 =>
    intro h; simp only [Rep.union, Bool.and_eq_true] at h
    simp [Rep.union, ih1 h.1, ih2 h.2]
  | seqNil => intro _; rfl
  | seqCons _ _ ih1 ih2 =>
    intro h; simp only [Rep.union, Bool.and_eq_true] at h
    simp [Rep.union, ih1 h.1, ih2 h.2]

/-- a schedule execution that reports no update left the database unchanged -/
theorem noUpdate_id (hH : StepHonest step) {s : Sched R U} {db d : DB} {r : Rep}
    (h : Eval step holds s db d r) : r.updated = false → d = db := by
  induction h with
  | runUntil _ => intro _; rfl
  | runStep _ =>
    intro hu
    apply hH
    cases hh : (step _ _).2
    · rfl
    · simp [Rep.union, Rep.dflt, Rep.single, hh] at hu
  | rep0 => intro _; rfl
  | repStop _ _ ih => simpa using ih
  | repCont _ _ _ ih1 ih2 =>
    intro h; simp only [Rep.union, Bool.or_eq_false_iff] at h
    have a := ih1 h.1; subst a; exact ih2 h.2
  | satStop _ _ ih => simpa using ih
  | satCont _ hc _ _ _ => intro h; simp [Rep.union, hc] at h
  | seqNil => intro _; rfl
  | seqCons _ _ ih1 ih2 =>
    intro h; simp only [Rep.union, Bool.or_eq_false_iff] at h
    have a := ih1 h.1; subst a; exact ih2 h.2

/-- **`(saturate s)`**: when it terminates, the last execution of `s` changed nothing, the result
is a fixpoint of `s`, and saturating again is the identity (idempotence). -/
theorem C10_saturateFix (hH : StepHonest step) {s : Sched R U} {db d : DB} {r : Rep}
    (h : Eval step holds (.sat s) db d r) :
    ∃ r', Eval step holds s d d r' ∧ r'.updated = false ∧ Eval step holds (.sat s) d d r' := by
  generalize hs : Sched.sat s = t at h
  induction h with
  | satStop e hu _ =>
    cases hs
    have := noUpdate_id hH e hu; subst this
    exact ⟨_, e, hu, by simpa using Eval.satStop e hu⟩
  | satCont _ _ _ _ ih2 => cases hs; exact ih2 rfl
  | _ => cases hs

/-! ## `repeat a (repeat b s)` = `repeat (a*b) s` -/

/-- if `s` is idle at `db`, every `repeat k s` stays at `db` -/
theorem rep_idle {s : Sched R U} {db : DB} {r : Rep} (e : Eval step holds s db db r) (hc : r.canStop = true)
    (k : Nat) : ∃ r', Eval step holds (.rep k s) db db r' := by
  cases k with
  | zero => exact ⟨_, Eval.rep0⟩
  | succ k => exact ⟨_, Eval.repStop e hc⟩

/-- a `repeat (b+1) s` that reports can_stop ran `s` exactly once, and `s` was idle -/
theorem rep_succ_canStop_inv (hH : StepHonest step) {s : Sched R U} {b : Nat} {db d : DB} {r : Rep}
    (h : Eval step holds (.rep (b + 1) s) db d r) (hc : r.canStop = true) :
    d = db ∧ ∃ ra, Eval step holds s db db ra ∧ ra.canStop = true := by
  cases h with
  | repStop e hc1 =>
    have := noUpdate_id hH e (canStop_not_updated e hc1); subst this
    exact ⟨rfl, _, e, hc1⟩
  | repCont _ hc1 _ => simp [Rep.union, hc1] at hc

/-- splitting a repeat: `repeat (m+n) s` = `repeat m s` then `repeat n s` (as far as the database
is concerned) -/
theorem rep_split (hH : StepHonest step) {s : Sched R U} : ∀ (m n : Nat) {db d : DB} {r : Rep},
    Eval step holds (.rep (m + n) s) db d r →
      ∃ d1 r1 r2, Eval step holds (.rep m s) db d1 r1 ∧ Eval step holds (.rep n s) d1 d r2 := by
  intro m
  induction m with
  | zero => intro n db d r h; rw [Nat.zero_add] at h; exact ⟨db, _, _, Eval.rep0, h⟩
  | succ m ih =>
    intro n db d r h
    rw [Nat.succ_add] at h
    cases h with
    | repStop e hc =>
      have := noUpdate_id hH e (canStop_not_updated e hc); subst this
      obtain ⟨r', hr'⟩ := rep_idle e hc n
      exact ⟨_, _, _, Eval.repStop e hc, hr'⟩
    | repCont e hc e2 =>
      obtain ⟨d1, r1, r2, a, b⟩ := ih n e2
      exact ⟨d1, _, _, Eval.repCont e hc a, b⟩

theorem rep_join (hH : StepHonest step) {s : Sched R U} : ∀ (m n : Nat) {db d1 d : DB} {r1 r2 : Rep},
    Eval step holds (.rep m s) db d1 r1 → Eval step holds (.rep n s) d1 d r2 →
      ∃ r, Eval step holds (.rep (m + n) s) db d r := by
  intro m
  induction m with
  | zero => intro n db d1 d r1 r2 h1 h2; cases h1; rw [Nat.zero_add]; exact ⟨_, h2⟩
  | succ m ih =>
    intro n db d1 d r1 r2 h1 h2
    rw [Nat.succ_add]
    cases h1 with
    | repStop e hc =>
      have := noUpdate_id hH e (canStop_not_updated e hc); subst this
      obtain ⟨r', hr'⟩ := rep_idle e hc n
      have := (hr'.det h2).1; subst this
      exact ⟨_, Eval.repStop e hc⟩
    | repCont e hc e2 =>
      obtain ⟨r, hr⟩ := ih n e2 h2
      exact ⟨_, Eval.repCont e hc hr⟩

/-- **`repeat a (repeat b s)` and `repeat (a*b) s` produce the same database** (each terminates
iff the other does). -/
theorem C10_repeatRepeat (hH : StepHonest step) (s : Sched R U) (b : Nat) : ∀ (a : Nat) (db d : DB),
    (∃ r, Eval step holds (.rep a (.rep b s)) db d r) ↔ (∃ r, Eval step holds (.rep (a * b) s) db d r) := by
  intro a
  induction a with
  | zero =>
    intro db d
    rw [Nat.zero_mul]
    constructor
    · rintro ⟨r, h⟩; cases h; exact ⟨_, Eval.rep0⟩
    · rintro ⟨r, h⟩; cases h; exact ⟨_, Eval.rep0⟩
  | succ a ih =>
    intro db d
    have harith : (a + 1) * b = b + a * b := by rw [Nat.succ_mul, Nat.add_comm]
    rw [harith]
    constructor
    · rintro ⟨r, h⟩
      cases h with
      | repStop e hc =>
        -- the inner repeat reported can_stop: it was idle, so is everything after it
        cases b with
        | zero => cases e; simpa using ⟨_, Eval.rep0⟩
        | succ b =>
          obtain ⟨hd, ra, ea, hca⟩ := rep_succ_canStop_inv hH e hc
          subst hd
          exact rep_idle ea hca _
      | repCont e hc e2 =>
        obtain ⟨r', hr'⟩ := (ih _ _).mp ⟨_, e2⟩
        exact rep_join hH b (a * b) e hr'
    · rintro ⟨r, h⟩
      obtain ⟨d1, r1, r2, e1, e2⟩ := rep_split hH b (a * b) h
      by_cases hc : r1.canStop = true
      · -- inner repeat idle ⇒ the remaining flat repeat changed nothing either
        have hd : d = d1 := by
          cases b with
          | zero => cases e1; rw [Nat.mul_zero] at e2; cases e2; rfl
          | succ b =>
            obtain ⟨hd, ra, ea, hca⟩ := rep_succ_canStop_inv hH e1 hc
            subst hd
            obtain ⟨r', hr'⟩ := rep_idle ea hca (a * (b + 1))
            exact ((hr'.det e2).1).symm
        subst hd
        exact ⟨_, Eval.repStop e1 hc⟩
      · obtain ⟨r', hr'⟩ := (ih _ _).mpr ⟨_, e2⟩
        exact ⟨_, Eval.repCont e1 (by simpa using hc) hr'⟩

/-! ## combined rulesets -/

/-- a combined ruleset runs exactly the rules that its sub-rulesets hold WHEN IT IS RUN -/
theorem C10_combined {Rule : Type} (env : List (RS Rule)) (f i : Nat) (subs : List Nat)
    (h : env[i]? = some (.combined subs)) :
    collect env (f + 1) i = subs.flatMap (collect env f) := by
  simp [collect, h]

theorem C10_combined_plain {Rule : Type} (env : List (RS Rule)) (f i : Nat) (l : List Rule)
    (h : env[i]? = some (.rules l)) : collect env (f + 1) i = l := by
  simp [collect, h]

/-- non-vacuity: a concrete step function (a counter saturating at 3) -/
example : ∃ r, Eval (R := Unit) (U := Unit) (fun _ (n : Nat) => if n < 3 then (n + 1, true) else (n, false))
    (fun _ _ => false) (.sat (.run () none)) 0 3 r :=
  ⟨⟨true, false, 4⟩, exec_sound 20 _ 0 3 _ (by decide)⟩

end EgglogVerif.Schedule
