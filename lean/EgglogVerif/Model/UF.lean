/-
Model of `union-find/src/lib.rs` (sequential `UnionFind<Value>`).

`parents : Vec<Value>` is an `Array Nat`.  Every `&mut self` method becomes a
function returning the new array.  The loops of `find` (path halving) and
`find_naive` take a fuel argument; `cur + 1` is enough fuel under the invariant
`parents[i] ≤ i` (proved in `Lemmas/UF.lean`).
-/
namespace EgglogVerif.UF

abbrev Parents := Array Nat

/-- `parents[x]`, with ids beyond the vector treated as their own parent
(`find_naive` returns `id` for those; `reserve` materialises exactly that). -/
def par (p : Parents) (x : Nat) : Nat := p.getD x x

/-- `UnionFind::reserve`: push `i` for every `i` in `len ..= v`. -/
def reserve (p : Parents) (v : Nat) : Parents :=
  if v < p.size then p else p ++ Array.range' p.size (v + 1 - p.size)

/-- `UnionFind::reset`. -/
def reset (p : Parents) : Parents := Array.range' 0 p.size

/-- loop of `find_naive`. -/
def findNaiveLoop (p : Parents) : Nat → Nat → Nat
  | 0, cur => cur
  | fuel + 1, cur =>
    let parent := par p cur
    if cur = parent then cur else findNaiveLoop p fuel parent

/-- `UnionFind::find_naive`. -/
def findNaive (p : Parents) (id : Nat) : Nat :=
  if p.size ≤ id then id else findNaiveLoop p (id + 1) id

/-- loop of `find` (path halving):
`parent = p[cur]; if cur == parent break; grand = p[parent]; p[cur] = grand; cur = grand`. -/
def findLoop : Nat → Parents → Nat → Parents × Nat
  | 0, p, cur => (p, cur)
  | fuel + 1, p, cur =>
    let parent := par p cur
    if cur = parent then (p, cur)
    else
      let grand := par p parent
      findLoop fuel (p.setIfInBounds cur grand) grand

/-- `UnionFind::find`. -/
def find (p : Parents) (id : Nat) : Parents × Nat :=
  findLoop (id + 1) (reserve p id) id

/-- `UnionFind::union`; returns the new parents and `(parent, child)`. -/
def union (p : Parents) (a b : Nat) : Parents × (Nat × Nat) :=
  let p := reserve p a
  let p := reserve p b
  let (p, ra) := find p a
  let (p, rb) := find p b
  if ra ≠ rb then
    let parent := min ra rb
    let child := max ra rb
    (p.setIfInBounds child parent, (parent, child))
  else (p, (ra, ra))

/-- Operations of the sequential structure, as driven by the correspondence harness. -/
inductive Op where
  | union (a b : Nat)
  | find (a : Nat)
  | reserve (a : Nat)
  | reset
deriving Repr, DecidableEq

def step (p : Parents) : Op → Parents
  | .union a b => (union p a b).1
  | .find a => (find p a).1
  | .reserve a => reserve p a
  | .reset => reset p

def run (ops : List Op) (p : Parents) : Parents := ops.foldl step p

end EgglogVerif.UF
