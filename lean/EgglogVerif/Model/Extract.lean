/-
Model of the cost computation of `src/extract.rs` (`Extractor::bellman_ford`, first loop):
every non-subsumed row of an extractable constructor is a hyperedge from its child e-classes to
its e-class; the cost of an edge is `fold(head_cost, children costs)` with the saturating
`u64` addition of `TreeAdditiveCostModel`; passes over all rows are repeated until a pass
updates nothing (`ensure_fixpoint`).

Base-value children cost `1` each and container children the sum of their elements; both are
folded into the edge by the harness (`extra`), since saturating addition of naturals is
order-independent.
-/
namespace EgglogVerif.Extract

def cap : Nat := 2 ^ 64 - 1

/-- `u64::saturating_add` -/
def satAdd (a b : Nat) : Nat := min cap (a + b)

/-- `TreeAdditiveCostModel::fold` -/
def satSum (head : Nat) (cs : List Nat) : Nat := cs.foldl satAdd head

structure Edge where
  head : Nat          -- head cost plus the cost of base-value children
  children : List Nat -- child e-classes
  target : Nat
  sub : Bool          -- subsumed rows are skipped
deriving Repr, DecidableEq

abbrev Costs := Nat → Option Nat

/-- costs of all children, `none` when some child class has no cost yet -/
def lookupAll (costs : Costs) : List Nat → Option (List Nat)
  | [] => some []
  | c :: cs =>
    match costs c, lookupAll costs cs with
    | some k, some ks => some (k :: ks)
    | _, _ => none

/-- `compute_cost_hyperedge` -/
def edgeCost (costs : Costs) (e : Edge) : Option Nat :=
  (lookupAll costs e.children).map (satSum e.head)

/-- `relax_hyperedge`; returns the new costs and `updated` -/
def relax (costs : Costs) (e : Edge) : Costs × Bool :=
  if e.sub then (costs, false) else
  match edgeCost costs e with
  | none => (costs, false)
  | some k =>
    match costs e.target with
    | none => (fun c => if c = e.target then some k else costs c, true)
    | some old => if k < old then (fun c => if c = e.target then some k else costs c, true) else (costs, false)

/-- one pass of the `while !ensure_fixpoint` loop over all rows; returns `changed` -/
def pass (edges : List Edge) (costs : Costs) : Costs × Bool :=
  edges.foldl (fun (acc : Costs × Bool) e => let r := relax acc.1 e; (r.1, acc.2 || r.2)) (costs, false)

/-- the Bellman-Ford loop with fuel; the flag tells whether a fixpoint was reached -/
def bellmanFord (edges : List Edge) : Nat → Costs → Costs × Bool
  | 0, costs => (costs, false)
  | fuel + 1, costs =>
    let r := pass edges costs
    if r.2 then bellmanFord edges fuel r.1 else (r.1, true)

def noCosts : Costs := fun _ => none

end EgglogVerif.Extract
