/-
Model of the cost computation of `src/extract.rs` (`Extractor::bellman_ford`, first loop):
every non-subsumed row of an extractable constructor is a hyperedge from its child e-classes to
its e-class; the cost of an edge is `fold(head_cost, children costs)` with the saturating
`u64` addition of `TreeAdditiveCostModel`; passes over all rows are repeated until a pass
updates nothing (`ensure_fixpoint`).

Base-value children cost `1` each and container children the sum of their elements; both are
folded into the edge by the harness (`extra`), since saturating addition of naturals is
order-independent.
-/
namespace EgglogVerif.Extract

def cap : Nat := 2 ^ 64 - 1

/-- `u64::saturating_add` -/
def satAdd (a b : Nat) : Nat := min cap (a + b)

/-- `TreeAdditiveCostModel::fold` -/
def satSum (head : Nat) (cs : List Nat) : Nat := cs.foldl satAdd head

structure Edge where
  head : Nat          -- head cost plus the cost of base-value children
  children : List Nat -- child e-classes
  target : Nat
  sub : Bool          -- subsumed rows are skipped
deriving Repr, DecidableEq

abbrev Costs := Nat → Option Nat

/-- costs of all children, `none` when some child class has no cost yet -/
def lookupAll (costs : Costs) : List Nat → Option (List Nat)
  | [] => some []
  | c :: cs =>
    match costs c, lookupAll costs cs with
    | some k, some ks => some (k :: ks)
    | _, _ => none

/-- `compute_cost_hyperedge` -/
def edgeCost (costs : Costs) (e : Edge) : Option Nat :=
  (lookupAll costs e.children).map (satSum e.head)

/-- `relax_hyperedge`; returns the new costs and `updated` -/
def relax (costs : Costs) (e : Edge) : Costs × Bool :=
  if e.sub then (costs, false) else
  match edgeCost costs e with
  | none => (costs, false)
  | some k =>
    match costs e.target with
    | none => (fun c => if c = e.target then some k else costs c, true)
    | some old => if k < old then (fun c => if c = e.target then some k else costs c, true) else (costs, false)

/-- one pass of the `while !ensure_fixpoint` loop over all rows; returns `changed` -/
def pass (edges : List Edge) (costs : Costs) : Costs × Bool :=
  edges.foldl (fun (acc : Costs × Bool) e => let r := relax acc.1 e; (r.1, acc.2 || r.2)) (costs, false)

/-- the Bellman-Ford loop with fuel; the flag tells whether a fixpoint was reached -/
def bellmanFord (edges : List Edge) : Nat → Costs → Costs × Bool
  | 0, costs => (costs, false)
  | fuel + 1, costs =>
    let r := pass edges costs
    if r.2 then bellmanFord edges fuel r.1 else (r.1, true)

def noCosts : Costs := fun _ => none

end EgglogVerif.Extract

/-! ### choosing parent edges and reconstructing terms (second half of `bellman_ford`,
`reconstruct_termdag_node`) -/

namespace EgglogVerif.Extract

/-- an extracted term: the row used at the root and the terms of its child classes -/
inductive Tm where
  | node (e : Edge) (kids : List Tm)

mutual
  /-- tree cost under `TreeAdditiveCostModel` (saturating) -/
  def Tm.cost : Tm → Nat
    | .node e kids => satSum e.head (costList kids)
  def costList : List Tm → List Nat
    | [] => []
    | t :: ts => t.cost :: costList ts
end

abbrev Parent := Nat → Option Edge

def mapOpt {α β : Type} (f : α → Option β) : List α → Option (List β)
  | [] => some []
  | a :: as =>
    match f a, mapOpt f as with
    | some b, some bs => some (b :: bs)
    | _, _ => none

/-- `reconstruct_termdag_node` (the memo cache does not change the result); fuel bounds the depth -/
def reconstruct (parent : Parent) : Nat → Nat → Option Tm
  | 0, _ => none
  | fuel + 1, c =>
    match parent c with
    | none => none
    | some e => (mapOpt (reconstruct parent fuel) e.children).map (Tm.node e)

/-- `save_best_parent_edge`: the FIRST row (in scan order) of class `c` that is non-subsumed, has
the best cost and whose children all have a strictly smaller rank -/
def pickEdge (edges : List Edge) (costs : Costs) (rank : Nat → Nat) (c : Nat) : Option Edge :=
  edges.find? fun e => !e.sub && e.target == c && edgeCost costs e == costs c && (costs c).isSome &&
    e.children.all (fun ch => rank ch < rank c)

/-- the grounded-set repair: state = (parent map, grounded classes in the order they were grounded) -/
structure GState where
  parent : Parent
  grounded : List Nat

def childrenGrounded (g : List Nat) (e : Edge) : Bool := e.children.all (g.contains ·)

/-- phase 1, one sweep over the candidate classes `cands`: recorded edges whose children are grounded -/
def groundRecorded (cands : List Nat) (s : GState) : GState :=
  cands.foldl (fun s c =>
    if s.grounded.contains c then s else
    match s.parent c with
    | some e => if childrenGrounded s.grounded e then { s with grounded := s.grounded ++ [c] } else s
    | none => s) s

/-- phase 2, one sweep over all rows: give an ungrounded class any best edge with grounded children -/
def groundBest (edges : List Edge) (costs : Costs) (s : GState) : GState :=
  edges.foldl (fun s e =>
    if e.sub || s.grounded.contains e.target || (costs e.target).isNone || edgeCost costs e != costs e.target
        || !childrenGrounded s.grounded e then s
    else { parent := fun c => if c = e.target then some e else s.parent c, grounded := s.grounded ++ [e.target] }) s

/-- the repair loop: phase 1 to exhaustion, then phase 2, until neither makes progress -/
def groundLoop (edges : List Edge) (costs : Costs) (cands : List Nat) : Nat → GState → GState
  | 0, s => s
  | fuel + 1, s =>
    let s1 := groundRecorded cands s
    if s1.grounded.length ≠ s.grounded.length then groundLoop edges costs cands fuel s1
    else
      let s2 := groundBest edges costs s1
      if s2.grounded.length ≠ s1.grounded.length then groundLoop edges costs cands fuel s2 else s2

end EgglogVerif.Extract

namespace EgglogVerif.Extract

/-! ### the chronological rank (`topo_rnk`) recorded by the cost loop -/

structure RState where
  costs : Costs
  rank : Nat → Nat
  cnt : Nat

/-- `relax_hyperedge` with the rank bookkeeping: an update stamps the target with a fresh rank -/
def relaxR (s : RState) (e : Edge) : RState × Bool :=
  let r := relax s.costs e
  if r.2 then ({ costs := r.1, rank := fun c => if c = e.target then s.cnt + 1 else s.rank c, cnt := s.cnt + 1 }, true)
  else (s, false)

def passR (edges : List Edge) (s : RState) : RState × Bool :=
  edges.foldl (fun (acc : RState × Bool) e => let r := relaxR acc.1 e; (r.1, acc.2 || r.2)) (s, false)

def bellmanFordR (edges : List Edge) : Nat → RState → RState × Bool
  | 0, s => (s, false)
  | fuel + 1, s =>
    let r := passR edges s
    if r.2 then bellmanFordR edges fuel r.1 else (r.1, true)

def classesOf (edges : List Edge) : List Nat := (edges.map (·.target)).eraseDups

/-- the classes from which following the recorded edges terminates (closure of phase 1 only; the
parent map is not touched) -/
def closeRecorded (cands : List Nat) : Nat → GState → GState
  | 0, s => s
  | fuel + 1, s =>
    let s1 := groundRecorded cands s
    if s1.grounded.length ≠ s.grounded.length then closeRecorded cands fuel s1 else s1

/-- the whole of `bellman_ford`: costs, rank-guarded edges, grounded-set repair when some costed
class was left without an edge.  Returns the final parent map, the classes from which
reconstruction is guaranteed (in grounding order), the costs, and whether the repair ran. -/
def extractAll (edges : List Edge) (fuel : Nat) : GState × Costs × Bool :=
  let s := (bellmanFordR edges fuel ⟨noCosts, fun _ => 0, 0⟩).1
  let parent0 : Parent := fun c => pickEdge edges s.costs s.rank c
  let cands := classesOf edges
  let unresolved := cands.any fun c => (s.costs c).isSome && (parent0 c).isNone
  if unresolved then (groundLoop edges s.costs cands fuel ⟨parent0, []⟩, s.costs, true)
  else (closeRecorded cands fuel ⟨parent0, []⟩, s.costs, false)

end EgglogVerif.Extract
