/-
Model of the container hash-cons table of `core-relations/src/containers/mod.rs`
(`ContainerEnv`: `to_id` / `to_container`): `register_val` looks a value up and hands out a fresh
id from the counter when it is new; one `rebuild_containers` pass maps every stored value through
the current `find`, re-inserts it, and when the rewritten value is already present under another
id calls the merge function on the two ids (here: keep the smaller id, emit the union of the two,
which is what the e-graph's merge function and the harness's do) — the union only becomes visible
to `find` after the next `merge_all`, so a pass is a single sweep, not a fixpoint.

`rebuildPassId` also rewrites the entry's OWN id (`rebuilder.rebuild_val(old_val)`), as the code
does; the theorems are about `rebuildPass`, which does not, and `C14_rebuild_ids_canonical` shows
the two coincide when no stored container's id is displaced.  Ids
of containers are unioned only by the merge function, and the loser of a merge leaves the table in
the same pass, so at the start of a pass no id of a stored container is displaced; the
correspondence run checks exactly this precondition on every pass before it compares (a pass that
does not meet it is counted as skipped, never compared).
-/
namespace EgglogVerif.Intern

/-- `(id, contents)` -/
abbrev Tab := List (Nat × List Nat)

def lookupVal (t : Tab) (v : List Nat) : Option Nat := (t.find? (fun e => e.2 == v)).map (·.1)

/-- `register_val` -/
def intern (t : Tab) (next : Nat) (v : List Nat) : Tab × Nat × Nat :=
  match lookupVal t v with
  | some id => (t, next, id)
  | none => ((next, v) :: t, next + 1, next)

/-- insert a rewritten entry; on a collision the smaller id survives and the union is emitted -/
def insertMerge : Tab → Nat → List Nat → Tab × List (Nat × Nat)
  | [], id, v => ([(id, v)], [])
  | (id', v') :: t, id, v =>
    if v' = v then ((min id' id, v) :: t, if id' = id then [] else [(max id' id, min id' id)])
    else let r := insertMerge t id v; ((id', v') :: r.1, r.2)

def passStep (find : Nat → Nat) (acc : Tab × List (Nat × Nat)) (e : Nat × List Nat) : Tab × List (Nat × Nat) :=
  let r := insertMerge acc.1 e.1 (e.2.map find)
  (r.1, acc.2 ++ r.2)

/-- one `rebuild_containers` pass: the new table and the unions handed to the merge function -/
def rebuildPass (find : Nat → Nat) (t : Tab) : Tab × List (Nat × Nat) :=
  t.foldl (passStep find) ([], [])

/-- the pass as the code runs it: the entry's own id is rewritten too (`rebuild_val(old_val)`) -/
def passStepId (find : Nat → Nat) (acc : Tab × List (Nat × Nat)) (e : Nat × List Nat) : Tab × List (Nat × Nat) :=
  let r := insertMerge acc.1 (find e.1) (e.2.map find)
  (r.1, acc.2 ++ r.2)

def rebuildPassId (find : Nat → Nat) (t : Tab) : Tab × List (Nat × Nat) :=
  t.foldl (passStepId find) ([], [])

def ValuesDistinct (t : Tab) : Prop := t.Pairwise (fun a b => a.2 ≠ b.2)

end EgglogVerif.Intern
