import EgglogVerif.Model.Table
/-
Model of a cached column index (`core-relations/src/hash_index/mod.rs`, `Index::refresh` and the
reads through it) over the table model.

The real index maps a key value to the sorted ids of the rows that had that value in the indexed
column WHEN THEY WERE INDEXED, and remembers the table version `(major, minor)` it is up to date
with.  `refresh`: nothing if the version is unchanged; a full rebuild if the major generation
changed (rows may have moved); otherwise only the rows appended since (`updates_since(minor)`).
Reading through the index resolves the recorded row ids against the CURRENT table, which skips
rows that have become stale since.

Here the index content is `vals`: position `i` holds the key value recorded for row id `i`
(`none` if the row was stale when indexed); `minor = vals.length`.
-/
namespace EgglogVerif.Table

structure Index where
  col : Nat
  major : Nat
  vals : List (Option Nat)

def Index.fresh (col : Nat) : Index := ⟨col, 0, []⟩

def keyVals (col : Nat) (rows : List (Option Row)) : List (Option Nat) := rows.map (·.map (·.getD col 0))

/-- `Index::refresh` -/
def Index.refresh (ix : Index) (t : Table) : Index :=
  if ix.major = t.gen then
    -- same major generation: only the rows appended since the last refresh
    { ix with vals := ix.vals ++ keyVals ix.col (t.rows.drop ix.vals.length) }
  else
    { ix with major := t.gen, vals := keyVals ix.col t.rows }

/-- rows recorded under key value `v`, read through the current table (stale rows are skipped) -/
def zipLookup (v : Nat) : List (Option Nat) → List (Option Row) → List Row
  | [], _ => []
  | _ :: _, [] => []
  | kv :: ks, r :: rs =>
    match r with
    | some row => if kv = some v then row :: zipLookup v ks rs else zipLookup v ks rs
    | none => zipLookup v ks rs

def Index.lookup (ix : Index) (t : Table) (v : Nat) : List Row := zipLookup v ix.vals t.rows

end EgglogVerif.Table
