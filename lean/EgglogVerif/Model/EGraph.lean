import EgglogVerif.Model.UF
/-
Executable model of the e-graph engine for the monotone fragment (+ top-level subsume/delete):
union-find (union by min), one table per function with a merge behaviour, flat conjunctive
queries, flat actions, the rebuild loop ("canonicalise every row, merge the collisions, repeat
until nothing changes") and one ruleset iteration ("match every rule on the database as it
stands, apply all actions, rebuild").

Anchors: `egglog-bridge/src/lib.rs` (`run_rules_inner`, `rebuild`, `MergeFn`), `src/core.rs`
(flattening of rule bodies to atoms), `core-relations/src/table/rebuild.rs`.
Values are `Int`; a column is either an e-class id column or a base-value column.
-/
namespace EgglogVerif.EGraph

open EgglogVerif

inductive Merge where
  | unionId            -- constructors: colliding outputs are unioned
  | min | max          -- lattice functions on i64
  | unit               -- relations (output is the unit value)
  | assertEq           -- :no-merge
deriving Repr, DecidableEq

structure Decl where
  argIsId : List Bool
  outIsId : Bool
  merge : Merge
deriving Repr

structure Row where
  args : List Int
  out : Int
  sub : Bool
deriving Repr, DecidableEq

structure EG where
  parents : UF.Parents := #[]
  decls : Array Decl := #[]
  tables : Array (List Row) := #[]
  err : Bool := false        -- a `:no-merge` conflict or `panic` happened
deriving Repr

/-- representative of an id (no path compression: a pure read) -/
def EG.find (g : EG) (x : Int) : Int := Int.ofNat (UF.findNaive g.parents x.toNat)

def EG.freshId (g : EG) : EG × Int :=
  let n := g.parents.size
  ({ g with parents := UF.reserve g.parents n }, Int.ofNat n)

def EG.union (g : EG) (a b : Int) : EG :=
  { g with parents := (UF.union g.parents a.toNat b.toNat).1 }

def canonArgs (g : EG) (isId : List Bool) (args : List Int) : List Int :=
  args.mapIdx fun i v => if isId.getD i false then g.find v else v

def EG.canonRow (g : EG) (d : Decl) (r : Row) : Row :=
  { r with args := canonArgs g d.argIsId r.args, out := if d.outIsId then g.find r.out else r.out }

def EG.table (g : EG) (f : Nat) : List Row := g.tables.getD f []
def EG.decl (g : EG) (f : Nat) : Decl := g.decls.getD f ⟨[], false, .unit⟩

def lookupRow (rows : List Row) (args : List Int) : Option Row := rows.find? (·.args == args)

/-- merge of an existing row with an incoming one (same key): new output, subsumed = either,
possibly a union request and an error flag -/
def mergeRows (g : EG) (d : Decl) (cur new : Row) : EG × Row :=
  let sub := cur.sub || new.sub
  match d.merge with
  | .unionId =>
    if cur.out = new.out then (g, { cur with sub := sub })
    else
      let g' := g.union cur.out new.out
      (g', { cur with out := if cur.out ≤ new.out then cur.out else new.out, sub := sub })
  | .min => (g, { cur with out := if cur.out ≤ new.out then cur.out else new.out, sub := sub })
  | .max => (g, { cur with out := if cur.out ≤ new.out then new.out else cur.out, sub := sub })
  | .unit => (g, { cur with sub := sub })
  | .assertEq => if cur.out = new.out then (g, { cur with sub := sub }) else ({ g with err := true }, { cur with sub := sub })

/-- insert a row into a row list, merging on a key collision -/
def insertInto (g : EG) (d : Decl) (rows : List Row) (r : Row) : EG × List Row :=
  match rows with
  | [] => (g, [r])
  | x :: xs =>
    if x.args = r.args then
      let (g', m) := mergeRows g d x r
      (g', m :: xs)
    else
      let (g', xs') := insertInto g d xs r
      (g', x :: xs')

def EG.setTable (g : EG) (f : Nat) (rows : List Row) : EG :=
  { g with tables := if f < g.tables.size then g.tables.set! f rows else g.tables }

/-- `(set (f args) v)` / relation insert / staged row -/
def EG.insertRow (g : EG) (f : Nat) (r : Row) : EG :=
  let (g', rows) := insertInto g (g.decl f) (g.table f) r
  g'.setTable f rows

/-- constructor call in an action: look the key up, mint a fresh id when absent -/
def EG.lookupOrCreate (g : EG) (f : Nat) (args : List Int) : EG × Int :=
  match lookupRow (g.table f) args with
  | some r => (g, r.out)
  | none =>
    let (g', id) := g.freshId
    (g'.insertRow f ⟨args, id, false⟩, id)

/-! ### rebuild -/

/-- one pass over one table: every row canonicalised (with the union-find as it is at that moment)
and re-inserted; collisions merge (possibly unioning more ids) -/
def rebuildTable (g : EG) (f : Nat) : EG :=
  let d := g.decl f
  let (g', rows) := (g.table f).foldl
    (fun (acc : EG × List Row) r => insertInto acc.1 d acc.2 (acc.1.canonRow d r)) (g, [])
  g'.setTable f rows

def rebuildPass (g : EG) : EG := (List.range g.tables.size).foldl rebuildTable g

def EG.sameAs (a b : EG) : Bool :=
  a.tables.toList == b.tables.toList &&
    (List.range (max a.parents.size b.parents.size)).all (fun i => UF.findNaive a.parents i == UF.findNaive b.parents i)

/-- the rebuild loop; the flag reports whether a fixpoint was reached within the fuel -/
def rebuild : Nat → EG → EG × Bool
  | 0, g => (g, false)
  | fuel + 1, g =>
    let g' := rebuildPass g
    if g'.sameAs g then (g', true) else rebuild fuel g'

/-! ### queries -/

inductive Tm where
  | var (n : Nat)
  | lit (i : Int)
deriving Repr, DecidableEq

inductive PrimOp where
  | add | sub | mul | pmin | pmax      -- computations
  | lt | le | ne | eq                  -- guards
deriving Repr, DecidableEq

inductive Atom where
  | tbl (f : Nat) (args : List Tm) (out : Tm)
  | prim (op : PrimOp) (args : List Tm) (out : Tm)   -- for guards `out` is ignored
deriving Repr

abbrev Subst := List (Nat × Int)

def Subst.get (s : Subst) (n : Nat) : Option Int := (s.find? (·.1 == n)).map (·.2)

/-- unify a term with a value under a substitution -/
def unify (s : Subst) (t : Tm) (v : Int) : Option Subst :=
  match t with
  | .lit i => if i = v then some s else none
  | .var n => match s.get n with
    | some w => if w = v then some s else none
    | none => some ((n, v) :: s)

def unifyAll : Subst → List Tm → List Int → Option Subst
  | s, [], [] => some s
  | s, t :: ts, v :: vs => (unify s t v).bind fun s' => unifyAll s' ts vs
  | _, _, _ => none

def evalTm (s : Subst) : Tm → Option Int
  | .lit i => some i
  | .var n => s.get n

def primEval (op : PrimOp) (vs : List Int) : Option Int :=
  match op, vs with
  | .add, [a, b] => some (a + b)
  | .sub, [a, b] => some (a - b)
  | .mul, [a, b] => some (a * b)
  | .pmin, [a, b] => some (if a ≤ b then a else b)
  | .pmax, [a, b] => some (if a ≤ b then b else a)
  | .lt, [a, b] => if a < b then some 0 else none
  | .le, [a, b] => if a ≤ b then some 0 else none
  | .ne, [a, b] => if a ≠ b then some 0 else none
  | .eq, [a, b] => if a = b then some 0 else none
  | _, _ => none

def isGuard : PrimOp → Bool
  | .lt | .le | .ne | .eq => true
  | _ => false

/-- all extensions of `s` satisfying one atom -/
def matchAtom (g : EG) (inclSub : Bool) (s : Subst) : Atom → List Subst
  | .tbl f args out =>
    (g.table f).filterMap fun r =>
      if r.sub && !inclSub then none else (unifyAll s args r.args).bind fun s' => unify s' out r.out
  | .prim op args out =>
    match args.mapM (evalTm s) with
    | none => []
    | some vs => match primEval op vs with
      | none => []
      | some v => if isGuard op then [s] else (unify s out v).toList

/-- all substitutions satisfying a conjunctive query (atoms in the given order) -/
def matchAll (g : EG) (inclSub : Bool) (atoms : List Atom) : List Subst :=
  atoms.foldl (fun ss a => ss.flatMap fun s => matchAtom g inclSub s a) [[]]

/-! ### actions -/

inductive Action where
  | call (dst : Nat) (f : Nat) (args : List Tm)     -- constructor application, result bound to `dst`
  | prim (dst : Nat) (op : PrimOp) (args : List Tm)
  | union (a b : Tm)
  | set (f : Nat) (args : List Tm) (v : Tm)
  | subsume (f : Nat) (args : List Tm)
  | delete (f : Nat) (args : List Tm)
  | panic
deriving Repr

def runAction (acc : EG × Subst) : Action → EG × Subst
  | .call dst f args =>
    match args.mapM (evalTm acc.2) with
    | none => ({ acc.1 with err := true }, acc.2)
    | some vs => let (g', id) := acc.1.lookupOrCreate f vs; (g', (dst, id) :: acc.2)
  | .prim dst op args =>
    match args.mapM (evalTm acc.2) with
    | none => ({ acc.1 with err := true }, acc.2)
    | some vs => match primEval op vs with
      | some v => (acc.1, (dst, v) :: acc.2)
      | none => ({ acc.1 with err := true }, acc.2)
  | .union a b =>
    match evalTm acc.2 a, evalTm acc.2 b with
    | some x, some y => (acc.1.union x y, acc.2)
    | _, _ => ({ acc.1 with err := true }, acc.2)
  | .set f args v =>
    match args.mapM (evalTm acc.2), evalTm acc.2 v with
    | some vs, some x => (acc.1.insertRow f ⟨vs, x, false⟩, acc.2)
    | _, _ => ({ acc.1 with err := true }, acc.2)
  | .subsume f args =>
    match args.mapM (evalTm acc.2) with
    | none => ({ acc.1 with err := true }, acc.2)
    | some vs =>
      -- an absent row is inserted as a subsumed row (as the plain engine does)
      match lookupRow (acc.1.table f) vs with
      | some r => (acc.1.insertRow f { r with sub := true }, acc.2)
      | none => let (g', id) := acc.1.lookupOrCreate f vs
                (g'.insertRow f ⟨vs, id, true⟩, acc.2)
  | .delete f args =>
    match args.mapM (evalTm acc.2) with
    | none => ({ acc.1 with err := true }, acc.2)
    | some vs => (acc.1.setTable f ((acc.1.table f).filter (·.args != vs)), acc.2)
  | .panic => ({ acc.1 with err := true }, acc.2)

/-- an action that fails — `panic`, a primitive that returns nothing, an unbound variable — halts
the remaining actions of THIS match (`call_external_func` returning `None` stops the rule instance);
the other matches of the iteration still run -/
def halts (acc : EG × Subst) : Action → Bool
  | .panic => true
  | .prim _ op args =>
    match args.mapM (evalTm acc.2) with
    | none => true
    | some vs => (primEval op vs).isNone
  | .call _ _ args => (args.mapM (evalTm acc.2)).isNone
  | .union a b => (evalTm acc.2 a).isNone || (evalTm acc.2 b).isNone
  | .set _ args v => (args.mapM (evalTm acc.2)).isNone || (evalTm acc.2 v).isNone
  | .subsume _ args => (args.mapM (evalTm acc.2)).isNone
  | .delete _ args => (args.mapM (evalTm acc.2)).isNone

def runActionsFrom : EG × Subst → List Action → EG
  | acc, [] => acc.1
  | acc, a :: rest => if halts acc a then (runAction acc a).1 else runActionsFrom (runAction acc a) rest

def runActions (g : EG) (s : Subst) (as : List Action) : EG := runActionsFrom (g, s) as

structure Rule where
  body : List Atom
  head : List Action
deriving Repr

/-- one iteration of a ruleset: all rules are matched against the database as it stands at the
start, then every action runs, then the database is rebuilt -/
def stepRules (fuel : Nat) (g : EG) (rules : List Rule) : EG × Bool :=
  let work := rules.flatMap fun r => (matchAll g false r.body).map fun s => (s, r.head)
  let g' := work.foldl (fun g (sh : Subst × List Action) => runActions g sh.1 sh.2) g
  let (g'', _) := rebuild fuel g'
  (g'', !(g''.sameAs g))

/-- a top-level action: run, then rebuild -/
def topAction (fuel : Nat) (g : EG) (as : List Action) : EG := (rebuild fuel (runActions g [] as)).1

/-- `(check facts)` sees subsumed rows -/
def check (g : EG) (atoms : List Atom) : Bool := !(matchAll g true atoms).isEmpty

end EgglogVerif.EGraph
