/-
Model of `EGraph::run_schedule` / `run_rules` (`src/lib.rs:991-1071`) and of `RunReport::union`
(`egglog-reports/src/lib.rs`).  Parametric in the single-iteration step of a ruleset
(`step r db = (db', changed)`, i.e. `step_rules` + `IterationReport::changed`) and in the
`:unt` test (`check_facts`).

`(run R n)` is parsed as `Repeat(n, Run R)`; `(seq s1 .. sk)` is `seqCons s1 (.. (seqCons sk seqNil))`.
-/
namespace EgglogVerif.Schedule

/-- the part of `RunReport` that drives control flow, plus the iteration count -/
structure Rep where
  updated : Bool
  canStop : Bool
  iters : Nat
deriving DecidableEq, Repr

/-- `RunReport::default()` -/
def Rep.dflt : Rep := ⟨false, true, 0⟩

/-- `RunReport::union` -/
def Rep.union (a b : Rep) : Rep := ⟨a.updated || b.updated, a.canStop && b.canStop, a.iters + b.iters⟩

/-- `RunReport::singleton` -/
def Rep.single (changed : Bool) : Rep := ⟨changed, !changed, 1⟩

inductive Sched (R U : Type) where
  | run (r : R) (unt : Option U)
  | rep (n : Nat) (s : Sched R U)
  | sat (s : Sched R U)
  | seqNil
  | seqCons (s : Sched R U) (rest : Sched R U)

variable {R U DB : Type}

/-- executable semantics; every recursive call costs one unit of fuel, `none` = out of fuel -/
def exec (step : R → DB → DB × Bool) (holds : U → DB → Bool) :
    Nat → Sched R U → DB → Option (DB × Rep)
  | 0, _, _ => none
  | _ + 1, .run r unt, db =>
    match unt with
    | some u => if holds u db then some (db, Rep.dflt) else
        let (db', ch) := step r db; some (db', Rep.dflt.union (Rep.single ch))
    | none => let (db', ch) := step r db; some (db', Rep.dflt.union (Rep.single ch))
  | f + 1, .rep n s, db =>
    match n with
    | 0 => some (db, Rep.dflt)
    | n + 1 =>
      match exec step holds f s db with
      | none => none
      | some (db1, r1) =>
        if r1.canStop then some (db1, Rep.dflt.union r1)
        else match exec step holds f (.rep n s) db1 with
          | none => none
          | some (db2, r2) => some (db2, r1.union r2)
  | f + 1, .sat s, db =>
    match exec step holds f s db with
    | none => none
    | some (db1, r1) =>
      if !r1.updated then some (db1, Rep.dflt.union r1)
      else match exec step holds f (.sat s) db1 with
        | none => none
        | some (db2, r2) => some (db2, r1.union r2)
  | _ + 1, .seqNil, db => some (db, Rep.dflt)
  | f + 1, .seqCons s rest, db =>
    match exec step holds f s db with
    | none => none
    | some (db1, r1) =>
      match exec step holds f rest db1 with
      | none => none
      | some (db2, r2) => some (db2, r1.union r2)

/-- big-step semantics as a relation (a diverging `saturate` has no derivation) -/
inductive Eval (step : R → DB → DB × Bool) (holds : U → DB → Bool) :
    Sched R U → DB → DB → Rep → Prop
  | runUntil {r u db} : holds u db = true → Eval step holds (.run r (some u)) db db Rep.dflt
  | runStep {r u db} : (∀ x, u = some x → holds x db = false) →
      Eval step holds (.run r u) db (step r db).1 (Rep.dflt.union (Rep.single (step r db).2))
  | rep0 {s db} : Eval step holds (.rep 0 s) db db Rep.dflt
  | repStop {n s db db1 r1} : Eval step holds s db db1 r1 → r1.canStop = true →
      Eval step holds (.rep (n + 1) s) db db1 (Rep.dflt.union r1)
  | repCont {n s db db1 r1 db2 r2} : Eval step holds s db db1 r1 → r1.canStop = false →
      Eval step holds (.rep n s) db1 db2 r2 → Eval step holds (.rep (n + 1) s) db db2 (r1.union r2)
  | satStop {s db db1 r1} : Eval step holds s db db1 r1 → r1.updated = false →
      Eval step holds (.sat s) db db1 (Rep.dflt.union r1)
  | satCont {s db db1 r1 db2 r2} : Eval step holds s db db1 r1 → r1.updated = true →
      Eval step holds (.sat s) db1 db2 r2 → Eval step holds (.sat s) db db2 (r1.union r2)
  | seqNil {db} : Eval step holds .seqNil db db Rep.dflt
  | seqCons {s rest db db1 r1 db2 r2} : Eval step holds s db db1 r1 →
      Eval step holds rest db1 db2 r2 → Eval step holds (.seqCons s rest) db db2 (r1.union r2)

/-! ### rulesets: plain or combined, resolved when run (`collect_rule_ids`) -/

inductive RS (Rule : Type) where
  | rules (l : List Rule)
  | combined (subs : List Nat)

/-- rules run by one iteration of ruleset `i` (fuel bounds the nesting of combined rulesets) -/
def collect {Rule : Type} (env : List (RS Rule)) : Nat → Nat → List Rule
  | 0, _ => []
  | f + 1, i =>
    match env[i]? with
    | none => []
    | some (.rules l) => l
    | some (.combined subs) => subs.flatMap (collect env f)

end EgglogVerif.Schedule
