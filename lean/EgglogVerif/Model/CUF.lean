import EgglogVerif.Lemmas.UF
/-
Model of `union-find/src/concurrent/uf.rs` (`ConcurrentUnionFind`): `find_impl` (splitting with
CAS), `merge` (union by min with a CAS on the larger root, retried on failure) and `same_set`
(re-validation of the left root) as INTERLEAVED runs over a shared forest.

The shared state is the parent function `f : Nat → Nat` (ids beyond the buffer are their own
parent; `with_access` / resizing is abstracted).  Every atomic access of the operation (a `load`
or a `cas`) is separated from the next one by an arbitrary number of steps of other threads:
`EnvS`.  What any thread may do in one atomic step is `Env`:
  * `compress c g` — redirect `c` to a smaller node `g` of the same class (a successful splitting
    CAS of `find_impl`);
  * `link c q`     — redirect a ROOT `c` to a smaller node `q` (the successful CAS of `merge`).
The theorems (Props/C17c.lean) show that the operation's own steps are such steps (guarantee) and
that, relying on nothing but `EnvS` in between, each operation's result is correct at an instant
between its call and its return (linearizability, rely–guarantee style, any number of threads).
-/
namespace EgglogVerif.UF

/-- one atomic step of some thread on the shared forest -/
inductive Env (f f' : Nat → Nat) : Prop
  | compress (c g : Nat) (hg : g < c) (hs : root f g = root f c) (e : f' = upd f c g)
  | link (c q : Nat) (hc : f c = c) (hq : q < c) (e : f' = upd f c q)

/-- any number of steps of any threads -/
inductive EnvS : (Nat → Nat) → (Nat → Nat) → Prop
  | refl (f) : EnvS f f
  | tail {f g h} : EnvS f g → Env g h → EnvS f h

/-- `AtomicInt::cas(old, new)` on cell `c` -/
def cas (f : Nat → Nat) (c old new : Nat) : (Nat → Nat) × Bool :=
  if f c = old then (upd f c new, true) else (f, false)

/-- `find_impl(cur)`: `next = load(cur)` in state `f1`, `grand = load(next)` in state `f2`;
if `next == grand` return `next`; else `cas(cur, next, grand)` in state `f3` and continue from
`next`.  The final state of a run is the state of its last load. -/
inductive FindRun : (Nat → Nat) → Nat → (Nat → Nat) → Nat → Prop
  | done {f f1 f2 : Nat → Nat} {cur : Nat} : EnvS f f1 → EnvS f1 f2 → f2 (f1 cur) = f1 cur →
      FindRun f cur f2 (f1 cur)
  | iter {f f1 f2 f3 f' : Nat → Nat} {cur res : Nat} : EnvS f f1 → EnvS f1 f2 → f2 (f1 cur) ≠ f1 cur →
      EnvS f2 f3 → FindRun (cas f3 cur (f1 cur) (f2 (f1 cur))).1 (f1 cur) f' res →
      FindRun f cur f' res

/-- `merge(l, r)`: find both; equal → return `(l', l')`; else CAS the larger root to the smaller,
return `(parent, child)` on success, start over from `(l', r')` on failure. -/
inductive MergeRun : Nat → Nat → (Nat → Nat) → (Nat → Nat) → Nat × Nat → Prop
  | same {l r : Nat} {f fa fb : Nat → Nat} {l' r' : Nat} : FindRun f l fa l' → FindRun fa r fb r' → l' = r' →
      MergeRun l r f fb (l', l')
  | linked {l r : Nat} {f fa fb fc : Nat → Nat} {l' r' : Nat} : FindRun f l fa l' → FindRun fa r fb r' → l' ≠ r' →
      EnvS fb fc → fc (max l' r') = max l' r' →
      MergeRun l r f (upd fc (max l' r') (min l' r')) (min l' r', max l' r')
  | retry {l r : Nat} {f fa fb fc f' : Nat → Nat} {l' r' : Nat} {res : Nat × Nat} : FindRun f l fa l' →
      FindRun fa r fb r' → l' ≠ r' → EnvS fb fc → fc (max l' r') ≠ max l' r' →
      MergeRun l' r' fc f' res → MergeRun l r f f' res

/-- `same_set(l, r)`: find both; equal → `true`; else `next = load(l')`: if `l'` is still a root
return `false`, otherwise start over from `(l', r')`. -/
inductive SameRun : Nat → Nat → (Nat → Nat) → (Nat → Nat) → Bool → Prop
  | yes {l r : Nat} {f fa fb : Nat → Nat} {l' r' : Nat} : FindRun f l fa l' → FindRun fa r fb r' → l' = r' →
      SameRun l r f fb true
  | no {l r : Nat} {f fa fb fc : Nat → Nat} {l' r' : Nat} : FindRun f l fa l' → FindRun fa r fb r' → l' ≠ r' →
      EnvS fb fc → fc l' = l' → SameRun l r f fc false
  | retry {l r : Nat} {f fa fb fc f' : Nat → Nat} {l' r' : Nat} {b : Bool} : FindRun f l fa l' →
      FindRun fa r fb r' → l' ≠ r' → EnvS fb fc → fc l' ≠ l' → SameRun l' r' fc f' b → SameRun l r f f' b

/-! ### executable interference-free instance (what a single thread does; driven by the harness
against the real `ConcurrentUnionFind` used from one thread) -/

def cFindLoop : Nat → Parents → Nat → Parents × Nat
  | 0, p, cur => (p, cur)
  | fuel + 1, p, cur =>
    let next := par p cur
    let grand := par p next
    if next = grand then (p, next)
    else cFindLoop fuel (if par p cur = next then p.setIfInBounds cur grand else p) next

def cFind (p : Parents) (x : Nat) : Parents × Nat := cFindLoop (x + 1) (reserve p x) x

def cMerge (p : Parents) (l r : Nat) : Parents × (Nat × Nat) :=
  let p := reserve (reserve p l) r
  let (p, l') := cFind p l
  let (p, r') := cFind p r
  if l' ≠ r' then
    -- without interference the CAS always succeeds: `max l' r'` is a root
    ((p.setIfInBounds (max l' r') (min l' r')), (min l' r', max l' r'))
  else (p, (l', l'))

def cSameSet (p : Parents) (l r : Nat) : Parents × Bool :=
  let p := reserve (reserve p l) r
  let (p, l') := cFind p l
  let (p, r') := cFind p r
  (p, l' == r')

end EgglogVerif.UF
