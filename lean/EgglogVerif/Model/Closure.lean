/-
Model of `ContainerValues::expand_dirty_id_closure` (core-relations/src/containers/mod.rs): after a
container rebuild, the set of "dirty" container ids (changed in place, id kept) is closed upwards
under "is contained in": `parents v` are the ids of the containers that directly contain the
value `v` (`extend_containers_containing`, read from the content index).  A worklist loop: the
frontier starts as the dirty set; each round collects the parents of the frontier, keeps those not
seen before as the next frontier, and stops when the frontier is empty.
-/
namespace EgglogVerif.Closure

/-- `seen.insert(value)` over the round's candidates: new ones go to the next frontier -/
def addNew (fs : List Nat × List Nat) (v : Nat) : List Nat × List Nat :=
  if v ∈ fs.2 then fs else (fs.1 ++ [v], fs.2 ++ [v])

/-- one round of the loop: (next frontier, seen) -/
def roundStep (parents : Nat → List Nat) (frontier seen : List Nat) : List Nat × List Nat :=
  (frontier.flatMap parents).foldl addNew ([], seen)

/-- the loop, with fuel; `none` = fuel exhausted before the frontier emptied -/
def loop (parents : Nat → List Nat) : Nat → List Nat → List Nat → Option (List Nat)
  | 0, frontier, seen => if frontier.isEmpty then some seen else none
  | fuel + 1, frontier, seen =>
    if frontier.isEmpty then some seen
    else loop parents fuel (roundStep parents frontier seen).1 (roundStep parents frontier seen).2

def closure (parents : Nat → List Nat) (fuel : Nat) (dirty : List Nat) : Option (List Nat) :=
  loop parents fuel dirty dirty

end EgglogVerif.Closure
