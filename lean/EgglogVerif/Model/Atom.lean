/-
Model of the atom classifier of the s-expression reader (`src/ast/parse.rs`, `fn sexp`, case
`Token::Other`): a token that is neither a parenthesis nor a string literal is, in this order,
`true`/`false`, an `i64` (Rust `str::parse::<i64>`: optional `+`/`-`, one or more ASCII digits, in
range), the float spellings `NaN`, `inf`, `-inf`, a FINITE `f64` (Rust `str::parse::<f64>`:
optional sign, then `inf`/`infinity`/`nan` in any case — not finite, so such a token is a symbol —
or digits with an optional fraction and exponent), and otherwise a symbol.  Whether a numeric
spelling overflows to infinity is floating-point arithmetic and is not modelled: class `num`.
-/
namespace EgglogVerif.Atom

inductive Cls where
  | bool (b : Bool)
  | int (i : Int)
  | nan | inf | ninf
  | num            -- numeric float syntax (a finite f64, or a symbol if it overflows)
  | atom
deriving DecidableEq, Repr

def allDigits (cs : List Char) : Bool := !cs.isEmpty && cs.all Char.isDigit

def digitsVal (cs : List Char) : Nat := Nat.ofDigitChars 10 cs 0

/-- Rust `i64::from_str` -/
def parseI64 (cs : List Char) : Option Int :=
  match cs with
  | '-' :: ds => if allDigits ds && digitsVal ds ≤ 2 ^ 63 then some (-(digitsVal ds : Int)) else none
  | '+' :: ds => if allDigits ds && digitsVal ds < 2 ^ 63 then some (digitsVal ds : Int) else none
  | ds => if allDigits ds && digitsVal ds < 2 ^ 63 then some (digitsVal ds : Int) else none

def stripSign : List Char → List Char
  | '-' :: r => r
  | '+' :: r => r
  | r => r

def lower (cs : List Char) : List Char := cs.map Char.toLower

/-- `inf`, `infinity`, `nan` in any case, after an optional sign: `f64::from_str` accepts them, none is finite -/
def wordSyntax (cs : List Char) : Bool :=
  let b := lower (stripSign cs)
  b == "inf".toList || b == "infinity".toList || b == "nan".toList

/-- the exponent part: empty, or `e`/`E`, optional sign, one or more digits -/
def expOk : List Char → Bool
  | [] => true
  | e :: r => (e == 'e' || e == 'E') && allDigits (stripSign r)

/-- digits [. digits] [exp] with at least one digit in the mantissa -/
def numberSyntax (cs : List Char) : Bool :=
  let ip := cs.takeWhile Char.isDigit
  let r1 := cs.dropWhile Char.isDigit
  match r1 with
  | '.' :: r =>
    let fp := r.takeWhile Char.isDigit
    (!ip.isEmpty || !fp.isEmpty) && expOk (r.dropWhile Char.isDigit)
  | _ => !ip.isEmpty && expOk r1

def classify (cs : List Char) : Cls :=
  if cs = "true".toList then .bool true
  else if cs = "false".toList then .bool false
  else match parseI64 cs with
    | some i => .int i
    | none =>
      if cs = "NaN".toList then .nan
      else if cs = "inf".toList then .inf
      else if cs = "-inf".toList then .ninf
      else if wordSyntax cs then .atom
      else if numberSyntax (stripSign cs) then .num
      else .atom

/-- Rust's `Display` for `i64` -/
def printInt (i : Int) : List Char :=
  if i < 0 then '-' :: Nat.toDigits 10 (-i).toNat else Nat.toDigits 10 i.toNat

end EgglogVerif.Atom
