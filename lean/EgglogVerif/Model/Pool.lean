/-
Models of the shared-memory helpers of the `concurrency` crate, as transition systems whose
events are the atomic steps of the code (sequentially consistent atomics assumed):

* `Scope` completion counting of `threadpool/mod.rs` (`AtomicCounts`: `expect_one`,
  `complete_one`, `complete_root_and_wait`, the bounded(1) `done` channel);
* the token protocol of `ReadOptimizedLock` (`lib.rs`: `read`, `lock`, `Drop for MutexWriter`);
* range reservation of `ParallelVecWriter` / `ConcurrentVec` (`fetch_add` on the head).
-/
namespace EgglogVerif.Pool

/-! ### thread-pool scope -/

structure Scope where
  expected : Nat      -- high half of `AtomicCounts` (starts at 1: the root callback)
  completed : Nat     -- low half
  queued : Nat        -- jobs in the channel
  running : Nat       -- jobs being executed by some worker (or by a helping waiter)
  rootActive : Bool   -- the root closure `f(&scope)` has not finished yet
  done : Nat          -- messages sent on the `done` channel
  spawned : Nat       -- ghost: total spawns
  finished : Nat      -- ghost: total finished jobs
  panicked : Bool     -- `ScopeState::panic` holds a payload
deriving Repr, DecidableEq

def Scope.init : Scope := ⟨1, 0, 0, 0, true, 0, 0, 0, false⟩

inductive Ev where
  | spawn          -- `Scope::spawn` called by the root closure or by a running job
  | start          -- a worker (or a helping waiter) pops a job
  | finish (panic : Bool)  -- the job wrapper: record panic, `complete_one`
  | completeRoot (panic : Bool)  -- root closure returned (or unwound): `complete_root_and_wait`
deriving Repr, DecidableEq

/-- `complete_one`: `completed += 1`, signal `done` when it reaches `expected` -/
def completeOne (s : Scope) : Scope :=
  let c := s.completed + 1
  { s with completed := c, done := if c = s.expected then s.done + 1 else s.done }

def Scope.step (s : Scope) : Ev → Option Scope
  | .spawn => if s.rootActive || decide (0 < s.running) then
      some { s with expected := s.expected + 1, queued := s.queued + 1, spawned := s.spawned + 1 } else none
  | .start => if 0 < s.queued then some { s with queued := s.queued - 1, running := s.running + 1 } else none
  | .finish p => if 0 < s.running then
      some (completeOne { s with running := s.running - 1, finished := s.finished + 1, panicked := s.panicked || p })
    else none
  | .completeRoot p => if s.rootActive then some (completeOne { s with rootActive := false, panicked := s.panicked || p }) else none

def Scope.run : List Ev → Scope → Option Scope
  | [], s => some s
  | e :: es, s => match s.step e with
    | none => none
    | some s' => Scope.run es s'

/-- `ThreadPool::scope` may return once the `done` message has been sent -/
def Scope.mayReturn (s : Scope) : Bool := decide (0 < s.done)

/-! ### ReadOptimizedLock token protocol -/

inductive Token where
  | readOk (gen : Nat)
  | writeOngoing
deriving Repr, DecidableEq

structure Lock where
  token : Token
  nextGen : Nat
  guards : List Nat          -- generations of the read guards currently alive
  waitingFor : Option Nat    -- a writer swapped its token in and waits for the readers of this generation
  writing : Bool             -- a writer is inside its critical section
deriving Repr, DecidableEq

def Lock.init : Lock := ⟨.readOk 0, 1, [], none, false⟩

inductive LEv where
  | readAcquire            -- `token.load()` observed ReadOk: a guard on that token now exists
  | readRelease (g : Nat)  -- a `MutexReader` is dropped
  | writeCas               -- `compare_and_swap(ReadOk g → WriteOngoing)` succeeded
  | writeEnter             -- `readers_done.wait()` returned: every guard of the swapped-out token is gone
  | writeRelease           -- `Drop for MutexWriter`: fresh ReadOk token stored
deriving Repr, DecidableEq

def Lock.step (l : Lock) : LEv → Option Lock
  | .readAcquire => match l.token with
    | .readOk g => some { l with guards := g :: l.guards }
    | .writeOngoing => none          -- blocked on the writer's notification
  | .readRelease g => if g ∈ l.guards then some { l with guards := l.guards.erase g } else none
  | .writeCas => match l.token with
    | .readOk g => some { l with token := .writeOngoing, waitingFor := some g }
    | .writeOngoing => none
  | .writeEnter => match l.waitingFor with
    | some g => if g ∈ l.guards then none else some { l with waitingFor := none, writing := true }
    | none => none
  | .writeRelease => if l.writing then
      some { l with token := .readOk l.nextGen, nextGen := l.nextGen + 1, writing := false } else none

def Lock.run : List LEv → Lock → Option Lock
  | [], l => some l
  | e :: es, l => match l.step e with
    | none => none
    | some l' => Lock.run es l'

/-! ### range reservation (`ParallelVecWriter::reserve` / `ConcurrentVec::push`) -/

/-- `fetch_add(len)` on the head: returns the start of the reserved range -/
def reserve (head : Nat) (len : Nat) : Nat × Nat := (head, head + len)

/-- all ranges handed out by a sequence of reservations, with the final head -/
def reserveAll : List Nat → Nat → List (Nat × Nat) × Nat
  | [], head => ([], head)
  | len :: rest, head =>
    let r := reserveAll rest (head + len)
    ((head, len) :: r.1, r.2)

end EgglogVerif.Pool
