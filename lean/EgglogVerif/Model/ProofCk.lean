/-
Model of the equational layer of the proof checker (`src/proofs/proof_checker.rs`,
`proof_format.rs`): terms live in a hash-consed DAG (`TermDag`: equal terms have equal ids), a
proof is a DAG of steps, each claiming a proposition `lhs = rhs`:
* `leaf`  — MergeFn (and Rule steps of rules outside the modelled fragment: primitives,
            container side conditions): justified by the PROGRAM (checked by the in-tree checker;
            here they are the hypotheses of the derivation);
* `fiat`  — `Justification::Fiat`: `t = t` for a literal, or one of the propositions of the
            program's top-level actions (`ProofCheckContext::new`: `process_actions` over
            `gather_global_actions`, which also yields the bindings of the global `let`s);
* `rule r prems σ` — `Justification::Rule`: rule number `r` of the checking program, one premise
            proof per body fact, a substitution; `check_proof_with_context` looks the rule up, compares
            the premise COUNT, matches every body fact (instantiated by σ) against the proposition of
            its premise proof (`check_fact_matches_proposition`) and requires the claimed proposition
            among the propositions of the instantiated head (`check_rule_produces_equality` /
            `process_actions`: both directions of every `union`, and `t = t` for every subterm of
            every evaluated head expression);
* `sym p`, `trans p q`, `congr p i q` — the axioms egglog assumes.
Steps are listed in dependency order (a step may only use earlier steps).
-/
namespace EgglogVerif.ProofCk

structure Term where
  head : Nat
  kids : List Nat
deriving DecidableEq, Repr

/-- rule-side expressions: variables and constructor / function-row applications (literals are
0-ary heads) -/
inductive Pat where
  | var (v : Nat)
  | app (h : Nat) (kids : List Pat)
deriving Repr

/-- a body fact in proof normal form.  `(= e1 e2)`: both sides are compared; a function fact
`(= (f args) v)` is the row term `f(args, v)` on both sides; a plain fact `e` only fixes the
right-hand side of its premise (`anyLhs`). -/
structure RFact where
  anyLhs : Bool
  lhs : Pat
  rhs : Pat
deriving Repr

inductive Act where
  | union (a b : Pat)
  | expr (e : Pat)          -- `(e)`, and `(set (f args) v)` as the row term `f(args, v)`
  | letv (v : Nat) (e : Pat)
deriving Repr

structure Rule where
  body : List RFact
  head : List Act
deriving Repr

/-- the checking program: its rules, its top-level actions, and which term heads are literals -/
structure Prog where
  rules : List Rule
  globals : List Act
  lits : List Nat
deriving Repr

inductive Just where
  | leaf
  | fiat
  | rule (r : Nat) (prems : List Nat) (σ : List (Nat × Nat))
  | sym (p : Nat)
  | trans (p q : Nat)
  | congr (p : Nat) (i : Nat) (q : Nat)
deriving DecidableEq, Repr

structure Step where
  just : Just
  lhs : Nat
  rhs : Nat
deriving DecidableEq, Repr

/-- replace the `i`-th child -/
def setKid (kids : List Nat) (i : Nat) (c : Nat) : List Nat := kids.set i c

/-- position of a term in the hash-consed table (`TermDag::app` of an existing term) -/
def findIn : List Term → Term → Nat → Option Nat
  | [], _, _ => none
  | x :: xs, t, n => if x = t then some n else findIn xs t (n + 1)

def findTerm (terms : Array Term) (t : Term) : Option Nat := findIn terms.toList t 0

mutual
/-- `eval_expr_with_subst`: the id of the instance of a rule-side expression -/
def instId (terms : Array Term) (σ : List (Nat × Nat)) : Pat → Option Nat
  | .var v => σ.lookup v
  | .app h kids =>
    match instIds terms σ kids with
    | some ks => findTerm terms ⟨h, ks⟩
    | none => none
def instIds (terms : Array Term) (σ : List (Nat × Nat)) : List Pat → Option (List Nat)
  | [] => some []
  | p :: ps =>
    match instId terms σ p, instIds terms σ ps with
    | some x, some xs => some (x :: xs)
    | _, _ => none
end

/-- `b` is a subterm of `a` (fuel = size of the table bounds the depth of the DAG) -/
def reach (terms : Array Term) : Nat → Nat → Nat → Bool
  | 0, a, b => a == b
  | fuel + 1, a, b => a == b ||
    match terms[a]? with
    | some t => t.kids.any (fun k => reach terms fuel k b)
    | none => false

/-- what `process_actions` learns from an action list -/
structure ActOut where
  σ : List (Nat × Nat)          -- the bindings after the `let`s
  eqs : List (Nat × Nat)        -- both directions of every union
  roots : List Nat              -- every evaluated expression (`t = t` for each of its subterms)
deriving Repr

/-- `process_actions`, one pass, `let`s extend the bindings of the later actions.  An expression
whose instance cannot be formed contributes nothing (the checker fails there; see DESIGN). -/
def runActs (terms : Array Term) : List (Nat × Nat) → List Act → ActOut
  | σ, [] => ⟨σ, [], []⟩
  | σ, .union a b :: r =>
    let out := runActs terms σ r
    match instId terms σ a, instId terms σ b with
    | some x, some y => { out with eqs := (x, y) :: (y, x) :: out.eqs, roots := x :: y :: out.roots }
    | _, _ => out
  | σ, .expr e :: r =>
    let out := runActs terms σ r
    match instId terms σ e with
    | some x => { out with roots := x :: out.roots }
    | none => out
  | σ, .letv v e :: r =>
    match instId terms σ e with
    | some x =>
      let out := runActs terms ((v, x) :: σ) r
      { out with roots := x :: out.roots }
    | none => runActs terms σ r

/-- `check_fact_matches_proposition` against the proposition of premise step `p` -/
def factOk (terms : Array Term) (σ : List (Nat × Nat)) (prev : List Step) (f : RFact) (p : Nat) : Bool :=
  match prev[p]? with
  | some sp => (f.anyLhs || instId terms σ f.lhs == some sp.lhs) && instId terms σ f.rhs == some sp.rhs
  | none => false

/-- one premise per body fact, in order; a count mismatch is rejected -/
def factsOk (terms : Array Term) (σ : List (Nat × Nat)) (prev : List Step) : List RFact → List Nat → Bool
  | [], [] => true
  | f :: fs, p :: ps => factOk terms σ prev f p && factsOk terms σ prev fs ps
  | _, _ => false

/-- `check_rule_produces_equality` / `in_globals`: the claim is among the propositions -/
def propsOk (terms : Array Term) (out : ActOut) (l r : Nat) : Bool :=
  out.eqs.contains (l, r) || (l == r && out.roots.any (fun x => reach terms terms.size x l))

/-- the bindings of the program's global `let`s -/
def globalσ (prog : Prog) (terms : Array Term) : List (Nat × Nat) := (runActs terms [] prog.globals).σ

def isLit (prog : Prog) (terms : Array Term) (a : Nat) : Bool :=
  match terms[a]? with
  | some t => prog.lits.contains t.head
  | none => false

/-- is step `s` (at position `n`, using only steps `< n`) correctly derived? -/
def stepOk (prog : Prog) (terms : Array Term) (prev : List Step) (s : Step) : Bool :=
  match s.just with
  | .leaf => true
  | .fiat => (s.lhs == s.rhs && isLit prog terms s.lhs) || propsOk terms (runActs terms [] prog.globals) s.lhs s.rhs
  | .rule r prems σ =>
    match prog.rules[r]? with
    | some rl =>
      -- `working_subst`: the global bindings, overridden by the step's substitution
      let σf := σ ++ globalσ prog terms
      factsOk terms σf prev rl.body prems && propsOk terms (runActs terms σf rl.head) s.lhs s.rhs
    | none => false
  | .sym p =>
    match prev[p]? with
    | some sp => s.lhs == sp.rhs && s.rhs == sp.lhs
    | none => false
  | .trans p q =>
    match prev[p]?, prev[q]? with
    | some sp, some sq => sp.rhs == sq.lhs && s.lhs == sp.lhs && s.rhs == sq.rhs
    | _, _ => false
  | .congr p i q =>
    match prev[p]?, prev[q]? with
    | some sp, some sq =>
      match terms[sp.rhs]?, terms[s.rhs]? with
      | some t, some t' =>
        s.lhs == sp.lhs && t.head == t'.head && i < t.kids.length &&
          t.kids[i]? == some sq.lhs && t'.kids == setKid t.kids i sq.rhs
      | _, _ => false
    | _, _ => false

/-- check a whole proof, steps in dependency order -/
def checkFrom (prog : Prog) (terms : Array Term) : List Step → List Step → Bool
  | _, [] => true
  | prev, s :: rest => stepOk prog terms prev s && checkFrom prog terms (prev ++ [s]) rest

def checkProof (prog : Prog) (terms : Array Term) (steps : List Step) : Bool :=
  checkFrom prog terms [] steps

end EgglogVerif.ProofCk
