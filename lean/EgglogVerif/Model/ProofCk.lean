/-
Model of the equational layer of the proof checker (`src/proofs/proof_checker.rs`,
`proof_format.rs`): terms live in a hash-consed DAG (`TermDag`: equal terms have equal ids), a
proof is a DAG of steps, each claiming a proposition `lhs = rhs`:
* `leaf`  — Fiat / MergeFn (and Rule steps of rules outside the modelled fragment: primitives,
            globals, container side conditions): justified by the PROGRAM (checked by the in-tree
            checker; here they are the hypotheses of the derivation);
* `rule r prems σ` — `Justification::Rule`: rule number `r` of the checking program, one premise
            proof per body fact, a substitution; `check_proof_with_context` looks the rule up, compares
            the premise COUNT, matches every body fact (instantiated by σ) against the proposition of
            its premise proof (`check_fact_matches_proposition`) and requires the claimed proposition
            among the propositions of the instantiated head (`check_rule_produces_equality` /
            `process_actions`: both directions of every `union`, and `t = t` for every subterm of
            every evaluated head expression);
* `sym p`, `trans p q`, `congr p i q` — the axioms egglog assumes.
Steps are listed in dependency order (a step may only use earlier steps).
-/
namespace EgglogVerif.ProofCk

structure Term where
  head : Nat
  kids : List Nat
deriving DecidableEq, Repr

/-- rule-side expressions: variables and constructor / function-row applications (literals are
0-ary heads) -/
inductive Pat where
  | var (v : Nat)
  | app (h : Nat) (kids : List Pat)
deriving Repr

/-- a body fact in proof normal form.  `(= e1 e2)`: both sides are compared; a function fact
`(= (f args) v)` is the row term `f(args, v)` on both sides; a plain fact `e` only fixes the
right-hand side of its premise (`anyLhs`). -/
structure RFact where
  anyLhs : Bool
  lhs : Pat
  rhs : Pat
deriving Repr

inductive Act where
  | union (a b : Pat)
  | expr (e : Pat)          -- `(e)`, and `(set (f args) v)` as the row term `f(args, v)`
deriving Repr

structure Rule where
  body : List RFact
  head : List Act
deriving Repr

inductive Just where
  | leaf
  | rule (r : Nat) (prems : List Nat) (σ : List (Nat × Nat))
  | sym (p : Nat)
  | trans (p q : Nat)
  | congr (p : Nat) (i : Nat) (q : Nat)
deriving DecidableEq, Repr

structure Step where
  just : Just
  lhs : Nat
  rhs : Nat
deriving DecidableEq, Repr

/-- replace the `i`-th child -/
def setKid (kids : List Nat) (i : Nat) (c : Nat) : List Nat := kids.set i c

/-- position of a term in the hash-consed table (`TermDag::app` of an existing term) -/
def findIn : List Term → Term → Nat → Option Nat
  | [], _, _ => none
  | x :: xs, t, n => if x = t then some n else findIn xs t (n + 1)

def findTerm (terms : Array Term) (t : Term) : Option Nat := findIn terms.toList t 0

mutual
/-- `eval_expr_with_subst`: the id of the instance of a rule-side expression -/
def instId (terms : Array Term) (σ : List (Nat × Nat)) : Pat → Option Nat
  | .var v => σ.lookup v
  | .app h kids =>
    match instIds terms σ kids with
    | some ks => findTerm terms ⟨h, ks⟩
    | none => none
def instIds (terms : Array Term) (σ : List (Nat × Nat)) : List Pat → Option (List Nat)
  | [] => some []
  | p :: ps =>
    match instId terms σ p, instIds terms σ ps with
    | some x, some xs => some (x :: xs)
    | _, _ => none
end

/-- `b` is a subterm of `a` (fuel = size of the table bounds the depth of the DAG) -/
def reach (terms : Array Term) : Nat → Nat → Nat → Bool
  | 0, a, b => a == b
  | fuel + 1, a, b => a == b ||
    match terms[a]? with
    | some t => t.kids.any (fun k => reach terms fuel k b)
    | none => false

def headExprs : List Act → List Pat
  | [] => []
  | .union a b :: r => a :: b :: headExprs r
  | .expr e :: r => e :: headExprs r

def headEqs : List Act → List (Pat × Pat)
  | [] => []
  | .union a b :: r => (a, b) :: (b, a) :: headEqs r
  | .expr _ :: r => headEqs r

/-- `check_fact_matches_proposition` against the proposition of premise step `p` -/
def factOk (terms : Array Term) (σ : List (Nat × Nat)) (prev : List Step) (f : RFact) (p : Nat) : Bool :=
  match prev[p]? with
  | some sp => (f.anyLhs || instId terms σ f.lhs == some sp.lhs) && instId terms σ f.rhs == some sp.rhs
  | none => false

/-- one premise per body fact, in order; a count mismatch is rejected -/
def factsOk (terms : Array Term) (σ : List (Nat × Nat)) (prev : List Step) : List RFact → List Nat → Bool
  | [], [] => true
  | f :: fs, p :: ps => factOk terms σ prev f p && factsOk terms σ prev fs ps
  | _, _ => false

/-- `check_rule_produces_equality` -/
def headOk (terms : Array Term) (σ : List (Nat × Nat)) (rl : Rule) (l r : Nat) : Bool :=
  (headEqs rl.head).any (fun ab => instId terms σ ab.1 == some l && instId terms σ ab.2 == some r) ||
  (l == r && (headExprs rl.head).any (fun e =>
    match instId terms σ e with
    | some x => reach terms terms.size x l
    | none => false))

/-- is step `s` (at position `n`, using only steps `< n`) correctly derived? -/
def stepOk (rules : List Rule) (terms : Array Term) (prev : List Step) (s : Step) : Bool :=
  match s.just with
  | .leaf => true
  | .rule r prems σ =>
    match rules[r]? with
    | some rl => factsOk terms σ prev rl.body prems && headOk terms σ rl s.lhs s.rhs
    | none => false
  | .sym p =>
    match prev[p]? with
    | some sp => s.lhs == sp.rhs && s.rhs == sp.lhs
    | none => false
  | .trans p q =>
    match prev[p]?, prev[q]? with
    | some sp, some sq => sp.rhs == sq.lhs && s.lhs == sp.lhs && s.rhs == sq.rhs
    | _, _ => false
  | .congr p i q =>
    match prev[p]?, prev[q]? with
    | some sp, some sq =>
      match terms[sp.rhs]?, terms[s.rhs]? with
      | some t, some t' =>
        s.lhs == sp.lhs && t.head == t'.head && i < t.kids.length &&
          t.kids[i]? == some sq.lhs && t'.kids == setKid t.kids i sq.rhs
      | _, _ => false
    | _, _ => false

/-- check a whole proof, steps in dependency order -/
def checkFrom (rules : List Rule) (terms : Array Term) : List Step → List Step → Bool
  | _, [] => true
  | prev, s :: rest => stepOk rules terms prev s && checkFrom rules terms (prev ++ [s]) rest

def checkProof (rules : List Rule) (terms : Array Term) (steps : List Step) : Bool :=
  checkFrom rules terms [] steps

end EgglogVerif.ProofCk
