/-
Model of the equational layer of the proof checker (`src/proofs/proof_checker.rs`,
`proof_format.rs`): terms live in a hash-consed DAG (`TermDag`: equal terms have equal ids), a
proof is a DAG of steps, each claiming a proposition `lhs = rhs`:
* `leaf`  — Fiat / Rule / MergeFn: justified by the PROGRAM (checked by the in-tree checker; here
            they are the hypotheses of the derivation);
* `sym p`, `trans p q`, `congr p i q` — the axioms egglog assumes.
Steps are listed in dependency order (a step may only use earlier steps).
-/
namespace EgglogVerif.ProofCk

structure Term where
  head : Nat
  kids : List Nat
deriving DecidableEq, Repr

inductive Just where
  | leaf
  | sym (p : Nat)
  | trans (p q : Nat)
  | congr (p : Nat) (i : Nat) (q : Nat)
deriving DecidableEq, Repr

structure Step where
  just : Just
  lhs : Nat
  rhs : Nat
deriving DecidableEq, Repr

/-- replace the `i`-th child -/
def setKid (kids : List Nat) (i : Nat) (c : Nat) : List Nat := kids.set i c

/-- is step `s` (at position `n`, using only steps `< n`) correctly derived? -/
def stepOk (terms : Array Term) (prev : List Step) (s : Step) : Bool :=
  match s.just with
  | .leaf => true
  | .sym p =>
    match prev[p]? with
    | some sp => s.lhs == sp.rhs && s.rhs == sp.lhs
    | none => false
  | .trans p q =>
    match prev[p]?, prev[q]? with
    | some sp, some sq => sp.rhs == sq.lhs && s.lhs == sp.lhs && s.rhs == sq.rhs
    | _, _ => false
  | .congr p i q =>
    match prev[p]?, prev[q]? with
    | some sp, some sq =>
      match terms[sp.rhs]?, terms[s.rhs]? with
      | some t, some t' =>
        s.lhs == sp.lhs && t.head == t'.head && i < t.kids.length &&
          t.kids[i]? == some sq.lhs && t'.kids == setKid t.kids i sq.rhs
      | _, _ => false
    | _, _ => false

/-- check a whole proof, steps in dependency order -/
def checkFrom (terms : Array Term) : List Step → List Step → Bool
  | _, [] => true
  | prev, s :: rest => stepOk terms prev s && checkFrom terms (prev ++ [s]) rest

def checkProof (terms : Array Term) (steps : List Step) : Bool := checkFrom terms [] steps

end EgglogVerif.ProofCk
