/-
Model of the lexer and s-expression reader of `src/ast/parse.rs` (`SexpParser::next`,
`advance_past_whitespace`, `sexp`, `all_sexps`) and of the string-literal printer of
`egglog-ast/src/generic_ast_helpers.rs` (`impl Display for Literal`), on `List Char`.
-/
namespace EgglogVerif.Sexp

/-- Rust `char::is_whitespace` (Unicode White_Space) -/
def isWs (c : Char) : Bool :=
  let n := c.toNat
  (9 ≤ n && n ≤ 13) || n = 32 || n = 0x85 || n = 0xA0 || n = 0x1680 || (0x2000 ≤ n && n ≤ 0x200A) ||
    n = 0x2028 || n = 0x2029 || n = 0x202F || n = 0x205F || n = 0x3000

/-- `advance_past_whitespace`: skips whitespace and `;` comments -/
def skipWs : List Char → Bool → List Char
  | [], _ => []
  | c :: cs, inComment =>
    if c = ';' then skipWs cs true
    else if c = '\n' then skipWs cs false
    else if isWs c then skipWs cs inComment
    else if inComment then skipWs cs true
    else c :: cs

inductive Tok where
  | open | close
  | str (s : List Char)
  | other (s : List Char)
deriving DecidableEq, Repr

/-- body of a string token after the opening quote; `none` = lexing error
(missing end quote / unrecognised escape) -/
def lexString : List Char → Bool → List Char → Option (List Char × List Char)
  | [], _, _ => none
  | c :: cs, false, acc =>
    if c = '"' then some (acc.reverse, cs)
    else if c = '\\' then lexString cs true acc
    else lexString cs false (c :: acc)
  | c :: cs, true, acc =>
    if c = 'n' then lexString cs false ('\n' :: acc)
    else if c = 't' then lexString cs false ('\t' :: acc)
    else if c = '\\' then lexString cs false ('\\' :: acc)
    else if c = '"' then lexString cs false ('"' :: acc)
    else none

/-- the `_ =>` arm of `next`: everything up to whitespace, `;`, `(`, `)` or end of input -/
def lexOther : List Char → List Char → List Char × List Char
  | [], acc => (acc.reverse, [])
  | c :: cs, acc =>
    if isWs c || c = ';' || c = '(' || c = ')' then (acc.reverse, c :: cs)
    else lexOther cs (c :: acc)

/-- `SexpParser::next`: `none` = lexing error, `some none` = end of input -/
def nextTok (cs : List Char) : Option (Option (Tok × List Char)) :=
  match skipWs cs false with
  | [] => some none
  | c :: rest =>
    if c = '(' then some (some (Tok.open, rest))
    else if c = ')' then some (some (Tok.close, rest))
    else if c = '"' then
      match lexString rest false [] with
      | none => none
      | some (s, rest') => some (some (Tok.str s, rest'))
    else
      let (s, rest') := lexOther rest [c]
      some (some (Tok.other s, rest'))

/-- all tokens of a text (fuel: one unit per token; `text.length + 1` always suffices) -/
def lexAll : Nat → List Char → Option (List Tok)
  | 0, _ => none
  | fuel + 1, cs =>
    match nextTok cs with
    | none => none
    | some none => some []
    | some (some (t, rest)) => (lexAll fuel rest).map (t :: ·)

/-- `Literal::String` printer: only `\` and `"` are escaped -/
def escape : List Char → List Char
  | [] => []
  | c :: cs =>
    if c = '\\' then '\\' :: '\\' :: escape cs
    else if c = '"' then '\\' :: '"' :: escape cs
    else c :: escape cs

def printString (s : List Char) : List Char := '"' :: escape s ++ ['"']

/-! ### trees -/

mutual
inductive Sx where
  | str (s : List Char)
  | other (s : List Char)
  | list (l : SxL)
inductive SxL where
  | nil
  | cons (h : Sx) (t : SxL)
end

mutual
def Sx.flatten : Sx → List Tok
  | .str s => [Tok.str s]
  | .other s => [Tok.other s]
  | .list l => Tok.open :: l.flatten ++ [Tok.close]
def SxL.flatten : SxL → List Tok
  | .nil => []
  | .cons h t => h.flatten ++ t.flatten
end

mutual
def Sx.size : Sx → Nat
  | .str _ => 1
  | .other _ => 1
  | .list l => l.size + 2
def SxL.size : SxL → Nat
  | .nil => 1
  | .cons h t => h.size + t.size + 1
end

/-- reader: one s-expression from a token list (recursive-descent form of the stack loop `sexp`);
both functions consume fuel -/
def parseSx : Nat → Bool → List Tok → Option ((Sx ⊕ SxL) × List Tok)
  | 0, _, _ => none
  | fuel + 1, false, toks =>   -- one s-expression
    match toks with
    | [] => none
    | Tok.close :: _ => none
    | Tok.str s :: rest => some (.inl (.str s), rest)
    | Tok.other s :: rest => some (.inl (.other s), rest)
    | Tok.open :: rest =>
      match parseSx fuel true rest with
      | some (.inr l, rest') => some (.inl (.list l), rest')
      | _ => none
  | fuel + 1, true, toks =>    -- the remaining items of a list, up to and including `)`
    match toks with
    | [] => none
    | Tok.close :: rest => some (.inr .nil, rest)
    | _ =>
      match parseSx fuel false toks with
      | some (.inl h, rest') =>
        match parseSx fuel true rest' with
        | some (.inr t, rest'') => some (.inr (.cons h t), rest'')
        | _ => none
      | _ => none

end EgglogVerif.Sexp
