import EgglogVerif.Model.UF
/-
Model of `core-relations/src/uf/mod.rs` (`DisplacedTable`): the union-find exposed as a table with
rows `(child, canonical parent, timestamp)`, one row per id that has ever been displaced.
`displaced` is the append-only list of `(child, ts)`; `lookup` maps a child to its row index
(`lookup_table`); a row is `expand`ed on demand with the CURRENT representative of the child.
-/
namespace EgglogVerif.Displaced
open EgglogVerif

structure DT where
  uf : UF.Parents := #[]
  displaced : List (Nat × Nat) := []
  lookup : Nat → Option Nat := fun _ => none

/-- `insert_impl`: returns the new table and `(parent, child)` when the union changed something -/
def DT.insert (t : DT) (a b ts : Nat) : DT × Option (Nat × Nat) :=
  let (p1, ra) := UF.find t.uf a
  let (p2, rb) := UF.find p1 b
  if ra = rb then ({ t with uf := p2 }, none)
  else
    let (p3, (parent, child)) := UF.union p2 a b
    let (p4, _) := UF.find p3 parent
    let (p5, _) := UF.find p4 child
    ({ uf := p5, displaced := t.displaced ++ [(child, ts)],
       lookup := fun k => if k = child then some t.displaced.length else t.lookup k }, some (parent, child))

/-- `expand`: `[child, find_naive(child), ts]` -/
def DT.expand (t : DT) (i : Nat) : Option (Nat × Nat × Nat) :=
  (t.displaced[i]?).map fun (c, ts) => (c, UF.findNaive t.uf c, ts)

/-- `get_row` -/
def DT.getRow (t : DT) (k : Nat) : Option (Nat × Nat × Nat) := (t.lookup k).bind t.expand

/-- full scan -/
def DT.scan (t : DT) : List (Nat × Nat × Nat) := t.displaced.map fun (c, ts) => (c, UF.findNaive t.uf c, ts)

/-- `clear` (after the repair of defect 7: the lookup table is cleared too) -/
def DT.clear (t : DT) : DT := { uf := UF.reset t.uf, displaced := [], lookup := fun _ => none }

/-- the pinned `clear`, which left `lookup_table` behind (defect 7) -/
def DT.clearPinned (t : DT) : DT := { uf := UF.reset t.uf, displaced := [], lookup := t.lookup }

/-! ### timestamp-range subsets (`fast_subset` on column 2, `timestamp_bounds`) -/

/-- `timestamp_bounds`: rows are appended with non-decreasing timestamps, so the rows with timestamp
`val` form one run; `ok (lo, hi)` is that run (found by binary search and widened in the code),
`error b` the insertion point when there is none -/
def tsBounds (d : List (Nat × Nat)) (val : Nat) : Except Nat (Nat × Nat) :=
  let lo := (d.takeWhile (fun r => r.2 < val)).length
  let hi := lo + ((d.dropWhile (fun r => r.2 < val)).takeWhile (fun r => r.2 == val)).length
  if lo < hi then .ok (lo, hi) else .error lo

inductive TsC where
  | lt | le | gt | ge | eq
deriving DecidableEq, Repr

def TsC.sat (k : TsC) (val ts : Nat) : Bool :=
  match k with
  | .lt => ts < val | .le => ts ≤ val | .gt => val < ts | .ge => val ≤ ts | .eq => ts == val

/-- `fast_subset` for `<k> ts val`: a dense row range `[start, end)`, or none (an `=` on a
timestamp that does not occur is answered by the generic path) -/
def tsRange (d : List (Nat × Nat)) (k : TsC) (val : Nat) : Option (Nat × Nat) :=
  match tsBounds d val, k with
  | .ok (lo, _), .lt => some (0, lo)
  | .error b, .lt => some (0, b)
  | .ok (_, hi), .gt => some (hi, d.length)
  | .error b, .gt => some (b, d.length)
  | .ok (_, hi), .le => some (0, hi)
  | .error b, .le => some (0, b)
  | .ok (lo, _), .ge => some (lo, d.length)
  | .error b, .ge => some (b, d.length)
  | .ok (lo, hi), .eq => some (lo, hi)
  | .error _, .eq => none

/-- the rows of a dense range -/
def slice (d : List (Nat × Nat)) (r : Nat × Nat) : List (Nat × Nat) := (d.drop r.1).take (r.2 - r.1)

/-- `insert_impl` asserts "must insert rows with increasing timestamps" -/
def tsOk (d : List (Nat × Nat)) (ts : Nat) : Bool :=
  match d.getLast? with
  | some r => r.2 ≤ ts
  | none => true

end EgglogVerif.Displaced
