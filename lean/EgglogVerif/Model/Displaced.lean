import EgglogVerif.Model.UF
/-
Model of `core-relations/src/uf/mod.rs` (`DisplacedTable`): the union-find exposed as a table with
rows `(child, canonical parent, timestamp)`, one row per id that has ever been displaced.
`displaced` is the append-only list of `(child, ts)`; `lookup` maps a child to its row index
(`lookup_table`); a row is `expand`ed on demand with the CURRENT representative of the child.
-/
namespace EgglogVerif.Displaced
open EgglogVerif

structure DT where
  uf : UF.Parents := #[]
  displaced : List (Nat × Nat) := []
  lookup : Nat → Option Nat := fun _ => none

/-- `insert_impl`: returns the new table and `(parent, child)` when the union changed something -/
def DT.insert (t : DT) (a b ts : Nat) : DT × Option (Nat × Nat) :=
  let (p1, ra) := UF.find t.uf a
  let (p2, rb) := UF.find p1 b
  if ra = rb then ({ t with uf := p2 }, none)
  else
    let (p3, (parent, child)) := UF.union p2 a b
    let (p4, _) := UF.find p3 parent
    let (p5, _) := UF.find p4 child
    ({ uf := p5, displaced := t.displaced ++ [(child, ts)],
       lookup := fun k => if k = child then some t.displaced.length else t.lookup k }, some (parent, child))

/-- `expand`: `[child, find_naive(child), ts]` -/
def DT.expand (t : DT) (i : Nat) : Option (Nat × Nat × Nat) :=
  (t.displaced[i]?).map fun (c, ts) => (c, UF.findNaive t.uf c, ts)

/-- `get_row` -/
def DT.getRow (t : DT) (k : Nat) : Option (Nat × Nat × Nat) := (t.lookup k).bind t.expand

/-- full scan -/
def DT.scan (t : DT) : List (Nat × Nat × Nat) := t.displaced.map fun (c, ts) => (c, UF.findNaive t.uf c, ts)

/-- `clear` (after the repair of defect 7: the lookup table is cleared too) -/
def DT.clear (t : DT) : DT := { uf := UF.reset t.uf, displaced := [], lookup := fun _ => none }

/-- the pinned `clear`, which left `lookup_table` behind (defect 7) -/
def DT.clearPinned (t : DT) : DT := { uf := UF.reset t.uf, displaced := [], lookup := t.lookup }

end EgglogVerif.Displaced
