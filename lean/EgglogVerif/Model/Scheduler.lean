/-
Model of `Matches::instantiate` (`src/scheduler.rs`): the tuples chosen by a user scheduler are
inserted into the `decided` table and removed from the match vector by swap-removal; what is left
is the residual that must be offered again in the next step.

`chosen` is the scheduler's index list as given (any order, duplicates allowed); the code sorts
and dedups it, then walks it from the largest index down, each time moving the last live tuple
into the hole (`Vec::swap_remove` on a shrinking prefix).
-/
namespace EgglogVerif.Scheduler

variable {α : Type}

/-- insertion sort + dedup of the chosen indices, descending (the order the loop visits them) -/
def insertDesc (x : Nat) : List Nat → List Nat
  | [] => [x]
  | y :: ys => if x > y then x :: y :: ys else if x = y then y :: ys else y :: insertDesc x ys

def sortDedupDesc (cs : List Nat) : List Nat := cs.foldl (fun acc c => insertDesc c acc) []

/-- one step of the loop: `p -= 1; if c != p { swap(c, p) }` followed (at the end) by `truncate(p)`;
on the live prefix this is `Vec::swap_remove(c)` -/
def swapRemove (l : List α) (c : Nat) : List α :=
  match l.getLast? with
  | none => l
  | some last => if c + 1 = l.length then l.dropLast else (l.set c last).dropLast

/-- the residual matches -/
def residual (ms : List α) (chosen : List Nat) : List α :=
  (sortDedupDesc chosen).foldl swapRemove ms

/-- the tuples inserted into the `decided` table (a set-valued table: duplicates are absorbed) -/
def inserted (ms : List α) (chosen : List Nat) : List α :=
  chosen.filterMap (ms[·]?)

/-- `instantiate` -/
def instantiate (ms : List α) (allChosen : Bool) (chosen : List Nat) : List α × List α :=
  if allChosen then (ms, []) else (inserted ms chosen, residual ms chosen)

/-- the distinct matches the scheduler chose (the `decided` table absorbs repetitions) -/
def fired (ms : List α) (chosen : List Nat) : List α :=
  (sortDedupDesc chosen).filterMap (ms[·]?)

/-- one scheduler step of a rule over time: the matches still pending from earlier steps and the
newly found ones are offered together; the chosen ones fire, the rest stays pending -/
def offerStep (pending : List α) (new : List α) (chosen : List Nat) : List α × List α :=
  (fired (pending ++ new) chosen, residual (pending ++ new) chosen)

/-- a history of steps: (newly found matches, indices the scheduler chose among what it was offered) -/
def offerRun : List α → List (List α × List Nat) → List α × List α
  | pending, [] => ([], pending)
  | pending, (new, chosen) :: rest =>
    let (f, p') := offerStep pending new chosen
    let (fs, pend) := offerRun p' rest
    (f ++ fs, pend)

end EgglogVerif.Scheduler
