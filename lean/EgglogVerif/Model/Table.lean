/-
Model of `core-relations/src/table/mod.rs` (`SortedWritesTable`): an append-only row buffer
with stale marks, a hash index from key to row id, the staged-mutation `merge`
(`do_delete; do_insert; maybe_rehash`), compaction (`rehash_impl` / `RowBuffer::remove_stale`),
`clear`, point lookups and scans.

`rows[i] = none` models a stale row (`row[0] == Value::stale()`).  The sharded hash table is
modelled by a function `Key → Option RowId` (its physical layout is irrelevant to the readers);
what matters, and what the code must maintain by hand, is that it stays in sync with the rows.
The merge function is a parameter: `m cur new = some merged` when the merge changes the row.
-/
namespace EgglogVerif.Table

abbrev Row := List Nat
abbrev Key := List Nat

structure Table where
  nKeys : Nat
  rows : List (Option Row)
  hash : Key → Option Nat
  gen : Nat
  stale : Nat

def keyOf (n : Nat) (r : Row) : Key := r.take n

def Table.empty (n : Nat) : Table := ⟨n, [], fun _ => none, 0, 0⟩

/-- `Rows::get_row` -/
def Table.rowAt (t : Table) (i : Nat) : Option Row := (t.rows[i]?).join

/-- `Table::get_row` -/
def Table.getRow (t : Table) (k : Key) : Option Row := (t.hash k).bind t.rowAt

/-- one staged removal (`serial_delete` body): drop the hash entry, mark the row stale -/
def Table.deleteOne (t : Table) (k : Key) : Table :=
  match t.hash k with
  | none => t
  | some i =>
    { t with rows := t.rows.set i none,
             hash := fun k' => if k' = k then none else t.hash k',
             stale := t.stale + 1 }

/-- one staged insertion (`serial_insert` body) -/
def Table.insertOne (m : Row → Row → Option Row) (t : Table) (r : Row) : Table :=
  let k := keyOf t.nKeys r
  match t.hash k with
  | some i =>
    match t.rowAt i with
    | some cur =>
      match m cur r with
      | some merged =>
        -- `add_row(scratch); set_stale(*row); *row = new`
        { t with rows := (t.rows.set i none) ++ [some merged],
                 hash := fun k' => if k' = k then some t.rows.length else t.hash k',
                 stale := t.stale + 1 }
      | none => t
    | none => t   -- "table should not point to stale entry" (unreachable under the invariant)
  | none =>
    { t with rows := t.rows ++ [some r],
             hash := fun k' => if k' = k then some t.rows.length else t.hash k' }

def Table.doDelete (t : Table) (ks : List Key) : Table := ks.foldl Table.deleteOne t
def Table.doInsert (m : Row → Row → Option Row) (t : Table) (rs : List Row) : Table :=
  rs.foldl (Table.insertOne m) t

/-- loop of `RowBuffer::remove_stale` with the remap callback of `rehash_impl`:
live rows are copied in order to consecutive new ids and their hash entries re-pointed -/
def compactLoop (n : Nat) : List (Option Row) → List (Option Row) → (Key → Option Nat) →
    List (Option Row) × (Key → Option Nat)
  | [], out, h => (out, h)
  | none :: rest, out, h => compactLoop n rest out h
  | some r :: rest, out, h =>
    compactLoop n rest (out ++ [some r]) (fun k => if k = keyOf n r then some out.length else h k)

/-- `rehash` -/
def Table.rehash (t : Table) : Table :=
  let (rows', hash') := compactLoop t.nKeys t.rows [] t.hash
  { t with rows := rows', hash := hash', gen := t.gen + 1, stale := 0 }

/-- `maybe_rehash`: compact when `stale > max(16, len/2)` -/
def Table.maybeRehash (t : Table) : Table :=
  if t.stale ≤ max 16 (t.rows.length / 2) then t else t.rehash

/-- `Table::merge` = `do_delete; do_insert; maybe_rehash` -/
def Table.merge (m : Row → Row → Option Row) (t : Table) (dels : List Key) (ins : List Row) : Table :=
  ((t.doDelete dels).doInsert m ins).maybeRehash

/-- `Table::clear` -/
def Table.clear (t : Table) : Table :=
  if t.rows.length = 0 then t else { t with rows := [], hash := fun _ => none, gen := t.gen + 1, stale := 0 }

/-- full scan: the live rows, in row-id order -/
def Table.scan (t : Table) : List Row := t.rows.filterMap id

/-- `Table::len` -/
def Table.len (t : Table) : Nat := t.rows.length - t.stale

/-- constraints of `table_spec.rs` -/
inductive Constraint where
  | eq (l r : Nat) | eqConst (c v : Nat) | ltConst (c v : Nat) | gtConst (c v : Nat)
  | leConst (c v : Nat) | geConst (c v : Nat)

def Constraint.eval (r : Row) : Constraint → Bool
  | .eq l r' => r.getD l 0 == r.getD r' 0
  | .eqConst c v => r.getD c 0 == v
  | .ltConst c v => r.getD c 0 < v
  | .gtConst c v => r.getD c 0 > v
  | .leConst c v => r.getD c 0 ≤ v
  | .geConst c v => r.getD c 0 ≥ v

/-- constrained scan (`scan_generic_bounded` with constraints / `refine`) -/
def Table.scanWhere (t : Table) (cs : List Constraint) : List Row :=
  t.scan.filter fun r => cs.all (·.eval r)

end EgglogVerif.Table
