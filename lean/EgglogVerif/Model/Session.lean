/-
Model of the command loop's snapshot stack (`EGraph::push` = clone the whole e-graph onto a
stack, `EGraph::pop` = replace the e-graph by the top of the stack; `src/lib.rs:697-720`).
The core state `C` (tables, union-find, sorts, functions, rules, rulesets, globals …) and the
effect of every other command are parameters: the theorems hold for ANY command semantics,
including failing commands (their effect on `C` is whatever `run` says) and declarations.
-/
namespace EgglogVerif.Session

inductive Cmd (α : Type) where
  | push
  | pop
  | other (a : α)

structure St (C : Type) where
  cur : C
  stack : List C

variable {α C O : Type}

/-- one command; `run a c` is the new core state and the command's output. A `pop` on an empty
stack is an error that changes nothing. -/
def step (run : α → C → C × O) (popErr : O) (unit : O) (s : St C) : Cmd α → St C × O
  | .push => ({ s with stack := s.cur :: s.stack }, unit)
  | .pop => match s.stack with
    | [] => (s, popErr)
    | c :: rest => ({ cur := c, stack := rest }, unit)
  | .other a => let (c', o) := run a s.cur; ({ s with cur := c' }, o)

def exec (run : α → C → C × O) (popErr unit : O) : St C → List (Cmd α) → St C × List O
  | s, [] => (s, [])
  | s, c :: cs =>
    let (s', o) := step run popErr unit s c
    let (s'', os) := exec run popErr unit s' cs
    (s'', o :: os)

/-- nesting depth after a command list, `none` if some prefix pops more than it pushed -/
def depthAfter : List (Cmd α) → Nat → Option Nat
  | [], d => some d
  | .push :: cs, d => depthAfter cs (d + 1)
  | .pop :: cs, d => if d = 0 then none else depthAfter cs (d - 1)
  | .other _ :: cs, d => depthAfter cs d

/-- `Q` is balanced: every `pop` has its `push` inside `Q` -/
def Balanced (q : List (Cmd α)) : Prop := depthAfter q 0 = some 0

end EgglogVerif.Session
