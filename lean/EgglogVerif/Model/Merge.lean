/-
Model of how a function table's value for a key is computed from the writes it receives
(`core-relations/src/table/mod.rs`: `serial_insert`, `StagedOutputs::insert`,
`parallel_insert`'s three phases, and the re-insertion performed by rebuild), with the merge
function of `egglog-bridge/src/lib.rs` (`MergeFn::to_callback`) as a parameter `m cur new`.

The physical table (rows, hash, offsets) is the subject of `Model/Table.lean` (C16); here a
table is its abstraction `K → Option V`, because the four insertion paths differ only in the
ORDER and GROUPING in which `m` is applied — which is what C05 is about.
-/
namespace EgglogVerif.Merge

variable {K V : Type} [DecidableEq K] [DecidableEq V]

abbrev Tbl (K V : Type) := K → Option V

def empty : Tbl K V := fun _ => none

/-- merge callback applied on a key collision; a vacant entry takes the incoming value -/
def mergeOpt (m : V → V → V) (o : Option V) (v : V) : V :=
  match o with
  | none => v
  | some c => m c v

/-- one staged write reaching the table (`serial_insert`: `Some(row)` → merge, else add) -/
def write (m : V → V → V) (t : Tbl K V) (kv : K × V) : Tbl K V :=
  fun k' => if k' = kv.1 then some (mergeOpt m (t k') kv.2) else t k'

/-- `serial_insert`: writes are applied in arrival order -/
def serialInsert (m : V → V → V) (t : Tbl K V) (ws : List (K × V)) : Tbl K V :=
  ws.foldl (write m) t

/-- `StagedOutputs::insert`: in-batch collisions are folded in a private staging table first -/
def stage (m : V → V → V) (ws : List (K × V)) : Tbl K V := serialInsert m empty ws

/-- first-arrival key order of a batch -/
def firstKeys : List K → List K
  | [] => []
  | k :: ks => k :: (firstKeys ks).filter (· ≠ k)

/-- keys of a batch in first-arrival order (the staging buffer's row order) -/
def batchKeys (ws : List (K × V)) : List K := firstKeys (ws.map (·.1))

/-- flushing a staging table into the shard (phase 3 of `parallel_insert`, after the fix of
defect 1: the MERGED row is what the table keeps) -/
def flush (m : V → V → V) (t : Tbl K V) (st : Tbl K V) (keys : List K) : Tbl K V :=
  keys.foldl (fun t k => match st k with
    | none => t
    | some v => write m t (k, v)) t

/-- phase 3 AS CODED AT THE PINNED COMMIT: on `Occupied`, when the merge reports a change the
table entry is pointed at the *incoming staged row* (`occ.get_mut().row = cur_row`) and the merged
row in `scratch` is dropped. -/
def flushPinned (m : V → V → V) (t : Tbl K V) (st : Tbl K V) (keys : List K) : Tbl K V :=
  keys.foldl (fun t k => match st k with
    | none => t
    | some v => match t k with
      | none => write m t (k, v)
      | some cur => if m cur v = cur then t else fun k' => if k' = k then some v else t k') t

/-- `parallel_insert` with one batch per shard -/
def stagedInsert (m : V → V → V) (t : Tbl K V) (ws : List (K × V)) : Tbl K V :=
  flush m t (stage m ws) (batchKeys ws)

def stagedInsertPinned (m : V → V → V) (t : Tbl K V) (ws : List (K × V)) : Tbl K V :=
  flushPinned m t (stage m ws) (batchKeys ws)

/-- `parallel_insert`: the pending rows are pre-sharded by key hash; each shard is staged and
flushed independently, in batches of `batch` rows -/
def parallelInsert (m : V → V → V) (shard : K → Nat) (shards : List Nat) (t : Tbl K V)
    (ws : List (K × V)) : Tbl K V :=
  shards.foldl (fun t s => stagedInsert m t (ws.filter (fun kv => shard kv.1 = s))) t

/-- the specification: fold of the merge over the values written to `k`, in arrival order -/
def foldVals (m : V → V → V) : List V → Option V
  | [] => none
  | v :: vs => some (vs.foldl m v)

def valsFor (ws : List (K × V)) (k : K) : List V := (ws.filter (fun kv => kv.1 = k)).map (·.2)

def specVal (m : V → V → V) (ws : List (K × V)) (k : K) : Option V := foldVals m (valsFor ws k)

/-- rebuild re-insertion: every row's key is canonicalised by `c` and the row re-inserted -/
def rebuildInsert (m : V → V → V) (c : K → K) (rows : List (K × V)) : Tbl K V :=
  serialInsert m empty (rows.map fun kv => (c kv.1, kv.2))

/-- `:no-merge` (`MergeFn::AssertEq`): a collision with a different value is an error -/
def writeAssert (t : Tbl K V) (kv : K × V) : Except (K × V × V) (Tbl K V) :=
  match t kv.1 with
  | none => .ok (fun k' => if k' = kv.1 then some kv.2 else t k')
  | some c => if c = kv.2 then .ok t else .error (kv.1, c, kv.2)

def serialInsertAssert (t : Tbl K V) : List (K × V) → Except (K × V × V) (Tbl K V)
  | [] => .ok t
  | kv :: ws => match writeAssert t kv with
    | .ok t' => serialInsertAssert t' ws
    | .error e => .error e

end EgglogVerif.Merge
