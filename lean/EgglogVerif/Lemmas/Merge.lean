import EgglogVerif.Model.Merge
/-
Helper lemmas for C05.
-/
set_option linter.unusedSectionVars false
set_option linter.unusedSimpArgs false
namespace EgglogVerif.Merge

variable {K V : Type} [DecidableEq K] [DecidableEq V]

/-- associative, commutative, idempotent -/
structure ACI (m : V → V → V) : Prop where
  assoc : ∀ a b c, m (m a b) c = m a (m b c)
  comm : ∀ a b, m a b = m b a
  idem : ∀ a, m a a = a

theorem ACI.rightComm {m : V → V → V} (h : ACI m) (x a b : V) : m (m x a) b = m (m x b) a := by
  rw [h.assoc, h.comm a b, ← h.assoc]

/-- applying a list of incoming values to an entry, one `write` at a time -/
def applyVals (m : V → V → V) (o : Option V) (vs : List V) : Option V :=
  vs.foldl (fun o v => some (mergeOpt m o v)) o

theorem applyVals_some (m : V → V → V) (c : V) (vs : List V) :
    applyVals m (some c) vs = some (vs.foldl m c) := by
  induction vs generalizing c with
  | nil => rfl
  | cons v vs ih => simp only [applyVals, List.foldl_cons, mergeOpt] at *; exact ih (m c v)

theorem applyVals_none (m : V → V → V) (vs : List V) : applyVals m none vs = foldVals m vs := by
  cases vs with
  | nil => rfl
  | cons v vs =>
    simp only [applyVals, List.foldl_cons, mergeOpt, foldVals]
    exact applyVals_some m v vs

theorem valsFor_cons (kv : K × V) (ws : List (K × V)) (k : K) :
    valsFor (kv :: ws) k = if kv.1 = k then kv.2 :: valsFor ws k else valsFor ws k := by
  unfold valsFor
  by_cases h : kv.1 = k <;> simp [List.filter_cons, h]

/-- **L1**: what `serial_insert` leaves at key `k` -/
theorem serialInsert_apply (m : V → V → V) (t : Tbl K V) (ws : List (K × V)) (k : K) :
    serialInsert m t ws k = applyVals m (t k) (valsFor ws k) := by
  induction ws generalizing t with
  | nil => rfl
  | cons kv ws ih =>
    simp only [serialInsert, List.foldl_cons] at *
    rw [ih, valsFor_cons]
    by_cases h : kv.1 = k
    · simp only [h, if_true, applyVals, List.foldl_cons, write]
    · have h' : ¬ k = kv.1 := fun e => h e.symm
      simp [h, write, h']

theorem foldl_perm {m : V → V → V} (hrc : ∀ x a b, m (m x a) b = m (m x b) a) :
    ∀ {l₁ l₂ : List V}, l₁.Perm l₂ → ∀ v, l₁.foldl m v = l₂.foldl m v := by
  intro l₁ l₂ h
  induction h with
  | nil => intro v; rfl
  | cons x _ ih => intro v; simp [List.foldl, ih]
  | swap x y l => intro v; simp [List.foldl, hrc]
  | trans _ _ ih1 ih2 => intro v; rw [ih1, ih2]

theorem foldVals_perm {m : V → V → V} (h : ACI m) :
    ∀ {l₁ l₂ : List V}, l₁.Perm l₂ → foldVals m l₁ = foldVals m l₂ := by
  intro l₁ l₂ p
  induction p with
  | nil => rfl
  | cons x p _ => simp only [foldVals]; rw [foldl_perm h.rightComm p]
  | swap x y l => simp only [foldVals, List.foldl_cons]; rw [h.comm]
  | trans _ _ ih1 ih2 => rw [ih1, ih2]

theorem foldl_assoc {m : V → V → V} (hassoc : ∀ a b c, m (m a b) c = m a (m b c)) (c v : V) (vs : List V) :
    m c (vs.foldl m v) = vs.foldl m (m c v) := by
  induction vs generalizing v with
  | nil => rfl
  | cons w vs ih => simp only [List.foldl_cons]; rw [ih, hassoc]

/-- merging a whole pre-folded batch into an entry = applying its values one by one -/
theorem mergeOpt_fold {m : V → V → V} (hassoc : ∀ a b c, m (m a b) c = m a (m b c))
    (o : Option V) (v : V) (vs : List V) :
    some (mergeOpt m o (vs.foldl m v)) = applyVals m o (v :: vs) := by
  cases o with
  | none => simp only [mergeOpt]; rw [applyVals_none]; rfl
  | some c =>
    simp only [mergeOpt, applyVals, List.foldl_cons]
    rw [foldl_assoc hassoc]
    exact (applyVals_some m (m c v) vs).symm

theorem mem_firstKeys (ks : List K) (x : K) : x ∈ firstKeys ks ↔ x ∈ ks := by
  induction ks with
  | nil => simp [firstKeys]
  | cons k ks ih =>
    simp only [firstKeys, List.mem_cons, List.mem_filter, ih]
    by_cases h : x = k <;> simp [h]

theorem nodup_firstKeys (ks : List K) : (firstKeys ks).Nodup := by
  induction ks with
  | nil => simp [firstKeys]
  | cons k ks ih =>
    simp only [firstKeys, List.nodup_cons]
    exact ⟨by simp [List.mem_filter], ih.filter _⟩

theorem valsFor_ne_nil (ws : List (K × V)) (k : K) : valsFor ws k ≠ [] ↔ k ∈ ws.map (·.1) := by
  induction ws with
  | nil => simp [valsFor]
  | cons kv ws ih =>
    rw [valsFor_cons]
    by_cases h : kv.1 = k
    · simp [h]
    · have h' : ¬ k = kv.1 := fun e => h e.symm
      simp [h, ih, h']

/-- generic per-key description of a flush loop over a duplicate-free key list -/
theorem flushLike_apply (f : Tbl K V → K → Tbl K V)
    (hloc : ∀ t k k', k' ≠ k → f t k k' = t k')
    (hdep : ∀ (t t' : Tbl K V) k, t k = t' k → f t k k = f t' k k) :
    ∀ (keys : List K) (t : Tbl K V) (k : K), keys.Nodup →
      keys.foldl f t k = if k ∈ keys then f t k k else t k := by
  intro keys
  induction keys with
  | nil => intro t k _; rfl
  | cons a keys ih =>
    intro t k hnd
    simp only [List.foldl_cons]
    have hnd' := (List.nodup_cons.mp hnd)
    rw [ih (f t a) k hnd'.2]
    by_cases hk : k = a
    · subst hk
      simp [hnd'.1]
    · simp only [List.mem_cons, hk, false_or]
      split
      · exact hdep _ _ k (hloc t a k hk)
      · exact hloc t a k hk

end EgglogVerif.Merge
