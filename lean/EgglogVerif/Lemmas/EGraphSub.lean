import EgglogVerif.Lemmas.EGraph
/-
The subsumed flag through every state-changing primitive of the e-graph model: once a row of
table `f` with key `args` carries the flag, some stored row whose key canonicalises to the same
key carries it after any later union, insertion, constructor call or rebuild pass.
-/
namespace EgglogVerif.EGraph
open EgglogVerif

theorem mergeRows_sub (g : EG) (d : Decl) (cur new : Row) :
    (mergeRows g d cur new).2.sub = (cur.sub || new.sub) := by
  unfold mergeRows
  cases d.merge <;> simp <;> split <;> rfl

theorem insertInto_sub (d : Decl) : ∀ (rows : List Row) (g : EG) (r : Row),
    ∀ y ∈ r :: rows, y.sub = true → ∃ y' ∈ (insertInto g d rows r).2, y'.args = y.args ∧ y'.sub = true := by
  intro rows
  induction rows with
  | nil =>
    intro g r y hy hs
    simp only [List.mem_singleton] at hy
    subst hy
    exact ⟨y, by simp [insertInto], rfl, hs⟩
  | cons x xs ih =>
    intro g r y hy hs
    simp only [insertInto]
    split
    · rename_i hk
      simp only [List.mem_cons] at hy
      rcases hy with rfl | rfl | hy
      · exact ⟨_, List.mem_cons_self, by rw [mergeRows_args, hk], by rw [mergeRows_sub, hs]; simp⟩
      · exact ⟨_, List.mem_cons_self, mergeRows_args g d y r, by rw [mergeRows_sub, hs]; simp⟩
      · exact ⟨y, List.mem_cons_of_mem _ hy, rfl, hs⟩
    · simp only [List.mem_cons] at hy
      rcases hy with rfl | rfl | hy
      · obtain ⟨y', hy', e1, e2⟩ := ih g y y List.mem_cons_self hs
        exact ⟨y', List.mem_cons_of_mem _ hy', e1, e2⟩
      · exact ⟨y, List.mem_cons_self, rfl, hs⟩
      · obtain ⟨y', hy', e1, e2⟩ := ih g r y (List.mem_cons_of_mem _ hy) hs
        exact ⟨y', List.mem_cons_of_mem _ hy', e1, e2⟩

theorem rbFold_sub (d : Decl) : ∀ (todo : List Row) (acc : EG × List Row), acc.1.WF →
    (∀ y ∈ acc.2, y.sub = true → ∃ y' ∈ (todo.foldl (rbStep d) acc).2, y'.args = y.args ∧ y'.sub = true) ∧
    (∀ y ∈ todo, y.sub = true → ∃ y' ∈ (todo.foldl (rbStep d) acc).2,
      canonArgs (todo.foldl (rbStep d) acc).1 d.argIsId y'.args = canonArgs (todo.foldl (rbStep d) acc).1 d.argIsId y.args ∧
      y'.sub = true) := by
  intro todo
  induction todo with
  | nil =>
    intro acc _
    exact ⟨fun y hy hs => ⟨y, hy, rfl, hs⟩, fun y hy => by simp at hy⟩
  | cons r rs ih =>
    intro acc h
    simp only [List.foldl_cons]
    have hstep : rbStep d acc r = insertInto acc.1 d acc.2 (acc.1.canonRow d r) := rfl
    obtain ⟨s1, s2, _, _, _⟩ := insertInto_spec d acc.2 acc.1 (acc.1.canonRow d r) h
    obtain ⟨i1, i2⟩ := ih (rbStep d acc r) (hstep ▸ s1)
    obtain ⟨f1, f2, _, _, _, _⟩ := rbFold_spec d rs (rbStep d acc r) (hstep ▸ s1)
    constructor
    · intro y hy hs
      obtain ⟨y1, hy1, e1, e2⟩ := insertInto_sub d acc.2 acc.1 (acc.1.canonRow d r) y (List.mem_cons_of_mem _ hy) hs
      obtain ⟨y', hy', g1, g2⟩ := i1 y1 (hstep ▸ hy1) e2
      exact ⟨y', hy', g1.trans e1, g2⟩
    · intro y hy hs
      simp only [List.mem_cons] at hy
      rcases hy with rfl | hy
      · obtain ⟨y1, hy1, e1, e2⟩ := insertInto_sub d acc.2 acc.1 (acc.1.canonRow d y) (acc.1.canonRow d y) List.mem_cons_self hs
        obtain ⟨y', hy', g1, g2⟩ := i1 y1 (hstep ▸ hy1) e2
        refine ⟨y', hy', ?_, g2⟩
        rw [g1, e1]
        show canonArgs _ d.argIsId (canonArgs acc.1 d.argIsId y.args) = _
        exact canonArgs_coarser h f1 ((hstep ▸ s2 : Coarser acc.1 (rbStep d acc y).1).trans f2) _ _
      · exact i2 y hy hs

/-- some stored row for the key `args` of table `f` (modulo the current equalities) is subsumed -/
def SubImg (g : EG) (f : Nat) (args : List Int) : Prop :=
  ∃ y' ∈ g.table f, canonArgs g (g.decl f).argIsId y'.args = canonArgs g (g.decl f).argIsId args ∧ y'.sub = true

theorem SubImg.self {g : EG} {f : Nat} {y : Row} (hy : y ∈ g.table f) (hs : y.sub = true) : SubImg g f y.args :=
  ⟨y, hy, rfl, hs⟩

theorem SubImg.step {g g' : EG} (h : g.WF) (h' : g'.WF) (c : Coarser g g') {f : Nat} (hd : g'.decl f = g.decl f)
    (hrows : ∀ y ∈ g.table f, y.sub = true → SubImg g' f y.args) {args} (hi : SubImg g f args) :
    SubImg g' f args := by
  obtain ⟨y, hy, e1, e2⟩ := hi
  obtain ⟨y', hy', f1, f2⟩ := hrows y hy e2
  refine ⟨y', hy', ?_, f2⟩
  rw [f1, hd]
  exact (canonArgs_eq_iff h' _ _ _).mpr (((canonArgs_eq_iff h _ _ _).mp e1).mono c.eq)

/-- every key of `S` (table, key) still has a subsumed image -/
structure SubInv (g : EG) (S : List (Nat × List Int)) : Prop where
  wf : g.WF
  sub : ∀ p ∈ S, SubImg g p.1 p.2

theorem SubInv.union {g : EG} {S} (i : SubInv g S) (a b : Int) : SubInv (g.union a b) S :=
  ⟨union_wf i.wf a b, fun p hp => SubImg.step i.wf (union_wf i.wf a b) (union_coarser i.wf a b) rfl
    (fun y hy hs => SubImg.self (by simpa using hy) hs) (i.sub p hp)⟩

theorem SubInv.insertRow {g : EG} {S} (i : SubInv g S) (f : Nat) (r : Row) : SubInv (g.insertRow f r) S := by
  obtain ⟨s1, s2, s3, s4, _⟩ := insertInto_spec (g.decl f) (g.table f) g r i.wf
  have hw : (g.insertRow f r).WF := s1
  have hc : Coarser g (g.insertRow f r) := ⟨s2.eq, s2.roots⟩
  have hdec : ∀ f', (g.insertRow f r).decl f' = g.decl f' := fun f' => decl_congr (g' := EG.setTable _ f _) s4 f'
  refine ⟨hw, fun p hp => SubImg.step i.wf hw hc (hdec p.1) ?_ (i.sub p hp)⟩
  intro y hy hs
  by_cases hf : p.1 = f ∧ f < g.tables.size
  · obtain ⟨hpf, hlt⟩ := hf
    rw [hpf] at hy ⊢
    obtain ⟨y', hy', e1, e2⟩ := insertInto_sub (g.decl f) (g.table f) g r y (List.mem_cons_of_mem _ hy) hs
    refine ⟨y', ?_, by rw [e1], e2⟩
    show y' ∈ EG.table (EG.setTable _ f _) f
    rw [setTable_table, if_pos ⟨rfl, by rw [s3]; exact hlt⟩]; exact hy'
  · refine SubImg.self ?_ hs
    show y ∈ EG.table (EG.setTable _ f _) p.1
    rw [setTable_table, if_neg (fun h => hf ⟨h.1, by rw [← s3]; exact h.2⟩)]
    rw [table_congr s3]; exact hy

theorem SubInv.congr {g g' : EG} {S} (i : SubInv g S) (h' : g'.WF)
    (hrt : ∀ x, g'.rt x = g.rt x) (hd : g'.decls = g.decls) (ht : g'.tables = g.tables) : SubInv g' S := by
  have c : Coarser g g' := ⟨fun x y h => by rw [hrt, hrt]; exact h, fun x => by rw [hrt]; exact rt_idem i.wf x⟩
  exact ⟨h', fun p hp => SubImg.step i.wf h' c (decl_congr hd p.1)
    (fun y hy hs => SubImg.self (table_congr ht p.1 ▸ hy) hs) (i.sub p hp)⟩

theorem SubInv.lookupOrCreate {g : EG} {S} (i : SubInv g S) (f : Nat) (args : List Int) :
    SubInv (g.lookupOrCreate f args).1 S := by
  unfold EG.lookupOrCreate
  cases lookupRow (g.table f) args with
  | some r => exact i
  | none => exact (i.congr (fresh_wf i.wf) (fresh_rt g) rfl rfl).insertRow f _

theorem SubInv.rebuildTable {g : EG} {S} (i : SubInv g S) (f : Nat) : SubInv (rebuildTable g f) S := by
  rw [rebuildTable_eq]
  obtain ⟨s1, s2, s3, s4, _, _⟩ := rbFold_spec (g.decl f) (g.table f) (g, []) i.wf
  obtain ⟨_, t2⟩ := rbFold_sub (g.decl f) (g.table f) (g, []) i.wf
  have hc : Coarser g (((g.table f).foldl (rbStep (g.decl f)) (g, [])).1.setTable f ((g.table f).foldl (rbStep (g.decl f)) (g, [])).2) :=
    ⟨s2.eq, s2.roots⟩
  have hdec : ∀ f', (((g.table f).foldl (rbStep (g.decl f)) (g, [])).1.setTable f ((g.table f).foldl (rbStep (g.decl f)) (g, [])).2).decl f' = g.decl f' :=
    fun f' => decl_congr (g' := EG.setTable _ f _) s4 f'
  have hw : (((g.table f).foldl (rbStep (g.decl f)) (g, [])).1.setTable f ((g.table f).foldl (rbStep (g.decl f)) (g, [])).2).WF := s1
  refine ⟨hw, fun p hp => SubImg.step i.wf hw hc (hdec p.1) ?_ (i.sub p hp)⟩
  intro y hy hs
  by_cases hf : p.1 = f ∧ f < g.tables.size
  · obtain ⟨hpf, hlt⟩ := hf
    rw [hpf] at hy ⊢
    obtain ⟨y', hy', e1, e2⟩ := t2 y hy hs
    refine ⟨y', ?_, ?_, e2⟩
    · rw [setTable_table, if_pos ⟨rfl, by rw [s3]; exact hlt⟩]; exact hy'
    · rw [hdec f]; exact e1
  · refine SubImg.self ?_ hs
    rw [setTable_table, if_neg (fun h => hf ⟨h.1, by rw [← s3]; exact h.2⟩)]
    rw [table_congr s3]; exact hy

theorem SubInv.rebuildTables {S} : ∀ (fs : List Nat) {g : EG}, SubInv g S → SubInv (fs.foldl EGraph.rebuildTable g) S := by
  intro fs
  induction fs with
  | nil => intro g i; exact i
  | cons f fs ih => intro g i; exact ih (i.rebuildTable f)

theorem SubInv.rebuildPass {g : EG} {S} (i : SubInv g S) : SubInv (EGraph.rebuildPass g) S :=
  SubInv.rebuildTables _ i

theorem SubInv.rebuild {S} : ∀ (fuel : Nat) {g : EG}, SubInv g S → SubInv (EGraph.rebuild fuel g).1 S := by
  intro fuel
  induction fuel with
  | zero => intro g i; exact i
  | succ n ih =>
    intro g i
    simp only [EgglogVerif.EGraph.rebuild]
    split
    · exact i.rebuildPass
    · exact ih i.rebuildPass

end EgglogVerif.EGraph
