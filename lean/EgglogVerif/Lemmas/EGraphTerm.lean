import EgglogVerif.Lemmas.EGraphFix
/-
Termination of the rebuild loop of the model: when every output id stored in a constructor table
lies inside the union-find (true of every id the engine ever mints), each pass either merges two
classes — the number of representatives strictly drops — or changes no representative, in which
case its result is canonical and the next pass is the identity.  Hence `size + 2` passes suffice.
-/
namespace EgglogVerif.EGraph
open EgglogVerif

/-! ### sizes -/

theorem uf_find_size {p : UF.Parents} {x : Nat} (h : UF.AInv p) (hx : x < p.size) : (UF.find p x).1.size = p.size := by
  unfold UF.find
  have hres : UF.reserve p x = p := by unfold UF.reserve; rw [if_pos hx]
  rw [hres]
  exact (UF.findLoop_spec (x + 1) p x h (Nat.lt_succ_self _) hx).2.2.2

theorem uf_union_size {p : UF.Parents} {a b : Nat} (h : UF.AInv p) (ha : a < p.size) (hb : b < p.size) :
    (UF.union p a b).1.size = p.size := by
  unfold UF.union
  have hra : UF.reserve p a = p := by unfold UF.reserve; rw [if_pos ha]
  have hrb : UF.reserve p b = p := by unfold UF.reserve; rw [if_pos hb]
  simp only [hra, hrb]
  have s1 := uf_find_size h ha
  have i1 := (UF.find_spec p a h).1
  have s2 : (UF.find (UF.find p a).1 b).1.size = p.size := by
    rw [uf_find_size i1 (by rw [s1]; exact hb), s1]
  split
  · simp [s2]
  · exact s2

theorem union_size {g : EG} (h : g.WF) {a b : Int} (ha : a.toNat < g.parents.size) (hb : b.toNat < g.parents.size) :
    (g.union a b).parents.size = g.parents.size := uf_union_size h ha hb

/-- every output id of a constructor table is an id of the union-find -/
def OutsInRange (g : EG) (n : Nat) : Prop :=
  ∀ f, ∀ y ∈ g.table f, y.out.toNat < n

theorem mergeRows_size {g : EG} (h : g.WF) (d : Decl) {cur new : Row} (hc : cur.out.toNat < g.parents.size)
    (hn : new.out.toNat < g.parents.size) : (mergeRows g d cur new).1.parents.size = g.parents.size := by
  rw [mergeRows_parents]
  split
  · exact union_size h hc hn
  · rfl

theorem insertInto_size (d : Decl) : ∀ (rows : List Row) (g : EG) (r : Row), g.WF →
    (∀ y ∈ r :: rows, y.out.toNat < g.parents.size) →
    (insertInto g d rows r).1.parents.size = g.parents.size ∧
      ∀ y' ∈ (insertInto g d rows r).2, y'.out.toNat < g.parents.size := by
  intro rows
  induction rows with
  | nil =>
    intro g r _ hr
    simp only [insertInto]
    exact ⟨trivial, fun y' hy' => hr y' (by simpa using hy')⟩
  | cons x xs ih =>
    intro g r h hr
    refine ⟨?_, ?_⟩
    · simp only [insertInto]
      split
      · exact mergeRows_size h d (hr x (by simp)) (hr r (by simp))
      · exact (ih g r h (fun y hy => hr y (by
          simp only [List.mem_cons] at hy ⊢
          rcases hy with hy | hy
          · exact Or.inl hy
          · exact Or.inr (Or.inr hy)))).1
    · intro y' hy'
      obtain ⟨_, ⟨b, hb, eb⟩⟩ := insertInto_mem d (x :: xs) g r y' hy'
      rw [eb]; exact hr b hb

theorem find_lt {g : EG} (h : g.WF) {v : Int} {n : Nat} (hv : v.toNat < n) : (g.find v).toNat < n := by
  rw [find_toNat h]
  exact Nat.lt_of_le_of_lt (rt_le h _) hv

theorem rbFold_size (d : Decl) : ∀ (todo : List Row) (acc : EG × List Row), acc.1.WF →
    (∀ y ∈ acc.2, y.out.toNat < acc.1.parents.size) → (∀ y ∈ todo, y.out.toNat < acc.1.parents.size) →
    (todo.foldl (rbStep d) acc).1.parents.size = acc.1.parents.size ∧
      ∀ y' ∈ (todo.foldl (rbStep d) acc).2, y'.out.toNat < acc.1.parents.size := by
  intro todo
  induction todo with
  | nil => intro acc _ ha _; exact ⟨rfl, ha⟩
  | cons r rs ih =>
    intro acc h ha ht
    simp only [List.foldl_cons]
    have hstep : rbStep d acc r = insertInto acc.1 d acc.2 (acc.1.canonRow d r) := rfl
    have hcr : (acc.1.canonRow d r).out.toNat < acc.1.parents.size := by
      show (if d.outIsId then acc.1.find r.out else r.out).toNat < _
      split
      · exact find_lt h (ht r List.mem_cons_self)
      · exact ht r List.mem_cons_self
    obtain ⟨s1, s2⟩ := insertInto_size d acc.2 acc.1 (acc.1.canonRow d r) h (by
      intro y hy
      simp only [List.mem_cons] at hy
      rcases hy with rfl | hy
      · exact hcr
      · exact ha y hy)
    have hw := (insertInto_spec d acc.2 acc.1 (acc.1.canonRow d r) h).1
    obtain ⟨i1, i2⟩ := ih (rbStep d acc r) (hstep ▸ hw) (by rw [hstep, s1]; exact s2)
      (by rw [hstep, s1]; exact fun y hy => ht y (List.mem_cons_of_mem _ hy))
    rw [hstep] at i1 i2
    exact ⟨i1.trans s1, fun y' hy' => by have := i2 y' hy'; rw [s1] at this; exact this⟩

theorem rebuildTable_size {g : EG} (h : g.WF) (hr : OutsInRange g g.parents.size) (f : Nat) :
    (rebuildTable g f).parents.size = g.parents.size ∧ OutsInRange (rebuildTable g f) g.parents.size := by
  obtain ⟨r1, r2, r3, r4, r5⟩ := rebuildTable_frame h f
  have key := rbFold_size (g.decl f) (g.table f) (g, []) h (by intro y hy; simp at hy) (hr f)
  rw [rebuildTable_eq]
  refine ⟨key.1, ?_⟩
  intro f' y hy
  by_cases he : f' = f
  · subst he
    rw [setTable_table] at hy
    split at hy
    · exact key.2 y hy
    · obtain ⟨_, _, s3, _, _, _⟩ := rbFold_spec (g.decl f') (g.table f') (g, []) h
      rw [table_congr s3] at hy
      exact hr f' y hy
  · have := r5 f' he
    rw [rebuildTable_eq] at this
    rw [this] at hy
    exact hr f' y hy

theorem rebuildTables_size : ∀ (fs : List Nat) {g : EG} {n : Nat}, g.WF → g.parents.size = n → OutsInRange g n →
    (fs.foldl rebuildTable g).parents.size = n ∧ OutsInRange (fs.foldl rebuildTable g) n := by
  intro fs
  induction fs with
  | nil => intro g n _ hs hr; exact ⟨hs, hr⟩
  | cons f fs ih =>
    intro g n h hs hr
    simp only [List.foldl_cons]
    subst hs
    obtain ⟨a, b⟩ := rebuildTable_size h hr f
    exact ih (rebuildTable_frame h f).1 a b

theorem rebuildPass_size {g : EG} (h : g.WF) (hr : OutsInRange g g.parents.size) :
    (rebuildPass g).parents.size = g.parents.size ∧ OutsInRange (rebuildPass g) g.parents.size :=
  rebuildTables_size _ h rfl hr

/-! ### the measure -/

/-- number of representatives among the ids of the union-find -/
def nRoots (g : EG) : Nat := (List.range g.parents.size).countP (fun i => g.rt i == i)

theorem countP_lt_of_witness {p q : Nat → Bool} : ∀ (l : List Nat), (∀ x ∈ l, p x = true → q x = true) →
    (∃ x ∈ l, q x = true ∧ p x = false) → l.countP p < l.countP q := by
  intro l
  induction l with
  | nil => intro _ ⟨x, hx, _⟩; simp at hx
  | cons a as ih =>
    intro hsub ⟨x, hx, hq, hp⟩
    have hle : as.countP p ≤ as.countP q :=
      List.countP_mono_left (fun y hy hpy => hsub y (List.mem_cons_of_mem _ hy) hpy)
    simp only [List.countP_cons]
    simp only [List.mem_cons] at hx
    rcases hx with rfl | hx
    · simp only [hq, hp, if_true]; simp; omega
    · have := ih (fun y hy => hsub y (List.mem_cons_of_mem _ hy)) ⟨x, hx, hq, hp⟩
      by_cases hpa : p a = true
      · have hqa := hsub a List.mem_cons_self hpa
        simp only [hpa, hqa, if_true]; omega
      · by_cases hqa : q a = true
        · simp only [hpa, hqa, if_true]; simp; omega
        · simp only [hpa, hqa]; simp; omega

/-- a pass that changes some representative strictly lowers the number of representatives -/
theorem nRoots_lt {g g' : EG} (h : g.WF) (h' : g'.WF) (c : Coarser g g') (hs : g'.parents.size = g.parents.size)
    (hne : ¬ ∀ x, g'.rt x = g.rt x) : nRoots g' < nRoots g := by
  unfold nRoots
  rw [hs]
  apply countP_lt_of_witness
  · intro x _ hx
    have hx' : g'.rt x = x := by simpa using hx
    have := c.roots x
    rw [hx'] at this
    simpa using this
  · have ⟨x, hx⟩ : ∃ x, g'.rt x ≠ g.rt x := Classical.not_forall.mp hne
    have hxs : x < g.parents.size := by
      apply Classical.byContradiction
      intro hge
      have hge' : g.parents.size ≤ x := Nat.le_of_not_lt hge
      apply hx
      have a : g.rt x = x := UF.root_of_fix h (UF.par_ge_size hge')
      have b : g'.rt x = x := UF.root_of_fix h' (UF.par_ge_size (hs ▸ hge'))
      rw [a, b]
    refine ⟨g.rt x, List.mem_range.mpr (Nat.lt_of_le_of_lt (rt_le h x) hxs), ?_, ?_⟩
    · simpa using rt_idem h x
    · have : g'.rt (g.rt x) ≠ g.rt x := by
        rw [c.rt_rt h x]; exact hx
      simpa using this

/-! ### a pass that changes no representative produces a canonical database -/

theorem rebuildPass_canonical_of_rt {g : EG} (h : g.WF) (hrt : ∀ x, (rebuildPass g).rt x = g.rt x) :
    Canonical (rebuildPass g) := by
  obtain ⟨i1, _, i3, i4, i5, i6⟩ := rebuildTables_canon h (List.range g.tables.size) g List.nodup_range h (Coarser.refl h) rfl
  have w : (rebuildPass g).WF := i1
  have hfind : ∀ v, (rebuildPass g).find v = g.find v := fun v => by rw [find_eq w, find_eq h, hrt]
  have hcan : ∀ fl a, canonArgs (rebuildPass g) fl a = canonArgs g fl a := by
    intro fl a
    unfold canonArgs
    congr 1
    funext i v
    rw [hfind]
  have hdec : ∀ f, (rebuildPass g).decl f = g.decl f := fun f => decl_congr i3 f
  constructor
  · intro f y hy
    by_cases hf : f < g.tables.size
    · obtain ⟨c1, c2⟩ := (i6 f (List.mem_range.mpr hf)).rows y hy
      rw [hdec f]
      exact ⟨by unfold ArgsCanon at *; rw [hcan]; exact c1, fun ho => by rw [hfind]; exact c2 ho⟩
    · have : (rebuildPass g).table f = [] := table_of_ge _ (by
        show (List.foldl rebuildTable g (List.range g.tables.size)).tables.size ≤ f
        rw [i4]; exact Nat.le_of_not_lt hf)
      rw [this] at hy; simp at hy
  · intro f
    by_cases hf : f < g.tables.size
    · exact (i6 f (List.mem_range.mpr hf)).keys
    · have : (rebuildPass g).table f = [] := table_of_ge _ (by
        show (List.foldl rebuildTable g (List.range g.tables.size)).tables.size ≤ f
        rw [i4]; exact Nat.le_of_not_lt hf)
      rw [this]; simp [UniqueKeys]

theorem sameAs_refl (g : EG) : g.sameAs g = true := by
  unfold EG.sameAs
  simp

/-- **The rebuild loop terminates**: with every stored output id inside the union-find,
`nRoots g + 2` passes always suffice for the loop to report its fixpoint. -/
theorem rebuild_terminates : ∀ (n : Nat) (g : EG), g.WF → OutsInRange g g.parents.size → nRoots g ≤ n →
    ∀ fuel, n + 2 ≤ fuel → (rebuild fuel g).2 = true := by
  intro n
  induction n with
  | zero =>
    intro g h hr hn fuel hf
    obtain ⟨fuel', rfl⟩ : ∃ k, fuel = k + 1 := ⟨fuel - 1, by omega⟩
    simp only [rebuild]
    obtain ⟨w, c, _⟩ := rebuildPass_frame h
    obtain ⟨s1, s2⟩ := rebuildPass_size h hr
    split
    · rfl
    · -- no representative can disappear: the count is already 0
      have hrt : ∀ x, (rebuildPass g).rt x = g.rt x := by
        apply Classical.byContradiction
        intro hne
        have := nRoots_lt h w c s1 hne
        omega
      have hc := rebuildPass_canonical_of_rt h hrt
      obtain ⟨fuel'', rfl⟩ : ∃ k, fuel' = k + 1 := ⟨fuel' - 1, by omega⟩
      simp only [rebuild]
      rw [rebuildPass_canonical_id hc, if_pos (sameAs_refl _)]
  | succ n ih =>
    intro g h hr hn fuel hf
    obtain ⟨fuel', rfl⟩ : ∃ k, fuel = k + 1 := ⟨fuel - 1, by omega⟩
    simp only [rebuild]
    obtain ⟨w, c, _⟩ := rebuildPass_frame h
    obtain ⟨s1, s2⟩ := rebuildPass_size h hr
    split
    · rfl
    · by_cases hrt : ∀ x, (rebuildPass g).rt x = g.rt x
      · have hc := rebuildPass_canonical_of_rt h hrt
        obtain ⟨fuel'', rfl⟩ : ∃ k, fuel' = k + 1 := ⟨fuel' - 1, by omega⟩
        simp only [rebuild]
        rw [rebuildPass_canonical_id hc, if_pos (sameAs_refl _)]
      · have hlt := nRoots_lt h w c s1 hrt
        exact ih (rebuildPass g) w (s1 ▸ s2) (by omega) fuel' (by omega)

end EgglogVerif.EGraph

namespace EgglogVerif.EGraph
open EgglogVerif

theorem nRoots_le_size (g : EG) : nRoots g ≤ g.parents.size := by
  unfold nRoots
  have := List.countP_le_length (p := fun i => g.rt i == i) (l := List.range g.parents.size)
  simpa using this

/-- with every stored output id inside the union-find, `size + 2` passes always reach the fixpoint -/
theorem rebuild_total {g : EG} (h : g.WF) (hr : OutsInRange g g.parents.size) :
    (rebuild (g.parents.size + 2) g).2 = true :=
  rebuild_terminates g.parents.size g h hr (nRoots_le_size g) _ (Nat.le_refl _)

theorem OutsInRange.mono {g : EG} {n m : Nat} (h : OutsInRange g n) (hnm : n ≤ m) : OutsInRange g m :=
  fun f y hy => Nat.lt_of_lt_of_le (h f y hy) hnm

theorem uf_union_size_eq (p : UF.Parents) (a b : Nat) :
    (UF.union p a b).1.size = (UF.find (UF.find (UF.reserve (UF.reserve p a) b) a).1 b).1.size := by
  unfold UF.union
  simp only
  split <;> simp

theorem uf_union_size_ge (p : UF.Parents) (a b : Nat) (h : UF.AInv p) : p.size ≤ (UF.union p a b).1.size := by
  rw [uf_union_size_eq]
  have hr1 : UF.AInv (UF.reserve p a) := by intro y; rw [UF.par_reserve]; exact h y
  have hr2 : UF.AInv (UF.reserve (UF.reserve p a) b) := by intro y; rw [UF.par_reserve]; exact hr1 y
  have s0 := (UF.size_reserve p a).2
  have s1 := (UF.size_reserve (UF.reserve p a) b).2
  have f1 := (UF.find_spec (UF.reserve (UF.reserve p a) b) a hr2)
  have f2 := (UF.find_spec (UF.find (UF.reserve (UF.reserve p a) b) a).1 b f1.1)
  have s2 := f1.2.2.2.2
  have s3 := f2.2.2.2.2
  omega

/-- an explicit union keeps every stored output id inside the (possibly grown) union-find -/
theorem OutsInRange.union {g : EG} (h : g.WF) (hr : OutsInRange g g.parents.size) (a b : Int) :
    OutsInRange (g.union a b) (g.union a b).parents.size :=
  fun f y hy => Nat.lt_of_lt_of_le (hr f y (by simpa using hy)) (uf_union_size_ge g.parents a.toNat b.toNat h)

theorem OutsInRange.insertRow {g : EG} (h : g.WF) (hr : OutsInRange g g.parents.size) (f : Nat) (r : Row)
    (hro : r.out.toNat < g.parents.size) : (g.insertRow f r).parents.size = g.parents.size ∧
      OutsInRange (g.insertRow f r) g.parents.size := by
  obtain ⟨s1, s2⟩ := insertInto_size (g.decl f) (g.table f) g r h (by
    intro y hy
    simp only [List.mem_cons] at hy
    rcases hy with rfl | hy
    · exact hro
    · exact hr f y hy)
  obtain ⟨_, _, s3, _, _⟩ := insertInto_spec (g.decl f) (g.table f) g r h
  refine ⟨s1, ?_⟩
  intro f' y hy
  have hy' : y ∈ EG.table (EG.setTable (insertInto g (g.decl f) (g.table f) r).1 f (insertInto g (g.decl f) (g.table f) r).2) f' := hy
  rw [setTable_table] at hy'
  split at hy'
  · exact s2 y hy'
  · rw [table_congr s3] at hy'; exact hr f' y hy'

/-- a constructor call mints the next id of the union-find: still in range -/
theorem OutsInRange.lookupOrCreate {g : EG} (h : g.WF) (hr : OutsInRange g g.parents.size) (f : Nat) (args : List Int) :
    OutsInRange (g.lookupOrCreate f args).1 (g.lookupOrCreate f args).1.parents.size := by
  unfold EG.lookupOrCreate
  cases lookupRow (g.table f) args with
  | some r => exact hr
  | none =>
    simp only
    have hsz : g.freshId.1.parents.size = g.parents.size + 1 := by
      show (UF.reserve g.parents g.parents.size).size = _
      unfold UF.reserve
      simp
    have hr1 : OutsInRange g.freshId.1 g.freshId.1.parents.size := by
      intro f' y hy
      rw [hsz]
      exact Nat.lt_succ_of_lt (hr f' y hy)
    have hout : (Int.ofNat g.parents.size).toNat < g.freshId.1.parents.size := by rw [hsz]; simp
    obtain ⟨a, b⟩ := OutsInRange.insertRow (fresh_wf h) hr1 f ⟨args, Int.ofNat g.parents.size, false⟩ hout
    intro f' y hy
    have := b f' y hy
    have hs : (g.freshId.1.insertRow f ⟨args, Int.ofNat g.parents.size, false⟩).parents.size = g.freshId.1.parents.size := a
    show y.out.toNat < (g.freshId.1.insertRow f ⟨args, Int.ofNat g.parents.size, false⟩).parents.size
    rw [hs]; exact this

end EgglogVerif.EGraph
