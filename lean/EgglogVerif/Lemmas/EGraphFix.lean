import EgglogVerif.Lemmas.EGraph
/-
What the rebuild loop has established when it stops with the "fixpoint reached" flag: every
stored key is canonical, every stored output of an id-valued table is canonical, and every table
holds one row per key.
-/
namespace EgglogVerif.EGraph
open EgglogVerif

def ArgsCanon (g : EG) (fl : List Bool) (a : List Int) : Prop := canonArgs g fl a = a
def OutCanon (g : EG) (d : Decl) (o : Int) : Prop := d.outIsId = true → g.find o = o

/-- a representative of a coarser partition is a representative of the finer one -/
theorem find_fixed_coarser {g0 g : EG} (h0 : g0.WF) (h : g.WF) (c : Coarser g0 g) {v : Int}
    (hv : g.find v = v) : g0.find v = v := by
  have hz : v.toNat = g.rt v.toNat := by
    have := congrArg Int.toNat hv
    rw [find_toNat h] at this
    exact this.symm
  have hv' : v = Int.ofNat (g.rt v.toNat) := by rw [← find_eq h]; exact hv.symm
  rw [find_eq h0, hz, c.roots, ← hv']

theorem argsCanon_coarser {g0 g : EG} (h0 : g0.WF) (h : g.WF) (c : Coarser g0 g) {fl : List Bool} {a : List Int}
    (ha : ArgsCanon g fl a) : ArgsCanon g0 fl a := by
  unfold ArgsCanon at *
  apply List.ext_getElem
  · simp
  · intro i h1 h2
    rw [canonArgs_getElem]
    have hi : (canonArgs g fl a)[i]'(by simpa using h2) = a[i] := by simp only [ha]
    rw [canonArgs_getElem] at hi
    cases hb : fl.getD i false with
    | true =>
      simp only [hb, if_true] at hi ⊢
      exact find_fixed_coarser h0 h c hi
    | false => simp only [Bool.false_eq_true, if_false]

theorem outCanon_coarser {g0 g : EG} (h0 : g0.WF) (h : g.WF) (c : Coarser g0 g) {d : Decl} {o : Int}
    (ho : OutCanon g d o) : OutCanon g0 d o :=
  fun hd => find_fixed_coarser h0 h c (ho hd)

def RowCanon (g : EG) (d : Decl) (y : Row) : Prop := ArgsCanon g d.argIsId y.args ∧ OutCanon g d y.out

theorem canonRow_canon {g : EG} (h : g.WF) (d : Decl) (r : Row) : RowCanon g d (g.canonRow d r) := by
  refine ⟨canonArgs_idem h _ _, fun hd => ?_⟩
  show g.find (if d.outIsId then g.find r.out else r.out) = (if d.outIsId then g.find r.out else r.out)
  rw [hd]; simp only [if_true]; exact find_idem h _

theorem rbFold_canon {g0 : EG} (h0 : g0.WF) (d : Decl) : ∀ (todo : List Row) (acc : EG × List Row), acc.1.WF →
    Coarser g0 acc.1 → (∀ y ∈ acc.2, RowCanon g0 d y) →
    ∀ y' ∈ (todo.foldl (rbStep d) acc).2, RowCanon g0 d y' := by
  intro todo
  induction todo with
  | nil => intro acc _ _ hc; exact hc
  | cons r rs ih =>
    intro acc h c hc
    simp only [List.foldl_cons]
    have hstep : rbStep d acc r = insertInto acc.1 d acc.2 (acc.1.canonRow d r) := rfl
    obtain ⟨s1, s2, _, _, _⟩ := insertInto_spec d acc.2 acc.1 (acc.1.canonRow d r) h
    have hr : RowCanon g0 d (acc.1.canonRow d r) :=
      ⟨argsCanon_coarser h0 h c (canonRow_canon h d r).1, outCanon_coarser h0 h c (canonRow_canon h d r).2⟩
    have hall : ∀ y ∈ acc.1.canonRow d r :: acc.2, RowCanon g0 d y := by
      intro y hy
      simp only [List.mem_cons] at hy
      rcases hy with rfl | hy
      · exact hr
      · exact hc y hy
    refine ih (rbStep d acc r) (hstep ▸ s1) (c.trans (hstep ▸ s2)) ?_
    intro y' hy'
    obtain ⟨⟨ya, hya, ea⟩, ⟨yb, hyb, eb⟩⟩ := insertInto_mem d acc.2 acc.1 (acc.1.canonRow d r) y' (hstep ▸ hy')
    exact ⟨by unfold ArgsCanon; rw [ea]; exact (hall ya hya).1, by unfold OutCanon; rw [eb]; exact (hall yb hyb).2⟩

theorem rbFold_unique (d : Decl) : ∀ (todo : List Row) (acc : EG × List Row), UniqueKeys acc.2 →
    UniqueKeys (todo.foldl (rbStep d) acc).2 := by
  intro todo
  induction todo with
  | nil => intro acc h; exact h
  | cons r rs ih => intro acc h; exact ih _ (insertInto_unique acc.1 d acc.2 _ h)

/-- what one table pass leaves untouched -/
theorem rebuildTable_frame {g : EG} (h : g.WF) (f : Nat) :
    (rebuildTable g f).WF ∧ Coarser g (rebuildTable g f) ∧ (rebuildTable g f).decls = g.decls ∧
    (rebuildTable g f).tables.size = g.tables.size ∧ (∀ f', f' ≠ f → (rebuildTable g f).table f' = g.table f') := by
  rw [rebuildTable_eq]
  obtain ⟨s1, s2, s3, s4, _, _⟩ := rbFold_spec (g.decl f) (g.table f) (g, []) h
  refine ⟨s1, ⟨s2.eq, s2.roots⟩, s4, ?_, ?_⟩
  · rw [setTable_size, s3]
  · intro f' hne
    rw [setTable_table, if_neg (fun h => hne h.1)]
    exact table_congr s3 f'

structure TabCanon (g0 g1 : EG) (f : Nat) : Prop where
  rows : ∀ y ∈ g1.table f, RowCanon g0 (g0.decl f) y
  keys : UniqueKeys (g1.table f)

theorem rebuildTable_canon {g0 g : EG} (h0 : g0.WF) (h : g.WF) (c : Coarser g0 g) (hd : g.decls = g0.decls) (f : Nat) :
    TabCanon g0 (rebuildTable g f) f := by
  have hdf : g.decl f = g0.decl f := decl_congr hd f
  rw [rebuildTable_eq]
  obtain ⟨_, _, s3, _, _, _⟩ := rbFold_spec (g.decl f) (g.table f) (g, []) h
  by_cases hf : f < g.tables.size
  · have hsize : f < ((g.table f).foldl (rbStep (g.decl f)) (g, [])).1.tables.size := by rw [s3]; exact hf
    have htabf : (((g.table f).foldl (rbStep (g.decl f)) (g, [])).1.setTable f ((g.table f).foldl (rbStep (g.decl f)) (g, [])).2).table f
        = ((g.table f).foldl (rbStep (g.decl f)) (g, [])).2 := by
      rw [setTable_table, if_pos ⟨rfl, hsize⟩]
    constructor
    · intro y hy
      rw [htabf] at hy
      rw [← hdf]
      exact rbFold_canon h0 (g.decl f) (g.table f) (g, []) h c (fun y hy => by simp at hy) y hy
    · rw [htabf]
      exact rbFold_unique (g.decl f) (g.table f) (g, []) (by simp [UniqueKeys])
  · have hnil := table_of_ge g (Nat.le_of_not_lt hf)
    have ht : (((g.table f).foldl (rbStep (g.decl f)) (g, [])).1.setTable f ((g.table f).foldl (rbStep (g.decl f)) (g, [])).2).table f = [] := by
      rw [setTable_table, if_neg (fun h => hf (s3 ▸ h.2))]
      rw [hnil]; simp only [List.foldl_nil]; exact hnil
    constructor
    · intro y hy; rw [ht] at hy; simp at hy
    · rw [ht]; simp [UniqueKeys]

theorem rebuildTables_canon {g0 : EG} (h0 : g0.WF) : ∀ (fs : List Nat) (g : EG), fs.Nodup → g.WF → Coarser g0 g →
    g.decls = g0.decls →
    (fs.foldl rebuildTable g).WF ∧ Coarser g0 (fs.foldl rebuildTable g) ∧ (fs.foldl rebuildTable g).decls = g0.decls ∧
    (fs.foldl rebuildTable g).tables.size = g.tables.size ∧
    (∀ f, f ∉ fs → (fs.foldl rebuildTable g).table f = g.table f) ∧
    (∀ f, f ∈ fs → TabCanon g0 (fs.foldl rebuildTable g) f) := by
  intro fs
  induction fs with
  | nil => intro g _ h c hd; exact ⟨h, c, hd, rfl, fun _ _ => rfl, fun f hf => by simp at hf⟩
  | cons f fs ih =>
    intro g hn h c hd
    simp only [List.foldl_cons]
    rw [List.nodup_cons] at hn
    obtain ⟨r1, r2, r3, r4, r5⟩ := rebuildTable_frame h f
    obtain ⟨i1, i2, i3, i4, i5, i6⟩ := ih (rebuildTable g f) hn.2 r1 (c.trans r2) (r3.trans hd)
    refine ⟨i1, i2, i3, i4.trans r4, ?_, ?_⟩
    · intro f' hf'
      simp only [List.mem_cons, not_or] at hf'
      rw [i5 f' hf'.2, r5 f' hf'.1]
    · intro f' hf'
      simp only [List.mem_cons] at hf'
      by_cases he : f' = f
      · subst he
        have tc := rebuildTable_canon h0 h c hd f'
        have ht := i5 f' hn.1
        exact ⟨fun y hy => tc.rows y (ht ▸ hy), ht ▸ tc.keys⟩
      · rcases hf' with hf' | hf'
        · exact absurd hf' he
        · exact i6 f' hf'

/-- every stored key and id-valued output is canonical, one row per key -/
structure Canonical (g : EG) : Prop where
  rows : ∀ f, ∀ y ∈ g.table f, RowCanon g (g.decl f) y
  keys : ∀ f, UniqueKeys (g.table f)

/-- **a pass that leaves the tables as they were proves they were canonical** -/
theorem rebuildPass_fix {g : EG} (h : g.WF) (ht : (rebuildPass g).tables = g.tables) : Canonical g := by
  obtain ⟨_, _, _, _, _, i6⟩ := rebuildTables_canon h (List.range g.tables.size) g List.nodup_range h (Coarser.refl h) rfl
  have htab : ∀ f, (rebuildPass g).table f = g.table f := fun f => table_congr ht f
  constructor
  · intro f y hy
    by_cases hf : f < g.tables.size
    · exact (i6 f (List.mem_range.mpr hf)).rows y (by rw [← htab f] at hy; exact hy)
    · rw [table_of_ge g (Nat.le_of_not_lt hf)] at hy; simp at hy
  · intro f
    by_cases hf : f < g.tables.size
    · have := (i6 f (List.mem_range.mpr hf)).keys
      rw [← htab f]; exact this
    · rw [table_of_ge g (Nat.le_of_not_lt hf)]; simp [UniqueKeys]

theorem rebuildPass_frame {g : EG} (h : g.WF) :
    (rebuildPass g).WF ∧ Coarser g (rebuildPass g) ∧ (rebuildPass g).decls = g.decls := by
  obtain ⟨i1, i2, i3, _, _, _⟩ := rebuildTables_canon h (List.range g.tables.size) g List.nodup_range h (Coarser.refl h) rfl
  exact ⟨i1, i2, i3⟩

theorem sameAs_spec {a b : EG} (ha : a.WF) (hb : b.WF) (h : a.sameAs b = true) :
    a.tables = b.tables ∧ ∀ x, a.rt x = b.rt x := by
  unfold EG.sameAs at h
  simp only [Bool.and_eq_true, beq_iff_eq, List.all_eq_true, List.mem_range] at h
  obtain ⟨h1, h2⟩ := h
  refine ⟨Array.ext' h1, fun x => ?_⟩
  by_cases hx : x < max a.parents.size b.parents.size
  · have := h2 x hx
    rw [UF.findNaive_eq ha, UF.findNaive_eq hb] at this
    exact this
  · have hxa : a.parents.size ≤ x := by omega
    have hxb : b.parents.size ≤ x := by omega
    show UF.root _ x = UF.root _ x
    rw [UF.root_of_fix ha (UF.par_ge_size hxa), UF.root_of_fix hb (UF.par_ge_size hxb)]

theorem Canonical.congr {g g' : EG} (c : Canonical g) (h : g.WF) (h' : g'.WF) (ht : g'.tables = g.tables)
    (hd : g'.decls = g.decls) (hrt : ∀ x, g'.rt x = g.rt x) : Canonical g' := by
  have htab : ∀ f, g'.table f = g.table f := fun f => table_congr ht f
  have hdec : ∀ f, g'.decl f = g.decl f := fun f => decl_congr hd f
  have hfind : ∀ v, g'.find v = g.find v := fun v => by rw [find_eq h', find_eq h, hrt]
  have hcan : ∀ fl a, canonArgs g' fl a = canonArgs g fl a := by
    intro fl a
    unfold canonArgs
    congr 1
    funext i v
    rw [hfind]
  constructor
  · intro f y hy
    rw [htab f] at hy
    obtain ⟨c1, c2⟩ := c.rows f y hy
    rw [hdec f]
    exact ⟨by unfold ArgsCanon at *; rw [hcan]; exact c1, fun ho => by rw [hfind]; exact c2 ho⟩
  · intro f; rw [htab f]; exact c.keys f

/-- **The rebuild loop, when it reports a fixpoint, returns a canonical database.** -/
theorem rebuild_canonical : ∀ (fuel : Nat) (g : EG), g.WF → (rebuild fuel g).2 = true →
    Canonical (rebuild fuel g).1 ∧ (rebuild fuel g).1.WF := by
  intro fuel
  induction fuel with
  | zero => intro g _ hf; simp [rebuild] at hf
  | succ n ih =>
    intro g h hf
    simp only [rebuild] at hf ⊢
    obtain ⟨w, _, d⟩ := rebuildPass_frame h
    split
    · rename_i hs
      obtain ⟨t1, t2⟩ := sameAs_spec w h hs
      exact ⟨(rebuildPass_fix h t1).congr h w t1 d t2, w⟩
    · rename_i hs
      simp only [hs] at hf
      exact ih (rebuildPass g) w hf

/-! ### a canonical database is a fixpoint of the pass -/

theorem canonRow_of_canon {g : EG} {d : Decl} {y : Row} (c : RowCanon g d y) : g.canonRow d y = y := by
  obtain ⟨c1, c2⟩ := c
  unfold ArgsCanon at c1
  unfold OutCanon at c2
  unfold EG.canonRow
  rw [c1]
  cases hd : d.outIsId with
  | true => simp only [if_true]; rw [c2 hd]
  | false => simp only [Bool.false_eq_true, if_false]

/-- inserting a row whose key is not there yet appends it and touches nothing else -/
theorem insertInto_fresh (g : EG) (d : Decl) : ∀ (rows : List Row) (r : Row), (∀ x ∈ rows, x.args ≠ r.args) →
    insertInto g d rows r = (g, rows ++ [r]) := by
  intro rows
  induction rows with
  | nil => intro r _; rfl
  | cons x xs ih =>
    intro r h
    simp only [insertInto]
    rw [if_neg (h x List.mem_cons_self)]
    rw [ih r (fun y hy => h y (List.mem_cons_of_mem _ hy))]
    rfl

theorem rbFold_canon_id (g : EG) (d : Decl) : ∀ (todo done : List Row), (∀ y ∈ todo, RowCanon g d y) →
    UniqueKeys (done ++ todo) → todo.foldl (rbStep d) (g, done) = (g, done ++ todo) := by
  intro todo
  induction todo with
  | nil => intro done _ _; simp
  | cons y ys ih =>
    intro done hc hu
    simp only [List.foldl_cons]
    have hstep : rbStep d (g, done) y = (g, done ++ [y]) := by
      show insertInto g d done (g.canonRow d y) = _
      rw [canonRow_of_canon (hc y List.mem_cons_self)]
      apply insertInto_fresh
      intro x hx
      unfold UniqueKeys at hu
      rw [List.pairwise_append] at hu
      exact hu.2.2 x hx y List.mem_cons_self
    rw [hstep]
    have := ih (done ++ [y]) (fun z hz => hc z (List.mem_cons_of_mem _ hz)) (by simpa using hu)
    rw [this]; simp

theorem setTable_self (g : EG) (f : Nat) : g.setTable f (g.table f) = g := by
  unfold EG.setTable
  by_cases hf : f < g.tables.size
  · have : g.tables.set! f (g.table f) = g.tables := by
      apply Array.ext
      · simp
      · intro i h1 h2
        unfold EG.table
        simp only [Array.set!_eq_setIfInBounds]
        by_cases he : f = i
        · subst he
          rw [Array.getElem_setIfInBounds_self]
          simp [Array.getD, hf]
        · rw [Array.getElem_setIfInBounds_ne h2 he]
    simp only [hf, if_true, this]
  · simp only [hf, if_false]

/-- **Rebuilding a canonical database changes nothing** (not the tables, not the union-find): the
state a command leaves behind is a fixpoint of the rebuild. -/
theorem rebuildTable_canonical_id {g : EG} (c : Canonical g) (f : Nat) : rebuildTable g f = g := by
  rw [rebuildTable_eq]
  have := rbFold_canon_id g (g.decl f) (g.table f) [] (c.rows f) (by simpa using c.keys f)
  rw [this]
  simp only [List.nil_append]
  exact setTable_self g f

theorem rebuildPass_canonical_id {g : EG} (c : Canonical g) : rebuildPass g = g := by
  unfold rebuildPass
  have key : ∀ (fs : List Nat), fs.foldl rebuildTable g = g := by
    intro fs
    induction fs with
    | nil => rfl
    | cons f fs ih => simp only [List.foldl_cons]; rw [rebuildTable_canonical_id c f]; exact ih
  exact key _

end EgglogVerif.EGraph
