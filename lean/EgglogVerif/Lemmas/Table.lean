import EgglogVerif.Model.Table
/-
Helper lemmas for C16: the well-formedness invariant of the table model and its preservation
by the single-row steps and by compaction.
-/
namespace EgglogVerif.Table

/-- live rows of a row buffer -/
def live (l : List (Option Row)) : List Row := l.filterMap id

theorem mem_live_iff {l : List (Option Row)} {r : Row} : r ∈ live l ↔ ∃ i : Nat, l[i]? = some (some r) := by
  unfold live
  rw [List.mem_filterMap]
  constructor
  · rintro ⟨a, ha, hid⟩
    simp only [id] at hid
    subst hid
    obtain ⟨i, hi, hget⟩ := List.getElem_of_mem ha
    exact ⟨i, by rw [List.getElem?_eq_getElem hi, hget]⟩
  · rintro ⟨i, hi⟩
    exact ⟨some r, List.mem_of_getElem? hi, rfl⟩

theorem live_set_none_sublist : ∀ (l : List (Option Row)) (i : Nat), (live (l.set i none)).Sublist (live l) := by
  intro l
  induction l with
  | nil => intro i; simp [live]
  | cons a l ih =>
    intro i
    cases i with
    | zero =>
      cases a with
      | none => simp [live]
      | some r => simp [live, List.filterMap_cons]
    | succ i =>
      cases a with
      | none => simpa [live, List.filterMap_cons] using ih i
      | some r => simpa [live, List.filterMap_cons] using (ih i)

theorem live_append (a b : List (Option Row)) : live (a ++ b) = live a ++ live b := by
  simp [live, List.filterMap_append]

/-- **The invariant**: the hash index is exactly the set of live rows, one per key. -/
structure WF (t : Table) : Prop where
  sync : ∀ k i, t.hash k = some i ↔ ∃ r, t.rows[i]? = some (some r) ∧ keyOf t.nKeys r = k
  nodupKeys : ((live t.rows).map (keyOf t.nKeys)).Nodup

theorem WF.empty (n : Nat) : WF (Table.empty n) :=
  ⟨fun k i => by simp [Table.empty], by simp [Table.empty, live]⟩

theorem WF.inj {t : Table} (h : WF t) {k k' : Key} {i : Nat} (h1 : t.hash k = some i) (h2 : t.hash k' = some i) :
    k = k' := by
  obtain ⟨r, hr, hk⟩ := (h.sync k i).mp h1
  obtain ⟨r', hr', hk'⟩ := (h.sync k' i).mp h2
  rw [hr] at hr'; cases hr'
  rw [← hk, ← hk']

/-- point lookups see exactly the live rows -/
theorem getRow_iff {t : Table} (h : WF t) (k : Key) (r : Row) :
    t.getRow k = some r ↔ r ∈ t.scan ∧ keyOf t.nKeys r = k := by
  unfold Table.getRow Table.scan
  constructor
  · intro hg
    cases hh : t.hash k with
    | none => rw [hh] at hg; cases hg
    | some i =>
      rw [hh] at hg
      simp only [Option.bind_some, Table.rowAt] at hg
      obtain ⟨r', hr', hk⟩ := (h.sync k i).mp hh
      rw [hr'] at hg
      simp only [Option.join_some] at hg
      cases hg
      exact ⟨mem_live_iff.mpr ⟨i, hr'⟩, hk⟩
  · rintro ⟨hm, hk⟩
    obtain ⟨i, hi⟩ := mem_live_iff.mp hm
    have := (h.sync k i).mpr ⟨r, hi, hk⟩
    rw [this]
    simp [Table.rowAt, hi]

/-- two well-formed tables with the same live rows answer every lookup alike -/
theorem getRow_congr {t t' : Table} (h : WF t) (h' : WF t') (hn : t.nKeys = t'.nKeys)
    (hs : ∀ r, r ∈ t'.scan ↔ r ∈ t.scan) (k : Key) : t'.getRow k = t.getRow k := by
  cases hg : t.getRow k with
  | some r =>
    have := (getRow_iff h k r).mp hg
    exact (getRow_iff h' k r).mpr ⟨(hs r).mpr this.1, hn ▸ this.2⟩
  | none =>
    cases hg' : t'.getRow k with
    | none => rfl
    | some r' =>
      have := (getRow_iff h' k r').mp hg'
      have := (getRow_iff h k r').mpr ⟨(hs r').mp this.1, hn ▸ this.2⟩
      rw [hg] at this; cases this

/-! ### deleteOne -/

theorem deleteOne_spec {t : Table} (h : WF t) (k : Key) :
    WF (t.deleteOne k) ∧ (t.deleteOne k).nKeys = t.nKeys ∧
      ∀ k', (t.deleteOne k).getRow k' = if k' = k then none else t.getRow k' := by
  unfold Table.deleteOne
  cases hh : t.hash k with
  | none =>
    refine ⟨h, rfl, fun k' => ?_⟩
    by_cases hk : k' = k
    · subst hk; simp [Table.getRow, hh]
    · simp [hk]
  | some i =>
    obtain ⟨r0, hr0, hk0⟩ := (h.sync k i).mp hh
    have hilt : i < t.rows.length := by
      cases hl : t.rows[i]? with
      | none => rw [hl] at hr0; cases hr0
      | some _ => exact (List.getElem?_eq_some_iff.mp hl).1
    refine ⟨⟨fun k' i' => ?_, ?_⟩, rfl, fun k' => ?_⟩
    · simp only
      constructor
      · intro hk'
        by_cases hkk : k' = k
        · simp [hkk] at hk'
        · simp only [hkk, if_false] at hk'
          obtain ⟨r, hr, hkr⟩ := (h.sync k' i').mp hk'
          have hne : i ≠ i' := by
            intro e; subst e
            exact hkk (h.inj hk' hh)
          exact ⟨r, by rw [List.getElem?_set_ne hne]; exact hr, hkr⟩
      · rintro ⟨r, hr, hkr⟩
        have hne : i ≠ i' := by
          intro e; subst e
          rw [List.getElem?_set_self hilt] at hr; cases hr
        rw [List.getElem?_set_ne hne] at hr
        have hk' := (h.sync k' i').mpr ⟨r, hr, hkr⟩
        have hkk : k' ≠ k := by
          intro e; subst e
          rw [hh] at hk'; cases hk'; exact hne rfl
        simp [hkk, hk']
    · exact (h.nodupKeys.sublist ((live_set_none_sublist t.rows i).map _))
    · simp only [Table.getRow]
      by_cases hkk : k' = k
      · simp [hkk]
      · simp only [hkk, if_false]
        cases hk' : t.hash k' with
        | none => rfl
        | some i' =>
          have hne : i ≠ i' := by
            intro e; subst e
            exact hkk (h.inj hk' hh)
          simp [Table.rowAt, List.getElem?_set_ne hne]

/-! ### insertOne -/

/-- what an insertion does to the key → row map -/
def upsert (n : Nat) (m : Row → Row → Option Row) (f : Key → Option Row) (r : Row) : Key → Option Row :=
  fun k' => if k' = keyOf n r then
      some (match f k' with
        | none => r
        | some cur => (m cur r).getD cur)
    else f k'

theorem insertOne_spec {m : Row → Row → Option Row} {t : Table} (h : WF t)
    (hm : ∀ cur new merged, m cur new = some merged → keyOf t.nKeys merged = keyOf t.nKeys cur) (r : Row) :
    WF (t.insertOne m r) ∧ (t.insertOne m r).nKeys = t.nKeys ∧
      ∀ k', (t.insertOne m r).getRow k' = upsert t.nKeys m t.getRow r k' := by
  unfold Table.insertOne
  simp only
  cases hh : t.hash (keyOf t.nKeys r) with
  | none =>
    have hnotlive : ∀ r', r' ∈ live t.rows → keyOf t.nKeys r' ≠ keyOf t.nKeys r := by
      intro r' hr' e
      obtain ⟨i, hi⟩ := mem_live_iff.mp hr'
      have := (h.sync _ i).mpr ⟨r', hi, e⟩
      rw [hh] at this; cases this
    refine ⟨⟨fun k' i' => ?_, ?_⟩, rfl, fun k' => ?_⟩
    · simp only
      constructor
      · intro hk'
        by_cases hkk : k' = keyOf t.nKeys r
        · simp only [hkk, if_true, Option.some.injEq] at hk'
          subst hk'
          exact ⟨r, by simp, hkk.symm⟩
        · simp only [hkk, if_false] at hk'
          obtain ⟨r', hr', hkr⟩ := (h.sync k' i').mp hk'
          have hlt : i' < t.rows.length := (List.getElem?_eq_some_iff.mp hr').1
          exact ⟨r', by rw [List.getElem?_append_left hlt]; exact hr', hkr⟩
      · rintro ⟨r', hr', hkr⟩
        by_cases hlt : i' < t.rows.length
        · rw [List.getElem?_append_left hlt] at hr'
          have hk' := (h.sync k' i').mpr ⟨r', hr', hkr⟩
          have hkk : k' ≠ keyOf t.nKeys r := by
            intro e; rw [e, hh] at hk'; cases hk'
          simp [hkk, hk']
        · have hge : t.rows.length ≤ i' := Nat.le_of_not_lt hlt
          rw [List.getElem?_append_right hge] at hr'
          have hz : i' - t.rows.length = 0 := by
            cases hd : i' - t.rows.length with
            | zero => rfl
            | succ d => rw [hd] at hr'; simp at hr'
          rw [hz] at hr'
          simp only [List.getElem?_cons_zero, Option.some.injEq] at hr'
          subst hr'
          have : i' = t.rows.length := by omega
          simp [← hkr, this]
    · simp only
      rw [live_append, List.map_append]
      have : live [some r] = [r] := by simp [live]
      rw [this]
      simp only [List.map_cons, List.map_nil]
      rw [List.nodup_append]
      refine ⟨h.nodupKeys, by simp, ?_⟩
      intro a ha b hb
      simp only [List.mem_singleton] at hb
      subst hb
      obtain ⟨r', hr', rfl⟩ := List.mem_map.mp ha
      exact hnotlive r' hr'
    · simp only [Table.getRow, upsert]
      by_cases hkk : k' = keyOf t.nKeys r
      · subst hkk
        simp [hh, Table.rowAt]
      · simp only [hkk, if_false]
        cases hk' : t.hash k' with
        | none => rfl
        | some i' =>
          obtain ⟨r', hr', _⟩ := (h.sync k' i').mp hk'
          have hlt : i' < t.rows.length := (List.getElem?_eq_some_iff.mp hr').1
          simp [Table.rowAt, List.getElem?_append_left hlt]
  | some i =>
    obtain ⟨cur, hcur, hkcur⟩ := (h.sync _ i).mp hh
    have hrow : t.rowAt i = some cur := by simp [Table.rowAt, hcur]
    have hilt : i < t.rows.length := (List.getElem?_eq_some_iff.mp hcur).1
    simp only [hrow]
    cases hmr : m cur r with
    | none =>
      refine ⟨h, rfl, fun k' => ?_⟩
      simp only [upsert]
      by_cases hkk : k' = keyOf t.nKeys r
      · subst hkk
        simp [Table.getRow, hh, hrow, hmr]
      · simp [hkk]
    | some merged =>
      have hkm : keyOf t.nKeys merged = keyOf t.nKeys r := (hm _ _ _ hmr).trans hkcur
      have hlen : (t.rows.set i none).length = t.rows.length := by simp
      refine ⟨⟨fun k' i' => ?_, ?_⟩, rfl, fun k' => ?_⟩
      · simp only
        constructor
        · intro hk'
          by_cases hkk : k' = keyOf t.nKeys r
          · simp only [hkk, if_true, Option.some.injEq] at hk'
            subst hk'
            refine ⟨merged, ?_, by rw [hkm, hkk]⟩
            rw [List.getElem?_append_right (by simp)]
            simp
          · simp only [hkk, if_false] at hk'
            obtain ⟨r', hr', hkr⟩ := (h.sync k' i').mp hk'
            have hlt : i' < t.rows.length := (List.getElem?_eq_some_iff.mp hr').1
            have hne : i ≠ i' := by
              intro e; subst e
              exact hkk (h.inj hk' hh)
            refine ⟨r', ?_, hkr⟩
            rw [List.getElem?_append_left (by simpa using hlt), List.getElem?_set_ne hne]
            exact hr'
        · rintro ⟨r', hr', hkr⟩
          by_cases hlt : i' < t.rows.length
          · rw [List.getElem?_append_left (by simpa using hlt)] at hr'
            have hne : i ≠ i' := by
              intro e; subst e
              rw [List.getElem?_set_self hilt] at hr'; cases hr'
            rw [List.getElem?_set_ne hne] at hr'
            have hk' := (h.sync k' i').mpr ⟨r', hr', hkr⟩
            have hkk : k' ≠ keyOf t.nKeys r := by
              intro e; rw [e, hh] at hk'; cases hk'; exact hne rfl
            simp [hkk, hk']
          · have hge : (t.rows.set i none).length ≤ i' := by simpa using Nat.le_of_not_lt hlt
            rw [List.getElem?_append_right hge] at hr'
            have hz : i' - (t.rows.set i none).length = 0 := by
              cases hd : i' - (t.rows.set i none).length with
              | zero => rfl
              | succ d => rw [hd] at hr'; simp at hr'
            rw [hz] at hr'
            simp only [List.getElem?_cons_zero, Option.some.injEq] at hr'
            subst hr'
            have : i' = t.rows.length := by simp at hz hge; omega
            simp [← hkr, hkm, this]
      · simp only
        rw [live_append, List.map_append]
        have : live [some merged] = [merged] := by simp [live]
        rw [this]
        simp only [List.map_cons, List.map_nil]
        rw [List.nodup_append]
        refine ⟨h.nodupKeys.sublist ((live_set_none_sublist t.rows i).map _), by simp, ?_⟩
        intro a ha b hb
        simp only [List.mem_singleton] at hb
        subst hb
        obtain ⟨r', hr', rfl⟩ := List.mem_map.mp ha
        obtain ⟨i', hi'⟩ := mem_live_iff.mp hr'
        intro e
        have hne : i ≠ i' := by
          intro e'; subst e'
          have hl : i < t.rows.length := hilt
          rw [List.getElem?_set_self hl] at hi'; cases hi'
        rw [List.getElem?_set_ne hne] at hi'
        have := (h.sync _ i').mpr ⟨r', hi', e.trans hkm⟩
        rw [hh] at this; cases this; exact hne rfl
      · simp only [Table.getRow, upsert]
        by_cases hkk : k' = keyOf t.nKeys r
        · subst hkk
          simp only [if_true, hh, Option.bind_some, hrow, hmr, Option.getD_some]
          simp [Table.rowAt]
        · simp only [hkk, if_false]
          cases hk' : t.hash k' with
          | none => rfl
          | some i' =>
            obtain ⟨r', hr', _⟩ := (h.sync k' i').mp hk'
            have hlt : i' < t.rows.length := (List.getElem?_eq_some_iff.mp hr').1
            have hne : i ≠ i' := by
              intro e; subst e
              exact hkk (h.inj hk' hh)
            simp [Table.rowAt, List.getElem?_append_left (show i' < (t.rows.set i none).length by simpa using hlt),
              List.getElem?_set_ne hne]

/-! ### compaction -/

theorem compactLoop_rows (n : Nat) : ∀ (rest out : List (Option Row)) (h : Key → Option Nat),
    (compactLoop n rest out h).1 = out ++ (live rest).map some := by
  intro rest
  induction rest with
  | nil => intro out h; simp [compactLoop, live]
  | cons a rest ih =>
    intro out h
    cases a with
    | none => simp only [compactLoop]; rw [ih]; simp [live]
    | some r => simp only [compactLoop]; rw [ih]; simp [live, List.append_assoc]

/-- loop invariant of compaction, stated on the list `P` of rows already copied -/
theorem compactLoop_hash (n : Nat) : ∀ (rest : List (Option Row)) (P : List Row) (h : Key → Option Nat),
    ((P ++ live rest).map (keyOf n)).Nodup →
    (∀ j r, P[j]? = some r → h (keyOf n r) = some j) →
    (∀ k j, h k = some j → (∃ r, P[j]? = some r ∧ keyOf n r = k) ∨ (∃ r ∈ live rest, keyOf n r = k)) →
    let res := compactLoop n rest (P.map some) h
    ∀ k j, res.2 k = some j ↔ ∃ r, (P ++ live rest)[j]? = some r ∧ keyOf n r = k := by
  intro rest
  induction rest with
  | nil =>
    intro P h _ h2 h3
    simp only [compactLoop, live, List.filterMap_nil, List.append_nil]
    intro k j
    constructor
    · intro hk
      rcases h3 k j hk with ⟨r, hr, hkr⟩ | ⟨r, hr, _⟩
      · exact ⟨r, hr, hkr⟩
      · simp [live] at hr
    · rintro ⟨r, hr, hkr⟩
      rw [← hkr]; exact h2 j r hr
  | cons a rest ih =>
    intro P h h1 h2 h3
    cases a with
    | none =>
      simp only [compactLoop]
      have : live (none :: rest) = live rest := by simp [live]
      rw [this] at h1 h3 ⊢
      exact ih P h h1 h2 h3
    | some r =>
      simp only [compactLoop]
      have hl : live (some r :: rest) = r :: live rest := by simp [live]
      rw [hl] at h1 h3 ⊢
      have hassoc : P ++ r :: live rest = (P ++ [r]) ++ live rest := by simp
      rw [hassoc] at h1 ⊢
      have hmap : (P.map some ++ [some r]) = (P ++ [r]).map some := by simp
      rw [hmap]
      have hlen : (P.map some).length = P.length := by simp
      rw [hlen]
      apply ih (P ++ [r]) _ h1
      · intro j r' hr'
        by_cases hj : j < P.length
        · rw [List.getElem?_append_left hj] at hr'
          have hne : keyOf n r' ≠ keyOf n r := by
            intro e
            -- r' ∈ P at position j, r right after P: same key contradicts Nodup
            have hnd := h1
            rw [List.map_append, List.map_append] at hnd
            have hnd1 := (List.nodup_append.mp hnd).1
            have := (List.nodup_append.mp hnd1).2.2 (keyOf n r') (List.mem_map.mpr ⟨r', List.mem_of_getElem? hr', rfl⟩)
              (keyOf n r) (by simp)
            exact this e
          simp [hne, h2 j r' hr']
        · have hge : P.length ≤ j := Nat.le_of_not_lt hj
          rw [List.getElem?_append_right hge] at hr'
          have hz : j - P.length = 0 := by
            cases hd : j - P.length with
            | zero => rfl
            | succ d => rw [hd] at hr'; simp at hr'
          rw [hz] at hr'
          simp only [List.getElem?_cons_zero, Option.some.injEq] at hr'
          subst hr'
          have : j = P.length := by omega
          simp [this]
      · intro k j hk
        by_cases hkk : k = keyOf n r
        · simp only [hkk, if_true, Option.some.injEq] at hk
          subst hk
          exact Or.inl ⟨r, by simp, hkk.symm⟩
        · simp only [hkk, if_false] at hk
          rcases h3 k j hk with ⟨r', hr', hkr⟩ | ⟨r', hr', hkr⟩
          · have hlt : j < P.length := (List.getElem?_eq_some_iff.mp hr').1
            exact Or.inl ⟨r', by rw [List.getElem?_append_left hlt]; exact hr', hkr⟩
          · rcases List.mem_cons.mp hr' with rfl | hr''
            · exact absurd hkr.symm hkk
            · exact Or.inr ⟨r', hr'', hkr⟩

theorem rehash_spec {t : Table} (h : WF t) :
    WF t.rehash ∧ t.rehash.nKeys = t.nKeys ∧ t.rehash.scan = t.scan ∧
      (∀ o ∈ t.rehash.rows, o ≠ none) ∧ (∀ k, t.rehash.getRow k = t.getRow k) := by
  have hrows : t.rehash.rows = (live t.rows).map some := by
    simp only [Table.rehash]
    have := compactLoop_rows t.nKeys t.rows [] t.hash
    simpa using this
  have hscan : t.rehash.scan = t.scan := by
    simp only [Table.scan, hrows]
    simp [live, List.filterMap_map]
  have hsync := compactLoop_hash t.nKeys t.rows [] t.hash (by simpa using h.nodupKeys) (by simp)
    (fun k j hk => by
      obtain ⟨r, hr, hkr⟩ := (h.sync k j).mp hk
      exact Or.inr ⟨r, mem_live_iff.mpr ⟨j, hr⟩, hkr⟩)
  have hwf : WF t.rehash := by
    refine ⟨fun k i => ?_, ?_⟩
    · have := hsync k i
      simp only [List.map_nil, List.nil_append] at this
      simp only [Table.rehash]
      rw [this]
      have hr2 : (compactLoop t.nKeys t.rows [] t.hash).1 = (live t.rows).map some := by
        simpa using compactLoop_rows t.nKeys t.rows [] t.hash
      rw [hr2]
      constructor
      · rintro ⟨r, hr, hk⟩; exact ⟨r, by simp [List.getElem?_map, hr], hk⟩
      · rintro ⟨r, hr, hk⟩
        rw [List.getElem?_map] at hr
        cases hl : (live t.rows)[i]? with
        | none => rw [hl] at hr; cases hr
        | some r' => rw [hl] at hr; simp at hr; subst hr; exact ⟨r', rfl, hk⟩
    · have : live t.rehash.rows = live t.rows := by
        have := hscan; simpa [Table.scan, live] using this
      show ((live t.rehash.rows).map (keyOf t.nKeys)).Nodup
      rw [this]; exact h.nodupKeys
  refine ⟨hwf, rfl, hscan, ?_, ?_⟩
  · intro o ho hnone
    rw [hrows] at ho
    obtain ⟨r, _, hr⟩ := List.mem_map.mp ho
    rw [hnone] at hr; cases hr
  · exact getRow_congr h hwf rfl (fun r => by rw [hscan])

end EgglogVerif.Table
