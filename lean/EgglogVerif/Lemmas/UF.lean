import EgglogVerif.Model.UF
/-
Helper lemmas for C17: theory of "parent ≤ child" forests over `Nat → Nat`,
and the refinement from the array model to it.
-/
namespace EgglogVerif.UF

/-- Invariant: every parent pointer is ≤ the node. -/
def FInv (f : Nat → Nat) : Prop := ∀ x, f x ≤ x

def rootF (f : Nat → Nat) : Nat → Nat → Nat
  | 0, x => x
  | n + 1, x => if f x = x then x else rootF f n (f x)

/-- the representative of `x` in forest `f` -/
def root (f : Nat → Nat) (x : Nat) : Nat := rootF f x x

theorem rootF_fuel {f : Nat → Nat} (h : FInv f) :
    ∀ n m x, x ≤ n → x ≤ m → rootF f n x = rootF f m x := by
  intro n
  induction n with
  | zero =>
    intro m x hx _
    have hx0 : x = 0 := by omega
    subst hx0
    cases m with
    | zero => rfl
    | succ m =>
      have : f 0 = 0 := Nat.le_zero.mp (h 0)
      simp [rootF, this]
  | succ n ih =>
    intro m x hxn hxm
    cases m with
    | zero =>
      have hx0 : x = 0 := by omega
      subst hx0
      have : f 0 = 0 := Nat.le_zero.mp (h 0)
      simp [rootF, this]
    | succ m =>
      simp only [rootF]
      split
      · rfl
      · rename_i hne
        have : f x < x := Nat.lt_of_le_of_ne (h x) hne
        exact ih m (f x) (by omega) (by omega)

theorem root_unfold {f : Nat → Nat} (h : FInv f) (x : Nat) :
    root f x = if f x = x then x else root f (f x) := by
  unfold root
  cases x with
  | zero =>
    have : f 0 = 0 := Nat.le_zero.mp (h 0)
    simp [rootF, this]
  | succ x =>
    simp only [rootF]
    split
    · rfl
    · rename_i hne
      have : f (x + 1) < x + 1 := Nat.lt_of_le_of_ne (h _) hne
      exact rootF_fuel h _ _ _ (by omega) (Nat.le_refl _)

theorem root_of_fix {f : Nat → Nat} (h : FInv f) {x : Nat} (hx : f x = x) : root f x = x := by
  rw [root_unfold h, if_pos hx]

theorem root_step {f : Nat → Nat} (h : FInv f) (x : Nat) : root f (f x) = root f x := by
  by_cases hx : f x = x
  · rw [hx]
  · rw [root_unfold h x, if_neg hx]

theorem root_le {f : Nat → Nat} (h : FInv f) : ∀ x, root f x ≤ x := by
  intro x
  induction x using Nat.strongRecOn with
  | _ x ih =>
    rw [root_unfold h]
    split
    · exact Nat.le_refl _
    · rename_i hne
      have hlt : f x < x := Nat.lt_of_le_of_ne (h x) hne
      exact Nat.le_trans (ih _ hlt) (Nat.le_of_lt hlt)

theorem root_is_fix {f : Nat → Nat} (h : FInv f) : ∀ x, f (root f x) = root f x := by
  intro x
  induction x using Nat.strongRecOn with
  | _ x ih =>
    rw [root_unfold h]
    split
    · assumption
    · rename_i hne
      exact ih _ (Nat.lt_of_le_of_ne (h x) hne)

theorem root_idem {f : Nat → Nat} (h : FInv f) (x : Nat) : root f (root f x) = root f x :=
  root_of_fix h (root_is_fix h x)

/-- `c` lies on the path from `x` to its root. -/
def onPathF (f : Nat → Nat) (c : Nat) : Nat → Nat → Bool
  | 0, x => x == c
  | n + 1, x => x == c || (if f x = x then false else onPathF f c n (f x))

def onPath (f : Nat → Nat) (c x : Nat) : Bool := onPathF f c x x

theorem onPathF_fuel {f : Nat → Nat} (h : FInv f) (c : Nat) :
    ∀ n m x, x ≤ n → x ≤ m → onPathF f c n x = onPathF f c m x := by
  intro n
  induction n with
  | zero =>
    intro m x hx _
    have hx0 : x = 0 := by omega
    subst hx0
    cases m with
    | zero => rfl
    | succ m =>
      have : f 0 = 0 := Nat.le_zero.mp (h 0)
      simp [onPathF, this]
  | succ n ih =>
    intro m x hxn hxm
    cases m with
    | zero =>
      have hx0 : x = 0 := by omega
      subst hx0
      have : f 0 = 0 := Nat.le_zero.mp (h 0)
      simp [onPathF, this]
    | succ m =>
      simp only [onPathF]
      split
      · rfl
      · rename_i hne
        have : f x < x := Nat.lt_of_le_of_ne (h x) hne
        rw [ih m (f x) (by omega) (by omega)]

theorem onPath_unfold {f : Nat → Nat} (h : FInv f) (c x : Nat) :
    onPath f c x = (x == c || (if f x = x then false else onPath f c (f x))) := by
  unfold onPath
  cases x with
  | zero =>
    have : f 0 = 0 := Nat.le_zero.mp (h 0)
    simp [onPathF, this]
  | succ x =>
    simp only [onPathF]
    split
    · rfl
    · rename_i hne
      have : f (x + 1) < x + 1 := Nat.lt_of_le_of_ne (h _) hne
      rw [onPathF_fuel h c _ _ _ (by omega) (Nat.le_refl _)]

/-- everything on the path of `x` is ≤ `x` -/
theorem onPath_le {f : Nat → Nat} (h : FInv f) (c : Nat) : ∀ x, onPath f c x = true → c ≤ x := by
  intro x
  induction x using Nat.strongRecOn with
  | _ x ih =>
    rw [onPath_unfold h]
    intro hp
    simp only [Bool.or_eq_true, beq_iff_eq] at hp
    rcases hp with hp | hp
    · omega
    · split at hp
      · cases hp
      · rename_i hne
        have hlt : f x < x := Nat.lt_of_le_of_ne (h x) hne
        have := ih _ hlt hp
        omega

/-- if `c` is on the path of `x` they have the same root -/
theorem onPath_root {f : Nat → Nat} (h : FInv f) (c : Nat) :
    ∀ x, onPath f c x = true → root f x = root f c := by
  intro x
  induction x using Nat.strongRecOn with
  | _ x ih =>
    rw [onPath_unfold h]
    intro hp
    simp only [Bool.or_eq_true, beq_iff_eq] at hp
    rcases hp with hp | hp
    · rw [hp]
    · split at hp
      · cases hp
      · rename_i hne
        have hlt : f x < x := Nat.lt_of_le_of_ne (h x) hne
        rw [← root_step h x]
        exact ih _ hlt hp

/-- if `c` is a root, it is on the path of `x` iff it is `x`'s root -/
theorem onPath_of_root {f : Nat → Nat} (h : FInv f) {c : Nat} (hc : f c = c) :
    ∀ x, onPath f c x = true ↔ root f x = c := by
  intro x
  induction x using Nat.strongRecOn with
  | _ x ih =>
    rw [onPath_unfold h, root_unfold h]
    by_cases hx : f x = x
    · simp [hx]
    · have hlt : f x < x := Nat.lt_of_le_of_ne (h x) hx
      simp only [hx, if_false, Bool.or_eq_true, beq_iff_eq]
      constructor
      · rintro (rfl | hp)
        · exact absurd hc hx
        · exact (ih _ hlt).mp hp
      · intro hr
        exact Or.inr ((ih _ hlt).mpr hr)

/-- redirect one pointer -/
def upd (f : Nat → Nat) (c g : Nat) : Nat → Nat := fun x => if x = c then g else f x

theorem upd_inv {f : Nat → Nat} (h : FInv f) {c g : Nat} (hg : g ≤ c) : FInv (upd f c g) := by
  intro x
  unfold upd
  split
  · subst_vars; exact hg
  · exact h x

/-- **Link lemma.** Redirecting `c` to a strictly smaller `g` sends exactly the nodes whose
path went through `c` to `root g`, and leaves every other root unchanged. -/
theorem root_upd {f : Nat → Nat} (h : FInv f) {c g : Nat} (hg : g < c) :
    ∀ x, root (upd f c g) x = if onPath f c x then root f g else root f x := by
  have h' : FInv (upd f c g) := upd_inv h (Nat.le_of_lt hg)
  intro x
  induction x using Nat.strongRecOn with
  | _ x ih =>
    by_cases hxc : x = c
    · subst hxc
      have hp : onPath f x x = true := by rw [onPath_unfold h]; simp
      rw [hp, if_pos rfl, root_unfold h']
      have hu : upd f x g x = g := by simp [upd]
      rw [hu, if_neg (by omega)]
      rw [ih g hg]
      have : onPath f x g = false := by
        cases hgp : onPath f x g with
        | false => rfl
        | true => have := onPath_le h x g hgp; omega
      rw [this]; simp
    · have hu : upd f c g x = f x := by simp [upd, hxc]
      rw [root_unfold h', hu, onPath_unfold h c x, root_unfold h x]
      by_cases hx : f x = x
      · simp [hx, hxc]
      · have hlt : f x < x := Nat.lt_of_le_of_ne (h x) hx
        simp only [hx, if_false]
        rw [ih _ hlt]
        simp [hxc]

/-- path compression: pointing `c` at one of its proper ancestors changes no root -/
theorem root_compress {f : Nat → Nat} (h : FInv f) {c g : Nat} (hg : g < c)
    (hanc : root f g = root f c) : ∀ x, root (upd f c g) x = root f x := by
  intro x
  rw [root_upd h hg]
  split
  · rename_i hp
    rw [hanc, onPath_root h c x hp]
  · rfl

/-- linking root `c` under a smaller root `g` -/
theorem root_link {f : Nat → Nat} (h : FInv f) {c g : Nat} (hg : g < c)
    (hc : f c = c) (hgr : f g = g) :
    ∀ x, root (upd f c g) x = if root f x = c then g else root f x := by
  intro x
  rw [root_upd h hg, root_of_fix h hgr]
  by_cases hr : root f x = c
  · rw [(onPath_of_root h hc x).mpr hr]; simp [hr]
  · have : onPath f c x = false := by
      cases hp : onPath f c x with
      | false => rfl
      | true => exact absurd ((onPath_of_root h hc x).mp hp) hr
    rw [this]; simp [hr]

/-! ### Array refinement -/

def AInv (p : Parents) : Prop := FInv (par p)

theorem par_lt_size {p : Parents} {x : Nat} (hx : x < p.size) : par p x = p[x] := by
  simp [par, Array.getD, hx]

theorem par_ge_size {p : Parents} {x : Nat} (hx : p.size ≤ x) : par p x = x := by
  unfold par
  simp [Array.getD, Nat.not_lt.mpr hx]

theorem par_reserve (p : Parents) (v x : Nat) : par (reserve p v) x = par p x := by
  unfold reserve
  split
  · rfl
  · rename_i hv
    unfold par
    by_cases hx : x < p.size
    · simp [Array.getD, hx, Array.getElem_append_left, Nat.lt_of_lt_of_le hx (Nat.le_add_right _ _)]
    · by_cases hx2 : x < p.size + (v + 1 - p.size)
      · simp [Array.getD, hx, hx2, Array.getElem_append_right (Nat.not_lt.mp hx)]
        omega
      · simp [Array.getD, hx, hx2]

theorem size_reserve (p : Parents) (v : Nat) : v < (reserve p v).size ∧ p.size ≤ (reserve p v).size := by
  unfold reserve
  split
  · exact ⟨by assumption, Nat.le_refl _⟩
  · simp; omega

theorem par_set {p : Parents} {c g : Nat} (hc : c < p.size) :
    par (p.setIfInBounds c g) = upd (par p) c g := by
  funext x
  unfold par upd
  by_cases hx : x = c
  · subst hx
    simp [Array.getD, hc]
  · by_cases hxs : x < p.size
    · simp [Array.getD, hxs, hx, Ne.symm hx]
    · simp [Array.getD, hxs, hx]

theorem par_reset (p : Parents) (x : Nat) : par (reset p) x = x := by
  unfold par reset
  by_cases hx : x < p.size
  · simp [Array.getD, hx]
  · simp [Array.getD, hx]

/-- the loop of `find_naive` computes `root` -/
theorem findNaiveLoop_eq {p : Parents} (h : AInv p) :
    ∀ fuel cur, cur < fuel → findNaiveLoop p fuel cur = root (par p) cur := by
  intro fuel
  induction fuel with
  | zero => intro cur hc; omega
  | succ n ih =>
    intro cur hc
    simp only [findNaiveLoop]
    rw [root_unfold h]
    by_cases hp : par p cur = cur
    · simp [hp]
    · have hlt : par p cur < cur := Nat.lt_of_le_of_ne (h cur) hp
      rw [if_neg (Ne.symm hp), if_neg hp]
      exact ih _ (by omega)

theorem findNaive_eq {p : Parents} (h : AInv p) (x : Nat) : findNaive p x = root (par p) x := by
  unfold findNaive
  split
  · rename_i hx
    rw [root_of_fix h (par_ge_size hx)]
  · exact findNaiveLoop_eq h _ _ (Nat.lt_succ_self _)

/-- the path-halving loop returns the root and preserves the invariant and every root -/
theorem findLoop_spec :
    ∀ fuel (p : Parents) cur, AInv p → cur < fuel → cur < p.size →
      let r := findLoop fuel p cur
      AInv r.1 ∧ r.2 = root (par p) cur ∧ (∀ x, root (par r.1) x = root (par p) x) ∧
        r.1.size = p.size := by
  intro fuel
  induction fuel with
  | zero => intro p cur _ hc; omega
  | succ n ih =>
    intro p cur h hc hsz
    simp only [findLoop]
    by_cases hp : cur = par p cur
    · rw [if_pos hp]
      exact ⟨h, (root_of_fix h hp.symm).symm, fun _ => rfl, rfl⟩
    · rw [if_neg hp]
      have hlt : par p cur < cur := Nat.lt_of_le_of_ne (h cur) (Ne.symm hp)
      have hgle : par p (par p cur) ≤ par p cur := h _
      have hg : par p (par p cur) < cur := by omega
      have hset := par_set (p := p) (c := cur) (g := par p (par p cur)) hsz
      have hinv' : AInv (p.setIfInBounds cur (par p (par p cur))) := by
        unfold AInv; rw [hset]; exact upd_inv h (Nat.le_of_lt hg)
      have hanc : root (par p) (par p (par p cur)) = root (par p) cur := by
        rw [root_step h, root_step h]
      have hroots : ∀ x, root (par (p.setIfInBounds cur (par p (par p cur)))) x = root (par p) x := by
        intro x; rw [hset]; exact root_compress h hg hanc x
      have hsz' : par p (par p cur) < (p.setIfInBounds cur (par p (par p cur))).size := by
        simp; omega
      obtain ⟨i1, i2, i3, i4⟩ := ih (p.setIfInBounds cur (par p (par p cur))) (par p (par p cur)) hinv'
        (by omega) hsz'
      refine ⟨i1, ?_, ?_, ?_⟩
      · rw [i2, hroots, hanc]
      · intro x; rw [i3, hroots]
      · rw [i4]; simp

theorem find_spec (p : Parents) (x : Nat) (h : AInv p) :
    AInv (find p x).1 ∧ (find p x).2 = root (par p) x ∧
      (∀ y, root (par (find p x).1) y = root (par p) y) ∧
      (x < (find p x).1.size ∧ p.size ≤ (find p x).1.size) := by
  unfold find
  have hr : AInv (reserve p x) := by intro y; rw [par_reserve]; exact h y
  have hfun : par (reserve p x) = par p := funext (par_reserve p x)
  obtain ⟨i1, i2, i3, i4⟩ := findLoop_spec (x + 1) (reserve p x) x hr (Nat.lt_succ_self _) (size_reserve p x).1
  refine ⟨i1, ?_, ?_, ?_⟩
  · rw [i2, hfun]
  · intro y; rw [i3, hfun]
  · rw [i4]; exact size_reserve p x

theorem union_spec (p : Parents) (a b : Nat) (h : AInv p) :
    let ra := root (par p) a
    let rb := root (par p) b
    AInv (union p a b).1 ∧
    (union p a b).2 = (if ra ≠ rb then (min ra rb, max ra rb) else (ra, ra)) ∧
    (∀ x, root (par (union p a b).1) x =
      if ra ≠ rb ∧ root (par p) x = max ra rb then min ra rb else root (par p) x) := by
  intro ra rb
  unfold union
  have hr1 : AInv (reserve p a) := by intro y; rw [par_reserve]; exact h y
  have hf1 : par (reserve p a) = par p := funext (par_reserve p a)
  have hr2 : AInv (reserve (reserve p a) b) := by intro y; rw [par_reserve]; exact hr1 y
  have hf2 : par (reserve (reserve p a) b) = par p := by
    rw [← hf1]; exact funext (par_reserve _ b)
  obtain ⟨a1, a2, a3, a4, a5⟩ := find_spec (reserve (reserve p a) b) a hr2
  obtain ⟨b1, b2, b3, b4, b5⟩ := find_spec (find (reserve (reserve p a) b) a).1 b a1
  simp only []
  generalize hq : find (reserve (reserve p a) b) a = q at *
  obtain ⟨q1, qa⟩ := q
  generalize hq2 : find q1 b = q' at *
  obtain ⟨q2, qb⟩ := q'
  simp only at *
  have hqa : qa = ra := by rw [a2, hf2]
  have hqb : qb = rb := by rw [b2, a3, hf2]
  have hroots : ∀ x, root (par q2) x = root (par p) x := by
    intro x; rw [b3, a3, hf2]
  subst hqa hqb
  by_cases hne : ra = rb
  · simp only [hne, ne_eq, not_true_eq_false, if_false, false_and]
    exact ⟨b1, trivial, hroots⟩
  · simp only [ne_eq, hne, not_false_eq_true, if_true, true_and]
    have hrale : ra ≤ a := root_le h a
    have hrble : rb ≤ b := root_le h b
    have hsz1 : a < q1.size := a4
    have hsz : max ra rb < q2.size := by
      have : b < q2.size := b4
      omega
    have hset := par_set (p := q2) (c := max ra rb) (g := min ra rb) hsz
    have hlt : min ra rb < max ra rb := by omega
    have hfixa : par q2 ra = ra := by
      have := root_is_fix b1 a; rw [hroots] at this; exact this
    have hfixb : par q2 rb = rb := by
      have := root_is_fix b1 b; rw [hroots] at this; exact this
    have hfixmax : par q2 (max ra rb) = max ra rb := by
      rcases Nat.le_total ra rb with hle | hle
      · rw [Nat.max_eq_right hle]; exact hfixb
      · rw [Nat.max_eq_left hle]; exact hfixa
    have hfixmin : par q2 (min ra rb) = min ra rb := by
      rcases Nat.le_total ra rb with hle | hle
      · rw [Nat.min_eq_left hle]; exact hfixa
      · rw [Nat.min_eq_right hle]; exact hfixb
    refine ⟨?_, ?_⟩
    · unfold AInv; rw [hset]; exact upd_inv b1 (Nat.le_of_lt hlt)
    · intro x
      rw [hset, root_link b1 hlt hfixmax hfixmin, hroots]

end EgglogVerif.UF
