import EgglogVerif.Model.EGraph
import EgglogVerif.Lemmas.UF
/-
Helper lemmas about the e-graph model: how `union`, `freshId`, `mergeRows`, `insertInto`,
`rebuildTable`, `rebuildPass` act on the partition (`rt`) and on the rows.
-/
namespace EgglogVerif.EGraph
open EgglogVerif

/-- representative of a (natural-number) id -/
def EG.rt (g : EG) (x : Nat) : Nat := UF.root (UF.par g.parents) x

def EG.WF (g : EG) : Prop := UF.AInv g.parents

theorem find_eq {g : EG} (h : g.WF) (x : Int) : g.find x = Int.ofNat (g.rt x.toNat) := by
  unfold EG.find EG.rt
  rw [UF.findNaive_eq h]

theorem rt_idem {g : EG} (h : g.WF) (x : Nat) : g.rt (g.rt x) = g.rt x := UF.root_idem h x

theorem rt_le {g : EG} (h : g.WF) (x : Nat) : g.rt x ≤ x := UF.root_le h x

theorem find_toNat {g : EG} (h : g.WF) (x : Int) : (g.find x).toNat = g.rt x.toNat := by
  rw [find_eq h]; exact Int.toNat_natCast _

theorem find_idem {g : EG} (h : g.WF) (x : Int) : g.find (g.find x) = g.find x := by
  rw [find_eq h (g.find x), find_toNat h, rt_idem h, ← find_eq h]

/-- `g'` identifies at least what `g` identifies, and every representative of `g'` is one of `g`
(unions only ever remove roots) -/
structure Coarser (g g' : EG) : Prop where
  eq : ∀ x y, g.rt x = g.rt y → g'.rt x = g'.rt y
  roots : ∀ x, g.rt (g'.rt x) = g'.rt x

theorem Coarser.refl {g : EG} (h : g.WF) : Coarser g g := ⟨fun _ _ h => h, fun x => rt_idem h x⟩
theorem Coarser.trans {a b c : EG} (h1 : Coarser a b) (h2 : Coarser b c) : Coarser a c :=
  ⟨fun x y h => h2.eq x y (h1.eq x y h), fun x => by
    have e1 := h2.roots x
    have e2 := h1.roots (c.rt x)
    rw [← e1] at e2 ⊢
    rw [e1] at e2 ⊢
    rw [← e1, e2]⟩

theorem Coarser.rt_rt {g g' : EG} (h : g.WF) (c : Coarser g g') (x : Nat) : g'.rt (g.rt x) = g'.rt x :=
  c.eq _ _ (rt_idem h x)

/-! ### union -/

theorem union_wf {g : EG} (h : g.WF) (a b : Int) : (g.union a b).WF :=
  (UF.union_spec g.parents a.toNat b.toNat h).1

theorem union_rt {g : EG} (h : g.WF) (a b : Int) (x : Nat) :
    (g.union a b).rt x =
      if g.rt a.toNat ≠ g.rt b.toNat ∧ g.rt x = max (g.rt a.toNat) (g.rt b.toNat)
      then min (g.rt a.toNat) (g.rt b.toNat) else g.rt x :=
  (UF.union_spec g.parents a.toNat b.toNat h).2.2 x

theorem union_coarser {g : EG} (h : g.WF) (a b : Int) : Coarser g (g.union a b) := by
  constructor
  · intro x y hxy
    rw [union_rt h, union_rt h, hxy]
  · intro x
    rw [union_rt h]
    split
    · rcases Nat.le_total (g.rt a.toNat) (g.rt b.toNat) with hle | hle
      · rw [Nat.min_eq_left hle]; exact rt_idem h _
      · rw [Nat.min_eq_right hle]; exact rt_idem h _
    · exact rt_idem h _

theorem union_joins {g : EG} (h : g.WF) (a b : Int) :
    (g.union a b).rt a.toNat = (g.union a b).rt b.toNat := by
  rw [union_rt h, union_rt h]
  by_cases hne : g.rt a.toNat = g.rt b.toNat
  · simp [hne]
  · simp only [ne_eq, hne, not_false_eq_true, true_and]
    split <;> split <;> omega

/-- every identification made by a union is an old one or joins the two classes -/
theorem union_sound {g : EG} (h : g.WF) (a b : Int) (x y : Nat)
    (hxy : (g.union a b).rt x = (g.union a b).rt y) :
    g.rt x = g.rt y ∨ (g.rt x = g.rt a.toNat ∧ g.rt y = g.rt b.toNat) ∨
      (g.rt x = g.rt b.toNat ∧ g.rt y = g.rt a.toNat) := by
  rw [union_rt h, union_rt h] at hxy
  by_cases hne : g.rt a.toNat = g.rt b.toNat
  · simp [hne] at hxy; exact Or.inl hxy
  · simp only [ne_eq, hne, not_false_eq_true, true_and] at hxy
    split at hxy <;> split at hxy <;> omega

@[simp] theorem union_tables (g : EG) (a b : Int) : (g.union a b).tables = g.tables := rfl
@[simp] theorem union_decls (g : EG) (a b : Int) : (g.union a b).decls = g.decls := rfl
@[simp] theorem union_table (g : EG) (a b : Int) (f : Nat) : (g.union a b).table f = g.table f := rfl
@[simp] theorem union_decl (g : EG) (a b : Int) (f : Nat) : (g.union a b).decl f = g.decl f := rfl

/-! ### fresh ids -/

theorem fresh_rt (g : EG) (x : Nat) : g.freshId.1.rt x = g.rt x := by
  unfold EG.rt EG.freshId
  simp only
  have : UF.par (UF.reserve g.parents g.parents.size) = UF.par g.parents := funext (UF.par_reserve _ _)
  rw [this]

theorem fresh_wf {g : EG} (h : g.WF) : g.freshId.1.WF := by
  intro x
  show UF.par (UF.reserve g.parents g.parents.size) x ≤ x
  rw [UF.par_reserve]; exact h x

theorem fresh_id_rt {g : EG} (h : g.WF) : g.rt g.parents.size = g.parents.size :=
  UF.root_of_fix h (UF.par_ge_size (Nat.le_refl _))

/-- an id beyond the vector is alone in its class -/
theorem rt_eq_of_ge {g : EG} (h : g.WF) {n x : Nat} (hn : g.parents.size ≤ n) (hx : g.rt x = g.rt n) : x = n := by
  have hn' : g.rt n = n := UF.root_of_fix h (UF.par_ge_size hn)
  rw [hn'] at hx
  by_cases hxs : g.parents.size ≤ x
  · have : g.rt x = x := UF.root_of_fix h (UF.par_ge_size hxs)
    omega
  · have := rt_le h x
    omega

/-! ### typed pointwise relations on argument lists -/

/-- id columns related by `P` (on the natural-number ids), base columns equal -/
def ArgsRel (P : Nat → Nat → Prop) (fl : List Bool) (as bs : List Int) : Prop :=
  as.length = bs.length ∧ ∀ i (h1 : i < as.length) (h2 : i < bs.length),
    (fl.getD i false = true → P (as[i]).toNat (bs[i]).toNat) ∧ (fl.getD i false = false → as[i] = bs[i])

theorem ArgsRel.mono {P Q : Nat → Nat → Prop} (hpq : ∀ x y, P x y → Q x y) {fl as bs}
    (h : ArgsRel P fl as bs) : ArgsRel Q fl as bs :=
  ⟨h.1, fun i h1 h2 => ⟨fun hb => hpq _ _ ((h.2 i h1 h2).1 hb), (h.2 i h1 h2).2⟩⟩

theorem ArgsRel.refl {P : Nat → Nat → Prop} (hr : ∀ x, P x x) (fl as) : ArgsRel P fl as as :=
  ⟨rfl, fun _ _ _ => ⟨fun _ => hr _, fun _ => rfl⟩⟩

theorem ArgsRel.symm {P : Nat → Nat → Prop} (hs : ∀ x y, P x y → P y x) {fl as bs}
    (h : ArgsRel P fl as bs) : ArgsRel P fl bs as :=
  ⟨h.1.symm, fun i h1 h2 => ⟨fun hb => hs _ _ ((h.2 i h2 h1).1 hb), fun hb => ((h.2 i h2 h1).2 hb).symm⟩⟩

theorem ArgsRel.trans {P : Nat → Nat → Prop} (ht : ∀ x y z, P x y → P y z → P x z) {fl as bs cs}
    (h1 : ArgsRel P fl as bs) (h2 : ArgsRel P fl bs cs) : ArgsRel P fl as cs := by
  refine ⟨h1.1.trans h2.1, fun i ha hc => ?_⟩
  have hb : i < bs.length := h1.1 ▸ ha
  refine ⟨fun hf => ht _ _ _ ((h1.2 i ha hb).1 hf) ((h2.2 i hb hc).1 hf), fun hf => ?_⟩
  rw [(h1.2 i ha hb).2 hf, (h2.2 i hb hc).2 hf]

theorem ArgsRel.of_eq {P : Nat → Nat → Prop} (hr : ∀ x, P x x) {fl as bs} (h : as = bs) : ArgsRel P fl as bs :=
  h ▸ ArgsRel.refl hr fl as

@[simp] theorem canonArgs_length (g : EG) (fl : List Bool) (as : List Int) : (canonArgs g fl as).length = as.length := by
  simp [canonArgs]

theorem canonArgs_getElem (g : EG) (fl : List Bool) (as : List Int) (i : Nat) (h : i < (canonArgs g fl as).length) :
    (canonArgs g fl as)[i] = if fl.getD i false then g.find (as[i]'(by simpa using h)) else as[i]'(by simpa using h) := by
  simp [canonArgs]

theorem find_eq_iff {g : EG} (h : g.WF) (x y : Int) : g.find x = g.find y ↔ g.rt x.toNat = g.rt y.toNat := by
  rw [find_eq h, find_eq h]
  constructor
  · intro e; exact Int.ofNat.inj e
  · intro e; rw [e]

/-- two keys canonicalise to the same key iff they are pointwise equivalent -/
theorem canonArgs_eq_iff {g : EG} (h : g.WF) (fl : List Bool) (as bs : List Int) :
    canonArgs g fl as = canonArgs g fl bs ↔ ArgsRel (fun x y => g.rt x = g.rt y) fl as bs := by
  constructor
  · intro e
    have hl : as.length = bs.length := by
      have := congrArg List.length e
      simpa using this
    refine ⟨hl, fun i h1 h2 => ?_⟩
    have hi : (canonArgs g fl as)[i]'(by simpa using h1) = (canonArgs g fl bs)[i]'(by simpa using h2) := by
      simp only [e]
    rw [canonArgs_getElem, canonArgs_getElem] at hi
    constructor
    · intro hb; simp only [hb, if_true] at hi; exact (find_eq_iff h _ _).mp hi
    · intro hb; simp only [hb] at hi; simpa using hi
  · intro ⟨hl, hp⟩
    apply List.ext_getElem
    · simpa using hl
    · intro i h1 h2
      rw [canonArgs_getElem, canonArgs_getElem]
      have h1' : i < as.length := by simpa using h1
      have h2' : i < bs.length := by simpa using h2
      cases hb : fl.getD i false with
      | true => simp only [if_true]; exact (find_eq_iff h _ _).mpr ((hp i h1' h2').1 hb)
      | false => simpa using (hp i h1' h2').2 hb

/-- a canonicalised key is pointwise equivalent to the original -/
theorem canonArgs_rel {g : EG} (h : g.WF) (fl : List Bool) (as : List Int) :
    ArgsRel (fun x y => g.rt x = g.rt y) fl (canonArgs g fl as) as := by
  refine ⟨by simp, fun i h1 h2 => ?_⟩
  rw [canonArgs_getElem]
  constructor
  · intro hb; simp only [hb, if_true]; rw [find_toNat h, rt_idem h]
  · intro hb; simp only [hb, Bool.false_eq_true, if_false]

theorem canonArgs_idem {g : EG} (h : g.WF) (fl : List Bool) (as : List Int) :
    canonArgs g fl (canonArgs g fl as) = canonArgs g fl as :=
  (canonArgs_eq_iff h fl _ _).mpr (canonArgs_rel h fl as)

theorem canonArgs_coarser {g g' : EG} (h : g.WF) (h' : g'.WF) (c : Coarser g g') (fl : List Bool) (as : List Int) :
    canonArgs g' fl (canonArgs g fl as) = canonArgs g' fl as :=
  (canonArgs_eq_iff h' fl _ _).mpr ((canonArgs_rel h fl as).mono c.eq)

/-! ### merging two rows with the same key -/

structure Eqv (P : Nat → Nat → Prop) : Prop where
  refl : ∀ x, P x x
  symm : ∀ {x y}, P x y → P y x
  trans : ∀ {x y z}, P x y → P y z → P x z

theorem mergeRows_args (g : EG) (d : Decl) (cur new : Row) : (mergeRows g d cur new).2.args = cur.args := by
  unfold mergeRows
  cases d.merge <;> simp <;> split <;> rfl

theorem mergeRows_tables (g : EG) (d : Decl) (cur new : Row) :
    (mergeRows g d cur new).1.tables = g.tables ∧ (mergeRows g d cur new).1.decls = g.decls := by
  unfold mergeRows
  cases d.merge <;> simp <;> split <;> simp

theorem mergeRows_parents (g : EG) (d : Decl) (cur new : Row) :
    (mergeRows g d cur new).1.parents =
      if d.merge = .unionId ∧ cur.out ≠ new.out then (g.union cur.out new.out).parents else g.parents := by
  unfold mergeRows
  cases d.merge <;> simp
  · split <;> simp_all
  · split <;> rfl

theorem rt_congr {g g' : EG} (h : g'.parents = g.parents) (x : Nat) : g'.rt x = g.rt x := by
  unfold EG.rt; rw [h]

theorem wf_congr {g g' : EG} (h : g'.parents = g.parents) (w : g.WF) : g'.WF := by
  unfold EG.WF; rw [h]; exact w

theorem mergeRows_wf {g : EG} (h : g.WF) (d : Decl) (cur new : Row) : (mergeRows g d cur new).1.WF := by
  have hp := mergeRows_parents g d cur new
  split at hp
  · exact wf_congr hp (union_wf h _ _)
  · exact wf_congr hp h

theorem mergeRows_coarser {g : EG} (h : g.WF) (d : Decl) (cur new : Row) : Coarser g (mergeRows g d cur new).1 := by
  have hp := mergeRows_parents g d cur new
  split at hp
  · constructor
    · intro x y hxy
      rw [rt_congr hp, rt_congr hp]; exact (union_coarser h _ _).eq x y hxy
    · intro x
      rw [rt_congr hp]; exact (union_coarser h _ _).roots x
  · constructor
    · intro x y hxy
      rw [rt_congr hp, rt_congr hp]; exact hxy
    · intro x
      rw [rt_congr hp]; exact rt_idem h _

theorem mergeRows_out_cases (g : EG) (d : Decl) (cur new : Row) (hm : d.merge = .unionId) :
    (mergeRows g d cur new).2.out = cur.out ∨ (mergeRows g d cur new).2.out = new.out := by
  unfold mergeRows
  simp only [hm]
  split
  · left; rfl
  · simp only; split
    · left; rfl
    · right; rfl

/-- with the `unionId` merge the outputs of the two rows are in one class afterwards -/
theorem mergeRows_out {g : EG} (h : g.WF) (d : Decl) (cur new : Row) (hm : d.merge = .unionId) :
    (mergeRows g d cur new).1.rt cur.out.toNat = (mergeRows g d cur new).1.rt new.out.toNat := by
  have hp := mergeRows_parents g d cur new
  by_cases he : cur.out = new.out
  · rw [he]
  · rw [if_pos ⟨hm, he⟩] at hp
    rw [rt_congr hp, rt_congr hp]; exact union_joins h _ _

theorem mergeRows_sound {g : EG} (h : g.WF) (d : Decl) (cur new : Row) {P : Nat → Nat → Prop} (e : Eqv P)
    (hP : ∀ x y, g.rt x = g.rt y → P x y)
    (ho : d.merge = .unionId → P cur.out.toNat new.out.toNat) :
    ∀ x y, (mergeRows g d cur new).1.rt x = (mergeRows g d cur new).1.rt y → P x y := by
  have hp := mergeRows_parents g d cur new
  intro x y hxy
  split at hp
  · rename_i hc
    rw [rt_congr hp, rt_congr hp] at hxy
    rcases union_sound h _ _ x y hxy with h1 | ⟨h1, h2⟩ | ⟨h1, h2⟩
    · exact hP _ _ h1
    · exact e.trans (hP _ _ h1) (e.trans (ho hc.1) (e.symm (hP _ _ h2)))
    · exact e.trans (hP _ _ h1) (e.trans (e.symm (ho hc.1)) (e.symm (hP _ _ h2)))
  · rw [rt_congr hp, rt_congr hp] at hxy
    exact hP _ _ hxy

/-! ### inserting a row into a row list -/

theorem insertInto_spec (d : Decl) : ∀ (rows : List Row) (g : EG) (r : Row), g.WF →
    (insertInto g d rows r).1.WF ∧ Coarser g (insertInto g d rows r).1 ∧
    (insertInto g d rows r).1.tables = g.tables ∧ (insertInto g d rows r).1.decls = g.decls ∧
    (∀ y ∈ r :: rows, ∃ y' ∈ (insertInto g d rows r).2, y'.args = y.args ∧
      (d.merge = .unionId → (insertInto g d rows r).1.rt y'.out.toNat = (insertInto g d rows r).1.rt y.out.toNat)) := by
  intro rows
  induction rows with
  | nil =>
    intro g r h
    simp only [insertInto]
    refine ⟨h, Coarser.refl h, trivial, trivial, ?_⟩
    intro y hy
    simp only [List.mem_singleton] at hy
    subst hy
    exact ⟨y, List.mem_singleton.mpr rfl, rfl, fun _ => rfl⟩
  | cons x xs ih =>
    intro g r h
    simp only [insertInto]
    split
    · rename_i hk
      have hw := mergeRows_wf h d x r
      have hargs := mergeRows_args g d x r
      refine ⟨hw, mergeRows_coarser h d x r, (mergeRows_tables g d x r).1, (mergeRows_tables g d x r).2, ?_⟩
      intro y hy
      simp only [List.mem_cons] at hy
      rcases hy with rfl | rfl | hy
      · refine ⟨_, List.mem_cons_self, by rw [hargs, hk], fun hm => ?_⟩
        rcases mergeRows_out_cases g d x y hm with ho | ho
        · rw [ho]; exact mergeRows_out h d x y hm
        · rw [ho]
      · refine ⟨_, List.mem_cons_self, hargs, fun hm => ?_⟩
        rcases mergeRows_out_cases g d y r hm with ho | ho
        · rw [ho]
        · rw [ho]; exact (mergeRows_out h d y r hm).symm
      · exact ⟨y, List.mem_cons_of_mem _ hy, rfl, fun _ => rfl⟩
    · obtain ⟨i1, i2, i3, i4, i5⟩ := ih g r h
      refine ⟨i1, i2, i3, i4, ?_⟩
      intro y hy
      simp only [List.mem_cons] at hy
      rcases hy with rfl | rfl | hy
      · obtain ⟨y', hy', e1, e2⟩ := i5 y List.mem_cons_self
        exact ⟨y', List.mem_cons_of_mem _ hy', e1, e2⟩
      · exact ⟨y, List.mem_cons_self, rfl, fun _ => rfl⟩
      · obtain ⟨y', hy', e1, e2⟩ := i5 y (List.mem_cons_of_mem _ hy)
        exact ⟨y', List.mem_cons_of_mem _ hy', e1, e2⟩

theorem insertInto_sound (d : Decl) {P : Nat → Nat → Prop} (e : Eqv P) : ∀ (rows : List Row) (g : EG) (r : Row), g.WF →
    (∀ x y, g.rt x = g.rt y → P x y) →
    (∀ cur ∈ rows, cur.args = r.args → d.merge = .unionId → P cur.out.toNat r.out.toNat) →
    (∀ x y, (insertInto g d rows r).1.rt x = (insertInto g d rows r).1.rt y → P x y) ∧
    (∀ y' ∈ (insertInto g d rows r).2, ∃ y ∈ r :: rows, y'.args = y.args ∧
      (d.merge = .unionId → P y'.out.toNat y.out.toNat)) := by
  intro rows
  induction rows with
  | nil =>
    intro g r _ hP _
    simp only [insertInto]
    refine ⟨hP, ?_⟩
    intro y' hy'
    simp only [List.mem_singleton] at hy'
    subst hy'
    exact ⟨y', List.mem_singleton.mpr rfl, rfl, fun _ => e.refl _⟩
  | cons x xs ih =>
    intro g r h hP hc
    simp only [insertInto]
    split
    · rename_i hk
      have hxr := hc x List.mem_cons_self hk
      refine ⟨mergeRows_sound h d x r e hP hxr, ?_⟩
      intro y' hy'
      simp only [List.mem_cons] at hy'
      rcases hy' with rfl | hy'
      · refine ⟨x, List.mem_cons_of_mem _ List.mem_cons_self, mergeRows_args g d x r, fun hm => ?_⟩
        rcases mergeRows_out_cases g d x r hm with ho | ho
        · rw [ho]; exact e.refl _
        · rw [ho]; exact e.symm (hxr hm)
      · exact ⟨y', List.mem_cons_of_mem _ (List.mem_cons_of_mem _ hy'), rfl, fun _ => e.refl _⟩
    · obtain ⟨i1, i2⟩ := ih g r h hP (fun cur hcur => hc cur (List.mem_cons_of_mem _ hcur))
      refine ⟨i1, ?_⟩
      intro y' hy'
      simp only [List.mem_cons] at hy'
      rcases hy' with rfl | hy'
      · exact ⟨y', List.mem_cons_of_mem _ List.mem_cons_self, rfl, fun _ => e.refl _⟩
      · obtain ⟨y, hy, e1, e2⟩ := i2 y' hy'
        simp only [List.mem_cons] at hy
        rcases hy with rfl | hy
        · exact ⟨y, List.mem_cons_self, e1, e2⟩
        · exact ⟨y, List.mem_cons_of_mem _ (List.mem_cons_of_mem _ hy), e1, e2⟩

theorem mergeRows_out_any (g : EG) (d : Decl) (cur new : Row) :
    (mergeRows g d cur new).2.out = cur.out ∨ (mergeRows g d cur new).2.out = new.out := by
  unfold mergeRows
  cases d.merge with
  | unionId =>
    by_cases h : cur.out = new.out
    · simp [h]
    · by_cases h2 : cur.out ≤ new.out <;> simp [h, h2]
  | min => by_cases h2 : cur.out ≤ new.out <;> simp [h2]
  | max => by_cases h2 : cur.out ≤ new.out <;> simp [h2]
  | unit => simp
  | assertEq => by_cases h : cur.out = new.out <;> simp [h]

/-- every row of the result takes its key and its output from the inserted row or an old row -/
theorem insertInto_mem (d : Decl) : ∀ (rows : List Row) (g : EG) (r : Row),
    ∀ y' ∈ (insertInto g d rows r).2, (∃ y ∈ r :: rows, y'.args = y.args) ∧ (∃ y ∈ r :: rows, y'.out = y.out) := by
  intro rows
  induction rows with
  | nil =>
    intro g r y' hy'
    simp only [insertInto, List.mem_singleton] at hy'
    subst hy'
    exact ⟨⟨y', List.mem_cons_self, rfl⟩, ⟨y', List.mem_cons_self, rfl⟩⟩
  | cons x xs ih =>
    intro g r y' hy'
    simp only [insertInto] at hy'
    split at hy'
    · simp only [List.mem_cons] at hy'
      rcases hy' with rfl | hy'
      · refine ⟨⟨x, List.mem_cons_of_mem _ List.mem_cons_self, mergeRows_args g d x r⟩, ?_⟩
        rcases mergeRows_out_any g d x r with ho | ho
        · exact ⟨x, List.mem_cons_of_mem _ List.mem_cons_self, ho⟩
        · exact ⟨r, List.mem_cons_self, ho⟩
      · exact ⟨⟨y', List.mem_cons_of_mem _ (List.mem_cons_of_mem _ hy'), rfl⟩,
          ⟨y', List.mem_cons_of_mem _ (List.mem_cons_of_mem _ hy'), rfl⟩⟩
    · simp only [List.mem_cons] at hy'
      rcases hy' with rfl | hy'
      · exact ⟨⟨y', List.mem_cons_of_mem _ List.mem_cons_self, rfl⟩, ⟨y', List.mem_cons_of_mem _ List.mem_cons_self, rfl⟩⟩
      · obtain ⟨⟨a, ha, ea⟩, ⟨b, hb, eb⟩⟩ := ih g r y' hy'
        have lift : ∀ z, z ∈ r :: xs → z ∈ r :: x :: xs := by
          intro z hz
          simp only [List.mem_cons] at hz ⊢
          rcases hz with hz | hz
          · exact Or.inl hz
          · exact Or.inr (Or.inr hz)
        exact ⟨⟨a, lift a ha, ea⟩, ⟨b, lift b hb, eb⟩⟩

/-! ### tables -/

@[simp] theorem setTable_parents (g : EG) (f : Nat) (rows : List Row) : (g.setTable f rows).parents = g.parents := rfl
@[simp] theorem setTable_decls (g : EG) (f : Nat) (rows : List Row) : (g.setTable f rows).decls = g.decls := rfl
@[simp] theorem setTable_decl (g : EG) (f f' : Nat) (rows : List Row) : (g.setTable f rows).decl f' = g.decl f' := rfl
@[simp] theorem setTable_rt (g : EG) (f : Nat) (rows : List Row) (x : Nat) : (g.setTable f rows).rt x = g.rt x := rfl

theorem setTable_size (g : EG) (f : Nat) (rows : List Row) : (g.setTable f rows).tables.size = g.tables.size := by
  unfold EG.setTable
  split <;> simp

theorem setTable_table (g : EG) (f f' : Nat) (rows : List Row) :
    (g.setTable f rows).table f' = if f' = f ∧ f < g.tables.size then rows else g.table f' := by
  unfold EG.table
  by_cases hf : f < g.tables.size
  · have ht : (g.setTable f rows).tables = g.tables.setIfInBounds f rows := by
      unfold EG.setTable; simp [hf]
    rw [ht]
    by_cases he : f' = f
    · subst he; simp [hf, Array.getD]
    · simp only [he, false_and, if_false]
      have hne : f ≠ f' := Ne.symm he
      rw [Array.getD_eq_getD_getElem?, Array.getD_eq_getD_getElem?, Array.getElem?_setIfInBounds_ne hne]
  · have ht : (g.setTable f rows).tables = g.tables := by
      unfold EG.setTable; simp [hf]
    rw [ht]; simp [hf]

theorem table_of_ge (g : EG) {f : Nat} (hf : g.tables.size ≤ f) : g.table f = [] := by
  unfold EG.table
  simp [Array.getD, Nat.not_lt.mpr hf]

theorem table_congr {g g' : EG} (h : g'.tables = g.tables) (f : Nat) : g'.table f = g.table f := by
  unfold EG.table; rw [h]

theorem decl_congr {g g' : EG} (h : g'.decls = g.decls) (f : Nat) : g'.decl f = g.decl f := by
  unfold EG.decl; rw [h]

/-! ### one rebuild pass over one table -/

def rbStep (d : Decl) (acc : EG × List Row) (r : Row) : EG × List Row :=
  insertInto acc.1 d acc.2 (acc.1.canonRow d r)

theorem rebuildTable_eq (g : EG) (f : Nat) :
    rebuildTable g f = (((g.table f).foldl (rbStep (g.decl f)) (g, [])).1.setTable f ((g.table f).foldl (rbStep (g.decl f)) (g, [])).2) := rfl

theorem rbFold_spec (d : Decl) : ∀ (todo : List Row) (acc : EG × List Row), acc.1.WF →
    (todo.foldl (rbStep d) acc).1.WF ∧ Coarser acc.1 (todo.foldl (rbStep d) acc).1 ∧
    (todo.foldl (rbStep d) acc).1.tables = acc.1.tables ∧ (todo.foldl (rbStep d) acc).1.decls = acc.1.decls ∧
    (∀ y ∈ acc.2, ∃ y' ∈ (todo.foldl (rbStep d) acc).2, y'.args = y.args ∧
      (d.merge = .unionId → (todo.foldl (rbStep d) acc).1.rt y'.out.toNat = (todo.foldl (rbStep d) acc).1.rt y.out.toNat)) ∧
    (∀ y ∈ todo, ∃ y' ∈ (todo.foldl (rbStep d) acc).2,
      canonArgs (todo.foldl (rbStep d) acc).1 d.argIsId y'.args = canonArgs (todo.foldl (rbStep d) acc).1 d.argIsId y.args ∧
      (d.merge = .unionId → (todo.foldl (rbStep d) acc).1.rt y'.out.toNat = (todo.foldl (rbStep d) acc).1.rt y.out.toNat)) := by
  intro todo
  induction todo with
  | nil =>
    intro acc h
    simp only [List.foldl_nil]
    refine ⟨h, Coarser.refl h, trivial, trivial, fun y hy => ⟨y, hy, rfl, fun _ => rfl⟩, fun y hy => by simp at hy⟩
  | cons r rs ih =>
    intro acc h
    simp only [List.foldl_cons]
    obtain ⟨s1, s2, s3, s4, s5⟩ := insertInto_spec d acc.2 acc.1 (acc.1.canonRow d r) h
    have hstep : rbStep d acc r = insertInto acc.1 d acc.2 (acc.1.canonRow d r) := rfl
    obtain ⟨i1, i2, i3, i4, i5, i6⟩ := ih (rbStep d acc r) (hstep ▸ s1)
    refine ⟨i1, (hstep ▸ s2 : Coarser acc.1 (rbStep d acc r).1).trans i2, i3.trans (hstep ▸ s3), i4.trans (hstep ▸ s4), ?_, ?_⟩
    · intro y hy
      obtain ⟨y1, hy1, e1, e2⟩ := s5 y (List.mem_cons_of_mem _ hy)
      obtain ⟨y', hy', f1, f2⟩ := i5 y1 (hstep ▸ hy1)
      exact ⟨y', hy', f1.trans e1, fun hm => (f2 hm).trans (i2.eq _ _ (hstep ▸ e2 hm))⟩
    · intro y hy
      simp only [List.mem_cons] at hy
      rcases hy with rfl | hy
      · obtain ⟨y1, hy1, e1, e2⟩ := s5 (acc.1.canonRow d y) List.mem_cons_self
        obtain ⟨y', hy', f1, f2⟩ := i5 y1 (hstep ▸ hy1)
        have cfin : Coarser acc.1 (List.foldl (rbStep d) (rbStep d acc y) rs).1 :=
          (hstep ▸ s2 : Coarser acc.1 (rbStep d acc y).1).trans i2
        refine ⟨y', hy', ?_, fun hm => ?_⟩
        · rw [f1, e1]
          show canonArgs _ d.argIsId (canonArgs acc.1 d.argIsId y.args) = _
          exact canonArgs_coarser h i1 cfin _ _
        · rw [f2 hm, i2.eq _ _ (hstep ▸ e2 hm)]
          show EG.rt _ (if d.outIsId then acc.1.find y.out else y.out).toNat = _
          split
          · rw [find_toNat h]; exact cfin.rt_rt h _
          · rfl
      · exact i6 y hy

theorem insertInto_tables_size (d : Decl) (rows : List Row) (g : EG) (r : Row) :
    (insertInto g d rows r).1.tables.size = g.tables.size := by
  induction rows with
  | nil => simp [insertInto]
  | cons x xs ih =>
    simp only [insertInto]
    split
    · rw [(mergeRows_tables g d x r).1]
    · exact ih

theorem insertRow_tables_size (g : EG) (f : Nat) (r : Row) : (g.insertRow f r).tables.size = g.tables.size := by
  show (EG.setTable _ f _).tables.size = _
  rw [setTable_size, insertInto_tables_size]

theorem lookupOrCreate_tables_size (g : EG) (f : Nat) (args : List Int) :
    (g.lookupOrCreate f args).1.tables.size = g.tables.size := by
  unfold EG.lookupOrCreate
  cases lookupRow (g.table f) args with
  | some r => rfl
  | none => simp only; rw [insertRow_tables_size]; rfl

/-! ### one row per key -/

def UniqueKeys (rows : List Row) : Prop := rows.Pairwise (fun a b => a.args ≠ b.args)

theorem insertInto_keys (g : EG) (d : Decl) : ∀ (rows : List Row) (r : Row),
    ∀ x ∈ (insertInto g d rows r).2, x.args = r.args ∨ ∃ y ∈ rows, y.args = x.args := by
  intro rows
  induction rows generalizing g with
  | nil => intro r x hx; simp [insertInto] at hx; subst hx; exact Or.inl rfl
  | cons y ys ih =>
    intro r x hx
    simp only [insertInto] at hx
    split at hx
    · rename_i hk
      simp only [List.mem_cons] at hx
      rcases hx with rfl | hx
      · left
        have : (mergeRows g d y r).2.args = y.args := by
          unfold mergeRows
          cases d.merge <;> simp <;> split <;> rfl
        rw [this]; exact hk
      · exact Or.inr ⟨x, List.mem_cons_of_mem _ hx, rfl⟩
    · simp only [List.mem_cons] at hx
      rcases hx with rfl | hx
      · exact Or.inr ⟨x, List.mem_cons_self, rfl⟩
      · rcases ih g r x hx with h | ⟨z, hz, hzk⟩
        · exact Or.inl h
        · exact Or.inr ⟨z, List.mem_cons_of_mem _ hz, hzk⟩

theorem insertInto_unique (g : EG) (d : Decl) : ∀ (rows : List Row) (r : Row), UniqueKeys rows →
    UniqueKeys (insertInto g d rows r).2 := by
  intro rows
  induction rows generalizing g with
  | nil => intro r _; simp [insertInto, UniqueKeys]
  | cons y ys ih =>
    intro r hu
    simp only [insertInto]
    unfold UniqueKeys at hu ⊢
    rw [List.pairwise_cons] at hu
    split
    · rename_i hk
      rw [List.pairwise_cons]
      refine ⟨fun b hb => ?_, hu.2⟩
      have : (mergeRows g d y r).2.args = y.args := by
        unfold mergeRows
        cases d.merge <;> simp <;> split <;> rfl
      rw [this]; exact hu.1 b hb
    · rename_i hk
      rw [List.pairwise_cons]
      refine ⟨fun b hb => ?_, ih g r hu.2⟩
      rcases insertInto_keys g d ys r b hb with h | ⟨z, hz, hzk⟩
      · rw [h]; exact hk
      · rw [← hzk]; exact hu.1 z hz


theorem uniqueKeys_eq : ∀ {rows : List Row}, UniqueKeys rows → ∀ {a b : Row}, a ∈ rows → b ∈ rows →
    a.args = b.args → a = b := by
  intro rows
  induction rows with
  | nil => intro _ a b ha; simp at ha
  | cons x xs ih =>
    intro h a b ha hb he
    unfold UniqueKeys at h
    rw [List.pairwise_cons] at h
    simp only [List.mem_cons] at ha hb
    rcases ha with rfl | ha <;> rcases hb with rfl | hb
    · rfl
    · exact absurd he (h.1 b hb)
    · exact absurd he.symm (h.1 a ha)
    · exact ih h.2 ha hb he

end EgglogVerif.EGraph
