import EgglogVerif.Lemmas.EGraph
/-
The history invariant of the e-graph model: what the state remembers of the unions requested
(`U`) and the rows inserted (`R`) so far — completeness half (`unions`, `pres`) — and that every
identification and every stored row is justified by them — soundness half (`sound`, `just`).
Preserved by every state-changing primitive of the model: `union`, `insertRow`, `lookupOrCreate`,
`rebuildTable`, `rebuildPass`.
-/
namespace EgglogVerif.EGraph
open EgglogVerif

theorem ArgsRel.symmE {P : Nat → Nat → Prop} (e : Eqv P) {fl as bs} (h : ArgsRel P fl as bs) : ArgsRel P fl bs as :=
  ArgsRel.symm (P := P) (fun _ _ hxy => e.symm hxy) h
theorem ArgsRel.transE {P : Nat → Nat → Prop} (e : Eqv P) {fl as bs cs} (h1 : ArgsRel P fl as bs)
    (h2 : ArgsRel P fl bs cs) : ArgsRel P fl as cs :=
  ArgsRel.trans (P := P) (fun _ _ _ hxy hyz => e.trans hxy hyz) h1 h2

/-- a row as it was inserted (ghost history) -/
structure IRow where
  f : Nat
  args : List Int
  out : Int
deriving DecidableEq, Repr

/-- Congruence closure of the requested unions `U` over the inserted rows `R`: the least equivalence
on ids containing `U` and closed under "two rows of one constructor table (`unionId` merge) whose id
columns are pairwise related and whose base-value columns are pairwise equal have related outputs". -/
inductive CC (ds : Nat → Decl) (U : List (Nat × Nat)) (R : List IRow) : Nat → Nat → Prop
  | base {a b} : (a, b) ∈ U → CC ds U R a b
  | refl (a) : CC ds U R a a
  | symm {a b} : CC ds U R a b → CC ds U R b a
  | trans {a b c} : CC ds U R a b → CC ds U R b c → CC ds U R a c
  | congr {r1 r2 : IRow} : r1 ∈ R → r2 ∈ R → r1.f = r2.f → (ds r1.f).merge = .unionId →
      r1.args.length = r2.args.length →
      (∀ i (h1 : i < r1.args.length) (h2 : i < r2.args.length),
        (ds r1.f).argIsId.getD i false = true → CC ds U R (r1.args[i]).toNat (r2.args[i]).toNat) →
      (∀ i (h1 : i < r1.args.length) (h2 : i < r2.args.length),
        (ds r1.f).argIsId.getD i false = false → r1.args[i] = r2.args[i]) →
      CC ds U R r1.out.toNat r2.out.toNat

theorem CC.eqv (ds : Nat → Decl) (U R) : Eqv (CC ds U R) :=
  ⟨CC.refl, fun h => CC.symm h, fun h1 h2 => CC.trans h1 h2⟩

theorem CC.mono {ds : Nat → Decl} {U U' : List (Nat × Nat)} {R R' : List IRow}
    (hU : ∀ p, p ∈ U → p ∈ U') (hR : ∀ r, r ∈ R → r ∈ R') {a b} (h : CC ds U R a b) : CC ds U' R' a b := by
  induction h with
  | base hu => exact CC.base (hU _ hu)
  | refl => exact CC.refl _
  | symm _ ih => exact CC.symm ih
  | trans _ _ ih1 ih2 => exact CC.trans ih1 ih2
  | congr h1 h2 hf hm hl _ hb ih => exact CC.congr (hR _ h1) (hR _ h2) hf hm hl ih hb

theorem CC.congr' {ds : Nat → Decl} {U R} {r1 r2 : IRow} (h1 : r1 ∈ R) (h2 : r2 ∈ R) (hf : r1.f = r2.f)
    (hm : (ds r1.f).merge = .unionId) (ha : ArgsRel (CC ds U R) (ds r1.f).argIsId r1.args r2.args) :
    CC ds U R r1.out.toNat r2.out.toNat :=
  CC.congr h1 h2 hf hm ha.1 (fun i a b hb => ((ha.2 i a b).1 hb)) (fun i a b hb => ((ha.2 i a b).2 hb))

/-- a stored row is justified by an inserted row of the same table -/
def Just (ds : Nat → Decl) (U : List (Nat × Nat)) (R : List IRow) (f : Nat) (y : Row) : Prop :=
  (ds f).merge = .unionId → ∃ r0 ∈ R, r0.f = f ∧ ArgsRel (CC ds U R) (ds f).argIsId y.args r0.args ∧
    CC ds U R y.out.toNat r0.out.toNat

theorem Just.mono {ds : Nat → Decl} {U U' : List (Nat × Nat)} {R R' : List IRow}
    (hU : ∀ p, p ∈ U → p ∈ U') (hR : ∀ r, r ∈ R → r ∈ R') {f y} (h : Just ds U R f y) : Just ds U' R' f y := by
  intro hm
  obtain ⟨r0, h0, e1, e2, e3⟩ := h hm
  exact ⟨r0, hR _ h0, e1, e2.mono (fun _ _ => CC.mono hU hR), CC.mono hU hR e3⟩

/-- same key, output related: still justified -/
theorem Just.of_rel {ds : Nat → Decl} {U R f} {y y' : Row} (h : Just ds U R f y) (ha : y'.args = y.args)
    (ho : (ds f).merge = .unionId → CC ds U R y'.out.toNat y.out.toNat) : Just ds U R f y' := by
  intro hm
  obtain ⟨r0, h0, e1, e2, e3⟩ := h hm
  exact ⟨r0, h0, e1, ha ▸ e2, CC.trans (ho hm) e3⟩

/-- two justified rows with the same key have related outputs (a congruence step) -/
theorem Just.collide {ds : Nat → Decl} {U R f} {a b : Row} (ha : Just ds U R f a) (hb : Just ds U R f b)
    (hk : a.args = b.args) (hm : (ds f).merge = .unionId) : CC ds U R a.out.toNat b.out.toNat := by
  obtain ⟨ra, hra, fa, aa, oa⟩ := ha hm
  obtain ⟨rb, hrb, fb, ab, ob⟩ := hb hm
  have e := CC.eqv ds U R
  have hargs : ArgsRel (CC ds U R) (ds f).argIsId ra.args rb.args :=
    ((aa.symmE e).transE e (ArgsRel.of_eq e.refl hk)).transE e ab
  have : CC ds U R ra.out.toNat rb.out.toNat := CC.congr' hra hrb (fa.trans fb.symm) (fa ▸ hm) (fa ▸ hargs)
  exact e.trans oa (e.trans this (e.symm ob))

/-- canonicalising a justified row keeps it justified -/
theorem Just.canon {ds : Nat → Decl} {U R f} {g : EG} (h : g.WF) (hP : ∀ x y, g.rt x = g.rt y → CC ds U R x y)
    {y : Row} (hy : Just ds U R f y) : Just ds U R f (g.canonRow (ds f) y) := by
  intro hm
  obtain ⟨r0, h0, e1, e2, e3⟩ := hy hm
  have e := CC.eqv ds U R
  refine ⟨r0, h0, e1, ?_, ?_⟩
  · exact ((canonArgs_rel h (ds f).argIsId y.args).mono hP).transE e e2
  · show CC ds U R (if (ds f).outIsId then g.find y.out else y.out).toNat _
    split
    · rw [find_toNat h]
      exact e.trans (hP _ _ (rt_idem h _)) e3
    · exact e3

theorem rbFold_sound {ds : Nat → Decl} {U R} (f : Nat) : ∀ (todo : List Row) (acc : EG × List Row), acc.1.WF →
    (∀ x y, acc.1.rt x = acc.1.rt y → CC ds U R x y) →
    (∀ y ∈ acc.2, Just ds U R f y) → (∀ y ∈ todo, Just ds U R f y) →
    (∀ x y, (todo.foldl (rbStep (ds f)) acc).1.rt x = (todo.foldl (rbStep (ds f)) acc).1.rt y → CC ds U R x y) ∧
    (∀ y' ∈ (todo.foldl (rbStep (ds f)) acc).2, Just ds U R f y') := by
  intro todo
  induction todo with
  | nil => intro acc _ hP hJ _; exact ⟨hP, hJ⟩
  | cons r rs ih =>
    intro acc h hP hJ hT
    simp only [List.foldl_cons]
    have e := CC.eqv ds U R
    have hr' : Just ds U R f (acc.1.canonRow (ds f) r) := Just.canon h hP (hT r List.mem_cons_self)
    have hstep : rbStep (ds f) acc r = insertInto acc.1 (ds f) acc.2 (acc.1.canonRow (ds f) r) := rfl
    obtain ⟨s1, s2⟩ := insertInto_sound (ds f) e acc.2 acc.1 (acc.1.canonRow (ds f) r) h hP
      (fun cur hcur hk hm => Just.collide (hJ cur hcur) hr' hk hm)
    have hw := (insertInto_spec (ds f) acc.2 acc.1 (acc.1.canonRow (ds f) r) h).1
    refine ih (rbStep (ds f) acc r) (hstep ▸ hw) (hstep ▸ s1) ?_ (fun y hy => hT y (List.mem_cons_of_mem _ hy))
    intro y' hy'
    obtain ⟨y, hy, e1, e2⟩ := s2 y' (hstep ▸ hy')
    simp only [List.mem_cons] at hy
    rcases hy with rfl | hy
    · exact hr'.of_rel e1 e2
    · exact (hJ y hy).of_rel e1 e2

/-! ### the invariant -/

/-- the inserted row `(args, out)` of table `f` still has an image in the state -/
def HasImg (g : EG) (f : Nat) (args : List Int) (out : Int) : Prop :=
  ∃ y' ∈ g.table f, canonArgs g (g.decl f).argIsId y'.args = canonArgs g (g.decl f).argIsId args ∧
    ((g.decl f).merge = .unionId → g.rt y'.out.toNat = g.rt out.toNat)

theorem HasImg.self {g : EG} {f : Nat} {y : Row} (hy : y ∈ g.table f) : HasImg g f y.args y.out :=
  ⟨y, hy, rfl, fun _ => rfl⟩

/-- images survive any step after which every old row of the table still has an image -/
theorem HasImg.step {g g' : EG} (h : g.WF) (h' : g'.WF) (c : Coarser g g') {f : Nat} (hd : g'.decl f = g.decl f)
    (hrows : ∀ y ∈ g.table f, HasImg g' f y.args y.out) {args out} (hi : HasImg g f args out) :
    HasImg g' f args out := by
  obtain ⟨y, hy, e1, e2⟩ := hi
  obtain ⟨y', hy', f1, f2⟩ := hrows y hy
  refine ⟨y', hy', ?_, fun hm => ?_⟩
  · rw [f1, hd]
    exact (canonArgs_eq_iff h' _ _ _).mpr (((canonArgs_eq_iff h _ _ _).mp e1).mono c.eq)
  · rw [f2 hm]; exact c.eq _ _ (e2 (hd ▸ hm))

structure Inv (ds : Nat → Decl) (g : EG) (U : List (Nat × Nat)) (R : List IRow) : Prop where
  wf : g.WF
  decl : ∀ f, g.decl f = ds f
  unions : ∀ a b, (a, b) ∈ U → g.rt a = g.rt b
  pres : ∀ r ∈ R, HasImg g r.f r.args r.out
  sound : ∀ x y, g.rt x = g.rt y → CC ds U R x y
  just : ∀ f, ∀ y ∈ g.table f, Just ds U R f y

/-- generic preservation: a step that coarsens the partition, keeps the declarations, keeps an image
of every stored row, and whose identifications and rows are justified -/
theorem Inv.step {ds : Nat → Decl} {g g' : EG} {U U' : List (Nat × Nat)} {R R' : List IRow} (i : Inv ds g U R)
    (h' : g'.WF) (c : Coarser g g') (hd : ∀ f, g'.decl f = g.decl f)
    (hrows : ∀ f, ∀ y ∈ g.table f, HasImg g' f y.args y.out)
    (hU : ∀ p, p ∈ U' → p ∈ U ∨ g'.rt p.1 = g'.rt p.2)
    (hR : ∀ r, r ∈ R' → r ∈ R ∨ HasImg g' r.f r.args r.out)
    (hs : ∀ x y, g'.rt x = g'.rt y → CC ds U' R' x y)
    (hj : ∀ f, ∀ y ∈ g'.table f, Just ds U' R' f y) : Inv ds g' U' R' := by
  refine ⟨h', fun f => (hd f).trans (i.decl f), ?_, ?_, hs, hj⟩
  · intro a b hab
    rcases hU _ hab with h | h
    · exact c.eq _ _ (i.unions a b h)
    · exact h
  · intro r hr
    rcases hR r hr with h | h
    · exact HasImg.step i.wf h' c (hd r.f) (hrows r.f) (i.pres r h)
    · exact h

/-! ### union -/

theorem Inv.union {ds : Nat → Decl} {g : EG} {U R} (i : Inv ds g U R) (a b : Int) :
    Inv ds (g.union a b) ((a.toNat, b.toNat) :: U) R := by
  have e := CC.eqv ds ((a.toNat, b.toNat) :: U) R
  have mono : ∀ {x y}, CC ds U R x y → CC ds ((a.toNat, b.toNat) :: U) R x y :=
    fun h => CC.mono (fun _ hp => List.mem_cons_of_mem _ hp) (fun _ hr => hr) h
  refine i.step (union_wf i.wf a b) (union_coarser i.wf a b) (fun _ => rfl)
    (fun f y hy => HasImg.self (by simpa using hy)) ?_ (fun r hr => Or.inl hr) ?_ ?_
  · intro p hp
    simp only [List.mem_cons] at hp
    rcases hp with rfl | hp
    · exact Or.inr (union_joins i.wf a b)
    · exact Or.inl hp
  · intro x y hxy
    have hab : CC ds ((a.toNat, b.toNat) :: U) R a.toNat b.toNat := CC.base List.mem_cons_self
    rcases union_sound i.wf a b x y hxy with h | ⟨h1, h2⟩ | ⟨h1, h2⟩
    · exact mono (i.sound _ _ h)
    · exact e.trans (mono (i.sound _ _ h1)) (e.trans hab (e.symm (mono (i.sound _ _ h2))))
    · exact e.trans (mono (i.sound _ _ h1)) (e.trans (e.symm hab) (e.symm (mono (i.sound _ _ h2))))
  · intro f y hy
    exact (i.just f y (by simpa using hy)).mono (fun _ hp => List.mem_cons_of_mem _ hp) (fun _ hr => hr)

/-- the invariant only looks at the partition, the declarations and the tables -/
theorem Inv.congr {ds : Nat → Decl} {g g' : EG} {U R} (i : Inv ds g U R) (h' : g'.WF)
    (hrt : ∀ x, g'.rt x = g.rt x) (hd : g'.decls = g.decls) (ht : g'.tables = g.tables) : Inv ds g' U R := by
  have htab : ∀ f, g'.table f = g.table f := fun f => by unfold EG.table; rw [ht]
  have hdec : ∀ f, g'.decl f = g.decl f := fun f => by unfold EG.decl; rw [hd]
  have c : Coarser g g' := ⟨fun x y h => by rw [hrt, hrt]; exact h, fun x => by rw [hrt]; exact rt_idem i.wf x⟩
  refine i.step h' c hdec (fun f y hy => HasImg.self (htab f ▸ hy)) (fun p hp => Or.inl hp) (fun r hr => Or.inl hr) ?_ ?_
  · intro x y hxy; rw [hrt, hrt] at hxy; exact i.sound x y hxy
  · intro f y hy; exact i.just f y (htab f ▸ hy)

/-! ### inserting a row -/

theorem insertRow_eq (g : EG) (f : Nat) (r : Row) :
    g.insertRow f r = (insertInto g (g.decl f) (g.table f) r).1.setTable f (insertInto g (g.decl f) (g.table f) r).2 := rfl

theorem Inv.insertRow {ds : Nat → Decl} {g : EG} {U R} (i : Inv ds g U R) (f : Nat) (r : Row)
    (hf : f < g.tables.size) : Inv ds (g.insertRow f r) U (⟨f, r.args, r.out⟩ :: R) := by
  rw [insertRow_eq]
  obtain ⟨s1, s2, s3, s4, s5⟩ := insertInto_spec (g.decl f) (g.table f) g r i.wf
  have e := CC.eqv ds U (⟨f, r.args, r.out⟩ :: R)
  have monoR : ∀ r', r' ∈ R → r' ∈ (⟨f, r.args, r.out⟩ : IRow) :: R := fun _ h => List.mem_cons_of_mem _ h
  have mono : ∀ {x y}, CC ds U R x y → CC ds U (⟨f, r.args, r.out⟩ :: R) x y := fun h => CC.mono (fun _ hp => hp) monoR h
  have jr : Just ds U (⟨f, r.args, r.out⟩ :: R) f r :=
    fun _ => ⟨⟨f, r.args, r.out⟩, List.mem_cons_self, rfl, ArgsRel.refl e.refl _ _, e.refl _⟩
  have jold : ∀ y ∈ g.table f, Just ds U (⟨f, r.args, r.out⟩ :: R) f y :=
    fun y hy => (i.just f y hy).mono (fun _ hp => hp) monoR
  obtain ⟨t1, t2⟩ := insertInto_sound (g.decl f) e (g.table f) g r i.wf (fun x y h => mono (i.sound x y h))
    (fun cur hcur hk hm => Just.collide (jold cur hcur) jr hk (i.decl f ▸ hm))
  have hsize : f < (insertInto g (g.decl f) (g.table f) r).1.tables.size := by rw [s3]; exact hf
  have htabf : ((insertInto g (g.decl f) (g.table f) r).1.setTable f (insertInto g (g.decl f) (g.table f) r).2).table f
      = (insertInto g (g.decl f) (g.table f) r).2 := by
    rw [setTable_table, if_pos ⟨rfl, hsize⟩]
  have htabo : ∀ f', f' ≠ f → ((insertInto g (g.decl f) (g.table f) r).1.setTable f (insertInto g (g.decl f) (g.table f) r).2).table f'
      = g.table f' := by
    intro f' hne
    rw [setTable_table, if_neg (fun h => hne h.1)]
    exact table_congr s3 f'
  have hdec : ∀ f', ((insertInto g (g.decl f) (g.table f) r).1.setTable f (insertInto g (g.decl f) (g.table f) r).2).decl f' = g.decl f' := by
    intro f'; exact decl_congr (g' := EG.setTable _ f _) s4 f'
  have himg : ∀ y ∈ r :: g.table f, HasImg ((insertInto g (g.decl f) (g.table f) r).1.setTable f (insertInto g (g.decl f) (g.table f) r).2) f y.args y.out := by
    intro y hy
    obtain ⟨y', hy', e1, e2⟩ := s5 y hy
    exact ⟨y', by rw [htabf]; exact hy', by rw [e1], fun hm => e2 (hdec f ▸ hm)⟩
  refine i.step s1 ⟨s2.eq, s2.roots⟩ hdec ?_ (fun p hp => Or.inl hp) ?_ t1 ?_
  · intro f' y hy
    by_cases hne : f' = f
    · subst hne; exact himg y (List.mem_cons_of_mem _ hy)
    · exact HasImg.self (htabo f' hne ▸ hy)
  · intro r' hr'
    simp only [List.mem_cons] at hr'
    rcases hr' with rfl | hr'
    · exact Or.inr (himg r List.mem_cons_self)
    · exact Or.inl hr'
  · intro f' y hy
    by_cases hne : f' = f
    · subst hne
      rw [htabf] at hy
      obtain ⟨y0, hy0, e1, e2⟩ := t2 y hy
      simp only [List.mem_cons] at hy0
      rcases hy0 with rfl | hy0
      · exact jr.of_rel e1 (fun hm => e2 (i.decl f' ▸ hm))
      · exact (jold y0 hy0).of_rel e1 (fun hm => e2 (i.decl f' ▸ hm))
    · rw [htabo f' hne] at hy
      exact (i.just f' y hy).mono (fun _ hp => hp) monoR

/-- inserting into an undeclared table does nothing -/
theorem Inv.insertRow_oob {ds : Nat → Decl} {g : EG} {U R} (i : Inv ds g U R) (f : Nat) (r : Row)
    (hf : g.tables.size ≤ f) : Inv ds (g.insertRow f r) U R := by
  rw [insertRow_eq, table_of_ge g hf]
  simp only [insertInto]
  refine i.congr i.wf (fun _ => rfl) rfl ?_
  unfold EG.setTable
  simp [Nat.not_lt.mpr hf]

/-! ### constructor call: look up or create -/

def createRow (g : EG) (f : Nat) (args : List Int) : List IRow :=
  match lookupRow (g.table f) args with
  | some _ => []
  | none => if f < g.tables.size then [⟨f, args, Int.ofNat g.parents.size⟩] else []

theorem Inv.fresh {ds : Nat → Decl} {g : EG} {U R} (i : Inv ds g U R) : Inv ds g.freshId.1 U R :=
  i.congr (fresh_wf i.wf) (fresh_rt g) rfl rfl

theorem Inv.lookupOrCreate {ds : Nat → Decl} {g : EG} {U R} (i : Inv ds g U R) (f : Nat) (args : List Int) :
    Inv ds (g.lookupOrCreate f args).1 U (createRow g f args ++ R) := by
  unfold EG.lookupOrCreate createRow
  cases lookupRow (g.table f) args with
  | some r => exact i
  | none =>
    simp only
    by_cases hf : f < g.tables.size
    · rw [if_pos hf]
      exact i.fresh.insertRow f ⟨args, Int.ofNat g.parents.size, false⟩ hf
    · rw [if_neg hf]
      exact i.fresh.insertRow_oob f _ (Nat.le_of_not_lt hf)

/-! ### rebuild -/

theorem Inv.rebuildTable {ds : Nat → Decl} {g : EG} {U R} (i : Inv ds g U R) (f : Nat) :
    Inv ds (rebuildTable g f) U R := by
  rw [rebuildTable_eq, i.decl f]
  obtain ⟨s1, s2, s3, s4, _, s6⟩ := rbFold_spec (ds f) (g.table f) (g, []) i.wf
  obtain ⟨t1, t2⟩ := rbFold_sound (ds := ds) (U := U) (R := R) f (g.table f) (g, []) i.wf i.sound
    (fun y hy => by simp at hy) (i.just f)
  have hdec : ∀ f', (((g.table f).foldl (rbStep (ds f)) (g, [])).1.setTable f ((g.table f).foldl (rbStep (ds f)) (g, [])).2).decl f' = g.decl f' := by
    intro f'; exact decl_congr (g' := EG.setTable _ f _) s4 f'
  have htabo : ∀ f', f' ≠ f → (((g.table f).foldl (rbStep (ds f)) (g, [])).1.setTable f ((g.table f).foldl (rbStep (ds f)) (g, [])).2).table f'
      = g.table f' := by
    intro f' hne
    rw [setTable_table, if_neg (fun h => hne h.1)]
    exact table_congr s3 f'
  by_cases hf : f < g.tables.size
  · have hsize : f < ((g.table f).foldl (rbStep (ds f)) (g, [])).1.tables.size := by rw [s3]; exact hf
    have htabf : (((g.table f).foldl (rbStep (ds f)) (g, [])).1.setTable f ((g.table f).foldl (rbStep (ds f)) (g, [])).2).table f
        = ((g.table f).foldl (rbStep (ds f)) (g, [])).2 := by
      rw [setTable_table, if_pos ⟨rfl, hsize⟩]
    refine i.step s1 ⟨s2.eq, s2.roots⟩ hdec ?_ (fun p hp => Or.inl hp) (fun r hr => Or.inl hr) t1 ?_
    · intro f' y hy
      by_cases hne : f' = f
      · subst hne
        obtain ⟨y', hy', e1, e2⟩ := s6 y hy
        refine ⟨y', by rw [htabf]; exact hy', ?_, fun hm => e2 ?_⟩
        · rw [hdec f', i.decl f']; exact e1
        · rw [hdec f', i.decl f'] at hm; exact hm
      · exact HasImg.self (htabo f' hne ▸ hy)
    · intro f' y hy
      by_cases hne : f' = f
      · subst hne; rw [htabf] at hy; exact t2 y hy
      · rw [htabo f' hne] at hy; exact i.just f' y hy
  · have hnil := table_of_ge g (Nat.le_of_not_lt hf)
    rw [hnil]
    simp only [List.foldl_nil]
    refine i.congr i.wf (fun _ => rfl) rfl ?_
    unfold EG.setTable
    simp [hf]

theorem Inv.rebuildTables {ds : Nat → Decl} {U R} : ∀ (fs : List Nat) {g : EG}, Inv ds g U R →
    Inv ds (fs.foldl EGraph.rebuildTable g) U R := by
  intro fs
  induction fs with
  | nil => intro g i; exact i
  | cons f fs ih => intro g i; exact ih (i.rebuildTable f)

theorem Inv.rebuildPass {ds : Nat → Decl} {g : EG} {U R} (i : Inv ds g U R) : Inv ds (EGraph.rebuildPass g) U R :=
  Inv.rebuildTables _ i

theorem Inv.rebuild {ds : Nat → Decl} {U R} : ∀ (fuel : Nat) {g : EG}, Inv ds g U R → Inv ds (EGraph.rebuild fuel g).1 U R := by
  intro fuel
  induction fuel with
  | zero => intro g i; exact i
  | succ n ih =>
    intro g i
    simp only [EgglogVerif.EGraph.rebuild]
    split
    · exact i.rebuildPass
    · exact ih i.rebuildPass

/-! ### partial (incremental) rebuild passes -/

/-- re-canonicalise and re-insert only the rows selected by `sel` (what an index-driven, incremental
rebuild does: `sel` = "mentions a displaced id"), leaving the other rows where they are -/
def rebuildSome (g : EG) (f : Nat) (sel : Row → Bool) : EG :=
  let res := ((g.table f).filter sel).foldl (rbStep (g.decl f)) (g, (g.table f).filter (fun r => !sel r))
  res.1.setTable f res.2

/-- **Any partial rebuild pass preserves the history invariant** — whatever subset of the rows it
chooses to re-insert.  An incremental strategy can therefore never invent or lose an equality; the
only thing it can fail to do is reach a canonical database (which is decidable on the result). -/
theorem Inv.rebuildSome {ds : Nat → Decl} {g : EG} {U R} (i : Inv ds g U R) (f : Nat) (sel : Row → Bool) :
    Inv ds (EGraph.rebuildSome g f sel) U R := by
  unfold EGraph.rebuildSome
  simp only
  rw [i.decl f]
  have hkeep : ∀ y, y ∈ (g.table f).filter (fun r => !sel r) → y ∈ g.table f := fun y hy => (List.mem_filter.mp hy).1
  have hredo : ∀ y, y ∈ (g.table f).filter sel → y ∈ g.table f := fun y hy => (List.mem_filter.mp hy).1
  obtain ⟨s1, s2, s3, s4, s5, s6⟩ := rbFold_spec (ds f) ((g.table f).filter sel) (g, (g.table f).filter (fun r => !sel r)) i.wf
  obtain ⟨t1, t2⟩ := rbFold_sound (ds := ds) (U := U) (R := R) f ((g.table f).filter sel) (g, (g.table f).filter (fun r => !sel r)) i.wf i.sound
    (fun y hy => i.just f y (hkeep y hy)) (fun y hy => i.just f y (hredo y hy))
  have hdec : ∀ f', ((((g.table f).filter sel).foldl (rbStep (ds f)) (g, (g.table f).filter (fun r => !sel r))).1.setTable f
      (((g.table f).filter sel).foldl (rbStep (ds f)) (g, (g.table f).filter (fun r => !sel r))).2).decl f' = g.decl f' :=
    fun f' => decl_congr (g' := EG.setTable _ f _) s4 f'
  have htabo : ∀ f', f' ≠ f → ((((g.table f).filter sel).foldl (rbStep (ds f)) (g, (g.table f).filter (fun r => !sel r))).1.setTable f
      (((g.table f).filter sel).foldl (rbStep (ds f)) (g, (g.table f).filter (fun r => !sel r))).2).table f' = g.table f' := by
    intro f' hne
    rw [setTable_table, if_neg (fun h => hne h.1)]
    exact table_congr s3 f'
  by_cases hf : f < g.tables.size
  · have hsize : f < (((g.table f).filter sel).foldl (rbStep (ds f)) (g, (g.table f).filter (fun r => !sel r))).1.tables.size := by
      rw [s3]; exact hf
    have htabf : ((((g.table f).filter sel).foldl (rbStep (ds f)) (g, (g.table f).filter (fun r => !sel r))).1.setTable f
        (((g.table f).filter sel).foldl (rbStep (ds f)) (g, (g.table f).filter (fun r => !sel r))).2).table f
        = (((g.table f).filter sel).foldl (rbStep (ds f)) (g, (g.table f).filter (fun r => !sel r))).2 := by
      rw [setTable_table, if_pos ⟨rfl, hsize⟩]
    refine i.step s1 ⟨s2.eq, s2.roots⟩ hdec ?_ (fun p hp => Or.inl hp) (fun r hr => Or.inl hr) t1 ?_
    · intro f' y hy
      by_cases hne : f' = f
      · subst hne
        by_cases hs : sel y = true
        · obtain ⟨y', hy', e1, e2⟩ := s6 y (List.mem_filter.mpr ⟨hy, hs⟩)
          refine ⟨y', by rw [htabf]; exact hy', ?_, fun hm => e2 ?_⟩
          · rw [hdec f', i.decl f']; exact e1
          · rw [hdec f', i.decl f'] at hm; exact hm
        · obtain ⟨y', hy', e1, e2⟩ := s5 y (List.mem_filter.mpr ⟨hy, by simpa using hs⟩)
          refine ⟨y', by rw [htabf]; exact hy', by rw [e1], fun hm => e2 ?_⟩
          rw [hdec f', i.decl f'] at hm; exact hm
      · exact HasImg.self (htabo f' hne ▸ hy)
    · intro f' y hy
      by_cases hne : f' = f
      · subst hne; rw [htabf] at hy; exact t2 y hy
      · rw [htabo f' hne] at hy; exact i.just f' y hy
  · have hnil := table_of_ge g (Nat.le_of_not_lt hf)
    simp only [hnil, List.filter_nil, List.foldl_nil]
    refine i.congr i.wf (fun _ => rfl) rfl ?_
    unfold EG.setTable
    simp [hf]

end EgglogVerif.EGraph
