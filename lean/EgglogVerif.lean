import EgglogVerif.Model.UF
import EgglogVerif.Lemmas.UF
