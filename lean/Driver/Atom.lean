import EgglogVerif.Model.Atom
namespace Driver
open EgglogVerif.Atom

/-- `at cls <token>`: the class of a bare token (theorems C15_int_token, C15_digits_token, C15_symbol_token) -/
def atStep (toks : List String) : String :=
  match toks with
  | ["cls", t] =>
    match classify t.toList with
    | .bool b => s!"bool {b}"
    | .int i => s!"int {i}"
    | .nan => "nan" | .inf => "inf" | .ninf => "ninf" | .num => "num" | .atom => "atom"
  | ["print", i] =>
    match i.toInt? with
    | some i => String.ofList (printInt i)
    | none => "bad-op"
  | _ => "bad-op"

end Driver
