import EgglogVerif.Props.C14
namespace Driver
open EgglogVerif.Containers

/-- `cn set f0 f1 .. | e0 e1 ..` : normal form of a set under the find table -/
def cnStep (toks : List String) : String :=
  match toks with
  | kind :: rest =>
    let fs := (rest.takeWhile (· ≠ "|")).filterMap String.toNat?
    let es := ((rest.dropWhile (· ≠ "|")).drop 1).filterMap String.toNat?
    let find := fun x => fs.getD x x
    let r := if kind = "set" then normSet find es else if kind = "mset" then normMSet find es else normVec find es
    " ".intercalate (r.map toString)
  | _ => "bad-op"

end Driver
