import EgglogVerif.Model.Displaced
namespace Driver
open EgglogVerif.Displaced

def showDRow (r : Nat × Nat × Nat) : String := s!"{r.1},{r.2.1},{r.2.2}"

/-- line protocol for the DisplacedTable model (theorems C16_displaced_*) -/
def dtStep (t : DT) (toks : List String) : DT × String :=
  match toks with
  | ["new"] => ({}, "ok")
  | ["ins", a, b, ts] =>
    match a.toNat?, b.toNat?, ts.toNat? with
    | some a, some b, some ts =>
      let (t', r) := t.insert a b ts
      (t', match r with | some (p, c) => s!"{p} {c}" | none => "none")
    | _, _, _ => (t, "bad-op")
  | ["get", k] =>
    match k.toNat? with
    | some k => (t, match t.getRow k with | some r => showDRow r | none => "none")
    | none => (t, "bad-op")
  | ["scan"] => (t, " ".intercalate (t.scan.map showDRow))
  | ["sub", k, val] =>
    -- `fast_subset` on the timestamp column (theorem C16_displaced_ts_range): the rows of the dense range
    let k? : Option TsC := match k with
      | "lt" => some .lt | "le" => some .le | "gt" => some .gt | "ge" => some .ge | "eqc" => some .eq | _ => none
    match k?, val.toNat? with
    | some k, some v =>
      match tsRange t.displaced k v with
      | some r => (t, " ".intercalate (((t.scan.drop r.1).take (r.2 - r.1)).map showDRow))
      | none => (t, "none")
    | _, _ => (t, "bad-op")
  | ["clear"] => (t.clear, "ok")
  | _ => (t, "bad-op")

end Driver
