import EgglogVerif.Model.EGraph
namespace Driver
open EgglogVerif.EGraph

structure EgSt where
  g : EG := {}
  rules : List (Nat × Rule) := []
  stack : List (EG × List (Nat × Rule)) := []

def egFuel : Nat := 200

def parseTm (s : String) : Option Tm :=
  if s.startsWith "v" then (s.drop 1).toString.toNat?.map Tm.var else s.toInt?.map Tm.lit

def parseOp : String → Option PrimOp
  | "add" => some .add | "sub" => some .sub | "mul" => some .mul | "min" => some .pmin | "max" => some .pmax
  | "lt" => some .lt | "le" => some .le | "ne" => some .ne | "eq" => some .eq
  | _ => none

def splitToks (toks : List String) (sep : String) : List (List String) :=
  let rec go (cur : List String) (acc : List (List String)) : List String → List (List String)
    | [] => (cur.reverse :: acc).reverse
    | t :: ts => if t = sep then go [] (cur.reverse :: acc) ts else go (t :: cur) acc ts
  (go [] [] toks).filter (· ≠ [])

def parseAction (toks : List String) : Option Action :=
  match toks with
  | "call" :: dst :: f :: args => do pure (.call (← dst.toNat?) (← f.toNat?) (← args.mapM parseTm))
  | "prim" :: dst :: op :: args => do pure (.prim (← dst.toNat?) (← parseOp op) (← args.mapM parseTm))
  | ["union", a, b] => do pure (.union (← parseTm a) (← parseTm b))
  | "set" :: f :: rest => do
    let args := rest.takeWhile (· ≠ "=")
    let v := (rest.dropWhile (· ≠ "=")).drop 1
    match v with
    | [v] => pure (.set (← f.toNat?) (← args.mapM parseTm) (← parseTm v))
    | _ => none
  | "subsume" :: f :: args => do pure (.subsume (← f.toNat?) (← args.mapM parseTm))
  | "delete" :: f :: args => do pure (.delete (← f.toNat?) (← args.mapM parseTm))
  | ["panic"] => some .panic
  | _ => none

def parseAtom (toks : List String) : Option Atom :=
  match toks with
  | "tbl" :: f :: rest => do
    let args := rest.takeWhile (· ≠ "->")
    match (rest.dropWhile (· ≠ "->")).drop 1 with
    | [o] => pure (.tbl (← f.toNat?) (← args.mapM parseTm) (← parseTm o))
    | _ => none
  | "prim" :: op :: rest => do
    let args := rest.takeWhile (· ≠ "->")
    match (rest.dropWhile (· ≠ "->")).drop 1 with
    | [o] => pure (.prim (← parseOp op) (← args.mapM parseTm) (← parseTm o))
    | [] => pure (.prim (← parseOp op) (← args.mapM parseTm) (.lit 0))
    | _ => none
  | _ => none

def showEgRow (f : Nat) (r : Row) : String :=
  s!"{f}:" ++ ",".intercalate (r.args.map toString) ++ s!">{r.out}" ++ (if r.sub then "!" else "")

def dumpEg (g : EG) : String :=
  " ".intercalate ((List.range g.tables.size).flatMap fun f => (g.table f).map (showEgRow f))

def runN (rules : List Rule) : Nat → EG → Nat → EG × Nat
  | 0, g, it => (g, it)
  | n + 1, g, it =>
    let (g', ch) := stepRules egFuel g rules
    -- an iteration in which an action failed (`panic`, merge conflict) aborts the whole `run`
    if g'.err then (g', it + 1) else
    if ch then runN rules n g' (it + 1) else (g', it + 1)

def egStep (s : EgSt) (toks : List String) : EgSt × String :=
  match toks with
  | ["new"] => ({}, "ok")
  | ["decl", args, out, merge] =>
    let argIsId := if args = "-" then [] else args.toList.map (· == 'i')
    let m := match merge with
      | "unionId" => Merge.unionId | "min" => .min | "max" => .max | "assertEq" => .assertEq | _ => .unit
    let g := { s.g with decls := s.g.decls.push ⟨argIsId, out == "i", m⟩, tables := s.g.tables.push [] }
    ({ s with g := g }, "ok")
  | "act" :: rest =>
    match (splitToks rest ";").mapM parseAction with
    | none => (s, "bad-op")
    | some as =>
      let g' := topAction egFuel { s.g with err := false } as
      if g'.err then ({ s with g := { g' with err := false } }, "error") else ({ s with g := g' }, "ok")
  | "rule" :: rs :: rest =>
    let body := rest.takeWhile (· ≠ "=>")
    let head := (rest.dropWhile (· ≠ "=>")).drop 1
    match rs.toNat?, (splitToks body ";").mapM parseAtom, (splitToks head ";").mapM parseAction with
    | some rs, some b, some h => ({ s with rules := s.rules ++ [(rs, ⟨b, h⟩)] }, "ok")
    | _, _, _ => (s, "bad-op")
  | ["run", rs, n] =>
    match rs.toNat?, n.toNat? with
    | some rs, some n =>
      let rules := (s.rules.filter (·.1 == rs)).map (·.2)
      let (g', it) := runN rules n { s.g with err := false } 0
      if g'.err then ({ s with g := { g' with err := false } }, "error") else ({ s with g := g' }, s!"{it}")
    | _, _ => (s, "bad-op")
  | "check" :: rest =>
    match (splitToks rest ";").mapM parseAtom with
    | some atoms => (s, toString (check s.g atoms))
    | none => (s, "bad-op")
  | ["dump"] => (s, dumpEg s.g)
  | ["push"] => ({ s with stack := (s.g, s.rules) :: s.stack }, "ok")
  | ["pop"] =>
    match s.stack with
    | [] => (s, "error")
    | (g, r) :: rest => ({ g := g, rules := r, stack := rest }, "ok")
  | _ => (s, "bad-op")

end Driver
