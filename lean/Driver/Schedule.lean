import EgglogVerif.Model.Schedule
namespace Driver
open EgglogVerif.Schedule

/-- propositional Horn rules over facts `P n` -/
structure HRule where
  prem : List Nat
  concl : Nat

structure ScSt where
  env : Array (RS HRule) := #[]
  db : List Nat := []

def insertSorted (x : Nat) : List Nat → List Nat
  | [] => [x]
  | y :: ys => if x < y then x :: y :: ys else if x = y then y :: ys else y :: insertSorted x ys

/-- one iteration of ruleset `r`: all rules matched on the database as it stood, then applied -/
def hornStep (env : Array (RS HRule)) (r : Nat) (db : List Nat) : List Nat × Bool :=
  let rules := collect env.toList 16 r
  let fire := rules.filter (fun ru => ru.prem.all (db.contains ·))
  let new := (fire.map (·.concl)).filter (fun c => !db.contains c)
  (new.foldl (fun d c => insertSorted c d) db, !new.isEmpty)

def hornHolds (u : List Nat) (db : List Nat) : Bool := u.all (db.contains ·)

abbrev HS := Sched Nat (List Nat)

/-- parse the prefix token form of a schedule -/
def parseSched : Nat → List String → Option (HS × List String)
  | 0, _ => none
  | f + 1, toks =>
    match toks with
    | "R" :: rs :: k :: rest => do
      let rs ← rs.toNat?
      let k ← k.toNat?
      let facts ← (rest.take k).mapM String.toNat?
      if (rest.take k).length != k then none
      pure (.run rs (if k = 0 then none else some facts), rest.drop k)
    | "P" :: n :: rest => do
      let n ← n.toNat?
      let (s, rest) ← parseSched f rest
      pure (.rep n s, rest)
    | "S" :: rest => do
      let (s, rest) ← parseSched f rest
      pure (.sat s, rest)
    | "Q" :: k :: rest => do
      let k ← k.toNat?
      let rec go (fuel k : Nat) (rest : List String) : Option (HS × List String) :=
        match fuel, k with
        | _, 0 => some (.seqNil, rest)
        | 0, _ => none
        | fuel + 1, k + 1 => do
          let (s, rest) ← parseSched f rest
          let (tl, rest) ← go fuel k rest
          pure (.seqCons s tl, rest)
      go k k rest
    | _ => none

def scStep (s : ScSt) (toks : List String) : ScSt × String :=
  match toks with
  | ["new"] => ({}, "ok")
  | ["ruleset"] => ({ s with env := s.env.push (.rules []) }, "ok")
  | "combined" :: subs =>
    match subs.mapM String.toNat? with
    | some subs => ({ s with env := s.env.push (.combined subs) }, "ok")
    | none => (s, "bad-op")
  | "rule" :: rs :: concl :: prem =>
    match rs.toNat?, concl.toNat?, prem.mapM String.toNat? with
    | some rs, some concl, some prem =>
      match s.env[rs]? with
      | some (.rules l) => ({ s with env := s.env.set! rs (.rules (l ++ [⟨prem, concl⟩])) }, "ok")
      | _ => (s, "bad-op")
    | _, _, _ => (s, "bad-op")
  | ["fact", n] =>
    match n.toNat? with
    | some n => ({ s with db := insertSorted n s.db }, "ok")
    | none => (s, "bad-op")
  | "run" :: toks =>
    match parseSched 64 toks with
    | some (sch, []) =>
      match exec (hornStep s.env) hornHolds 100000 sch s.db with
      | some (db', r) => ({ s with db := db' }, s!"{r.iters} {r.updated} | {" ".intercalate (db'.map toString)}")
      | none => (s, "fuel-exhausted")
    | _ => (s, "bad-op")
  | _ => (s, "bad-op")

end Driver
