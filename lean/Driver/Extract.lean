import EgglogVerif.Model.Extract
namespace Driver
open EgglogVerif.Extract

structure ExSt where
  edges : Array Edge := #[]

def exStep (s : ExSt) (toks : List String) : ExSt × String :=
  match toks with
  | ["new"] => ({}, "ok")
  | "edge" :: head :: target :: sub :: cs =>
    match head.toNat?, target.toNat?, sub.toNat?, cs.mapM String.toNat? with
    | some h, some t, some sb, some cs => ({ s with edges := s.edges.push ⟨h, cs, t, sb != 0⟩ }, "ok")
    | _, _, _, _ => (s, "bad-op")
  | "run" :: classes =>
    match classes.mapM String.toNat? with
    | some cls =>
      let edges := s.edges.toList
      -- every changing pass lowers or defines at least one class: #classes * #edges + 2 passes suffice
      -- for small inputs; the flag reports whether the fixpoint was really reached
      let r := bellmanFord edges (edges.length * edges.length + 8) noCosts
      if !r.2 then (s, "fuel-exhausted") else
      (s, " ".intercalate (cls.map fun c => match r.1 c with | some k => s!"{c}={k}" | none => s!"{c}=none"))
    | none => (s, "bad-op")
  | "term" :: classes =>
    -- the whole pipeline (rank-guarded edges, grounded-set repair, reconstruction): theorem C07_extract_term
    match classes.mapM String.toNat? with
    | some cls =>
      let edges := s.edges.toList
      let fuel := edges.length * edges.length + 8
      if !(bellmanFordR edges fuel ⟨noCosts, fun _ => 0, 0⟩).2 then (s, "fuel-exhausted") else
      let r := extractAll edges fuel
      let show1 := fun (c : Nat) =>
        if r.1.grounded.contains c then
          match reconstruct r.1.parent (r.1.grounded.length + 1) c with
          | some t => s!"{c}={t.cost}"
          | none => s!"{c}=stuck"
        else s!"{c}=none"
      (s, s!"repair={if r.2.2 then 1 else 0} " ++ " ".intercalate (cls.map show1))
    | none => (s, "bad-op")
  | _ => (s, "bad-op")

end Driver
