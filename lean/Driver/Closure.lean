import EgglogVerif.Model.Closure
namespace Driver
open EgglogVerif.Closure

def clPairs (s : String) : Option (List (Nat × Nat)) :=
  if s = "-" then some [] else
  (s.splitOn ",").mapM fun e =>
    match e.splitOn ">" with
    | [c, p] => do some (← c.toNat?, ← p.toNat?)
    | _ => none

def clInsert (x : Nat) : List Nat → List Nat
  | [] => [x]
  | y :: ys => if x ≤ y then x :: y :: ys else y :: clInsert x ys

/-- `cl close <fuel> <child>parent,…> <dirty,…>`: the dirty-id closure (theorems C14_closure_*), sorted -/
def clStep (toks : List String) : String :=
  match toks with
  | ["close", fuel, edges, dirty] =>
    match fuel.toNat?, clPairs edges, (if dirty = "-" then some [] else (dirty.splitOn ",").mapM String.toNat?) with
    | some fuel, some es, some d =>
      let parents := fun v => (es.filter (·.1 == v)).map (·.2)
      match closure parents fuel d.eraseDups with
      | some s => ",".intercalate ((s.foldr clInsert []).map toString)
      | none => "none"
    | _, _, _ => "bad-op"
  | _ => "bad-op"

end Driver
