import EgglogVerif.Model.UF
import EgglogVerif.Model.CUF
namespace Driver
open EgglogVerif.UF

/-- line protocol for the sequential union-find model -/
def ufStep (p : Parents) (toks : List String) : Parents × String :=
  match toks with
  | ["new"] => (#[], "ok")
  | ["union", a, b] =>
    match a.toNat?, b.toNat? with
    | some a, some b =>
      let (p', (pa, ch)) := union p a b
      (p', s!"{pa} {ch}")
    | _, _ => (p, "bad-op")
  | ["find", a] =>
    match a.toNat? with
    | some a => let (p', r) := find p a; (p', s!"{r}")
    | none => (p, "bad-op")
  | ["naive", a] =>
    match a.toNat? with
    | some a => (p, s!"{findNaive p a}")
    | none => (p, "bad-op")
  | ["reserve", a] =>
    match a.toNat? with
    | some a => (reserve p a, "ok")
    | none => (p, "bad-op")
  | ["reset"] => (reset p, "ok")
  -- the concurrent structure driven from one thread (Model/CUF.lean, theorem C17c_seq_find)
  | ["cmerge", a, b] =>
    match a.toNat?, b.toNat? with
    | some a, some b => let (p', (pa, ch)) := cMerge p a b; (p', s!"{pa} {ch}")
    | _, _ => (p, "bad-op")
  | ["cfind", a] =>
    match a.toNat? with
    | some a => let (p', r) := cFind p a; (p', s!"{r}")
    | none => (p, "bad-op")
  | ["csame", a, b] =>
    match a.toNat?, b.toNat? with
    | some a, some b => let (p', r) := cSameSet p a b; (p', if r then "true" else "false")
    | _, _ => (p, "bad-op")
  | ["dump", n] =>
    match n.toNat? with
    | some n => (p, " ".intercalate ((List.range n).map fun i => toString (findNaive p i)))
    | none => (p, "bad-op")
  | _ => (p, "bad-op")

end Driver
