import EgglogVerif.Model.Merge
namespace Driver
open EgglogVerif.Merge

/-- driver state for the C05 model: merge kind, table, keys seen -/
structure MgSt where
  kind : String := "min"
  tbl : Tbl Nat Int := empty
  keys : List Nat := []

def mgFn (kind : String) : Int → Int → Int :=
  match kind with
  | "min" => fun a b => if a ≤ b then a else b
  | "max" => fun a b => if a ≤ b then b else a
  | "or" => fun a b => Int.ofNat (a.toNat ||| b.toNat)      -- bitsets: set-union / bool or
  | "and" => fun a b => Int.ofNat (a.toNat &&& b.toNat)     -- bitsets: set-intersect / bool and
  | _ => fun a _ => a

def parsePairs : List String → Option (List (Nat × Int))
  | [] => some []
  | k :: v :: rest => do
    let k ← k.toNat?
    let v ← v.toInt?
    let r ← parsePairs rest
    pure ((k, v) :: r)
  | _ => none

def mgStep (s : MgSt) (toks : List String) : MgSt × String :=
  match toks with
  | ["new", kind] => ({ kind := kind }, "ok")
  | "batch" :: path :: rest =>
    match parsePairs rest with
    | none => (s, "bad-op")
    | some ws =>
      let m := mgFn s.kind
      let t' :=
        if path = "serial" then serialInsert m s.tbl ws
        else if path = "staged" then stagedInsert m s.tbl ws
        else if path.startsWith "par" then
          let n := (path.drop 3).toNat?.getD 1
          parallelInsert m (fun k => (k * 2654435761) % (n + 1)) (List.range (n + 1)) s.tbl ws
        else s.tbl
      ({ s with tbl := t', keys := (s.keys ++ ws.map (·.1)).eraseDups }, "ok")
  | "rebuild" :: canon =>
    match canon.mapM String.toNat? with
    | none => (s, "bad-op")
    | some c =>
      let cf := fun k => c.getD k k
      let rows := s.keys.filterMap fun k => (s.tbl k).map fun v => (k, v)
      let t' := rebuildInsert (mgFn s.kind) cf rows
      ({ s with tbl := t', keys := (s.keys.map cf).eraseDups }, "ok")
  | ["dump"] =>
    let ks := s.keys.toArray.qsort (· < ·) |>.toList
    (s, " ".intercalate (ks.filterMap fun k => (s.tbl k).map fun v => s!"{k}={v}"))
  | _ => (s, "bad-op")

end Driver
