import Driver.UF
import Driver.Merge
import Driver.Schedule
import Driver.Table
import Driver.Extract
import Driver.Sexp
import Driver.Pool
import Driver.Scheduler
import Driver.EGraph
import Driver.ProofCk
import Driver.Containers
import Driver.Displaced
import Driver.Closure
import Driver.Atom
import Driver.Intern
open Driver

structure St where
  uf : EgglogVerif.UF.Parents := #[]
  mg : MgSt := {}
  sc : ScSt := {}
  tb : TbSt := {}
  eg : EgSt := {}
  ex : ExSt := {}
  dt : EgglogVerif.Displaced.DT := {}

def dispatch (s : St) (line : String) : St × String :=
  match (line.trimAscii.toString.splitOn " ").filter (· ≠ "") with
  | "uf" :: rest => let (p, o) := ufStep s.uf rest; ({ s with uf := p }, o)
  | "mg" :: rest => let (p, o) := mgStep s.mg rest; ({ s with mg := p }, o)
  | "sc" :: rest => let (p, o) := scStep s.sc rest; ({ s with sc := p }, o)
  | "tb" :: rest => let (p, o) := tbStep s.tb rest; ({ s with tb := p }, o)
  | "ex" :: rest => let (p, o) := exStep s.ex rest; ({ s with ex := p }, o)
  | "sx" :: rest => (s, sxStep rest)
  | "pool" :: rest => (s, poolStep rest)
  | "sch" :: rest => (s, schStep rest)
  | "eg" :: rest => let (p, o) := egStep s.eg rest; ({ s with eg := p }, o)
  | "pk" :: rest => (s, pkStep rest)
  | "cn" :: rest => (s, cnStep rest)
  | "dt" :: rest => let (p, o) := dtStep s.dt rest; ({ s with dt := p }, o)
  | "cl" :: rest => (s, clStep rest)
  | "at" :: rest => (s, atStep rest)
  | "hc" :: rest => (s, hcStep rest)
  | _ => (s, "bad-op")

partial def loop (h : IO.FS.Stream) (out : IO.FS.Stream) (s : St) : IO Unit := do
  let line ← h.getLine
  if line.isEmpty then return ()
  let (s', o) := dispatch s line
  out.putStrLn o
  loop h out s'

def main : IO Unit := do
  let out ← IO.getStdout
  loop (← IO.getStdin) out {}
  out.flush
