import EgglogVerif.Model.Pool
namespace Driver
open EgglogVerif.Pool

def parseEv : String → Option Ev
  | "spawn" => some .spawn
  | "start" => some .start
  | "finish" => some (.finish false)
  | "finish!" => some (.finish true)
  | "root" => some (.completeRoot false)
  | "root!" => some (.completeRoot true)
  | _ => none

/-- `pool trace e1 e2 ...`: replay a recorded scope history; reports whether every event was
enabled and the final observation -/
def poolStep (toks : List String) : String :=
  match toks with
  | "trace" :: evs =>
    match evs.mapM parseEv with
    | none => "bad-op"
    | some es =>
      match Scope.run es Scope.init with
      | none => "invalid-trace"
      | some s => s!"mayReturn={s.mayReturn} finished={s.finished} spawned={s.spawned} panicked={s.panicked}"
  | _ => "bad-op"

end Driver
