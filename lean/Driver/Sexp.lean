import EgglogVerif.Model.Sexp
namespace Driver
open EgglogVerif.Sexp

def cps (s : List Char) : String := ",".intercalate (s.map fun c => toString c.toNat)

mutual
partial def showSx : Sx → String
  | .str s => s!"S<{cps s}>"
  | .other s => s!"A<{cps s}>"
  | .list l => "(" ++ " ".intercalate (showSxL l) ++ ")"
partial def showSxL : SxL → List String
  | .nil => []
  | .cons h t => showSx h :: showSxL t
end

/-- tokens of the FIRST s-expression only (the real `sexp()` lexes lazily and stops there) -/
def lexFirst : Nat → Nat → List Char → Option (List Tok)
  | 0, _, _ => none
  | fuel + 1, depth, cs =>
    match nextTok cs with
    | none => none
    | some none => none            -- unexpected end of file
    | some (some (t, rest)) =>
      match t with
      | .open => (lexFirst fuel (depth + 1) rest).map (t :: ·)
      | .close => if depth = 0 then none else if depth = 1 then some [t] else (lexFirst fuel (depth - 1) rest).map (t :: ·)
      | _ => if depth = 0 then some [t] else (lexFirst fuel depth rest).map (t :: ·)

def parseCps (toks : List String) : Option (List Char) :=
  toks.mapM fun t => t.toNat?.map Char.ofNat

def sxStep (toks : List String) : String :=
  match toks with
  | "esc" :: rest =>
    match parseCps rest with
    | some s => cps (printString s)
    | none => "bad-op"
  | "parse" :: rest =>
    match parseCps rest with
    | none => "bad-op"
    | some cs =>
      match lexFirst (cs.length + 2) 0 cs with
      | none => "error"
      | some toks =>
        match parseSx (toks.length + 2) false toks with
        | some (.inl e, []) => showSx e
        | _ => "error"
  | "tokens" :: rest =>
    match parseCps rest with
    | none => "bad-op"
    | some cs =>
      match lexAll (cs.length + 2) cs with
      | none => "error"
      | some toks => toString toks.length
  | _ => "bad-op"

end Driver
