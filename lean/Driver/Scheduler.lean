import EgglogVerif.Model.Scheduler
namespace Driver
open EgglogVerif.Scheduler

/-- `sch inst <all 0/1> <n> t1 .. tn | c1 c2 ..`: tuples are opaque tokens -/
def schStep (toks : List String) : String :=
  match toks with
  | "inst" :: all :: rest =>
    let ms := rest.takeWhile (· ≠ "|")
    let cs := (rest.dropWhile (· ≠ "|")).drop 1
    match cs.mapM String.toNat? with
    | none => "bad-op"
    | some cs =>
      if cs.any (· ≥ ms.length) then "index-out-of-range" else
      let (ins, res) := instantiate ms (all == "1") cs
      " ".intercalate ins ++ " | " ++ " ".intercalate res
  | _ => "bad-op"

end Driver
