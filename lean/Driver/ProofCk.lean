import EgglogVerif.Model.ProofCk
namespace Driver
open EgglogVerif.ProofCk

/-- pattern tokens: `v<k>` | `a<h>:<n>` followed by `n` patterns -/
partial def pkPat : List String → Option (Pat × List String)
  | [] => none
  | tok :: rest =>
    if tok.startsWith "v" then do
      let k ← (tok.drop 1).toNat?
      some (.var k, rest)
    else if tok.startsWith "a" then
      match (tok.drop 1).toString.splitOn ":" with
      | [h, n] => do
        let h ← h.toNat?
        let n ← n.toNat?
        let rec go : Nat → List String → List Pat → Option (List Pat × List String)
          | 0, r, acc => some (acc.reverse, r)
          | k + 1, r, acc => do
            let (p, r') ← pkPat r
            go k r' (p :: acc)
        let (kids, rest') ← go n rest []
        some (.app h kids, rest')
      | _ => none
    else none

partial def pkFacts : Nat → List String → List RFact → Option (List RFact × List String)
  | 0, r, acc => some (acc.reverse, r)
  | k + 1, "F" :: any :: r, acc => do
    let (a, r1) ← pkPat r
    let (b, r2) ← pkPat r1
    pkFacts k r2 (⟨any == "1", a, b⟩ :: acc)
  | _, _, _ => none

partial def pkActs : Nat → List String → List Act → Option (List Act × List String)
  | 0, r, acc => some (acc.reverse, r)
  | k + 1, "U" :: r, acc => do
    let (a, r1) ← pkPat r
    let (b, r2) ← pkPat r1
    pkActs k r2 (.union a b :: acc)
  | k + 1, "E" :: r, acc => do
    let (a, r1) ← pkPat r
    pkActs k r1 (.expr a :: acc)
  | k + 1, "X" :: v :: r, acc => do
    let (a, r1) ← pkPat r
    pkActs k r1 (.letv (← (v.drop 1).toNat?) a :: acc)
  | _, _, _ => none

def pkNats : Nat → List String → List Nat → Option (List Nat × List String)
  | 0, r, acc => some (acc.reverse, r)
  | k + 1, x :: r, acc => do pkNats k r ((← x.toNat?) :: acc)
  | _, _, _ => none

def pkPairs : List Nat → Option (List (Nat × Nat))
  | [] => some []
  | a :: b :: r => do some ((a, b) :: (← pkPairs r))
  | _ => none

/-- `pk check R <nb> <nh> F <any> <pat> <pat> … U <pat> <pat> | E <pat> | X v<k> <pat> …
G <n> <acts> (top-level actions)  L <h,comma> (literal heads)  T <head> <kids,comma> …
S leaf l r | S fiat l r | S rule r np p… ns v t … l r | S sym p l r | S trans p q l r | S congr p i q l r …` -/
partial def pkParse : List String → Prog → Array Term → List Step → Option (Prog × Array Term × List Step)
  | [], rs, ts, ss => some ({ rs with rules := rs.rules.reverse }, ts, ss.reverse)
  | "G" :: n :: rest, rs, ts, ss => do
    let (acts, r1) ← pkActs (← n.toNat?) rest []
    pkParse r1 { rs with globals := rs.globals ++ acts } ts ss
  | "L" :: hs :: rest, rs, ts, ss => do
    let l ← if hs = "-" then some [] else (hs.splitOn ",").mapM String.toNat?
    pkParse rest { rs with lits := l } ts ss
  | "S" :: "fiat" :: l :: r :: rest, rs, ts, ss => do pkParse rest rs ts (⟨.fiat, ← l.toNat?, ← r.toNat?⟩ :: ss)
  | "R" :: nb :: nh :: rest, rs, ts, ss => do
    let (body, r1) ← pkFacts (← nb.toNat?) rest []
    let (head, r2) ← pkActs (← nh.toNat?) r1 []
    pkParse r2 { rs with rules := ⟨body, head⟩ :: rs.rules } ts ss
  | "T" :: h :: ks :: rest, rs, ts, ss => do
    let h ← h.toNat?
    let kids ← if ks = "-" then some [] else (ks.splitOn ",").mapM String.toNat?
    pkParse rest rs (ts.push ⟨h, kids⟩) ss
  | "S" :: "leaf" :: l :: r :: rest, rs, ts, ss => do pkParse rest rs ts (⟨.leaf, ← l.toNat?, ← r.toNat?⟩ :: ss)
  | "S" :: "rule" :: r :: np :: rest, rs, ts, ss => do
    let (ps, r1) ← pkNats (← np.toNat?) rest []
    match r1 with
    | ns :: r2 => do
      let (flat, r3) ← pkNats (2 * (← ns.toNat?)) r2 []
      let σ ← pkPairs flat
      match r3 with
      | l :: rr :: r4 => pkParse r4 rs ts (⟨.rule (← r.toNat?) ps σ, ← l.toNat?, ← rr.toNat?⟩ :: ss)
      | _ => none
    | _ => none
  | "S" :: "sym" :: p :: l :: r :: rest, rs, ts, ss => do pkParse rest rs ts (⟨.sym (← p.toNat?), ← l.toNat?, ← r.toNat?⟩ :: ss)
  | "S" :: "trans" :: p :: q :: l :: r :: rest, rs, ts, ss => do pkParse rest rs ts (⟨.trans (← p.toNat?) (← q.toNat?), ← l.toNat?, ← r.toNat?⟩ :: ss)
  | "S" :: "congr" :: p :: i :: q :: l :: r :: rest, rs, ts, ss => do pkParse rest rs ts (⟨.congr (← p.toNat?) (← i.toNat?) (← q.toNat?), ← l.toNat?, ← r.toNat?⟩ :: ss)
  | _, _, _, _ => none

def pkStep (toks : List String) : String :=
  match toks with
  | "check" :: rest =>
    match pkParse rest ⟨[], [], []⟩ #[] [] with
    | some (rs, ts, ss) => toString (checkProof rs ts ss)
    | none => "bad-op"
  | _ => "bad-op"

end Driver
