import EgglogVerif.Model.ProofCk
namespace Driver
open EgglogVerif.ProofCk

/-- `pk check T <head> <kids,comma> … S leaf l r | S sym p l r | S trans p q l r | S congr p i q l r …` -/
def pkParse : List String → Array Term → List Step → Option (Array Term × List Step)
  | [], ts, ss => some (ts, ss.reverse)
  | "T" :: h :: ks :: rest, ts, ss => do
    let h ← h.toNat?
    let kids ← if ks = "-" then some [] else (ks.splitOn ",").mapM String.toNat?
    pkParse rest (ts.push ⟨h, kids⟩) ss
  | "S" :: "leaf" :: l :: r :: rest, ts, ss => do pkParse rest ts (⟨.leaf, ← l.toNat?, ← r.toNat?⟩ :: ss)
  | "S" :: "sym" :: p :: l :: r :: rest, ts, ss => do pkParse rest ts (⟨.sym (← p.toNat?), ← l.toNat?, ← r.toNat?⟩ :: ss)
  | "S" :: "trans" :: p :: q :: l :: r :: rest, ts, ss => do pkParse rest ts (⟨.trans (← p.toNat?) (← q.toNat?), ← l.toNat?, ← r.toNat?⟩ :: ss)
  | "S" :: "congr" :: p :: i :: q :: l :: r :: rest, ts, ss => do pkParse rest ts (⟨.congr (← p.toNat?) (← i.toNat?) (← q.toNat?), ← l.toNat?, ← r.toNat?⟩ :: ss)
  | _, _, _ => none

def pkStep (toks : List String) : String :=
  match toks with
  | "check" :: rest =>
    match pkParse rest #[] [] with
    | some (ts, ss) => toString (checkProof ts ss)
    | none => "bad-op"
  | _ => "bad-op"

end Driver
