import EgglogVerif.Model.Table
import EgglogVerif.Model.Index
namespace Driver
open EgglogVerif.Table

structure TbSt where
  kind : String := "new"
  t : Table := Table.empty 1
  ix : Index := Index.fresh 0     -- one cached column index, refreshed only when read (theorem C16_index)

/-- merge functions used by the harness; the row is `keys ++ [val, ts]` or `keys ++ [val]` -/
def tbMerge (kind : String) (n : Nat) : Row → Row → Option Row :=
  match kind with
  | "new" => fun cur new => if cur = new then none else some new
  | "old" => fun _ _ => none
  | "max" => fun cur new =>
      -- keep the larger value column (column n); take the incoming row when it wins
      if new.getD n 0 > cur.getD n 0 then some new else none
  | _ => fun _ _ => none

def parseNats (s : String) : Option (List Nat) :=
  if s.isEmpty then some [] else (s.splitOn ",").mapM String.toNat?

def parseConstraint (s : String) : Option Constraint :=
  match s.splitOn ":" with
  | ["eq", l, r] => do pure (.eq (← l.toNat?) (← r.toNat?))
  | ["eqc", c, v] => do pure (.eqConst (← c.toNat?) (← v.toNat?))
  | ["lt", c, v] => do pure (.ltConst (← c.toNat?) (← v.toNat?))
  | ["gt", c, v] => do pure (.gtConst (← c.toNat?) (← v.toNat?))
  | ["le", c, v] => do pure (.leConst (← c.toNat?) (← v.toNat?))
  | ["ge", c, v] => do pure (.geConst (← c.toNat?) (← v.toNat?))
  | _ => none

def showRow (r : Row) : String := ",".intercalate (r.map toString)

def rowLt : Row → Row → Bool
  | [], [] => false
  | [], _ => true
  | _, [] => false
  | a :: as, b :: bs => a < b || (a == b && rowLt as bs)

def showRows (rs : List Row) : String :=
  " ".intercalate ((rs.toArray.qsort rowLt).toList.map showRow)

def tbStep (s : TbSt) (toks : List String) : TbSt × String :=
  match toks with
  | ["new", n, kind] =>
    match n.toNat? with
    | some n => ({ kind := kind, t := Table.empty n, ix := Index.fresh s.ix.col }, "ok")
    | none => (s, "bad-op")
  | "merge" :: rest =>
    let dels := rest.filterMap fun x => if x.startsWith "d:" then parseNats (x.drop 2).toString else none
    let ins := rest.filterMap fun x => if x.startsWith "i:" then parseNats (x.drop 2).toString else none
    ({ s with t := s.t.merge (tbMerge s.kind s.t.nKeys) dels ins }, "ok")
  | ["clear"] => ({ s with t := s.t.clear }, "ok")
  | ["get", k] =>
    match parseNats k with
    | some k => (s, match s.t.getRow k with | some r => showRow r | none => "none")
    | none => (s, "bad-op")
  | ["ixnew", c] =>
    match c.toNat? with
    | some c => ({ s with ix := Index.fresh c }, "ok")
    | none => (s, "bad-op")
  | ["ixlookup", v] =>
    match v.toNat? with
    | some v =>
      let ix := s.ix.refresh s.t
      ({ s with ix := ix }, showRows (ix.lookup s.t v))
    | none => (s, "bad-op")
  | ["scan"] => (s, showRows s.t.scan)
  | ["len"] => (s, toString s.t.len)
  | ["gen"] => (s, toString s.t.gen)
  | "where" :: cs =>
    match cs.mapM parseConstraint with
    | some cs => (s, showRows (s.t.scanWhere cs))
    | none => (s, "bad-op")
  | _ => (s, "bad-op")

end Driver
