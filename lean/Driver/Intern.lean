import EgglogVerif.Model.Intern
namespace Driver
open EgglogVerif.Intern

def hcPairs (s : String) : Option (List (Nat × Nat)) :=
  if s = "-" then some [] else
  (s.splitOn ",").mapM fun e =>
    match e.splitOn ">" with
    | [c, p] => do some (← c.toNat?, ← p.toNat?)
    | _ => none

def hcTab (s : String) : Option Tab :=
  if s = "-" then some [] else
  (s.splitOn ";").mapM fun e =>
    match e.splitOn ":" with
    | [i, vs] => do some (← i.toNat?, ← (if vs = "" then some [] else (vs.splitOn ".").mapM String.toNat?))
    | _ => none

def hcInsert (x : Nat × List Nat) : Tab → Tab
  | [] => [x]
  | y :: ys => if x.1 ≤ y.1 then x :: y :: ys else y :: hcInsert x ys

def hcShowTab (t : Tab) : String :=
  if t.isEmpty then "-" else
  ";".intercalate ((t.foldr hcInsert []).map fun e => s!"{e.1}:{".".intercalate (e.2.map toString)}")

/-- `hc rebuild <x>find(x),…> <id:e.e;id:e.e…>`: one rebuild pass of the container hash-cons table
(theorems C14_rebuild_*): the new table sorted by id, and the number of unions emitted -/
def hcStep (toks : List String) : String :=
  match toks with
  | ["rebuild", fs, tab] =>
    match hcPairs fs, hcTab tab with
    | some fs, some t =>
      let find := fun x => match fs.find? (·.1 == x) with | some p => p.2 | none => x
      let r := rebuildPassId find t
      s!"{hcShowTab r.1} {r.2.length}"
    | _, _ => "bad-op"
  | _ => "bad-op"

end Driver
