#!/usr/bin/env python3
"""Regenerate MANIFEST.json from checkcfg.py (keeps it valid by construction)."""
import json, os
from checkcfg import PROPS
ROOT = os.path.dirname(os.path.abspath(__file__))
ALL = [f"C{i:02d}" for i in range(1, 21)]
NA_REASON = json.load(open(os.path.join(ROOT, "not_applicable.json")))
baseline = "cd /repo && cargo nextest run --workspace --no-fail-fast --test-threads 8 --offline || cargo test --workspace --no-fail-fast --offline"
m = {
    "version": 1,
    "setup_cmd": "cd /verif && ./setup.sh",
    "hooks": {
        "guard": "--cfg egglog_verif",
        "enable": "RUSTFLAGS='--cfg egglog_verif' (set in /verif/harness/.cargo/config.toml; the harness depends on /repo's crates by path, so cargo rebuilds them from the working tree with the cfg on)",
        "baseline_off_cmd": baseline,
        "source_commits": json.load(open(os.path.join(ROOT, "hook_commits.json"))),
        "add_only": True,
    },
    "engines": [
        {"name": "lean-model", "path": "/verif/lean", "serves_properties": sorted(PROPS), "kind_free_text": "Lean 4 executable model + theorems (one Props/Cxx.lean per property) + compiled line-protocol driver"},
        {"name": "vharness", "path": "/verif/harness", "serves_properties": sorted(PROPS), "kind_free_text": "Rust correspondence harness: seeded generators, runs the real crates from /repo's working tree, pipes the same ops to the Lean driver, diffs canonical outputs, evaluates the property on the implementation when they differ"},
    ],
    "checks": [],
    "not_applicable": [],
    "notes": "All checks: ./check <id> [--tier quick|thorough]; replay with ./check <id> --replay <file>. See DESIGN.md.",
}
for pid in ALL:
    if pid in PROPS:
        c = PROPS[pid]
        m["checks"].append({
            "property_id": pid,
            "quick_cmd": f"./check {pid} --tier quick",
            "thorough_cmd": f"./check {pid} --tier thorough",
            "evidence_file": f"/verif/evidence/{pid}.json",
            "replay_cmd_template": f"./check {pid} --replay {{path}}",
            "engine": "lean-model+vharness",
            "level_claimed": {"category": c.get("level", "proof"), "text": c["level_text"], "design_ref": c["design_ref"]},
            "level_note": "; ".join(c.get("assumptions", []) + c.get("trust", [])) or "see DESIGN.md §4.3",
            "technique": c["technique"],
        })
    else:
        m["not_applicable"].append({"property_id": pid, "reason": NA_REASON.get(pid, "not yet claimed: check under construction (see DESIGN.md §11 build order)")})
json.dump(m, open(os.path.join(ROOT, "MANIFEST.json"), "w"), indent=1)
print("checks:", [c["property_id"] for c in m["checks"]])
