"""Per-property configuration shared by ./check and gen_manifest.py."""

COMMON_TRUST = [
    "Lean 4.33 kernel; axioms at most propext, Classical.choice, Quot.sound (audited by #print axioms on every run); no native_decide / bv_decide / sorry / own axioms",
    "the hand-written Lean model under /verif/lean/EgglogVerif/Model (tied to /repo by the correspondence run of this check, on the generated inputs only)",
    "the Rust correspondence harness /verif/harness, its generators and canonicaliser, and the ./check driver",
    "rustc/std, hashbrown, rayon and other third-party crates",
]

PROPS = {
    "C05": {
        "title": "A function's value is the merge of everything ever written to its key",
        "modules": ["EgglogVerif.Props.C05"],
        "level": "proof",
        "technique": "Lean 4 proof (C05_value: for every ACI merge, every permutation/batching of the writes and every insertion path — serial, staged, per-shard parallel, rebuild re-insertion — the stored value is the fold of the merge) + correspondence of the model's paths with the real engine on generated histories (1 thread and 4 threads with cut-offs 0) + direct evaluation of the fold on the implementation",
        "design_ref": "DESIGN.md §5 C05",
        "level_text": "C05_serial/perm/batch/dup/staged/parallel/value/rebuild/nomerge_ok/nomerge_conflict are proved for every merge function with the stated laws, every key/value type and every list of writes. The model abstracts a table to Key -> Option Value (physical layout is C16); its three insertion paths and the rebuild re-insertion are compared with the real engine's stored values after every round of generated histories for min/max/or/and/set-union/set-intersect, serial and parallel. C05_pinned_flush_defect records defect 1 (fixed in /repo).",
        "trust": ["merge expressions are evaluated by the real engine; the model uses Int min/max and bitset or/and as their denotations", "thread scheduling of the parallel path is sampled, not enumerated"],
        "assumptions": ["merge function associative, commutative, idempotent (as the property states)", "keys collapse only through unions on nullary constructors in the generated histories"],
        "partial": [],
        "timeout": {"quick": 1500, "thorough": 7200},
    },
    "C10": {
        "title": "Schedules mean what they say: run, repeat, saturate, seq, until",
        "modules": ["EgglogVerif.Props.C10"],
        "level": "proof",
        "technique": "Lean 4 proof (big-step semantics of run_schedule; laws C10_run/until/seqAssoc/saturateFix/repeatRepeat/combined proved for an arbitrary ruleset step function; exec_sound ties the executable interpreter to the semantics) + command-by-command correspondence with the engine on Horn programs + law pairs engine-vs-engine",
        "design_ref": "DESIGN.md §5 C10",
        "level_text": "The schedule semantics (Eval) follows run_schedule/run_rules/RunReport::union line by line, parametric in the one-iteration step; determinism, (run R n) = n guarded iterations, :until stopping before the iteration, seq associativity (three nestings), saturate fixpoint + idempotence and repeat a (repeat b s) = repeat (a*b) s (database-level, under the stated honesty of the changed flag) are theorems. The executable interpreter (proved sound for Eval) is run on the same Horn programs as the engine and must agree on iteration count, updated flag and facts after every command; law-related schedule pairs are also compared on an equality-saturation program by canonical dump.",
        "trust": ["the one-iteration step of a ruleset is a parameter of the theorems; the driver instantiates it for propositional Horn rules only"],
        "assumptions": ["StepHonest: an iteration reporting changed=false left the database unchanged (true without deletions)", "saturate laws are conditional on termination"],
        "partial": ["C10_fixpoint for non-monotone (deleting) programs is outside the claim, as the design notes"],
    },
    "C16": {
        "title": "The table store behaves like a keyed map with timestamp-ordered scans",
        "modules": ["EgglogVerif.Props.C16"],
        "level": "proof",
        "technique": "Lean 4 proof (refinement of the rows+stale-marks+hash-index+compaction model of SortedWritesTable to a plain map, invariant WF by induction over every op sequence) + op-by-op correspondence with the real table (serial and inside a 4-thread pool) + direct comparison with a BTreeMap; DisplacedTable histories against the union closure",
        "design_ref": "DESIGN.md §5 C16",
        "level_text": "C16_refine: for every sequence of merges (staged removals then insertions, any key-preserving merge function), compactions and clears the model is well-formed (hash index exactly the live rows, one per key) and get_row equals the abstract map; C16_scan / C16_scanWhere: scans and constrained scans return exactly the map's rows, each once; C16_rehash: compaction preserves rows, order and lookups, leaves no stale row, bumps the generation; C16_clear. The model is compared after every op with the real SortedWritesTable on len, generation bumps (compaction threshold), scans and lookups; refine()/fast_subset() results are compared with the filtered map; DisplacedTable is checked against the closure of its unions (defect 7 fixed in /repo).",
        "trust": ["offsets/binary search of fast_subset and the hash_index caches are validated by correspondence, not modelled", "unsafe shard writes of parallel_insert/parallel_rehash are exercised, not modelled"],
        "assumptions": ["merge functions keep the key columns (KeepsKey)", "row values below Value::stale()"],
        "partial": ["index (hash_index) incremental refresh and DisplacedTable have no Lean theorem yet; they are checked against the specification directly"],
    },
    "C17": {
        "title": "Union-find: same class iff connected, representative is the minimum id",
        "modules": ["EgglogVerif.Props.C17"],
        "level": "proof",
        "technique": "Lean 4 proof (refinement of the array union-find to the partition generated by the unions, by induction over every op sequence) + op-by-op correspondence with union-find/src/lib.rs + concurrent history checking",
        "design_ref": "DESIGN.md §5 C17",
        "level_text": "Theorems C17_inv/partition/min/find/union/reset hold for every operation sequence of the model of union-find/src/lib.rs; the model is compared op-by-op with the real UnionFind on exhaustive small and random long sequences. The concurrent structure is validated by timing-aware history checks (not a proof).",
        "trust": ["concurrent union-find: sequentially consistent atomics assumed; only sampled histories are validated"],
        "assumptions": ["ids are Nat (no u32 overflow)", "concurrent part: validation by stress histories only"],
        "partial": ["concurrent structure: no theorem over interleavings yet (C17c planned)"],
    },
}
