//! Pipe a batch of op lines through the compiled Lean driver; one output line per input line.
use std::io::Write;
use std::process::{Command, Stdio};

pub fn driver_path() -> String {
    std::env::var("VERIF_DRIVER").unwrap_or_else(|_| "/verif/lean/.lake/build/bin/driver".to_string())
}

pub fn run_driver(lines: &[String]) -> Result<Vec<String>, String> {
    let mut child = Command::new(driver_path())
        .stdin(Stdio::piped())
        .stdout(Stdio::piped())
        .stderr(Stdio::piped())
        .spawn()
        .map_err(|e| format!("cannot start Lean driver: {e}"))?;
    let mut stdin = child.stdin.take().unwrap();
    let input = lines.join("\n") + "\n";
    let w = std::thread::spawn(move || { let _ = stdin.write_all(input.as_bytes()); });
    let out = child.wait_with_output().map_err(|e| e.to_string())?;
    let _ = w.join();
    if !out.status.success() {
        return Err(format!("Lean driver failed: {}", String::from_utf8_lossy(&out.stderr)));
    }
    let s = String::from_utf8_lossy(&out.stdout);
    let v: Vec<String> = s.lines().map(|x| x.to_string()).collect();
    if v.len() != lines.len() {
        return Err(format!("Lean driver returned {} lines for {} ops", v.len(), lines.len()));
    }
    Ok(v)
}
