//! Generator of e-graph programs in a small AST that prints (i) as egglog text for the real engine
//! and (ii) as pre-resolved, flattened op lines for the Lean model (`Driver/EGraph.lean`).
use crate::rng::Rng;

#[derive(Clone, Debug, Hash, PartialEq, Eq)]
pub enum MergeK { Min, Max, NoMerge }

#[derive(Clone, Debug, Hash)]
pub struct Sig {
    pub ctors: Vec<(String, usize)>,          // constructors into sort E: (name, arity); table id = index
    pub kinds: Vec<Vec<bool>>,                // per constructor, per argument: true = sort E, false = i64 (a literal in every pattern)
    pub funcs: Vec<(String, MergeK)>,         // (function f (E) i64 ..); table id = ctors.len() + index
    pub rels: Vec<(String, usize)>,           // (relation R (E ..)); table id after the functions
}

impl Sig {
    pub fn func_id(&self, i: usize) -> usize { self.ctors.len() + i }
    pub fn rel_id(&self, i: usize) -> usize { self.ctors.len() + self.funcs.len() + i }
    pub fn table_names(&self) -> Vec<String> {
        self.ctors.iter().map(|c| c.0.clone()).chain(self.funcs.iter().map(|f| f.0.clone())).chain(self.rels.iter().map(|r| r.0.clone())).collect()
    }
    pub fn header(&self) -> String {
        let mut s = String::from("(sort E)\n");
        for (c, (n, _)) in self.ctors.iter().enumerate() { s.push_str(&format!("(constructor {n} ({}) E)\n", self.kinds[c].iter().map(|k| if *k { "E" } else { "i64" }).collect::<Vec<_>>().join(" "))); }
        for (n, m) in &self.funcs { s.push_str(&format!("(function {n} (E) i64 {})\n", match m { MergeK::Min => ":merge (min old new)", MergeK::Max => ":merge (max old new)", MergeK::NoMerge => ":no-merge" })); }
        for (n, a) in &self.rels { s.push_str(&format!("(relation {n} ({}))\n", vec!["E"; *a].join(" "))); }
        s.push_str("(ruleset r0)\n(ruleset r1)\n");
        s
    }
    pub fn model_header(&self) -> Vec<String> {
        let mut v = vec!["eg new".to_string()];
        for (c, (_, a)) in self.ctors.iter().enumerate() { v.push(format!("eg decl {} i unionId", if *a == 0 { "-".to_string() } else { self.kinds[c].iter().map(|k| if *k { 'i' } else { 'b' }).collect::<String>() })); }
        for (_, m) in &self.funcs { v.push(format!("eg decl i b {}", match m { MergeK::Min => "min", MergeK::Max => "max", MergeK::NoMerge => "assertEq" })); }
        for (_, a) in &self.rels { v.push(format!("eg decl {} b unit", "i".repeat(*a))); }
        v
    }
}

#[derive(Clone, Debug, Hash, PartialEq, Eq)]
pub enum Pat { Var(usize), App(usize, Vec<Pat>), Lit(i64) }

#[derive(Clone, Debug, Hash, PartialEq, Eq)]
pub enum IVal { Var(usize), Lit(i64) }

#[derive(Clone, Debug, Hash)]
pub enum BodyAtom { Eq(usize, Pat), Bare(Pat), Func(usize, Pat, IVal), Rel(usize, Vec<Pat>), Guard(&'static str, IVal, IVal) }

#[derive(Clone, Debug, Hash)]
pub enum HeadAct { Term(Pat), Union(Pat, Pat), Set(usize, Pat, IVal), Rel(usize, Vec<Pat>), Subsume(Pat), Panic }

#[derive(Clone, Debug, Hash)]
pub enum Cmd {
    Act(HeadAct),
    Rule { rs: usize, body: Vec<BodyAtom>, head: Vec<HeadAct>, name: String },
    Rewrite { rs: usize, lhs: Pat, rhs: Pat, subsume: bool },
    Run(usize, usize),
    Check(Vec<BodyAtom>),
    Delete(Pat),
    Push, Pop,
}

pub fn pat_text(sig: &Sig, p: &Pat) -> String {
    match p {
        Pat::Var(i) => format!("x{i}"),
        Pat::Lit(l) => l.to_string(),
        Pat::App(c, args) => if args.is_empty() { format!("({})", sig.ctors[*c].0) } else { format!("({} {})", sig.ctors[*c].0, args.iter().map(|a| pat_text(sig, a)).collect::<Vec<_>>().join(" ")) },
    }
}
fn ival_text(v: &IVal) -> String { match v { IVal::Var(i) => format!("x{i}"), IVal::Lit(l) => l.to_string() } }
fn ival_tm(v: &IVal) -> String { match v { IVal::Var(i) => format!("v{i}"), IVal::Lit(l) => l.to_string() } }

pub fn atom_text(sig: &Sig, a: &BodyAtom) -> String {
    match a {
        BodyAtom::Eq(v, p) => format!("(= x{v} {})", pat_text(sig, p)),
        BodyAtom::Bare(p) => pat_text(sig, p),
        BodyAtom::Func(f, p, v) => format!("(= {} ({} {}))", ival_text(v), sig.funcs[*f].0, pat_text(sig, p)),
        BodyAtom::Rel(r, ps) => format!("({} {})", sig.rels[*r].0, ps.iter().map(|p| pat_text(sig, p)).collect::<Vec<_>>().join(" ")),
        BodyAtom::Guard(op, a, b) => format!("({op} {} {})", ival_text(a), ival_text(b)),
    }
}
pub fn act_text(sig: &Sig, a: &HeadAct) -> String {
    match a {
        HeadAct::Term(p) => pat_text(sig, p),
        HeadAct::Union(a, b) => format!("(union {} {})", pat_text(sig, a), pat_text(sig, b)),
        HeadAct::Set(f, p, v) => format!("(set ({} {}) {})", sig.funcs[*f].0, pat_text(sig, p), ival_text(v)),
        HeadAct::Rel(r, ps) => format!("({} {})", sig.rels[*r].0, ps.iter().map(|p| pat_text(sig, p)).collect::<Vec<_>>().join(" ")),
        HeadAct::Subsume(p) => format!("(subsume {})", pat_text(sig, p)),
        HeadAct::Panic => "(panic \"boom\")".to_string(),
    }
}

pub fn cmd_text(sig: &Sig, c: &Cmd) -> String {
    match c {
        Cmd::Act(a) => act_text(sig, a),
        Cmd::Rule { rs, body, head, name } => format!("(rule ({}) ({}) :ruleset r{rs} :name \"{name}\")", body.iter().map(|a| atom_text(sig, a)).collect::<Vec<_>>().join(" "), head.iter().map(|a| act_text(sig, a)).collect::<Vec<_>>().join(" ")),
        Cmd::Rewrite { rs, lhs, rhs, subsume } => format!("(rewrite {} {}{} :ruleset r{rs})", pat_text(sig, lhs), pat_text(sig, rhs), if *subsume { " :subsume" } else { "" }),
        Cmd::Run(rs, n) => format!("(run r{rs} {n})"),
        Cmd::Check(atoms) => format!("(check {})", atoms.iter().map(|a| atom_text(sig, a)).collect::<Vec<_>>().join(" ")),
        Cmd::Delete(p) => format!("(delete {})", pat_text(sig, p)),
        Cmd::Push => "(push)".into(), Cmd::Pop => "(pop)".into(),
    }
}

// ---- flattening for the model --------------------------------------------------------------------

struct Flat { next: usize }
impl Flat {
    fn fresh(&mut self) -> usize { self.next += 1; self.next - 1 }
    fn pat_query(&mut self, p: &Pat, atoms: &mut Vec<String>) -> String {
        match p {
            Pat::Var(i) => format!("v{i}"),
            Pat::Lit(l) => l.to_string(),
            Pat::App(c, args) => { let a: Vec<String> = args.iter().map(|x| self.pat_query(x, atoms)).collect(); let t = self.fresh(); atoms.push(format!("tbl {c} {} -> v{t}", a.join(" "))); format!("v{t}") }
        }
    }
    fn pat_query_root(&mut self, p: &Pat, root: &str, atoms: &mut Vec<String>) {
        match p {
            Pat::Var(i) => atoms.push(format!("prim eq v{i} {root}")),
            Pat::Lit(l) => atoms.push(format!("prim eq {l} {root}")),
            Pat::App(c, args) => { let a: Vec<String> = args.iter().map(|x| self.pat_query(x, atoms)).collect(); atoms.push(format!("tbl {c} {} -> {root}", a.join(" "))); }
        }
    }
    fn pat_action(&mut self, p: &Pat, acts: &mut Vec<String>) -> String {
        match p {
            Pat::Var(i) => format!("v{i}"),
            Pat::Lit(l) => l.to_string(),
            Pat::App(c, args) => { let a: Vec<String> = args.iter().map(|x| self.pat_action(x, acts)).collect(); let t = self.fresh(); acts.push(format!("call {t} {c} {}", a.join(" "))); format!("v{t}") }
        }
    }
}

fn max_var_pat(p: &Pat) -> usize { match p { Pat::Var(i) => *i + 1, Pat::Lit(_) => 0, Pat::App(_, a) => a.iter().map(max_var_pat).max().unwrap_or(0) } }
fn max_var_ival(v: &IVal) -> usize { match v { IVal::Var(i) => *i + 1, _ => 0 } }
fn max_var_atom(a: &BodyAtom) -> usize { match a { BodyAtom::Eq(v, p) => (*v + 1).max(max_var_pat(p)), BodyAtom::Bare(p) => max_var_pat(p), BodyAtom::Func(_, p, v) => max_var_pat(p).max(max_var_ival(v)), BodyAtom::Rel(_, ps) => ps.iter().map(max_var_pat).max().unwrap_or(0), BodyAtom::Guard(_, a, b) => max_var_ival(a).max(max_var_ival(b)) } }
fn max_var_act(a: &HeadAct) -> usize { match a { HeadAct::Term(p) | HeadAct::Subsume(p) => max_var_pat(p), HeadAct::Union(a, b) => max_var_pat(a).max(max_var_pat(b)), HeadAct::Set(_, p, v) => max_var_pat(p).max(max_var_ival(v)), HeadAct::Rel(_, ps) => ps.iter().map(max_var_pat).max().unwrap_or(0), HeadAct::Panic => 0 } }

fn flat_atoms(sig: &Sig, fl: &mut Flat, body: &[BodyAtom]) -> Vec<String> {
    let mut atoms = vec![];
    for a in body {
        match a {
            BodyAtom::Eq(v, p) => fl.pat_query_root(p, &format!("v{v}"), &mut atoms),
            BodyAtom::Bare(p) => { let _ = fl.pat_query(p, &mut atoms); }
            BodyAtom::Func(f, p, v) => { let t = fl.pat_query(p, &mut atoms); atoms.push(format!("tbl {} {t} -> {}", sig.func_id(*f), ival_tm(v))); }
            BodyAtom::Rel(r, ps) => { let a: Vec<String> = ps.iter().map(|p| fl.pat_query(p, &mut atoms)).collect(); let u = fl.fresh(); atoms.push(format!("tbl {} {} -> v{u}", sig.rel_id(*r), a.join(" "))); }
            BodyAtom::Guard(op, a, b) => atoms.push(format!("prim {} {} {}", match *op { "<" => "lt", "<=" => "le", "!=" => "ne", _ => "eq" }, ival_tm(a), ival_tm(b))),
        }
    }
    atoms
}

fn flat_acts(sig: &Sig, fl: &mut Flat, head: &[HeadAct]) -> Vec<String> {
    let mut acts = vec![];
    for a in head {
        match a {
            HeadAct::Term(p) => { let _ = fl.pat_action(p, &mut acts); }
            HeadAct::Union(a, b) => { let x = fl.pat_action(a, &mut acts); let y = fl.pat_action(b, &mut acts); acts.push(format!("union {x} {y}")); }
            HeadAct::Set(f, p, v) => { let x = fl.pat_action(p, &mut acts); acts.push(format!("set {} {x} = {}", sig.func_id(*f), ival_tm(v))); }
            HeadAct::Rel(r, ps) => { let a: Vec<String> = ps.iter().map(|p| fl.pat_action(p, &mut acts)).collect(); acts.push(format!("set {} {} = 0", sig.rel_id(*r), a.join(" "))); }
            HeadAct::Subsume(p) => { if let Pat::App(c, args) = p { let a: Vec<String> = args.iter().map(|x| fl.pat_action(x, &mut acts)).collect(); acts.push(format!("subsume {c} {}", a.join(" "))); } }
            HeadAct::Panic => acts.push("panic".into()),
        }
    }
    acts
}

/// model op lines for one command; the last line is the one whose output is the command's result
pub fn cmd_model(sig: &Sig, c: &Cmd) -> Vec<String> {
    match c {
        Cmd::Act(a) => { let mut fl = Flat { next: max_var_act(a) }; vec![format!("eg act {}", flat_acts(sig, &mut fl, std::slice::from_ref(a)).join(" ; "))] }
        Cmd::Rule { rs, body, head, .. } => {
            let mv = body.iter().map(max_var_atom).chain(head.iter().map(max_var_act)).max().unwrap_or(0);
            let mut fl = Flat { next: mv };
            let atoms = flat_atoms(sig, &mut fl, body); let acts = flat_acts(sig, &mut fl, head);
            vec![format!("eg rule {rs} {} => {}", atoms.join(" ; "), acts.join(" ; "))]
        }
        Cmd::Rewrite { rs, lhs, rhs, subsume } => {
            let mv = max_var_pat(lhs).max(max_var_pat(rhs));
            let mut fl = Flat { next: mv + 1 };
            let root = format!("v{mv}");
            let mut atoms = vec![]; fl.pat_query_root(lhs, &root, &mut atoms);
            let mut acts = vec![]; let r = fl.pat_action(rhs, &mut acts); acts.push(format!("union {root} {r}"));
            if *subsume { if let Pat::App(c, args) = lhs { let a: Vec<String> = args.iter().map(|x| fl.pat_action(x, &mut acts)).collect(); acts.push(format!("subsume {c} {}", a.join(" "))); } }
            vec![format!("eg rule {rs} {} => {}", atoms.join(" ; "), acts.join(" ; "))]
        }
        Cmd::Run(rs, n) => vec![format!("eg run {rs} {n}")],
        Cmd::Check(atoms) => { let mv = atoms.iter().map(max_var_atom).max().unwrap_or(0); let mut fl = Flat { next: mv }; vec![format!("eg check {}", flat_atoms(sig, &mut fl, atoms).join(" ; "))] }
        Cmd::Delete(p) => { let mut fl = Flat { next: max_var_pat(p) }; let mut acts = vec![]; if let Pat::App(c, args) = p { let a: Vec<String> = args.iter().map(|x| fl.pat_action(x, &mut acts)).collect(); acts.push(format!("delete {c} {}", a.join(" "))); } vec![format!("eg act {}", acts.join(" ; "))] }
        Cmd::Push => vec!["eg push".into()], Cmd::Pop => vec!["eg pop".into()],
    }
}

// ---- random generation ----------------------------------------------------------------------------

pub fn gen_sig(rng: &mut Rng) -> Sig {
    let mut ctors = vec![("A".to_string(), 0), ("B".to_string(), 0)];
    if rng.chance(1, 2) { ctors.push(("C".into(), 0)); }
    ctors.push(("G".into(), 1));
    if rng.chance(2, 3) { ctors.push(("H".into(), 1)); }
    ctors.push(("F".into(), 2));
    if rng.chance(1, 3) { ctors.push(("T".into(), 3)); }
    let mut funcs = vec![];
    if rng.chance(2, 3) { funcs.push(("lo".to_string(), MergeK::Min)); }
    if rng.chance(1, 3) { funcs.push(("hi".to_string(), MergeK::Max)); }
    let mut rels = vec![];
    if rng.chance(1, 2) { rels.push(("R".to_string(), 1 + rng.below(2))); }
    let mut kinds: Vec<Vec<bool>> = ctors.iter().map(|c| vec![true; c.1]).collect();
    // constructors with base-value columns (mixed keys: the id columns are rebuilt, the base columns compared literally)
    if rng.chance(1, 2) { ctors.push(("N".into(), 1)); kinds.push(vec![false]); }
    if rng.chance(1, 3) { ctors.push(("P".into(), 2)); kinds.push(vec![true, false]); }
    Sig { ctors, kinds, funcs, rels }
}

pub fn gen_ground(rng: &mut Rng, sig: &Sig, depth: usize) -> Pat {
    let cands: Vec<usize> = (0..sig.ctors.len()).filter(|c| depth > 0 || sig.ctors[*c].1 == 0).collect();
    let c = cands[rng.below(cands.len())];
    Pat::App(c, (0..sig.ctors[c].1).map(|j| if sig.kinds[c][j] { gen_ground(rng, sig, depth.saturating_sub(1)) } else { Pat::Lit(rng.range(0, 3)) }).collect())
}

/// pattern over variables 0..nv (non-linear patterns allowed)
pub fn gen_pat(rng: &mut Rng, sig: &Sig, depth: usize, nv: usize) -> Pat {
    if depth == 0 || rng.chance(1, 3) { return if rng.chance(3, 4) || nv == 0 { Pat::Var(rng.below(nv.max(1))) } else { gen_ground(rng, sig, 0) }; }
    let cands: Vec<usize> = (0..sig.ctors.len()).filter(|c| sig.ctors[*c].1 > 0).collect();
    let c = cands[rng.below(cands.len())];
    Pat::App(c, (0..sig.ctors[c].1).map(|j| if sig.kinds[c][j] { gen_pat(rng, sig, depth - 1, nv) } else { Pat::Lit(rng.range(0, 3)) }).collect())
}

fn vars_of(p: &Pat, out: &mut Vec<usize>) { match p { Pat::Var(i) => if !out.contains(i) { out.push(*i) }, Pat::Lit(_) => {}, Pat::App(_, a) => a.iter().for_each(|x| vars_of(x, out)) } }
fn size_of(p: &Pat) -> usize { match p { Pat::Var(_) | Pat::Lit(_) => 1, Pat::App(_, a) => 1 + a.iter().map(size_of).sum::<usize>() } }

/// a pattern using only the given variables, no larger than `max_size` (keeps rewriting bounded)
fn gen_rhs(rng: &mut Rng, sig: &Sig, vars: &[usize], max_size: usize) -> Pat {
    for _ in 0..20 {
        let p = gen_pat_over(rng, sig, 2, vars);
        if size_of(&p) <= max_size { return p; }
    }
    if vars.is_empty() { gen_ground(rng, sig, 0) } else { Pat::Var(vars[rng.below(vars.len())]) }
}
fn gen_pat_over(rng: &mut Rng, sig: &Sig, depth: usize, vars: &[usize]) -> Pat {
    if depth == 0 || rng.chance(1, 3) { return if !vars.is_empty() && rng.chance(3, 4) { Pat::Var(vars[rng.below(vars.len())]) } else { gen_ground(rng, sig, 0) }; }
    let cands: Vec<usize> = (0..sig.ctors.len()).filter(|c| sig.ctors[*c].1 > 0).collect();
    let c = cands[rng.below(cands.len())];
    Pat::App(c, (0..sig.ctors[c].1).map(|j| if sig.kinds[c][j] { gen_pat_over(rng, sig, depth - 1, vars) } else { Pat::Lit(rng.range(0, 3)) }).collect())
}

pub fn gen_rewrite(rng: &mut Rng, sig: &Sig, allow_subsume: bool) -> Cmd {
    let mut lhs = gen_pat(rng, sig, 2, 3);
    if matches!(lhs, Pat::Var(_)) { let cands: Vec<usize> = (0..sig.ctors.len()).filter(|c| sig.ctors[*c].1 > 0).collect(); let c = cands[rng.below(cands.len())]; lhs = Pat::App(c, (0..sig.ctors[c].1).map(|i| if sig.kinds[c][i] { Pat::Var(i % 3) } else { Pat::Lit(1) }).collect()); }
    let mut vs = vec![]; vars_of(&lhs, &mut vs);
    let rhs = gen_rhs(rng, sig, &vs, size_of(&lhs));
    Cmd::Rewrite { rs: rng.below(2), lhs, rhs, subsume: allow_subsume && rng.chance(1, 5) }
}

/// an action term must be a constructor application
fn as_app(sig: &Sig, p: Pat) -> Pat {
    match p { Pat::Var(_) => { let c = sig.ctors.iter().position(|c| c.1 == 1).unwrap_or(0); if sig.ctors[c].1 == 1 { Pat::App(c, vec![p]) } else { Pat::App(c, vec![]) } } o => o }
}

pub fn gen_rule(rng: &mut Rng, sig: &Sig, idx: usize, allow_panic: bool) -> Cmd {
    // body: one or two constructor patterns, maybe a function lookup with a guard
    let p1 = { let mut p = gen_pat(rng, sig, 2, 3); if matches!(p, Pat::Var(_)) { let c = sig.ctors.len() - 1; p = Pat::App(c, (0..sig.ctors[c].1).map(|i| if sig.kinds[c][i] { Pat::Var(i % 3) } else { Pat::Lit(1) }).collect()); } p };
    let mut body = vec![BodyAtom::Eq(10, p1.clone())];
    let mut vs = vec![10]; vars_of(&p1, &mut vs);
    if rng.chance(1, 3) { let p2 = gen_pat_over(rng, sig, 1, &vs.iter().cloned().filter(|v| *v != 10).collect::<Vec<_>>()); if let Pat::App(..) = p2 { body.push(BodyAtom::Eq(11, p2)); vs.push(11); } }
    let mut ivars = vec![];
    if !sig.funcs.is_empty() && rng.chance(1, 2) { let f = rng.below(sig.funcs.len()); let v = vs[rng.below(vs.len())]; body.push(BodyAtom::Func(f, Pat::Var(v), IVal::Var(20))); ivars.push(20);
        if rng.chance(1, 2) { body.push(BodyAtom::Guard(["<", "<=", "!="][rng.below(3)], IVal::Var(20), IVal::Lit(rng.range(-2, 4)))); } }
    if !sig.rels.is_empty() && rng.chance(1, 3) { let r = rng.below(sig.rels.len()); body.push(BodyAtom::Rel(r, (0..sig.rels[r].1).map(|_| Pat::Var(vs[rng.below(vs.len())])).collect())); }
    let mut head = vec![];
    for _ in 0..(1 + rng.below(2)) {
        match rng.below(6) {
            0 | 1 => head.push(HeadAct::Union(Pat::Var(vs[rng.below(vs.len())]), gen_rhs(rng, sig, &vs, 3))),
            2 if !sig.funcs.is_empty() => { let f = rng.below(sig.funcs.len()); if sig.funcs[f].1 != MergeK::NoMerge { head.push(HeadAct::Set(f, Pat::Var(vs[rng.below(vs.len())]), if !ivars.is_empty() && rng.chance(1, 2) { IVal::Var(20) } else { IVal::Lit(rng.range(-3, 5)) })); } }
            3 if !sig.rels.is_empty() => { let r = rng.below(sig.rels.len()); head.push(HeadAct::Rel(r, (0..sig.rels[r].1).map(|_| Pat::Var(vs[rng.below(vs.len())])).collect())); }
            4 if allow_panic && rng.chance(1, 3) => head.push(HeadAct::Panic),
            _ => head.push(HeadAct::Term(as_app(sig, gen_rhs(rng, sig, &vs, 3)))),
        }
    }
    if head.is_empty() { head.push(HeadAct::Term(as_app(sig, gen_rhs(rng, sig, &vs, 3)))); }
    Cmd::Rule { rs: rng.below(2), body, head, name: format!("rule{idx}") }
}

pub struct GenOpts { pub faults: bool, pub subsume: bool, pub delete: bool, pub pushpop: bool, pub ncmds: usize }

pub fn gen_program(rng: &mut Rng, sig: &Sig, o: &GenOpts) -> Vec<Cmd> {
    let mut cmds = vec![];
    let mut grounds: Vec<Pat> = vec![];
    for _ in 0..(2 + rng.below(4)) { let d = 1 + rng.below(2); let t = gen_ground(rng, sig, d); cmds.push(Cmd::Act(HeadAct::Term(t.clone()))); grounds.push(t); }
    let mut depth = 0;
    let mut nrules = 0;
    for _ in 0..o.ncmds {
        let pick = |rng: &mut Rng, g: &Vec<Pat>| g[rng.below(g.len())].clone();
        match rng.below(16) {
            0 | 1 => { let d = 1 + rng.below(2); let t = gen_ground(rng, sig, d); cmds.push(Cmd::Act(HeadAct::Term(t.clone()))); grounds.push(t); }
            2 | 3 | 4 => { let (a, b) = (pick(rng, &grounds), pick(rng, &grounds)); cmds.push(Cmd::Act(HeadAct::Union(a, b))); }
            5 if !sig.funcs.is_empty() => { let f = rng.below(sig.funcs.len()); if sig.funcs[f].1 != MergeK::NoMerge || o.faults { cmds.push(Cmd::Act(HeadAct::Set(f, pick(rng, &grounds), IVal::Lit(rng.range(-3, 6))))); } }
            6 if !sig.rels.is_empty() => { let r = rng.below(sig.rels.len()); cmds.push(Cmd::Act(HeadAct::Rel(r, (0..sig.rels[r].1).map(|_| pick(rng, &grounds)).collect()))); }
            7 | 8 => { let r = gen_rewrite(rng, sig, o.subsume); let t = cmd_text(sig, &r); if !cmds.iter().any(|c| cmd_text(sig, c) == t) { cmds.push(r); nrules += 1; } }
            9 => { cmds.push(gen_rule(rng, sig, nrules, o.faults)); nrules += 1; }
            10 | 11 | 12 => cmds.push(Cmd::Run(rng.below(2), 1 + rng.below(3))),
            13 if o.subsume => { let t = pick(rng, &grounds); if let Pat::App(_, a) = &t { if !a.is_empty() { cmds.push(Cmd::Act(HeadAct::Subsume(t))); } } }
            14 if o.delete => { let t = pick(rng, &grounds); if let Pat::App(_, a) = &t { if !a.is_empty() { cmds.push(Cmd::Delete(t)); } } }
            15 if o.pushpop => { if depth > 0 && rng.chance(1, 2) { cmds.push(Cmd::Pop); depth -= 1; } else { cmds.push(Cmd::Push); depth += 1; } }
            _ => { let (a, b) = (pick(rng, &grounds), pick(rng, &grounds)); cmds.push(Cmd::Check(vec![BodyAtom::Eq(0, a), BodyAtom::Eq(0, b)])); }
        }
    }
    cmds
}
