//! What a property run reports back to `check`.
use serde_json::{json, Map, Value};
use std::collections::BTreeSet;

pub struct Violation {
    /// "property" = the property itself fails on the implementation (failing input known);
    /// "correspondence" = model and implementation disagree but no property-violating input was found.
    pub kind: &'static str,
    pub what: String,
    /// stable key used to match entries of known_findings.json
    pub signature: String,
    pub replay: Value,
}

pub struct Report {
    pub property: String,
    pub evaluations: u64,
    pub nontrivial: BTreeSet<u64>,
    pub rule: String,
    pub samples: Vec<Value>,
    pub violations: Vec<Violation>,
    pub extra: Map<String, Value>,
    pub traces_vs_model: u64,
}

impl Report {
    pub fn new(p: &str, rule: &str) -> Self {
        Report { property: p.to_string(), evaluations: 0, nontrivial: BTreeSet::new(), rule: rule.to_string(),
                 samples: vec![], violations: vec![], extra: Map::new(), traces_vs_model: 0 }
    }
    pub fn sample(&mut self, v: Value) { if self.samples.len() < 4 { self.samples.push(v); } }
    pub fn note_nontrivial<T: std::hash::Hash>(&mut self, t: &T) {
        use std::hash::Hasher;
        let mut h = std::collections::hash_map::DefaultHasher::new();
        t.hash(&mut h);
        self.nontrivial.insert(h.finish());
    }
    pub fn count(&mut self, key: &str, n: u64) {
        let e = self.extra.entry(key.to_string()).or_insert(json!(0));
        *e = json!(e.as_u64().unwrap_or(0) + n);
    }
    pub fn violate(&mut self, kind: &'static str, signature: &str, what: String, replay: Value) {
        // keep at most a few per signature
        if self.violations.iter().filter(|v| v.signature == signature).count() < 3 {
            self.violations.push(Violation { kind, what, signature: signature.to_string(), replay });
        }
    }
    pub fn to_json(&self) -> Value {
        json!({
            "property": self.property,
            "evaluations": self.evaluations,
            "distinct_nontrivial": self.nontrivial.len(),
            "rule": self.rule,
            "samples": self.samples,
            "traces_validated_against_impl": self.traces_vs_model,
            "extra": Value::Object(self.extra.clone()),
            "violations": self.violations.iter().map(|v| json!({
                "kind": v.kind, "what": v.what, "signature": v.signature, "replay": v.replay})).collect::<Vec<_>>(),
        })
    }
}
