//! Thin wrapper around the real `egglog::EGraph`: run command text with panic capture,
//! classify errors, and produce a canonical dump (e-class ids renamed to their least term).
use egglog::{CommandOutput, EGraph, Error, Value};
use std::collections::{BTreeMap, BTreeSet, HashMap};
use std::panic::{catch_unwind, AssertUnwindSafe};

#[derive(Clone, Debug, PartialEq, Eq)]
pub enum Outcome {
    Ok(Vec<String>),
    Err(String),   // error class
    Panic(String), // panic message (first line)
}

impl Outcome {
    pub fn is_ok(&self) -> bool { matches!(self, Outcome::Ok(_)) }
    pub fn class(&self) -> String {
        match self { Outcome::Ok(_) => "ok".into(), Outcome::Err(c) => format!("err:{c}"), Outcome::Panic(_) => "panic".into() }
    }
}

pub fn silence_panics() {
    std::panic::set_hook(Box::new(|_| {}));
}

pub fn error_class(e: &Error) -> String {
    let s = format!("{e:?}");
    let head = s.split(|c: char| c == '(' || c == ' ' || c == '{').next().unwrap_or("").to_string();
    head
}

/// run one chunk of program text; never unwinds
pub fn run(eg: &mut EGraph, text: &str) -> Outcome {
    match catch_unwind(AssertUnwindSafe(|| eg.parse_and_run_program(None, text))) {
        Ok(Ok(outs)) => Outcome::Ok(outs.iter().map(|o| o.to_string()).collect()),
        Ok(Err(e)) => Outcome::Err(error_class(&e)),
        Err(p) => {
            let msg = if let Some(s) = p.downcast_ref::<String>() { s.clone() } else if let Some(s) = p.downcast_ref::<&str>() { s.to_string() } else { "?".into() };
            Outcome::Panic(msg.lines().next().unwrap_or("").to_string())
        }
    }
}

pub fn run_outputs(eg: &mut EGraph, text: &str) -> Result<Vec<CommandOutput>, String> {
    match catch_unwind(AssertUnwindSafe(|| eg.parse_and_run_program(None, text))) {
        Ok(Ok(outs)) => Ok(outs),
        Ok(Err(e)) => Err(format!("err:{}", error_class(&e))),
        Err(_) => Err("panic".into()),
    }
}

#[derive(Clone, Debug, PartialEq, Eq, PartialOrd, Ord, Hash)]
pub enum V { Id(u32), Int(i64), Bool(bool), Str(String), Unit, Other(String, u32) }

#[derive(Clone, Debug)]
pub struct RawRow { pub args: Vec<V>, pub out: V, pub sub: bool }

#[derive(Clone, Debug)]
pub struct RawTable { pub name: String, pub is_ctor: bool, pub rows: Vec<RawRow>, pub in_sorts: Vec<String>, pub out_sort: String }

#[derive(Clone, Debug, Default)]
pub struct RawDump { pub tables: Vec<RawTable>, pub canon_of: HashMap<u32, u32> }

fn conv(eg: &EGraph, sort: &egglog::ArcSort, v: Value) -> V {
    use egglog_numeric_id::NumericId;
    if sort.is_eq_sort() { return V::Id(v.rep()); }
    match sort.name() {
        "i64" => V::Int(eg.value_to_base::<i64>(v)),
        "bool" => V::Bool(eg.value_to_base::<bool>(v)),
        "String" => V::Str(eg.value_to_base::<egglog::sort::S>(v).to_string()),
        "Unit" => V::Unit,
        n => V::Other(n.to_string(), v.rep()),
    }
}

/// every user-visible table, raw (ids as stored)
pub fn raw_dump(eg: &EGraph) -> RawDump {
    let mut d = RawDump::default();
    let funcs: Vec<(String, egglog::Function)> = eg.functions_iter().map(|(n, f)| (n.clone(), f.clone())).collect();
    for (name, f) in funcs {
        if f.is_hidden() { continue; }
        let ft = f.func_type().clone();
        let is_ctor = matches!(ft.subtype, egglog::ast::FunctionSubtype::Constructor);
        let mut rows = vec![];
        if is_ctor {
            let _ = eg.constructor_enodes(&name, |e| {
                // a relation is a constructor into an internal sort (`@…`): its output id is not observable and never referenced
                let out = if ft.output.name().starts_with('@') { V::Unit } else { conv(eg, &ft.output, e.eclass) };
                rows.push(RawRow { args: e.children.iter().zip(ft.input.iter()).map(|(v, s)| conv(eg, s, *v)).collect(), out, sub: e.subsumed });
            });
        } else {
            let _ = eg.function_entries(&name, |e| {
                rows.push(RawRow { args: e.inputs.iter().zip(ft.input.iter()).map(|(v, s)| conv(eg, s, *v)).collect(), out: conv(eg, &ft.output, e.output), sub: e.subsumed });
            });
        }
        for r in &rows {
            for (v, s) in r.args.iter().zip(ft.input.iter()).chain(std::iter::once((&r.out, &ft.output))) {
                if let V::Id(i) = v {
                    if !d.canon_of.contains_key(i) {
                        use egglog_numeric_id::NumericId;
                        let cid = eg.value_to_class_id(s, Value::new(*i)).to_string();
                        let c: u32 = cid.rsplit_once('-').and_then(|x| x.1.parse().ok()).unwrap_or(*i);
                        d.canon_of.insert(*i, c);
                    }
                }
            }
        }
        d.tables.push(RawTable { name, is_ctor, rows, in_sorts: ft.input.iter().map(|s| s.name().to_string()).collect(), out_sort: ft.output.name().to_string() });
    }
    d
}

/// Name every e-class id by its least term (size, then text) over the constructor rows of the dump.
/// Ids with no term are named `?<n>` in order of first appearance in the sorted dump.
pub fn class_names(d: &RawDump, include_lets: bool) -> HashMap<u32, (usize, String)> {
    let mut best: HashMap<u32, (usize, String)> = HashMap::new();
    loop {
        let mut changed = false;
        for t in &d.tables {
            if !t.is_ctor { continue; }
            if !include_lets && t.name.starts_with('$') { continue; }
            for r in &t.rows {
                let V::Id(cls) = r.out else { continue };
                let mut size = 1usize;
                let mut s = String::new();
                s.push('('); s.push_str(&t.name);
                let mut ok = true;
                for a in &r.args {
                    s.push(' ');
                    match a {
                        V::Id(i) => match best.get(i) { Some((sz, n)) => { size += sz; s.push_str(n); } None => { ok = false; break; } },
                        o => s.push_str(&fmt_v(o, &HashMap::new())),
                    }
                }
                if !ok { continue; }
                s.push(')');
                let cand = (size, s);
                match best.get(&cls) {
                    Some(b) if *b <= cand => {}
                    _ => { best.insert(cls, cand); changed = true; }
                }
            }
        }
        if !changed { break; }
    }
    best
}

pub fn fmt_v(v: &V, names: &HashMap<u32, (usize, String)>) -> String {
    match v {
        V::Id(i) => names.get(i).map(|x| x.1.clone()).unwrap_or_else(|| format!("#{i}")),
        V::Int(i) => i.to_string(),
        V::Bool(b) => b.to_string(),
        V::Str(s) => format!("{s:?}"),
        V::Unit => "()".into(),
        V::Other(s, r) => format!("<{s}:{r}>"),
    }
}

/// Canonical dump: sorted lines `F a1 .. an -> out [sub]` with ids replaced by least-term names.
/// `$`-prefixed (global let) tables are skipped unless asked for.
pub fn canon_dump(d: &RawDump) -> Vec<String> {
    let names = class_names(d, false);
    let render = |names: &HashMap<u32, (usize, String)>| -> Vec<String> {
        let mut lines = vec![];
        for t in &d.tables {
            if t.name.starts_with('$') { continue; }
            for r in &t.rows {
                let mut s = t.name.clone();
                for a in &r.args { s.push(' '); s.push_str(&fmt_v(a, names)); }
                s.push_str(" -> "); s.push_str(&fmt_v(&r.out, names));
                if r.sub { s.push_str(" [sub]"); }
                lines.push(s);
            }
        }
        lines.sort();
        lines
    };
    // ids without any term (e.g. after a delete): they can only be named up to a bijection.  Colour them by their
    // occurrences (table, column, the row with named ids spelled out and unnamed ones as `?`), then choose, among the
    // permutations inside each group of equally coloured ids, the assignment giving the smallest dump — a true
    // canonical form as long as the product of the group factorials stays small (else: id order inside the group).
    let mut unnamed: BTreeSet<u32> = BTreeSet::new();
    for t in &d.tables { for r in &t.rows { for v in r.args.iter().chain(std::iter::once(&r.out)) { if let V::Id(i) = v { if !names.contains_key(i) { unnamed.insert(*i); } } } } }
    if unnamed.is_empty() { return render(&names); }
    let mut sig: BTreeMap<u32, Vec<String>> = BTreeMap::new();
    for t in &d.tables { for r in &t.rows {
        let spelled: Vec<String> = r.args.iter().chain(std::iter::once(&r.out)).map(|v| match v { V::Id(i) if unnamed.contains(i) => "?".to_string(), o => fmt_v(o, &names) }).collect();
        for (k, v) in r.args.iter().chain(std::iter::once(&r.out)).enumerate() { if let V::Id(i) = v { if unnamed.contains(i) { sig.entry(*i).or_default().push(format!("{}@{}|{}|{}", t.name, k, spelled.join(" "), r.sub as u8)); } } }
    } }
    let mut order: Vec<(Vec<String>, u32)> = sig.into_iter().map(|(i, mut s)| { s.sort(); (s, i) }).collect();
    order.sort();
    let mut groups: Vec<Vec<u32>> = vec![];
    let mut last: Option<&Vec<String>> = None;
    for (sg, i) in &order { if last == Some(sg) { groups.last_mut().unwrap().push(*i); } else { groups.push(vec![*i]); } last = Some(sg); }
    fn perms(v: &[u32]) -> Vec<Vec<u32>> { if v.len() <= 1 { return vec![v.to_vec()]; } let mut out = vec![]; for i in 0..v.len() { let mut rest = v.to_vec(); let x = rest.remove(i); for mut p in perms(&rest) { p.insert(0, x); out.push(p); } } out }
    let combos: usize = groups.iter().map(|g| (1..=g.len()).product::<usize>()).try_fold(1usize, |a, b| a.checked_mul(b)).unwrap_or(usize::MAX);
    let assign = |choice: &[Vec<u32>]| -> HashMap<u32, (usize, String)> { let mut nm = names.clone(); let mut n = 0; for g in choice { for i in g { nm.insert(*i, (0, format!("?{n}"))); n += 1; } } nm };
    if combos > 5040 { return render(&assign(&groups)); }
    let per_group: Vec<Vec<Vec<u32>>> = groups.iter().map(|g| perms(g)).collect();
    let mut best: Option<Vec<String>> = None;
    let mut idx = vec![0usize; per_group.len()];
    loop {
        let choice: Vec<Vec<u32>> = idx.iter().enumerate().map(|(g, k)| per_group[g][*k].clone()).collect();
        let lines = render(&assign(&choice));
        if best.as_ref().map_or(true, |b| lines < *b) { best = Some(lines); }
        let mut g = 0; loop { if g == idx.len() { return best.unwrap(); } idx[g] += 1; if idx[g] < per_group[g].len() { break; } idx[g] = 0; g += 1; }
    }
}

pub fn canon(eg: &EGraph) -> Vec<String> { canon_dump(&raw_dump(eg)) }

/// C04: "the serialised e-graph and the read API describe the same rows".  Every row of a user constructor /
/// function table read through the API must appear as a node of `EGraph::serialize` with the same operator, the
/// same e-class and children whose e-classes are the classes of the row's arguments (base-value children are
/// compared by count only), and the node counts per operator must equal the row counts.
pub fn serialize_defects(eg: &EGraph, d: &RawDump) -> Option<String> {
    use egglog_numeric_id::NumericId;
    let out = match std::panic::catch_unwind(std::panic::AssertUnwindSafe(|| eg.serialize(egglog::SerializeConfig::default()))) { Ok(o) => o, Err(_) => return Some("EGraph::serialize panicked".into()) };
    if !out.is_complete() { return Some(format!("serialize omitted functions with the default config: {}", out.omitted_description())); }
    let g = &out.egraph;
    let class_of: HashMap<String, String> = g.nodes.iter().map(|(id, n)| (id.to_string(), n.eclass.to_string())).collect();
    let funcs: HashMap<String, egglog::Function> = eg.functions_iter().map(|(n, f)| (n.clone(), f.clone())).collect();
    for t in &d.tables {
        if t.name.starts_with('$') { continue; }
        let Some(f) = funcs.get(&t.name) else { continue };
        let ft = f.func_type().clone();
        let nodes: Vec<_> = g.nodes.values().filter(|n| n.op == t.name).collect();
        if nodes.len() != t.rows.len() { return Some(format!("serialize has {} nodes for `{}`, the read API {} rows", nodes.len(), t.name, t.rows.len())); }
        if !t.is_ctor || t.out_sort.starts_with('@') { continue; }
        let mut want: Vec<(Vec<String>, String, bool)> = t.rows.iter().map(|r| {
            let kids = r.args.iter().zip(ft.input.iter()).map(|(a, s)| match a { V::Id(i) => eg.value_to_class_id(s, Value::new(*i)).to_string(), _ => "<base>".to_string() }).collect();
            let cls = match r.out { V::Id(i) => eg.value_to_class_id(&ft.output, Value::new(i)).to_string(), _ => "<base>".into() };
            (kids, cls, r.sub) }).collect();
        let mut got: Vec<(Vec<String>, String, bool)> = nodes.iter().map(|n| {
            let kids = n.children.iter().zip(ft.input.iter()).map(|(c, s)| if s.is_eq_sort() { class_of.get(&c.to_string()).cloned().unwrap_or_else(|| format!("?{c}")) } else { "<base>".to_string() }).collect();
            (kids, n.eclass.to_string(), n.subsumed) }).collect();
        want.sort(); got.sort();
        if want != got { let k = want.iter().zip(&got).position(|(a, b)| a != b).unwrap_or(0);
            return Some(format!("`{}`: the read API row {:?} has no matching serialized node (nearest: {:?})", t.name, want.get(k), got.get(k))); }
    }
    None
}

/// The C04 canonicity predicate evaluated on the implementation's raw dump:
/// one row per key, no two constructor rows for the same class-key collision, every stored id is
/// its own representative according to the engine (probed through a `check`-free API: an id is
/// canonical iff it appears as the class of itself — approximated by: no two ids that the engine
/// reports equal both appear).  Returns a description of the first defect.
pub fn dump_defects(d: &RawDump) -> Option<String> {
    for t in &d.tables {
        let mut seen: HashMap<&Vec<V>, &RawRow> = HashMap::new();
        for r in &t.rows {
            if let Some(o) = seen.insert(&r.args, r) {
                return Some(format!("table {} holds two rows for key {:?}: outputs {:?} and {:?}", t.name, r.args, o.out, r.out));
            }
        }
    }
    for t in &d.tables {
        for r in &t.rows {
            for v in r.args.iter().chain(std::iter::once(&r.out)) {
                if let V::Id(i) = v {
                    if let Some(c) = d.canon_of.get(i) { if c != i { return Some(format!("table {} stores id {i} whose canonical representative is {c} (row {:?} -> {:?})", t.name, r.args, r.out)); } }
                }
            }
        }
    }
    None
}


thread_local! {
    static BASES: std::cell::RefCell<std::collections::HashMap<(String, usize), egglog::EGraph>> = std::cell::RefCell::new(std::collections::HashMap::new());
}

/// A fresh engine of the given mode ("plain" | "term" | "proofs") and thread count.  `with_num_threads` builds a thread
/// pool; building one per case keeps about 10 MB per pool resident (thousands of cases in the thorough tier exhausted
/// the memory), so one pristine engine per (mode, threads) is kept and CLONED — a clone of a pristine engine is a
/// pristine engine, sharing the pool.  ONLY for engines that are used strictly one after the other: two LIVE clones
/// of one e-graph shared the bridge's name-indexed action registry (defect 18 of C08, repaired in /repo), and engines that
/// must coexist (semi-naive next to naive, …) are still built separately.
pub fn fresh(mode: &str, threads: usize) -> egglog::EGraph {
    BASES.with(|b| b.borrow_mut().entry((mode.to_string(), threads)).or_insert_with(|| match mode {
        "term" => egglog::EGraph::new_with_term_encoding(),
        "proofs" => egglog::EGraph::new_with_proofs(),
        _ => egglog::EGraph::default(),
    }.with_num_threads(threads)).clone())
}
