//! Run a generated program on the real engine and on the Lean e-graph model, command by command,
//! and compare outcome classes and canonical dumps.
use crate::engine::{self, RawDump, RawRow, RawTable, V};
use crate::pgen::{self, Cmd, Sig};
use crate::lean::run_driver;
use egglog::EGraph;

pub struct Step { pub text: String, pub outcome: String, pub dump: Vec<String>, pub defects: Option<String>, pub raw: RawDump }

fn strip_rel(sig: &Sig, mut lines: Vec<String>) -> Vec<String> {
    for l in lines.iter_mut() {
        let head = l.split(' ').next().unwrap_or("");
        if sig.rels.iter().any(|r| r.0 == head) { if let Some(p) = l.find(" -> ") { let sub = l.ends_with(" [sub]"); l.truncate(p); if sub { l.push_str(" [sub]"); } } }
    }
    lines.sort();
    lines
}

pub fn outcome_of(c: &Cmd, o: &engine::Outcome) -> String {
    match (c, o) {
        (Cmd::Check(_), engine::Outcome::Ok(_)) => "true".into(),
        (Cmd::Check(_), engine::Outcome::Err(_)) => "false".into(),
        (_, engine::Outcome::Ok(_)) => "ok".into(),
        (_, engine::Outcome::Err(_)) => "error".into(),
        (_, engine::Outcome::Panic(m)) => format!("panic:{m}"),
    }
}

/// run on the real engine; one observation per command
pub fn run_engine(eg: &mut EGraph, sig: &Sig, cmds: &[Cmd]) -> Vec<Step> {
    let mut out = vec![];
    for c in cmds {
        let text = pgen::cmd_text(sig, c);
        let o = engine::run(eg, &text);
        let raw = engine::raw_dump(eg);
        let defects = engine::dump_defects(&raw).or_else(|| engine::serialize_defects(eg, &raw).map(|d| format!("serialize vs read API: {d}")));
        out.push(Step { text, outcome: outcome_of(c, &o), dump: strip_rel(sig, engine::canon_dump(&raw)), defects, raw });
    }
    out
}

pub fn fresh_engine(sig: &Sig, threads: usize) -> Option<EGraph> {
    let mut eg = EGraph::default().with_num_threads(threads);
    if engine::run(&mut eg, &sig.header()).is_ok() { Some(eg) } else { None }
}

pub fn parse_model_dump(sig: &Sig, line: &str) -> RawDump {
    let names = sig.table_names();
    let mut tables: Vec<RawTable> = names.iter().enumerate().map(|(i, n)| RawTable { name: n.clone(), is_ctor: i < sig.ctors.len(), rows: vec![], in_sorts: vec![], out_sort: String::new() }).collect();
    for tok in line.split_whitespace() {
        let Some((f, rest)) = tok.split_once(':') else { continue };
        let Ok(f) = f.parse::<usize>() else { continue };
        let sub = rest.ends_with('!');
        let rest = rest.trim_end_matches('!');
        let Some((args, out)) = rest.split_once('>') else { continue };
        let is_func = f >= sig.ctors.len() && f < sig.ctors.len() + sig.funcs.len();
        let is_rel = f >= sig.ctors.len() + sig.funcs.len();
        let a: Vec<V> = if args.is_empty() { vec![] } else { args.split(',').enumerate().map(|(j, x)| if f < sig.ctors.len() && !sig.kinds[f].get(j).copied().unwrap_or(true) { V::Int(x.parse().unwrap_or(0)) } else { V::Id(x.parse().unwrap_or(0)) }).collect() };
        let o = if is_func { V::Int(out.parse().unwrap_or(0)) } else if is_rel { V::Unit } else { V::Id(out.parse().unwrap_or(0)) };
        if f < tables.len() { tables[f].rows.push(RawRow { args: a, out: o, sub }); }
    }
    RawDump { tables, canon_of: Default::default() }
}

pub struct ModelStep { pub outcome: String, pub dump: Vec<String> }

/// model lines for a whole program, with a dump after every command; returns (lines, index of result line per command)
pub fn model_script(sig: &Sig, cmds: &[Cmd]) -> (Vec<String>, Vec<usize>) {
    let mut lines = sig.model_header();
    let mut at = vec![];
    for c in cmds {
        lines.extend(pgen::cmd_model(sig, c));
        at.push(lines.len() - 1);
        lines.push("eg dump".into());
    }
    (lines, at)
}

pub fn model_steps(sig: &Sig, out: &[String], base: usize, at: &[usize], cmds: &[Cmd]) -> Vec<ModelStep> {
    at.iter().zip(cmds).map(|(i, c)| {
        let o = &out[base + i];
        let outcome = match c { Cmd::Run(..) => if o == "error" { "error".to_string() } else { "ok".to_string() }, _ => o.clone() };
        ModelStep { outcome, dump: strip_rel(sig, engine::canon_dump(&parse_model_dump(sig, &out[base + i + 1]))) }
    }).collect()
}

/// convenience: run many programs through the driver in one batch
pub fn run_models(progs: &[(Sig, Vec<Cmd>)]) -> Result<Vec<Vec<ModelStep>>, String> {
    let mut all = vec![]; let mut meta = vec![];
    for (sig, cmds) in progs { let (l, at) = model_script(sig, cmds); meta.push((all.len(), at)); all.extend(l); }
    let out = run_driver(&all)?;
    Ok(progs.iter().zip(meta).map(|((sig, cmds), (base, at))| model_steps(sig, &out, base, &at, cmds)).collect())
}
