//! Correspondence harness: drives the real egglog crates (built from /repo's working tree,
//! with `--cfg egglog_verif`) and the Lean model driver on the same inputs.
mod engine;
mod pgen;
mod session;
mod lean;
mod report;
mod rng;
mod sexp;
mod props;

use report::Report;

pub struct Ctx {
    pub tier_thorough: bool,
    pub seed: u64,
    pub replay: Option<String>,
}

impl Ctx {
    /// scale a quick-tier count for the thorough tier
    pub fn n(&self, quick: usize, thorough: usize) -> usize { if self.tier_thorough { thorough } else { quick } }
}

fn main() {
    // Parallel code paths are chosen by `len > cutoff && threads > 1`; with every cut-off at 0 the
    // thread count of an EGraph alone selects serial (1) or parallel (>1) implementations.
    // The cut-offs are read once per process, so this must happen before any engine call.
    if std::env::var("VERIF_DEFAULT_CUTOFFS").is_err() {
        for v in ["DB_LEVEL_OP", "INDEX_CONSTRUCTION", "REBUILD", "INTRA_CONTAINER", "INTER_CONTAINER", "TABLE_OP"] {
            let key = format!("EGGLOG_PARALLEL_{v}_CUTOFF");
            if std::env::var(&key).is_err() { unsafe { std::env::set_var(&key, "0"); } }
        }
    }
    engine::silence_panics();
    let args: Vec<String> = std::env::args().collect();
    if args.len() < 2 { eprintln!("usage: vharness <prop> [--tier t] [--seed n] [--out f] [--replay f]"); std::process::exit(2); }
    let prop = args[1].clone();
    let mut tier = "quick".to_string();
    let mut seed = 1u64;
    let mut out = None;
    let mut replay = None;
    let mut i = 2;
    while i < args.len() {
        match args[i].as_str() {
            "--tier" => { tier = args[i + 1].clone(); i += 2; }
            "--seed" => { seed = args[i + 1].parse().unwrap_or(1); i += 2; }
            "--out" => { out = Some(args[i + 1].clone()); i += 2; }
            "--replay" => { replay = Some(args[i + 1].clone()); i += 2; }
            _ => { i += 1; }
        }
    }
    let ctx = Ctx { tier_thorough: tier == "thorough", seed, replay };
    if prop == "child" { props::child::main(&args[2..]); return; }
    if prop == "c19vec" { props::c19::vec_child_main(&args[2..]); return; }
    if prop == "dump" {
        // debugging aid: vharness dump FILE.egg — run a program and print the raw and the canonical dump
        let text = std::fs::read_to_string(&args[2]).expect("read program");
        let mut eg = egglog::EGraph::default();
        println!("outcome: {:?}", engine::run(&mut eg, &text).class());
        let d = engine::raw_dump(&eg);
        for t in &d.tables { println!("table {} ctor={} in={:?} out={}", t.name, t.is_ctor, t.in_sorts, t.out_sort); for r in &t.rows { println!("   {:?} -> {:?} sub={}", r.args, r.out, r.sub); } }
        for l in engine::canon_dump(&d) { println!("{l}"); }
        return;
    }
    if prop == "bench" { props::child::bench(); props::child::bench2(); return; }
    let rep: Report = match props::run(&prop, &ctx) {
        Some(r) => r,
        None => { eprintln!("unknown property {prop}"); std::process::exit(2); }
    };
    let js = serde_json::to_string_pretty(&rep.to_json()).unwrap();
    match out {
        Some(p) => std::fs::write(p, js).unwrap(),
        None => println!("{js}"),
    }
}
