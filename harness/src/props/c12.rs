//! C12 — every provable fact gets a proof the checker accepts, and only those.
//!  * `(prove f)` succeeds exactly when `(check f)` succeeds on the plain engine (facts not resting on
//!    subsumed rows), never panics;
//!  * every returned proof is exported (terms + steps) and re-checked by the Lean structural checker
//!    (theorem C12_sound): the two checkers must agree on acceptance;
//!  * single-point mutations of the exported proof (swapped Trans operands, wrong congruence index,
//!    substituted term) must be rejected by the certified checker unless the altered step is itself
//!    derivable;
//!  * through the cfg hook the in-tree checker re-checks the proof against programs from which a used
//!    rule or a top-level fact has been removed: it must reject.
use crate::{engine, lean::run_driver, pgen::{self, Cmd, GenOpts, Sig}, report::Report, rng::Rng, Ctx};
use egglog::proof::{Justification, ProofId, ProofStore};
use egglog::{CommandOutput, EGraph, Term, TermId};
use serde_json::json;
use std::collections::HashMap;

struct Export { line: String, steps: Vec<(String, Vec<usize>, usize, usize)>, rules: Vec<String>, nterms: usize,
                /// Fiat steps exported as fiat steps / left as leaves (a top-level action outside the fragment)
                fiat_steps: usize, fiat_steps_leafed: usize,
                /// number of rules of the checking program (an index >= this names no rule)
                nrules: usize,
                /// Rule steps exported as rule steps / left as leaves (rule outside the modelled fragment)
                rule_steps: usize, rule_steps_leafed: usize,
                /// the proof id behind every exported step, and the TermId behind every exported term that exists in the
                /// proof's own dag (instances built only for the model have none)
                ids: Vec<ProofId>, term_ids: Vec<Option<TermId>> }

type RRule = egglog::ast::GenericRule<egglog::ResolvedCall, egglog::ResolvedVar>;
type RAction = egglog::ast::GenericAction<egglog::ResolvedCall, egglog::ResolvedVar>;
type RExpr = egglog::ResolvedExpr;

/// the checking program as the in-tree checker sees it (cfg hooks): its rules and its top-level actions
struct ProgView { rules: Vec<RRule>, globals: Vec<RAction> }
fn prog_view(eg: &EGraph) -> ProgView { ProgView { rules: eg.verif_proof_rules(), globals: eg.verif_proof_globals() } }

/// action list as model tokens (`U`/`E`/`X`); variables used before any `let` of the list binds them go to `used`
fn act_tokens(acts: &[&RAction], heads: &mut HashMap<String, usize>, vars: &mut HashMap<String, usize>, used: &mut Vec<String>) -> Option<Vec<String>> {
    use egglog::ast::{GenericAction, GenericExpr};
    let mut out = vec![]; let mut let_bound: Vec<String> = vec![];
    for a in acts {
        let mut u = vec![];
        match a {
            GenericAction::Union(_, l, r) => out.push(format!("U {} {}", pat(l, true, heads, vars, &mut u)?, pat(r, true, heads, vars, &mut u)?)),
            GenericAction::Expr(_, e) => out.push(format!("E {}", pat(e, true, heads, vars, &mut u)?)),
            GenericAction::Set(sp, f, args, rhs) => { let mut all = args.clone(); all.push(rhs.clone()); out.push(format!("E {}", pat(&GenericExpr::Call(sp.clone(), f.clone(), all), true, heads, vars, &mut u)?)); }
            GenericAction::Panic(..) | GenericAction::Change(..) => {}
            GenericAction::Let(_, v, e) => { let t = pat(e, true, heads, vars, &mut u)?; let n = vars.len(); let vi = *vars.entry(v.name.clone()).or_insert(n); out.push(format!("X v{vi} {t}")); }
        }
        for x in u { if !let_bound.contains(&x) { used.push(x); } }
        if let GenericAction::Let(_, v, _) = a { let_bound.push(v.name.clone()); }
    }
    Some(out)
}

/// rule-side expression as pattern tokens; `None` = outside the modelled fragment (primitives, function
/// calls where the checker does not evaluate them as terms)
fn pat(e: &RExpr, in_head: bool, heads: &mut HashMap<String, usize>, vars: &mut HashMap<String, usize>, used: &mut Vec<String>) -> Option<String> {
    use egglog::ast::{FunctionSubtype, GenericExpr};
    fn hid(heads: &mut HashMap<String, usize>, h: String) -> usize { let n = heads.len(); *heads.entry(h).or_insert(n) }
    match e {
        GenericExpr::Var(_, v) => { used.push(v.name.clone()); let n = vars.len(); Some(format!("v{}", *vars.entry(v.name.clone()).or_insert(n))) }
        GenericExpr::Lit(_, l) => Some(format!("a{}:0", hid(heads, format!("lit:{l}")))),
        GenericExpr::Call(_, egglog::ResolvedCall::Func(ft), args) => {
            if !in_head && ft.subtype != FunctionSubtype::Constructor { return None; }
            let mut out = format!("a{}:{}", hid(heads, format!("app:{}", ft.name)), args.len());
            for a in args { out.push(' '); out.push_str(&pat(a, in_head, heads, vars, used)?); }
            Some(out)
        }
        GenericExpr::Call(_, egglog::ResolvedCall::Primitive(_), _) => None,
    }
}

/// `R <nb> <nh> F.. U../E..` for one rule of the checking program, with the variables it mentions
fn rule_tokens(rule: &RRule, heads: &mut HashMap<String, usize>, vars: &mut HashMap<String, usize>) -> Option<(String, Vec<String>)> {
    use egglog::ast::{FunctionSubtype, GenericExpr, GenericFact};
    let mut used = vec![]; let mut body = vec![]; let mut head: Vec<String> = vec![];
    for f in &rule.body {
        match f {
            // proof normal form of a function fact: (= (f args..) v) is the row term f(args.., v), reflexively
            GenericFact::Eq(_, GenericExpr::Call(sp, egglog::ResolvedCall::Func(ft), args), v @ GenericExpr::Var(..)) if ft.subtype == FunctionSubtype::Custom => {
                let mut all = args.clone(); all.push(v.clone());
                let row = GenericExpr::Call(sp.clone(), egglog::ResolvedCall::Func(ft.clone()), all);
                let t = pat(&row, true, heads, vars, &mut used)?;
                if args.iter().any(|a| pat(a, false, heads, vars, &mut vec![]).is_none()) { return None; }
                body.push(format!("F 0 {t} {t}"));
            }
            GenericFact::Eq(_, l, r) => body.push(format!("F 0 {} {}", pat(l, false, heads, vars, &mut used)?, pat(r, false, heads, vars, &mut used)?)),
            GenericFact::Fact(e) => { let t = pat(e, false, heads, vars, &mut used)?; body.push(format!("F 1 {t} {t}")); }
        }
    }
    let head_refs: Vec<&RAction> = rule.head.0.iter().collect();
    head.extend(act_tokens(&head_refs, heads, vars, &mut used)?);
    used.sort(); used.dedup();
    Some((format!(" R {} {} {} {}", body.len(), head.len(), body.join(" "), head.join(" ")).replace("  ", " ").trim_end().to_string(), used))
}


/// `prog_rules`: the rules of the checking program (cfg hook `verif_proof_rules`); with them, Rule steps are
/// exported as rule steps for the Lean checker (theorem C12_rule_sound), otherwise as leaves
fn export_with(store: &ProofStore, root: ProofId, prog: Option<&ProgView>) -> Option<Export> {
    let prog_rules: Option<&[RRule]> = prog.map(|p| &p.rules[..]);
    // the checker builds the instances of a rule's expressions in its TermDag (`TermDag::app` hash-conses); the
    // model only looks terms up, so the instances of every used rule's body and head expressions are built here
    // (in a copy of the proof's dag: existing terms keep their ids) and exported with the proof's own terms
    let mut dag_owned = store.term_dag().clone();
    let mut extra: Vec<TermId> = vec![];
    let mut global_bind: HashMap<String, TermId> = HashMap::new();
    if let Some(prs) = prog_rules {
        use egglog::ast::{GenericAction, GenericExpr, GenericFact};
        fn inst(e: &RExpr, sub: &HashMap<String, TermId>, dag: &mut egglog::TermDag) -> Option<TermId> {
            match e {
                GenericExpr::Var(_, v) => sub.get(&v.name).copied(),
                GenericExpr::Lit(_, l) => Some(dag.lit(l.clone())),
                GenericExpr::Call(_, egglog::ResolvedCall::Func(ft), args) => { let mut ks = vec![]; for a in args { ks.push(inst(a, sub, dag)?); } Some(dag.app(ft.name.clone(), ks)) }
                GenericExpr::Call(_, egglog::ResolvedCall::Primitive(_), _) => None,
            }
        }
        // thread the bindings of `let`s through an action list, building every evaluated expression
        fn inst_acts(acts: &[&RAction], sub: &mut HashMap<String, TermId>, dag: &mut egglog::TermDag, extra: &mut Vec<TermId>) {
            for a in acts { match a {
                GenericAction::Union(_, l, r) => { for e in [l, r] { if let Some(t) = inst(e, sub, dag) { extra.push(t); } } }
                GenericAction::Expr(_, e) => { if let Some(t) = inst(e, sub, dag) { extra.push(t); } }
                GenericAction::Set(sp, f, args, rhs) => { let mut all = args.clone(); all.push(rhs.clone()); if let Some(t) = inst(&GenericExpr::Call(sp.clone(), f.clone(), all), sub, dag) { extra.push(t); } }
                GenericAction::Let(_, v, e) => { if let Some(t) = inst(e, sub, dag) { extra.push(t); sub.insert(v.name.clone(), t); } }
                _ => {} } }
        }
        let grefs: Vec<&RAction> = prog.map(|p| p.globals.iter().collect()).unwrap_or_default();
        inst_acts(&grefs, &mut global_bind, &mut dag_owned, &mut extra);
        let mut seen: std::collections::HashSet<ProofId> = Default::default(); let mut todo = vec![root];
        while let Some(p) = todo.pop() {
            if !seen.insert(p) { continue; }
            match store.get(p).justification() {
                Justification::Rule { name, premise_proofs, substitution } => {
                    todo.extend(premise_proofs.iter().copied());
                    if let Some(rule) = prs.iter().find(|r| &r.name == name) {
                        let mut es: Vec<RExpr> = vec![];
                        for f in &rule.body { match f { GenericFact::Eq(sp, GenericExpr::Call(_, h @ egglog::ResolvedCall::Func(_), args), v @ GenericExpr::Var(..)) => { let mut all = args.clone(); all.push(v.clone()); es.push(GenericExpr::Call(sp.clone(), h.clone(), all)); es.extend(args.iter().cloned()); }
                            GenericFact::Eq(_, l, r) => { es.push(l.clone()); es.push(r.clone()); } GenericFact::Fact(e) => es.push(e.clone()) } }
                        let mut sub: HashMap<String, TermId> = global_bind.clone(); sub.extend(substitution.iter().map(|(k, v)| (k.clone(), *v)));
                        for e in &es { if let Some(t) = inst(e, &sub, &mut dag_owned) { extra.push(t); } }
                        let hrefs: Vec<&RAction> = rule.head.0.iter().collect();
                        inst_acts(&hrefs, &mut sub, &mut dag_owned, &mut extra);
                    }
                }
                Justification::MergeFn { old_proof, new_proof, .. } => { todo.push(*old_proof); todo.push(*new_proof); }
                Justification::Trans(a, b) => { todo.push(*a); todo.push(*b); }
                Justification::Sym(a) => todo.push(*a),
                Justification::Congr { proof, child_proof, .. } => { todo.push(*proof); todo.push(*child_proof); }
                _ => {}
            }
        }
    }
    let dag = &dag_owned;
    let mut term_ix: HashMap<TermId, usize> = HashMap::new();
    let mut terms: Vec<(usize, Vec<usize>)> = vec![];
    let mut heads: HashMap<String, usize> = HashMap::new();
    fn term(dag: &egglog::TermDag, t: TermId, ix: &mut HashMap<TermId, usize>, terms: &mut Vec<(usize, Vec<usize>)>, heads: &mut HashMap<String, usize>) -> usize {
        if let Some(i) = ix.get(&t) { return *i; }
        let (h, kids) = match dag.get(t).clone() {
            Term::App(h, ch) => { let ks: Vec<usize> = ch.iter().map(|c| term(dag, *c, ix, terms, heads)).collect(); (format!("app:{h}"), ks) }
            Term::Lit(l) => (format!("lit:{l}"), vec![]),
            Term::Var(v) => (format!("var:{v}"), vec![]),
            #[allow(unreachable_patterns)] _ => ("other".to_string(), vec![]),
        };
        let n = heads.len(); let hid = *heads.entry(h).or_insert(n);
        terms.push((hid, kids)); ix.insert(t, terms.len() - 1); terms.len() - 1
    }
    let mut step_ix: HashMap<ProofId, usize> = HashMap::new();
    let mut steps: Vec<(String, Vec<usize>, usize, usize)> = vec![];
    let mut rules = vec![];
    // the rules of the checking program, as model rules (None: outside the fragment)
    let mut vars: HashMap<String, usize> = HashMap::new();
    let rule_toks: Vec<(String, Option<(String, Vec<String>)>)> = prog_rules.map(|rs| rs.iter().map(|r| (r.name.clone(), rule_tokens(r, &mut heads, &mut vars))).collect()).unwrap_or_default();
    let have_rules = prog_rules.is_some();
    // the top-level actions; outside the fragment (a primitive call) -> Fiat steps stay leaves and no global binds
    let mut gused = vec![];
    let global_toks: Option<Vec<String>> = prog.and_then(|p| { let refs: Vec<&RAction> = p.globals.iter().collect(); act_tokens(&refs, &mut heads, &mut vars, &mut gused) }).filter(|_| gused.is_empty());
    let global_names: Vec<String> = if global_toks.is_some() { global_bind.keys().cloned().collect() } else { vec![] };
    struct RuleCtx<'a> { have: bool, toks: &'a [(String, Option<(String, Vec<String>)>)], vars: &'a HashMap<String, usize>, exported: usize, leafed: usize,
                         fiat_ok: bool, globals: &'a [String], fiat: usize, fiat_leafed: usize }
    let mut rc = RuleCtx { have: have_rules, toks: &rule_toks, vars: &vars, exported: 0, leafed: 0, fiat_ok: global_toks.is_some(), globals: &global_names, fiat: 0, fiat_leafed: 0 };
    fn go(store: &ProofStore, p: ProofId, step_ix: &mut HashMap<ProofId, usize>, steps: &mut Vec<(String, Vec<usize>, usize, usize)>, rules: &mut Vec<String>,
          tf: &mut dyn FnMut(TermId) -> usize, rc: &mut RuleCtx) -> Option<usize> {
        if let Some(i) = step_ix.get(&p) { return Some(*i); }
        let pr = store.get(p);
        let (l, r) = (tf(pr.lhs()), tf(pr.rhs()));
        let (kind, args) = match pr.justification() {
            Justification::Fiat => if rc.fiat_ok { rc.fiat += 1; ("fiat".to_string(), vec![]) } else { if rc.have { rc.fiat_leafed += 1; } ("leaf".to_string(), vec![]) },
            Justification::Rule { name, premise_proofs, substitution } => {
                rules.push(name.clone());
                let mut prem = vec![]; for q in premise_proofs { prem.push(go(store, *q, step_ix, steps, rules, tf, rc)?); }
                if !rc.have { ("leaf".to_string(), vec![]) } else {
                    // `find_map` of the checker: the first rule with that name; none -> an index that names no rule
                    match rc.toks.iter().position(|(n, _)| n == name) {
                        None => { rc.exported += 1; let mut a = vec![rc.toks.len(), prem.len()]; a.extend(prem); a.push(0); ("rule".to_string(), a) }
                        Some(ri) => match &rc.toks[ri].1 {
                            // every variable the rule mentions must come from the step's substitution (no globals)
                            Some((_, used)) if used.iter().all(|v| substitution.contains_key(v) || rc.globals.contains(v)) => {
                                rc.exported += 1;
                                let mut a = vec![ri, prem.len()]; a.extend(prem);
                                let mut sub: Vec<(usize, usize)> = substitution.iter().filter_map(|(v, t)| rc.vars.get(v).map(|vi| (*vi, tf(*t)))).collect(); sub.sort();
                                a.push(sub.len()); for (v, t) in sub { a.push(v); a.push(t); }
                                ("rule".to_string(), a)
                            }
                            _ => { rc.leafed += 1; ("leaf".to_string(), vec![]) }
                        },
                    }
                }
            }
            Justification::MergeFn { old_proof, new_proof, .. } => { go(store, *old_proof, step_ix, steps, rules, tf, rc)?; go(store, *new_proof, step_ix, steps, rules, tf, rc)?; ("leaf".to_string(), vec![]) }
            Justification::Trans(a, b) => { let x = go(store, *a, step_ix, steps, rules, tf, rc)?; let y = go(store, *b, step_ix, steps, rules, tf, rc)?; ("trans".to_string(), vec![x, y]) }
            Justification::Sym(a) => { let x = go(store, *a, step_ix, steps, rules, tf, rc)?; ("sym".to_string(), vec![x]) }
            Justification::Congr { proof, child_index, child_proof } => { let x = go(store, *proof, step_ix, steps, rules, tf, rc)?; let y = go(store, *child_proof, step_ix, steps, rules, tf, rc)?; ("congr".to_string(), vec![x, *child_index, y]) }
            _ => return None, // container justifications: outside the fragment
        };
        steps.push((kind, args, l, r)); step_ix.insert(p, steps.len() - 1); Some(steps.len() - 1)
    }
    let mut tf = |t: TermId| term(dag, t, &mut term_ix, &mut terms, &mut heads);
    go(store, root, &mut step_ix, &mut steps, &mut rules, &mut tf, &mut rc)?;
    for t in extra { tf(t); }
    let nterms = terms.len();
    // rules outside the fragment keep their index as an empty rule (steps that use them were exported as leaves)
    let mut rule_text: String = rule_toks.iter().map(|(_, t)| t.as_ref().map(|x| x.0.clone()).unwrap_or_else(|| " R 0 0".to_string())).collect();
    if let Some(g) = &global_toks { rule_text.push_str(&format!(" G {} {}", g.len(), g.join(" ")).replace("  ", " ")); rule_text = rule_text.trim_end().to_string(); }
    if have_rules { let mut lits: Vec<usize> = heads.iter().filter(|(h, _)| h.starts_with("lit:")).map(|(_, i)| *i).collect(); lits.sort();
        rule_text.push_str(&format!(" L {}", if lits.is_empty() { "-".to_string() } else { lits.iter().map(|x| x.to_string()).collect::<Vec<_>>().join(",") })); }
    let line = render(&terms, &steps).replacen("pk check", &format!("pk check{rule_text}"), 1);
    let mut ids = vec![root; steps.len()]; for (p, i) in &step_ix { ids[*i] = *p; }
    let orig = store.term_dag().size();
    let mut term_ids: Vec<Option<TermId>> = vec![None; nterms]; for (t, i) in &term_ix { if (*t as usize) < orig { term_ids[*i] = Some(*t); } }
    Some(Export { line, steps, rules, nterms, nrules: rule_toks.len(), rule_steps: rc.exported, rule_steps_leafed: rc.leafed, fiat_steps: rc.fiat, fiat_steps_leafed: rc.fiat_leafed, ids, term_ids })
}

fn render(terms: &[(usize, Vec<usize>)], steps: &[(String, Vec<usize>, usize, usize)]) -> String {
    let mut s = String::from("pk check");
    for (h, ks) in terms { s.push_str(&format!(" T {h} {}", if ks.is_empty() { "-".to_string() } else { ks.iter().map(|k| k.to_string()).collect::<Vec<_>>().join(",") })); }
    for (k, a, l, r) in steps { s.push_str(&format!(" S {k} {} {l} {r}", a.iter().map(|x| x.to_string()).collect::<Vec<_>>().join(" "))); s = s.replace("  ", " "); }
    s
}

/// everything before the steps: `pk check`, the rules, the terms
fn term_line(line: &str) -> String { line.split(" S ").next().unwrap_or("").to_string() }

/// the in-tree checker's verdict on the proof with ONE step replaced (cfg hook `verif_with_replaced`); a panic counts
/// as a rejection
fn real_on_altered(eg: &EGraph, store: &ProofStore, root: ProofId, target: ProofId, just: Justification, l: TermId, r: TermId, rep: &mut Report) -> bool {
    let altered = store.verif_with_replaced(target, just, l, r);
    match std::panic::catch_unwind(std::panic::AssertUnwindSafe(|| eg.verif_check_proof(&altered, root).is_ok())) {
        Ok(v) => v,
        Err(_) => { rep.count("checker_panics_on_altered_proofs(counted as rejections)", 1); false }
    }
}

pub fn run(ctx: &Ctx) -> Report {
    let mut rep = Report::new("C12", "generated programs (constructors, rewrites incl. non-linear ones, rules, unions, lattice functions, runs) in proof mode; every pair of ground terms up to depth 1 as an equality fact and every ground term as an existence fact: prove vs check; every proof exported to the Lean checker; single-point mutations of the exported proof; rule / fact removal re-checked by the in-tree checker through the cfg hook. non-trivial = a proof with >= 1 Rule and >= 1 Congr/Trans step, a false fact, or a mutation/alteration that must be rejected (distinct by (program, fact))");
    let mut rng = Rng::new(ctx.seed ^ 0xC12);
    let n = ctx.n(40, 800);
    // expectation on the Lean checker: 1 = must accept, 0 = mutation (rejected unless still derivable), -1 = must reject
    let mut lean_lines: Vec<String> = vec![]; let mut lean_expect: Vec<(i8, String, serde_json::Value)> = vec![];
    // for altered PROOF OBJECTS: (index into lean_expect, what the in-tree checker said about the same alteration, whether
    // every step of the proof is modelled so that the two checkers must agree in both directions)
    let mut real_says: Vec<(usize, bool, bool)> = vec![];
    // directed: a global `let` used by a rule and by the proved fact (the checker's global bindings)
    {
        let prog = "(sort E)\n(constructor A () E)\n(constructor B () E)\n(constructor G (E) E)\n(ruleset r0)\n(let g (G (A)))\n(B)\n(rule ((= x (G y))) ((union x (B))) :ruleset r0 :name \"toB\")\n(run r0 1)";
        let mut pr = EGraph::new_with_proofs();
        if engine::run(&mut pr, prog).is_ok() {
            if let Ok(outs) = engine::run_outputs(&mut pr.clone(), "(prove (= g (B)))") {
                if let Some(CommandOutput::ProveExists { proof_store, proof_id }) = outs.into_iter().find(|o| matches!(o, CommandOutput::ProveExists { .. })) {
                    rep.evaluations += 1;
                    if pr.verif_check_proof(&proof_store, proof_id).is_ok() { if let Some(ex) = export_with(&proof_store, proof_id, Some(&prog_view(&pr))) {
                        rep.count("fiat_steps_exported_as_fiat_steps", ex.fiat_steps as u64);
                        lean_lines.push(ex.line.clone()); lean_expect.push((1, "directed proof of (= g (B)) with a global let".to_string(), json!({"program": prog}))); } }
                }
            }
        }
    }
    // directed: proofs that rest on a NAMED rule with k premises, re-checked against programs in which that rule is
    // removed, or has one more premise at the end / at the front of its body, or a different head
    for k in 1..=3usize {
        let hdr = "(sort E)\n(constructor A () E)\n(constructor B () E)\n(constructor G (E) E)\n(relation R (E))\n(relation S (E))\n(ruleset r0)\n";
        let body = ["(= x (G y))", "(R y)", "(S y)"][..k].join(" ");
        let rule = |b: &str, head: &str| format!("(rule ({b}) ({head}) :ruleset r0 :name \"collapse\")");
        let facts = "(G (A))\n(R (A))\n(S (A))\n(B)\n";
        let prog = format!("{hdr}{}\n{facts}(run r0 1)", rule(&body, "(union x y)"));
        let mut pr = EGraph::new_with_proofs();
        if !engine::run(&mut pr, &prog).is_ok() { rep.violate("correspondence", "c12-setup", "directed proof scenario rejected".into(), json!({"program": prog})); continue; }
        let Ok(outs) = engine::run_outputs(&mut pr.clone(), "(prove (= (G (A)) (A)))") else { rep.violate("property", "c12-true-fact-without-proof", "(prove (= (G (A)) (A))) fails after the collapsing rule ran".into(), json!({"program": prog})); continue };
        let Some(CommandOutput::ProveExists { proof_store, proof_id }) = outs.into_iter().find(|o| matches!(o, CommandOutput::ProveExists { .. })) else { continue };
        rep.evaluations += 1; rep.note_nontrivial(&("directed-rule", k));
        if let Err(e) = pr.verif_check_proof(&proof_store, proof_id) { rep.violate("property", "c12-proof-rejected", format!("directed scenario: the proof is rejected against the original program: {e}"), json!({"program": prog})); continue; }
        if let Some(ex) = export_with(&proof_store, proof_id, Some(&prog_view(&pr))) {
            if ex.rule_steps == 0 || ex.rule_steps_leafed > 0 { rep.violate("correspondence", "c12-directed-rule-not-exported", format!("directed scenario with {k} premises: {} Rule steps exported, {} left as leaves", ex.rule_steps, ex.rule_steps_leafed), json!({"program": prog})); }
            lean_lines.push(ex.line.clone()); lean_expect.push((1, format!("directed proof of (= (G (A)) (A)) through rule `collapse` with {k} premises"), json!({"program": prog})));
        }
        for (what, altered_rule) in [("removed", String::new()), ("given one more premise at the end of its body", rule(&format!("{body} (= zz9 (B))"), "(union x y)")), ("given one more premise at the front of its body", rule(&format!("(= zz9 (B)) {body}"), "(union x y)")), ("given another head", rule(&body, "(union x (B))"))] {
            let aprog = format!("{hdr}{altered_rule}\n{facts}");
            let mut ae = EGraph::new_with_proofs();
            if !engine::run(&mut ae, &aprog).is_ok() { continue; }
            rep.count("rule_alteration_rechecks", 1);
            if ae.verif_check_proof(&proof_store, proof_id).is_ok() { rep.violate("property", "c12-accepts-altered-rule", format!("a proof resting on rule `collapse` ({k} premises) is accepted against a program in which that rule was {what}"), json!({"program": prog, "altered_program": aprog})); }
            else if let Some(ax) = export_with(&proof_store, proof_id, Some(&prog_view(&ae))) { if ax.rule_steps_leafed == 0 { lean_lines.push(ax.line.clone()); lean_expect.push((-1, format!("directed proof through rule `collapse` ({k} premises) against the program in which that rule was {what}"), json!({"program": prog, "altered_program": aprog}))); } }
        }
    }
    for pi in 0..n {
        let sig = pgen::gen_sig(&mut rng);
        let cmds: Vec<Cmd> = pgen::gen_program(&mut rng, &sig, &GenOpts { faults: false, subsume: false, delete: false, pushpop: false, ncmds: 10 }).into_iter().filter(|c| !matches!(c, Cmd::Check(_))).collect();
        let text: Vec<String> = cmds.iter().map(|c| pgen::cmd_text(&sig, c)).collect();
        let hdr = sig.header();
        let mut plain = EGraph::default(); let mut pr = EGraph::new_with_proofs();
        if !engine::run(&mut plain, &hdr).is_ok() || !engine::run(&mut pr, &hdr).is_ok() { continue; }
        let mut okp = true;
        for t in &text { let a = engine::run(&mut plain, t); let b = engine::run(&mut pr, t); if a.is_ok() != b.is_ok() { okp = false; break; } }
        if !okp { rep.count("programs_diverging_in_proof_mode(C11)", 1); continue; }
        let full = hdr.clone() + &text.join("\n");
        // facts
        let consts: Vec<String> = sig.ctors.iter().filter(|c| c.1 == 0).map(|c| format!("({})", c.0)).collect();
        let mut grounds = consts.clone();
        for (nme, ar) in &sig.ctors { if *ar == 1 { for c in &consts { grounds.push(format!("({nme} {c})")); } } }
        grounds.truncate(8);
        let mut facts: Vec<String> = vec![];
        for i in 0..grounds.len() { for j in (i + 1)..grounds.len() { facts.push(format!("(= {} {})", grounds[i], grounds[j])); } }
        for g in &grounds { facts.push(g.clone()); }
        for f in facts {
            rep.evaluations += 1;
            let truth = engine::run(&mut plain.clone(), &format!("(check {f})")).is_ok();
            let mut pc = pr.clone();
            let out = engine::run_outputs(&mut pc, &format!("(prove {f})"));
            let prog = || json!({"program": full.clone(), "fact": f});
            match out {
                Err(e) if e == "panic" => { rep.violate("property", "c12-prove-panic", format!("(prove {f}) panicked"), prog()); }
                Err(_) => { if truth { rep.violate("property", "c12-true-fact-without-proof", format!("(check {f}) succeeds on the plain engine but (prove {f}) fails"), prog()); } else { rep.note_nontrivial(&(&full, &f, "false")); rep.count("false_facts_refused", 1); } }
                Ok(outs) => {
                    if !truth { rep.violate("property", "c12-false-fact-proved", format!("(prove {f}) returned a proof although (check {f}) fails on the plain engine"), prog()); continue; }
                    let Some(CommandOutput::ProveExists { proof_store, proof_id }) = outs.into_iter().find(|o| matches!(o, CommandOutput::ProveExists { .. })) else { continue };
                    rep.count("proofs_obtained", 1);
                    // in-tree checker against the unaltered program (through the hook) must accept
                    if let Err(e) = pr.verif_check_proof(&proof_store, proof_id) { rep.violate("property", "c12-proof-rejected", format!("the proof returned for {f} is rejected by the checker against the original program: {e}"), prog()); continue; }
                    let prules = prog_view(&pr);
                    let Some(ex) = export_with(&proof_store, proof_id, Some(&prules)) else { rep.count("proofs_with_container_steps_skipped", 1); continue };
                    rep.count("rule_steps_exported_as_rule_steps", ex.rule_steps as u64); rep.count("rule_steps_left_as_leaves(outside fragment)", ex.rule_steps_leafed as u64);
                    rep.count("fiat_steps_exported_as_fiat_steps", ex.fiat_steps as u64); rep.count("fiat_steps_left_as_leaves(outside fragment)", ex.fiat_steps_leafed as u64);
                    // single-point mutations of Rule steps that must be rejected outright: a dropped premise
                    // (C12_dropped_premise_rejected), a rule the program does not have (C12_rule_missing_rejected)
                    for (mi, st) in ex.steps.iter().enumerate() {
                        if st.0 != "rule" || mi % 2 != 0 && ex.steps.len() > 12 { continue; }
                        let np = st.1[1];
                        let orig = proof_store.get(ex.ids[mi]).clone();
                        if np >= 1 { let mut m = ex.steps.clone(); m[mi].1.remove(1 + np); m[mi].1[1] = np - 1;
                            lean_lines.push(format!("{}{}", term_line(&ex.line), render(&[], &m).trim_start_matches("pk check"))); lean_expect.push((-1, format!("proof of {f} with the last premise of Rule step {mi} dropped"), prog()));
                            if let Justification::Rule { name, premise_proofs, substitution } = orig.justification() { let mut pp = premise_proofs.clone(); pp.pop();
                                let ok = real_on_altered(&pr, &proof_store, proof_id, ex.ids[mi], Justification::Rule { name: name.clone(), premise_proofs: pp, substitution: substitution.clone() }, orig.lhs(), orig.rhs(), &mut rep);
                                real_says.push((lean_expect.len() - 1, ok, true)); } }
                        let mut m = ex.steps.clone(); m[mi].1[0] = ex.nrules;
                        lean_lines.push(format!("{}{}", term_line(&ex.line), render(&[], &m).trim_start_matches("pk check"))); lean_expect.push((-1, format!("proof of {f} with Rule step {mi} naming a rule the program does not have"), prog()));
                        if let Justification::Rule { premise_proofs, substitution, .. } = orig.justification() {
                            let ok = real_on_altered(&pr, &proof_store, proof_id, ex.ids[mi], Justification::Rule { name: "no-such-rule-zz9".into(), premise_proofs: premise_proofs.clone(), substitution: substitution.clone() }, orig.lhs(), orig.rhs(), &mut rep);
                            real_says.push((lean_expect.len() - 1, ok, true)); }
                    }
                    let structural = ex.steps.iter().filter(|s| s.0 != "leaf").count();
                    if !ex.rules.is_empty() && structural > 0 { rep.note_nontrivial(&(&full, &f)); }
                    rep.count("proof_steps_exported", ex.steps.len() as u64);
                    lean_lines.push(ex.line.clone()); lean_expect.push((1, format!("proof of {f}"), prog()));
                    // both checkers must agree in BOTH directions only when no step is a hypothesis of the Lean checker
                    let all_modelled = ex.steps.iter().all(|s| s.0 != "leaf");
                    // mutations of the exported object
                    for (mi, st) in ex.steps.iter().enumerate() {
                        let mut m = ex.steps.clone();
                        match st.0.as_str() {
                            "trans" => { m[mi].1.swap(0, 1); if ex.steps[st.1[0]].2 == ex.steps[st.1[1]].3 && ex.steps[st.1[0]].3 == ex.steps[st.1[1]].2 { continue; } if st.2 == st.3 { continue; } }
                            "congr" => { m[mi].1[1] += 1; }
                            "sym" => { if st.2 == st.3 { continue; } m[mi].2 = st.3; m[mi].3 = st.2; } // claims l=r from a proof of l=r by "symmetry": only valid if the premise is symmetric
                            _ => continue,
                        }
                        if mi % 3 != 0 && ex.steps.len() > 12 { continue; }
                        lean_lines.push(format!("{}{}", term_line(&ex.line), render(&[], &m).trim_start_matches("pk check")));
                        lean_expect.push((0, format!("{} step {mi} of the proof of {f} mutated", st.0), prog()));
                        // the same alteration of the real proof object, shown to the in-tree checker
                        let orig = proof_store.get(ex.ids[mi]).clone();
                        let alt = match orig.justification() {
                            Justification::Trans(a, b) => Some((Justification::Trans(*b, *a), orig.lhs(), orig.rhs())),
                            Justification::Congr { proof, child_index, child_proof } => Some((Justification::Congr { proof: *proof, child_index: child_index + 1, child_proof: *child_proof }, orig.lhs(), orig.rhs())),
                            Justification::Sym(a) => Some((Justification::Sym(*a), orig.rhs(), orig.lhs())),
                            _ => None,
                        };
                        if let Some((j, l, r)) = alt { let ok = real_on_altered(&pr, &proof_store, proof_id, ex.ids[mi], j, l, r, &mut rep); real_says.push((lean_expect.len() - 1, ok, all_modelled)); }
                    }
                    // substituted term in the conclusion
                    if ex.nterms >= 2 { let mut m = ex.steps.clone(); let last = m.len() - 1; if m[last].0 != "leaf" { m[last].3 = (m[last].3 + 1) % ex.nterms; if m[last].3 != ex.steps[last].3 { lean_lines.push(format!("{}{}", term_line(&ex.line), render(&[], &m).trim_start_matches("pk check"))); lean_expect.push((0, format!("conclusion of the proof of {f} substituted"), prog()));
                        if let Some(nt) = ex.term_ids[m[last].3] { let orig = proof_store.get(ex.ids[last]).clone(); let ok = real_on_altered(&pr, &proof_store, proof_id, ex.ids[last], orig.justification().clone(), orig.lhs(), nt, &mut rep); real_says.push((lean_expect.len() - 1, ok, all_modelled)); } } } }
                    // alterations of the checking program: remove a rule the proof uses / remove a top-level fact
                    if pi % 2 == 0 {
                        let mut used: Vec<String> = ex.rules.clone(); used.sort(); used.dedup();
                        for rname in used.iter().take(2) {
                            let altered: Vec<&String> = text.iter().filter(|c| !(c.contains(&format!(":name \"{rname}\"")) || (c.starts_with("(rewrite") && rname.contains(c.as_str())))).collect();
                            if altered.len() == text.len() { continue; }
                            let mut ae = EGraph::new_with_proofs(); engine::run(&mut ae, &hdr); for c in &altered { engine::run(&mut ae, c); }
                            rep.count("rule_removal_rechecks", 1); rep.note_nontrivial(&(&full, &f, rname));
                            if ae.verif_check_proof(&proof_store, proof_id).is_ok() { rep.violate("property", "c12-accepts-without-rule", format!("the proof of {f} uses rule `{rname}` yet is accepted against a program from which that rule was removed"), prog()); }
                            else if let Some(ax) = export_with(&proof_store, proof_id, Some(&prog_view(&ae))) { if ax.rule_steps_leafed == 0 { lean_lines.push(ax.line.clone()); lean_expect.push((-1, format!("proof of {f} against the program without rule `{rname}`"), prog())); } }
                        }
                        // ALTER a used rule: the same name, one more premise in its body — a proof that supplies the old
                        // number of premise proofs does not justify a step of the altered rule
                        for rname in used.iter().take(2) {
                            let mut hit = false;
                            // the extra premise goes LAST in the body, so that the premises the proof does supply still line up
                            let add_last = |c: &str| -> String { let b = c.as_bytes(); let start = "(rule ".len(); let mut depth = 0i32; let mut end = None; let mut in_str = false;
                                for i in start..b.len() { let ch = b[i] as char; if ch == '"' { in_str = !in_str; } if in_str { continue; } if ch == '(' { depth += 1; } if ch == ')' { depth -= 1; if depth == 0 { end = Some(i); break; } } }
                                match end { Some(e) => format!("{} (= zz9 (A)){}", &c[..e], &c[e..]), None => c.to_string() } };
                            let altered: Vec<String> = text.iter().map(|c| if c.starts_with("(rule (") && c.contains(&format!(":name \"{rname}\"")) { hit = true; add_last(c) } else { c.clone() }).collect();
                            if !hit { continue; }
                            let mut ae = EGraph::new_with_proofs(); engine::run(&mut ae, &hdr); let mut ok = true; for c in &altered { if let engine::Outcome::Err(e) = engine::run(&mut ae, c) { if c.starts_with("(rule (") && c.contains("zz9") { ok = false; let _ = e; } } }
                            if !ok { continue; }
                            rep.count("rule_alteration_rechecks", 1); rep.note_nontrivial(&(&full, &f, rname, "altered"));
                            if ae.verif_check_proof(&proof_store, proof_id).is_ok() { rep.violate("property", "c12-accepts-altered-rule", format!("the proof of {f} uses rule `{rname}` yet is accepted against a program in which that rule has an additional premise"), prog()); }
                            else if let Some(ax) = export_with(&proof_store, proof_id, Some(&prog_view(&ae))) { if ax.rule_steps_leafed == 0 { lean_lines.push(ax.line.clone()); lean_expect.push((-1, format!("proof of {f} against the program in which rule `{rname}` has an additional premise"), prog())); } }
                        }
                        // remove every top-level ground insertion / union: any Fiat step must become unjustified
                        let altered: Vec<&String> = text.iter().zip(&cmds).filter(|(_, c)| !matches!(c, Cmd::Act(_))).map(|(t, _)| t).collect();
                        let mut ae = EGraph::new_with_proofs(); engine::run(&mut ae, &hdr); for c in &altered { engine::run(&mut ae, c); }
                        rep.count("fact_removal_rechecks", 1);
                        if ae.verif_check_proof(&proof_store, proof_id).is_ok() { rep.violate("property", "c12-accepts-without-facts", format!("the proof of {f} is accepted against a program with every top-level fact removed"), prog()); }
                        else if let Some(ax) = export_with(&proof_store, proof_id, Some(&prog_view(&ae))) { if ax.rule_steps_leafed == 0 && ax.fiat_steps_leafed == 0 && ax.fiat_steps > 0 { lean_lines.push(ax.line.clone()); lean_expect.push((-1, format!("proof of {f} against the program with every top-level fact removed"), prog())); } }
                    }
                }
            }
        }
        let _ = &sig as &Sig;
    }
    match run_driver(&lean_lines) {
        Err(e) => rep.violate("correspondence", "driver-failure", e, json!({})),
        Ok(m) => for (i, (want, what, prog)) in lean_expect.iter().enumerate() {
            rep.traces_vs_model += 1;
            let got = m[i] == "true";
            if m[i] != "true" && m[i] != "false" { rep.violate("correspondence", "c12-lean-driver-bad-line", format!("the Lean driver could not read the export of the {what}: {}", m[i]), prog.clone()); continue; }
            if *want == 1 && !got { rep.violate("correspondence", "c12-lean-checker-rejects-real-proof", format!("the in-tree checker accepted the {what} but the Lean checker (C12_sound / C12_rule_sound) rejects it: {}", m[i]), prog.clone()); }
            if *want == 0 { if got { rep.count("mutations_still_derivable", 1); } else { rep.count("mutations_rejected", 1); } }
            if let Some((_, real_ok, both)) = real_says.iter().find(|(k, _, _)| *k == i) {
                rep.count("altered_proof_objects_shown_to_both_checkers", 1);
                if *real_ok && !got { rep.violate("property", "c12-accepts-altered-proof", format!("the in-tree checker ACCEPTS the {what}, which the Lean checker rejects (an accepted proof proves only what is derivable: C12_sound / C12_rule_sound)"), prog.clone()); }
                else if !*real_ok && got && *both { rep.violate("correspondence", "c12-lean-accepts-what-checker-rejects", format!("the Lean checker accepts the {what}, the in-tree checker rejects it, and every step of the proof is modelled"), prog.clone()); }
                else if *real_ok && got { rep.count("altered_proof_objects_still_derivable(both accept)", 1); }
                else { rep.count("altered_proof_objects_rejected_by_both", 1); }
            }
            if *want == -1 { if got { rep.violate("correspondence", "c12-lean-checker-accepts-unjustified-rule-step", format!("the Lean checker accepts the {what}, which the in-tree checker rejects (or which C12_dropped_premise_rejected / C12_rule_missing_rejected exclude)"), prog.clone()); } else { rep.count("unjustified_rule_steps_rejected_by_both", 1); } }
        }
    }
    rep
}
