//! C11 — term and proof encodings preserve observable behaviour.
//! Generated programs accepted by `program_supports_proofs` are run on the plain engine, under the
//! term encoding and with proofs enabled; after every command: success/failure, and the
//! `snapshot_stable_under_proof_encoding` rendering of the outputs (checks, sizes, extraction costs)
//! of a probe block (print-size of every table, extract of ground terms).  The desugared encoded
//! program is printed, re-parsed and re-run on a plain engine (print-reparse-run variant).
//! Divergences are shrunk by delta debugging and classified by what the minimal program needs.
use crate::{engine, pgen::{self, Cmd, GenOpts, HeadAct, Pat, Sig}, report::Report, rng::Rng, Ctx};
use egglog::EGraph;
use serde_json::json;

fn mk(mode: &str) -> EGraph { match mode { "term" => EGraph::new_with_term_encoding(), "proofs" => EGraph::new_with_proofs(), _ => EGraph::default() } }

fn probes(sig: &Sig) -> Vec<String> {
    let mut v: Vec<String> = sig.ctors.iter().map(|c| format!("(print-size {})", c.0)).collect();
    v.extend(sig.funcs.iter().map(|f| format!("(print-size {})", f.0)));
    for t in ["(A)", "(B)", "(G (A))", "(G (B))", "(F (A) (B))"] { v.push(format!("(extract {t})")); }
    // one instance of every non-nullary constructor over (A) / (B) / the literal 1: whether it can be extracted shows
    // whether its row is (still) subsumed, also for constructors with base-value columns
    for (c, (name, ar)) in sig.ctors.iter().enumerate() { if *ar == 0 || ["G", "F"].contains(&name.as_str()) { continue; }
        for e in ["(A)", "(B)"] { v.push(format!("(extract ({name} {}))", sig.kinds[c].iter().map(|k| if *k { e } else { "1" }).collect::<Vec<_>>().join(" "))); } }
    v.push("(check (= (A) (B)))".into()); v.push("(check (= (G (A)) (G (B))))".into());
    v
}

/// outcomes of every command + probe block after every command
fn observe(mode: &str, hdr: &str, cmds: &[String], probe: &[String]) -> Vec<String> {
    let mut eg = mk(mode);
    let mut out = vec![];
    match engine::run(&mut eg, hdr) { engine::Outcome::Ok(_) => {}, o => { out.push(format!("header: {}", o.class())); return out; } }
    for c in cmds {
        out.push(match engine::run_outputs(&mut eg, c) { Ok(o) => format!("ok {}", egglog::CommandOutput::snapshot_stable_under_proof_encoding(&o)), Err(e) => e });
        for p in probe {
            // probes must not disturb the session: run them on a clone
            let mut c2 = eg.clone();
            out.push(match engine::run_outputs(&mut c2, p) { Ok(o) => format!("ok {}", egglog::CommandOutput::snapshot_stable_under_proof_encoding(&o)), Err(e) => e });
        }
    }
    out
}

fn supported(hdr: &str, cmds: &[String]) -> bool {
    let mut eg = EGraph::default();
    let text = hdr.to_string() + &cmds.join("\n");
    match std::panic::catch_unwind(std::panic::AssertUnwindSafe(|| eg.resolve_program(None, &text))) {
        Ok(Ok(resolved)) => egglog::program_supports_proofs(&resolved, eg.type_info()),
        _ => false,
    }
}

fn diverges(hdr: &str, cmds: &[String], probe: &[String]) -> Option<(String, usize, String, String)> {
    let plain = observe("plain", hdr, cmds, probe);
    for mode in ["term", "proofs"] {
        let o = observe(mode, hdr, cmds, probe);
        if o != plain { let k = o.iter().zip(&plain).position(|(a, b)| a != b).unwrap_or(o.len().min(plain.len())); return Some((mode.to_string(), k, plain.get(k).cloned().unwrap_or_default(), o.get(k).cloned().unwrap_or_default())); }
    }
    None
}

/// main-stream discipline on program text: delete/subsume only of rows inserted earlier, delete never after a union/run
fn disciplined(cmds: &[String]) -> bool {
    for (i, c) in cmds.iter().enumerate() {
        for (pre, is_del) in [("(delete ", true), ("(subsume ", false)] {
            if let Some(rest) = c.strip_prefix(pre) { let term = &rest[..rest.len() - 1];
                if !cmds[..i].iter().any(|e| e == term) { return false; }
                if is_del && cmds[..i].iter().any(|e| e.starts_with("(union") || e.starts_with("(run") || *e == format!("(subsume {term})")) { return false; } }
        }
    }
    true
}

fn shrink(hdr: &str, cmds: &[String], probe: &[String], keep_discipline: bool) -> Vec<String> {
    let mut cur = cmds.to_vec();
    loop {
        let mut progress = false;
        for i in 0..cur.len() { let mut t = cur.clone(); t.remove(i); if keep_discipline && !disciplined(&t) { continue; } if supported(hdr, &t) && diverges(hdr, &t, probe).is_some() { cur = t; progress = true; break; } }
        if !progress { return cur; }
    }
}

fn classify(min: &[String]) -> &'static str {
    let del = min.iter().position(|c| c.starts_with("(delete"));
    let uni = min.iter().position(|c| c.starts_with("(union") || c.starts_with("(run"));
    if let (Some(d), Some(u)) = (del, uni) { if u < d { return "c11-delete-after-union"; } }
    if let Some(d) = del { let term = min[d].trim_start_matches("(delete ").to_string(); let term = &term[..term.len() - 1];
        if min[..d].iter().any(|c| *c == format!("(subsume {term})")) { return "c11-delete-subsumed-row"; } }
    if let Some(d) = del { // a delete whose row was never inserted before it
        let term = min[d].trim_start_matches("(delete ").trim_end_matches(')').to_string() + ")";
        let term = term.trim_end_matches("))").to_string() + "))";
        if !min[..d].iter().any(|c| c.contains(min[d].trim_start_matches("(delete ").strip_suffix(')').unwrap_or(""))) { let _ = term; return "c11-delete-absent-row"; } }
    if min.iter().any(|c| c.starts_with("(subsume")) && del.is_none() && min.len() <= 3 { return "c11-subsume-absent-row"; }
    // a subsume of a row that is not there at that moment (never inserted, or deleted before and not re-inserted)
    for (p, c) in min.iter().enumerate() {
        if let Some(rest) = c.strip_prefix("(subsume ") { let term = &rest[..rest.len() - 1];
            let mut present = false;
            for e in &min[..p] { if e == term { present = true; } if *e == format!("(delete {term})") { present = false; } }
            if !present { return "c11-subsume-absent-row"; } }
    }
    // a deleted term is mentioned (hence re-created) by a later command: the plain engine mints a fresh e-class,
    // the encodings find the old one again through their term table
    if let Some(d) = del { let term = min[d].trim_start_matches("(delete ").to_string(); let term = &term[..term.len() - 1];
        if min[d + 1..].iter().any(|c| !c.starts_with("(delete") && c.contains(term)) { return "c11-reinsert-after-delete"; } }
    "c11-divergence"
}

pub fn run(ctx: &Ctx) -> Report {
    let mut rep = Report::new("C11", "generated programs (constructors, lattice functions, relations, rules, rewrites incl. :subsume, top-level subsume and delete, unions, runs) accepted by program_supports_proofs, run plain / term-encoding / proofs with a probe block (sizes, extraction costs, checks) after every command; main stream: delete only before any union/run and subsume only of present rows; edge stream: delete after unions and subsume of absent rows (the two known divergences); plus print-reparse-run of the encoded program. non-trivial = program uses union + run + (delete or subsume) (distinct by program)");
    let mut rng = Rng::new(ctx.seed ^ 0xC11);
    // corpus: the two known divergences
    let corpus: [(&str, Vec<&str>); 5] = [
        ("(sort E)\n(constructor A () E)\n(constructor G (E) E)\n", vec!["(G (A))", "(subsume (G (A)))", "(delete (G (A)))", "(print-size G)"]),
        ("(sort E)\n(constructor A () E)\n(constructor G (E) E)\n", vec!["(delete (G (A)))", "(G (A))", "(print-size G)"]),
        ("(datatype T (A) (B) (F T))\n", vec!["(F (A))", "(F (B))", "(union (A) (B))", "(delete (F (B)))", "(print-size F)"]),
        ("(datatype T (A) (B) (G T T))\n", vec!["(subsume (G (A) (A)))", "(print-size G)"]),
        ("(sort E)\n(constructor B () E)\n(constructor G (E) E)\n(constructor F (E E) E)\n", vec!["(F (B) (G (B)))", "(G (B))", "(delete (G (B)))", "(F (B) (G (B)))", "(print-size F)"]),
    ];
    for (hdr, cmds) in corpus.iter() {
        let cmds: Vec<String> = cmds.iter().map(|s| s.to_string()).collect();
        rep.evaluations += 1;
        if let Some((mode, k, p, o)) = diverges(hdr, &cmds, &[]) {
            rep.violate("property", classify(&cmds), format!("[{mode}] command/probe #{k}: plain engine `{}`, encoded `{}`", p.trim(), o.trim()), json!({"program": hdr.to_string() + &cmds.join("\n")}));
        }
    }
    // directed stream: constructors of every argument shape (eq-sort / base columns in any position), a row subsumed by
    // the action or by a :subsume rewrite, then a union that makes one of its children a non-leader (both creation
    // orders), observed by a rule over the constructor, table sizes and extraction
    for shape in [vec!["E"], vec!["E", "i64"], vec!["i64", "E"], vec!["E", "E"], vec!["E", "i64", "E"], vec!["i64"]] {
        for first in ["(A)", "(B)"] { for by_rewrite in [false, true] {
            let second = if first == "(A)" { "(B)" } else { "(A)" };
            let args = |e: &str| shape.iter().map(|k| if *k == "E" { e.to_string() } else { "1".to_string() }).collect::<Vec<_>>().join(" ");
            let pat = shape.iter().enumerate().map(|(i, k)| if *k == "E" { format!("x{i}") } else { "1".to_string() }).collect::<Vec<_>>().join(" ");
            let hdr = format!("(sort E)\n(constructor A () E)\n(constructor B () E)\n(constructor Q (E) E)\n(constructor P ({}) E)\n(relation seen (E))\n(ruleset r)\n(ruleset s)\n(rule ((= e (P {pat}))) ((seen e)) :ruleset r)\n(rewrite (Q x) (P {}) :ruleset s)\n(rewrite (P {pat}) (Q (A)) :subsume :ruleset s)\n", shape.join(" "), shape.iter().map(|k| if *k == "E" { "x" } else { "1" }).collect::<Vec<_>>().join(" "));
            let mut cmds: Vec<String> = vec![first.to_string(), second.to_string(), format!("(P {})", args("(B)"))];
            if by_rewrite { cmds.push("(run s 1)".into()); } else { cmds.push(format!("(subsume (P {}))", args("(B)"))); }
            cmds.push("(union (A) (B))".into());
            cmds.extend(["(run r 1)".to_string(), "(print-size seen)".into(), "(print-size P)".into(), format!("(extract (P {}))", args("(A)")), format!("(extract (P {}))", args("(B)"))]);
            if !supported(&hdr, &cmds) { continue; }
            rep.evaluations += 1; rep.note_nontrivial(&(&hdr, &cmds));
            if let Some((mode, k, p, o)) = diverges(&hdr, &cmds, &[]) {
                rep.violate("property", "c11-subsumed-row-revived", format!("[{mode}] constructor P ({}) — command #{k} `{}`: plain engine `{}`, encoded `{}`", shape.join(" "), cmds.get(k).cloned().unwrap_or_default(), p.trim(), o.trim()), json!({"program": hdr.clone() + &cmds.join("\n")}));
            }
        } }
    }
    let n = ctx.n(60, 1200);
    let mut unsupported = 0u64;
    for pi in 0..n {
        let sig = pgen::gen_sig(&mut rng);
        let edge = pi % 4 == 3;
        let raw = pgen::gen_program(&mut rng, &sig, &GenOpts { faults: false, subsume: true, delete: true, pushpop: pi % 5 == 0, ncmds: 10 });
        // stream discipline
        let mut seen_union = false; let mut inserted: Vec<Pat> = vec![]; let mut subsumed: Vec<Pat> = vec![];
        let mut cmds = vec![];
        for c in raw {
            match &c {
                Cmd::Act(HeadAct::Union(..)) | Cmd::Run(..) => seen_union = true,
                Cmd::Act(HeadAct::Term(t)) => inserted.push(t.clone()),
                Cmd::Delete(_) if seen_union && !edge => continue,
                Cmd::Delete(t) if !edge && (!inserted.contains(t) || subsumed.contains(t)) => continue,
                Cmd::Act(HeadAct::Subsume(t)) if inserted.contains(t) || edge => subsumed.push(t.clone()),
                Cmd::Act(HeadAct::Subsume(t)) if !edge && !inserted.contains(t) => continue,
                _ => {}
            }
            cmds.push(c);
        }
        // balance push/pop
        let mut depth = 0; for c in &cmds { match c { Cmd::Push => depth += 1, Cmd::Pop => depth -= 1, _ => {} } } for _ in 0..depth { cmds.push(Cmd::Pop); }
        let text: Vec<String> = cmds.iter().map(|c| pgen::cmd_text(&sig, c)).collect();
        let hdr = sig.header();
        if !supported(&hdr, &text) { unsupported += 1; continue; }
        rep.evaluations += 1;
        let probe = probes(&sig);
        if pi < 3 { rep.sample(json!(hdr.clone() + &text.join("\n"))); }
        let has = |p: &str| text.iter().any(|c| c.starts_with(p));
        if has("(union") && has("(run") && (has("(delete") || has("(subsume") || text.iter().any(|c| c.contains(":subsume"))) { rep.note_nontrivial(&text); }
        if let Some((mode, k, p, o)) = diverges(&hdr, &text, &probe) {
            let min = shrink(&hdr, &text, &probe, !edge);
            let sigc = classify(&min);
            let what = diverges(&hdr, &min, &probe).map(|(m2, k2, p2, o2)| { let per = 1 + probe.len(); let ci = k2 / per; let pj = k2 % per; format!("[{m2}] after `{}`{}: plain `{}` vs encoded `{}`", min.get(ci).cloned().unwrap_or_default(), if pj == 0 { String::new() } else { format!(", probe `{}`", probe[pj - 1]) }, p2.trim(), o2.trim()) }).unwrap_or_default();
            let _ = (k, &p, &o, &mode);
            rep.violate("property", sigc, what, json!({"program": hdr.clone() + &min.join("\n"), "original_length": text.len(), "stream": if edge { "edge" } else { "main" }}));
            continue;
        }
        // print-reparse-run of the encoded program on a plain engine
        if pi % 3 == 0 {
            let mut enc = mk("term");
            let full = hdr.clone() + &text.join("\n");
            if let Ok(Ok(resolved)) = std::panic::catch_unwind(std::panic::AssertUnwindSafe(|| enc.resolve_program(None, &full))) {
                let printed: String = egglog::ast::sanitize_internal_names(&resolved).iter().map(|c| c.to_string()).collect::<Vec<_>>().join("\n");
                let mut plain = EGraph::default();
                let a = engine::run_outputs(&mut plain, &full);
                let mut fresh = EGraph::default();
                let b = engine::run_outputs(&mut fresh, &printed);
                rep.count("encoded_programs_rerun", 1);
                match (a, b) {
                    (Ok(x), Ok(y)) => { let f = |o: &Vec<egglog::CommandOutput>| egglog::CommandOutput::snapshot_stable_under_proof_encoding(o); if f(&x) != f(&y) { rep.violate("property", "c11-encoded-rerun-differs", format!("the printed term-encoded program, re-run on a plain engine, outputs `{}` instead of `{}`", f(&y).chars().take(200).collect::<String>(), f(&x).chars().take(200).collect::<String>()), json!({"program": full})); } }
                    (Ok(_), Err(e)) => rep.violate("property", "c11-encoded-rerun-fails", format!("the printed term-encoded program is rejected by a plain engine: {e}"), json!({"program": full, "encoded": printed.chars().take(3000).collect::<String>()})),
                    _ => {}
                }
            }
        }
    }
    rep.count("programs_not_supported_by_encoder", unsupported);
    rep
}
