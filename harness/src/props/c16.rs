//! C16 — table store behaves like a keyed map.  Model-based op sequences on the real
//! `SortedWritesTable` (through the public `Table` trait), serial and inside a 4-thread pool
//! (parallel delete / insert / rehash with cut-offs 0), compared after every op with the Lean
//! table model (proved to refine a plain map, `C16_refine`) and with a plain `BTreeMap` kept by
//! the harness (the property itself): point lookups, full scans, constrained scans (`refine`),
//! `fast_subset` on the sort column, `len`, major generation (compaction threshold), clones.
use crate::{lean::run_driver, report::Report, rng::Rng, Ctx};
use egglog_core_relations::{ColumnId, Constraint, Database, SortedWritesTable, Table, Value};
use egglog_numeric_id::NumericId;
use serde_json::json;
use std::collections::BTreeMap;

#[derive(Clone, Debug, Hash)]
enum Op { Merge(Vec<Vec<u32>>, Vec<Vec<u32>>), Clear, CloneSwap }

#[derive(Clone, Debug, Hash)]
struct Case { nkeys: usize, kind: &'static str, sorted: bool, ops: Vec<Op>, threads: usize }

fn v(x: u32) -> Value { Value::new(x) }

fn mk_table(c: &Case) -> SortedWritesTable {
    let ncols = c.nkeys + 1 + c.sorted as usize;
    let n = c.nkeys;
    let kind = c.kind;
    SortedWritesTable::new(c.nkeys, ncols, if c.sorted { Some(ColumnId::new((ncols - 1) as u32)) } else { None }, vec![],
        Box::new(move |_, cur, new, out| match kind {
            "new" => { if cur != new { out.extend_from_slice(new); true } else { false } }
            "max" => { if new[n] > cur[n] { out.extend_from_slice(new); true } else { false } }
            _ => false,
        }))
}

fn spec_merge(kind: &str, n: usize, cur: &Vec<u32>, new: &Vec<u32>) -> Option<Vec<u32>> {
    match kind { "new" => if cur != new { Some(new.clone()) } else { None }, "max" => if new[n] > cur[n] { Some(new.clone()) } else { None }, _ => None }
}

fn cs_tokens(cs: &[(&'static str, usize, u32)]) -> String { cs.iter().map(|(k, c, v)| format!("{k}:{c}:{v}")).collect::<Vec<_>>().join(" ") }
fn cs_real(cs: &[(&'static str, usize, u32)]) -> Vec<Constraint> {
    cs.iter().map(|(k, c, val)| { let col = ColumnId::new(*c as u32); match *k {
        "eq" => Constraint::Eq { l_col: col, r_col: ColumnId::new(*val) }, "eqc" => Constraint::EqConst { col, val: v(*val) },
        "lt" => Constraint::LtConst { col, val: v(*val) }, "gt" => Constraint::GtConst { col, val: v(*val) },
        "le" => Constraint::LeConst { col, val: v(*val) }, _ => Constraint::GeConst { col, val: v(*val) } } }).collect()
}
fn cs_eval(cs: &[(&'static str, usize, u32)], r: &[u32]) -> bool {
    cs.iter().all(|(k, c, val)| match *k { "eq" => r[*c] == r[*val as usize], "eqc" => r[*c] == *val, "lt" => r[*c] < *val, "gt" => r[*c] > *val, "le" => r[*c] <= *val, _ => r[*c] >= *val })
}

fn show_rows(mut rs: Vec<Vec<u32>>) -> String { rs.sort(); rs.iter().map(|r| r.iter().map(|x| x.to_string()).collect::<Vec<_>>().join(",")).collect::<Vec<_>>().join(" ") }

fn scan_all(t: &SortedWritesTable) -> Vec<Vec<u32>> {
    let mut out = vec![];
    let all = t.all();
    t.scan_generic(all.as_ref(), |_, row| out.push(row.iter().map(|x| x.rep()).collect()));
    out
}

fn gen_case(rng: &mut Rng, threads: usize) -> Case {
    let nkeys = rng.below(4);
    let kind = ["new", "max", "old"][rng.below(3)];
    let sorted = rng.chance(2, 3);
    let nops = 2 + rng.below(10);
    let span = [2u32, 3, 6, 40][rng.below(4)];
    let big = rng.chance(1, 4);
    let mut ops = vec![];
    if rng.chance(1, 5) {
        // churn: a prefix of rows that are never touched again, then rounds of overwrites that leave enough
        // stale rows behind to trigger a compaction in which the prefix keeps its position
        let kind = ["new", "max"][rng.below(2)];
        let pre = 1 + rng.below(8) as u32; let churn = 12 + rng.below(20) as u32; let rounds = 2 + rng.below(4) as u32;
        // the untouched prefix either has a timestamp bucket of its own or shares its bucket with the first round of
        // churned rows (then the first superseded row lies strictly INSIDE a bucket whose leading rows stay live)
        if rng.chance(1, 2) { ops.push(Op::Merge(vec![], (0..pre).map(|k| vec![k, 0]).collect())); }
        else { ops.push(Op::Merge(vec![], (0..pre).map(|k| vec![k, 0]).chain((0..churn).map(|k| vec![100 + k, 0])).collect())); }
        for r in 1..=rounds { ops.push(Op::Merge(vec![], (0..churn).map(|k| vec![100 + k, r]).collect())); if rng.chance(1, 3) { ops.push(Op::Merge(vec![], vec![vec![200 + r, 0]])); } }
        return Case { nkeys: 1, kind, sorted, ops, threads };
    }
    for _ in 0..nops {
        match rng.below(14) {
            0 => ops.push(Op::Clear),
            1 => ops.push(Op::CloneSwap),
            _ => {
                let nd = if rng.chance(1, 2) { 0 } else { rng.below(if big { 30 } else { 4 }) };
                let ni = rng.below(if big { 40 } else { 6 });
                let key = |rng: &mut Rng| (0..nkeys).map(|_| rng.below(span as usize) as u32).collect::<Vec<u32>>();
                let dels = (0..nd).map(|_| key(rng)).collect();
                let ins = (0..ni).map(|_| { let mut r = key(rng); r.push(rng.below(5) as u32); r }).collect();
                ops.push(Op::Merge(dels, ins));
            }
        }
    }
    Case { nkeys, kind, sorted, ops, threads }
}

/// run a case on the real table; returns (observation lines, first property failure)
fn run_real(c: &Case) -> (Vec<String>, Option<String>) {
    let db = Database::new();
    let mut t = mk_table(c);
    let mut spec: BTreeMap<Vec<u32>, Vec<u32>> = BTreeMap::new();
    let mut obs = vec![];
    let mut fail = None;
    let pool = if c.threads > 1 { Some(egglog_concurrency::threadpool::ThreadPool::new(c.threads)) } else { None };
    let mut ts = 0u32;
    let mut last_gen = 0usize;
    for (oi, op) in c.ops.iter().enumerate() {
        match op {
            Op::Merge(dels, ins) => {
                ts += 1;
                { let mut buf = t.new_buffer();
                  for d in dels { buf.stage_remove(&d.iter().map(|x| v(*x)).collect::<Vec<_>>()); }
                  for r in ins { let mut row: Vec<Value> = r.iter().map(|x| v(*x)).collect(); if c.sorted { row.push(v(ts)); } buf.stage_insert(&row); } }
                let mut doit = || db.with_execution_state(None, |st| { t.merge(st); });
                match &pool { Some(p) => p.install(&mut doit), None => doit() }
                for d in dels { spec.remove(d); }
                for r in ins {
                    let mut row = r.clone(); if c.sorted { row.push(ts); }
                    let k = row[..c.nkeys].to_vec();
                    match spec.get(&k) { None => { spec.insert(k, row); } Some(cur) => { if let Some(m) = spec_merge(c.kind, c.nkeys, cur, &row) { spec.insert(k, m); } } }
                }
            }
            Op::Clear => { t.clear(); spec.clear(); }
            Op::CloneSwap => { let cl = t.clone(); t = cl; }
        }
        // observations
        let rows = scan_all(&t);
        let g = t.version().major.index();
        obs.push(format!("gen-bumped={} len={} scan={}", (g != last_gen) as u8, t.len(), show_rows(rows.clone())));
        last_gen = g;
        // the property, directly: scan == map, point lookups == map, constrained scans == filtered map
        let want: Vec<Vec<u32>> = spec.values().cloned().collect();
        if fail.is_none() && show_rows(rows.clone()) != show_rows(want.clone()) { fail = Some(format!("op {oi}: full scan returns `{}`, the keyed map holds `{}`", show_rows(rows.clone()), show_rows(want.clone()))); }
        if fail.is_none() && t.len() != spec.len() { fail = Some(format!("op {oi}: len() = {}, the keyed map has {} rows", t.len(), spec.len())); }
        if c.sorted && fail.is_none() { let tsc = c.nkeys + 1; if rows.windows(2).any(|w| w[0][tsc] > w[1][tsc]) { fail = Some(format!("op {oi}: scan not in timestamp order")); } }
        // timestamp-range subsets (what semi-naive evaluation reads) after every op, so also right after a compaction
        if c.sorted && fail.is_none() {
            let tsc = c.nkeys + 1;
            for tau in [1u32, ts / 2 + 1, ts, ts + 1] {
                for (kname, k) in [("ge", Constraint::GeConst { col: ColumnId::new(tsc as u32), val: v(tau) }), ("lt", Constraint::LtConst { col: ColumnId::new(tsc as u32), val: v(tau) })] {
                    if let Some(fs) = t.fast_subset(&k) {
                        let mut got = vec![];
                        t.scan_generic(fs.as_ref(), |_, row| got.push(row.iter().map(|x| x.rep()).collect::<Vec<u32>>()));
                        let want: Vec<Vec<u32>> = spec.values().filter(|r| if kname == "ge" { r[tsc] >= tau } else { r[tsc] < tau }).cloned().collect();
                        if fail.is_none() && show_rows(got.clone()) != show_rows(want.clone()) { fail = Some(format!("op {oi}: timestamp-range subset ({kname} {tau}) returns `{}`, the keyed map holds `{}`", show_rows(got), show_rows(want))); }
                    }
                }
            }
        }
        // point lookups over the key universe seen so far
        let mut keys: Vec<Vec<u32>> = spec.keys().cloned().collect();
        if let Op::Merge(dels, _) = op { keys.extend(dels.iter().cloned()); }
        for k in keys {
            let got = t.get_row(&k.iter().map(|x| v(*x)).collect::<Vec<_>>()).map(|r| r.vals.iter().map(|x| x.rep()).collect::<Vec<u32>>());
            if fail.is_none() && got.as_ref() != spec.get(&k) { fail = Some(format!("op {oi}: get_row({k:?}) = {got:?}, keyed map says {:?}", spec.get(&k))); }
        }
    }
    (obs, fail)
}

fn constraint_probe(rep: &mut Report, rng: &mut Rng, c: &Case) {
    // rebuild the final table and probe constrained scans / fast_subset on it
    let db = Database::new();
    let mut t = mk_table(c);
    let mut ts = 0u32;
    for op in &c.ops {
        match op {
            Op::Merge(dels, ins) => { ts += 1; { let mut buf = t.new_buffer(); for d in dels { buf.stage_remove(&d.iter().map(|x| v(*x)).collect::<Vec<_>>()); } for r in ins { let mut row: Vec<Value> = r.iter().map(|x| v(*x)).collect(); if c.sorted { row.push(v(ts)); } buf.stage_insert(&row); } } db.with_execution_state(None, |st| { t.merge(st); }); }
            Op::Clear => t.clear(), Op::CloneSwap => {}
        }
    }
    let rows = scan_all(&t);
    let ncols = c.nkeys + 1 + c.sorted as usize;
    for _ in 0..4 {
        let ncs = 1 + rng.below(2);
        let cs: Vec<(&'static str, usize, u32)> = (0..ncs).map(|_| { let k = ["eq", "eqc", "lt", "gt", "le", "ge"][rng.below(6)]; let col = rng.below(ncols); let val = if k == "eq" { rng.below(ncols) as u32 } else { rng.below(6) as u32 }; (k, col, val) }).collect();
        let real_cs = cs_real(&cs);
        let sub = t.refine(t.all(), &real_cs);
        let mut got = vec![];
        t.scan_generic(sub.as_ref(), |_, row| got.push(row.iter().map(|x| x.rep()).collect::<Vec<u32>>()));
        let want: Vec<Vec<u32>> = rows.iter().filter(|r| cs_eval(&cs, r)).cloned().collect();
        rep.count("constrained_scans", 1);
        if show_rows(got.clone()) != show_rows(want.clone()) {
            rep.violate("property", "c16-refine", format!("refine({}) returns `{}`, the filtered map is `{}`", cs_tokens(&cs), show_rows(got), show_rows(want)), json!({"case": format!("{c:?}")}));
        }
        // fast_subset on a single constraint
        if let Some(fs) = t.fast_subset(&real_cs[0]) {
            let mut got = vec![];
            t.scan_generic(fs.as_ref(), |_, row| got.push(row.iter().map(|x| x.rep()).collect::<Vec<u32>>()));
            let want: Vec<Vec<u32>> = rows.iter().filter(|r| cs_eval(&cs[..1], r)).cloned().collect();
            rep.count("fast_subsets", 1);
            if show_rows(got.clone()) != show_rows(want.clone()) {
                rep.violate("property", "c16-fast-subset", format!("fast_subset({}) returns `{}`, the filtered map is `{}`", cs_tokens(&cs[..1]), show_rows(got), show_rows(want)), json!({"case": format!("{c:?}")}));
            }
        }
    }
}

fn model_lines(c: &Case) -> Vec<String> {
    let mut lines = vec![format!("tb new {} {}", c.nkeys, c.kind)];
    let mut ts = 0;
    for op in &c.ops {
        match op {
            Op::Merge(dels, ins) => {
                ts += 1;
                let mut s = String::from("tb merge");
                for d in dels { s.push_str(&format!(" d:{}", d.iter().map(|x| x.to_string()).collect::<Vec<_>>().join(","))); }
                for r in ins { let mut row = r.clone(); if c.sorted { row.push(ts); } s.push_str(&format!(" i:{}", row.iter().map(|x| x.to_string()).collect::<Vec<_>>().join(","))); }
                lines.push(s);
            }
            Op::Clear => lines.push("tb clear".into()),
            Op::CloneSwap => lines.push("tb len".into()),
        }
        lines.push("tb gen".into()); lines.push("tb len".into()); lines.push("tb scan".into());
    }
    lines
}

/// DisplacedTable (the union-find table): unions staged as rows (l, r, ts), clears, lookups, scans,
/// timestamp-range subsets — against the closure of the unions since the last clear.
fn displaced(rep: &mut Report, rng: &mut Rng, n: usize) {
    use egglog_core_relations::DisplacedTable;
    use std::panic::{catch_unwind, AssertUnwindSafe};
    let mut lean_lines: Vec<String> = vec![]; let mut lean_want: Vec<(usize, String, String)> = vec![];
    for _ in 0..n {
        let ids = 3 + rng.below(12) as u32;
        let nops = 1 + rng.below(12);
        let mut hist: Vec<String> = vec![];
        let mut ll: Vec<String> = vec!["dt new".into()]; let mut lw: Vec<(usize, String, String)> = vec![];
        let res = catch_unwind(AssertUnwindSafe(|| -> Option<String> {
            let db = Database::new();
            let mut t = DisplacedTable::default();
            let mut label: Vec<u32> = (0..ids).collect();
            let mut displaced_spec: Vec<(u32, u32)> = vec![]; // (child, ts) in order
            let mut ts = 0u32;
            for _ in 0..nops {
                if rng.chance(1, 8) { t.clear(); label = (0..ids).collect(); displaced_spec.clear(); hist.push("clear".into()); ll.push("dt clear".into()); }
                else {
                    ts += rng.below(2) as u32;
                    let k = 1 + rng.below(4);
                    { let mut buf = t.new_buffer();
                      for _ in 0..k { let (a, b) = (rng.below(ids as usize) as u32, rng.below(ids as usize) as u32); hist.push(format!("union {a} {b} @{ts}")); ll.push(format!("dt ins {a} {b} {ts}")); buf.stage_insert(&[v(a), v(b), v(ts)]);
                          let (la, lb) = (label[a as usize], label[b as usize]);
                          if la != lb { let (mn, mx) = (la.min(lb), la.max(lb)); for l in label.iter_mut() { if *l == mx { *l = mn; } } displaced_spec.push((mx, ts)); } } }
                    db.with_execution_state(None, |st| { t.merge(st); });
                }
                // lookups
                for x in 0..ids {
                    let got = t.get_row(&[v(x)]).map(|r| r.vals.iter().map(|y| y.rep()).collect::<Vec<u32>>());
                    let want = displaced_spec.iter().find(|(c, _)| *c == x).map(|(c, tsx)| vec![*c, label[*c as usize], *tsx]);
                    if got != want { return Some(format!("get_row({x}) = {got:?}, expected {want:?}")); }
                }
                let mut rows = vec![];
                let all = t.all();
                t.scan_generic(all.as_ref(), |_, row| rows.push(row.iter().map(|y| y.rep()).collect::<Vec<u32>>()));
                let want: Vec<Vec<u32>> = displaced_spec.iter().map(|(c, tsx)| vec![*c, label[*c as usize], *tsx]).collect();
                if rows != want { return Some(format!("scan = {rows:?}, expected {want:?}")); }
                // the same scan on the Lean model (theorems C16_displaced_*)
                ll.push("dt scan".into()); lw.push((ll.len() - 1, format!("{hist:?}"), rows.iter().map(|r| r.iter().map(|x| x.to_string()).collect::<Vec<_>>().join(",")).collect::<Vec<_>>().join(" ")));
                if t.len() != want.len() { return Some(format!("len = {}, expected {}", t.len(), want.len())); }
                for (kname, val) in [("lt", rng.below(4) as u32), ("ge", rng.below(4) as u32), ("eqc", rng.below(4) as u32), ("gt", rng.below(4) as u32), ("le", rng.below(4) as u32)] {
                    let cs = [(kname, 2usize, val)];
                    // the same range on the Lean model (theorem C16_displaced_ts_range); `none` = no fast subset
                    ll.push(format!("dt sub {kname} {val}"));
                    if let Some(sub) = t.fast_subset(&cs_real(&cs)[0]) {
                        let mut got = vec![]; t.scan_generic(sub.as_ref(), |_, row| got.push(row.iter().map(|y| y.rep()).collect::<Vec<u32>>()));
                        let w: Vec<Vec<u32>> = want.iter().filter(|r| cs_eval(&cs, r)).cloned().collect();
                        if got != w { return Some(format!("fast_subset({kname} ts {val}) = {got:?}, expected {w:?}")); }
                        lw.push((ll.len() - 1, format!("{hist:?} fast_subset({kname} ts {val})"), got.iter().map(|r| r.iter().map(|x| x.to_string()).collect::<Vec<_>>().join(",")).collect::<Vec<_>>().join(" ")));
                    } else { lw.push((ll.len() - 1, format!("{hist:?} fast_subset({kname} ts {val})"), "none".to_string())); }
                }
                let x = rng.below(ids as usize) as u32;
                if let Some(sub) = t.fast_subset(&Constraint::EqConst { col: ColumnId::new(0), val: v(x) }) {
                    let mut got = vec![]; t.scan_generic(sub.as_ref(), |_, row| got.push(row.iter().map(|y| y.rep()).collect::<Vec<u32>>()));
                    let w: Vec<Vec<u32>> = want.iter().filter(|r| r[0] == x).cloned().collect();
                    if got != w { return Some(format!("fast_subset(col0 = {x}) = {got:?}, expected {w:?}")); }
                }
            }
            None
        }));
        rep.evaluations += 1;
        rep.count("displaced_table_histories", 1);
        if hist.iter().any(|h| h == "clear") && hist.len() > 2 { rep.note_nontrivial(&hist); }
        if matches!(res, Ok(None)) { let base = lean_lines.len(); for (i, what, w) in lw { lean_want.push((base + i, what, w)); } lean_lines.extend(ll); }
        match res {
            Ok(None) => {}
            Ok(Some(f)) => rep.violate("property", "c16-displaced", format!("DisplacedTable: {f}"), json!({"history": hist})),
            Err(_) => rep.violate("property", "c16-displaced-panic", "DisplacedTable panicked (stale lookup_table after clear?)".into(), json!({"history": hist})),
        }
    }
    match run_driver(&lean_lines) {
        Err(e) => rep.violate("correspondence", "driver-failure", e, json!({})),
        Ok(m) => for (i, what, w) in lean_want { rep.traces_vs_model += 1;
            if m[i] != w { rep.violate("correspondence", "c16-displaced-model-mismatch", format!("Lean DisplacedTable model (theorems C16_displaced_*) scans `{}`, the implementation `{w}` after {what}", m[i]), json!({"line": i})); break; } }
    }
}

/// Database-level sequences with INDEX-BACKED reads: a keyed table inside a `Database`, staged
/// inserts / removals / remove-everything / clear_table, and at random moments (not after every op,
/// so cached indexes and subsets go stale in between) one-atom rules with an `EqConst` constraint and
/// a two-atom join on the key, compared with a plain map.
fn db_index_reads(rep: &mut Report, rng: &mut Rng, n: usize) {
    use egglog_core_relations::{RuleSetBuilder, TableId};
    use egglog_reports::ReportLevel;
    use std::panic::{catch_unwind, AssertUnwindSafe};
    const NV: usize = 3;
    let mut lean_lines: Vec<String> = vec![]; let mut lean_want: Vec<(usize, String, Vec<String>)> = vec![];
    for case in 0..n {
        let mut hist: Vec<String> = vec![];
        let mut ll: Vec<String> = vec!["tb ixnew 1".into(), "tb new 1 max".into()]; let mut lw: Vec<(usize, String, Vec<String>)> = vec![];
        let threads = if case % 4 == 3 { 4 } else { 1 };
        let res = catch_unwind(AssertUnwindSafe(|| -> Option<String> {
            let pool = if threads > 1 { Some(egglog_concurrency::threadpool::ThreadPool::new(threads)) } else { None };
            let mut db = Database::default();
            let mk = |db: &mut Database, keys: usize, cols: usize, sort: Option<u32>| -> TableId { db.add_table(SortedWritesTable::new(keys, cols, sort.map(ColumnId::new), vec![],
                // an associative merge (max by value, ties keep the older row), so that the serial and the
                // staged/parallel insertion paths are REQUIRED to agree (C05)
                Box::new(|_, old, new, out| { if new[1] > old[1] { out.extend_from_slice(new); true } else { false } })), std::iter::empty(), std::iter::empty()) };
            let table = mk(&mut db, 1, 3, Some(2));
            let outs: Vec<TableId> = (0..NV).map(|_| db.add_table(SortedWritesTable::new(1, 1, None, vec![], Box::new(|_, _, _, _| false)), std::iter::empty(), std::iter::empty())).collect();
            let joined = db.add_table(SortedWritesTable::new(2, 2, None, vec![], Box::new(|_, _, _, _| false)), std::iter::empty(), std::iter::empty());
            let mut model: BTreeMap<u32, (u32, u32)> = BTreeMap::new();
            let mut ts = 0u32;
            let dom = [6u32, 14, 40][rng.below(3)];
            let nops = 3 + rng.below(14);
            for _ in 0..nops {
                let mut run_in = |db: &mut Database, f: &mut dyn FnMut(&mut Database)| { match &pool { Some(p) => p.install(|| f(db)), None => f(db) } };
                match rng.below(12) {
                    0..=4 => { ts += 1; let k = 1 + rng.below(if dom > 20 { 30 } else { 8 }); let rows: Vec<(u32, u32)> = (0..k).map(|_| (rng.below(dom as usize) as u32, rng.below(NV) as u32)).collect();
                        hist.push(format!("insert@{ts} {rows:?}"));
                        ll.push(format!("tb merge {}", rows.iter().map(|(k, val)| format!("i:{k},{val},{ts}")).collect::<Vec<_>>().join(" ")));
                        { let mut buf = db.new_buffer(table); for (key, val) in &rows { buf.stage_insert(&[v(*key), v(*val), v(ts)]); match model.get(key) { Some((o, _)) if o >= val => {}, _ => { model.insert(*key, (*val, ts)); } } } }
                        run_in(&mut db, &mut |db| { db.merge_all(); }); }
                    5 | 6 => { let keys: Vec<u32> = (0..1 + rng.below(5)).map(|_| rng.below(dom as usize) as u32).collect(); hist.push(format!("remove {keys:?}")); ll.push(format!("tb merge {}", keys.iter().map(|k| format!("d:{k}")).collect::<Vec<_>>().join(" ")));
                        { let mut buf = db.new_buffer(table); for k in &keys { buf.stage_remove(&[v(*k)]); model.remove(k); } }
                        run_in(&mut db, &mut |db| { db.merge_all(); }); }
                    7 => { let keys: Vec<u32> = model.keys().cloned().collect(); hist.push("remove-all".into()); ll.push(format!("tb merge {}", keys.iter().map(|k| format!("d:{k}")).collect::<Vec<_>>().join(" ")));
                        { let mut buf = db.new_buffer(table); for k in &keys { buf.stage_remove(&[v(*k)]); } } model.clear();
                        run_in(&mut db, &mut |db| { db.merge_all(); }); }
                    8 => { hist.push("clear_table".into()); ll.push("tb clear".into()); db.clear_table(table); model.clear(); }
                    _ => {
                        hist.push("read".into());
                        // direct reads
                        let t = db.get_table(table);
                        if t.len() != model.len() { return Some(format!("len {} vs map {}", t.len(), model.len())); }
                        let mut scanned = BTreeMap::new();
                        for (_, row) in t.scan(t.all().as_ref()).iter() { if scanned.insert(row[0].rep(), (row[1].rep(), row[2].rep())).is_some() { return Some("a key returned twice by a full scan".into()); } }
                        if scanned != model { return Some(format!("full scan {scanned:?} vs map {model:?}")); }
                        // index-backed reads
                        for o in &outs { db.clear_table(*o); } db.clear_table(joined);
                        let rules = {
                            let mut rsb = RuleSetBuilder::new(&mut db);
                            for (c, out) in outs.iter().enumerate() {
                                let mut q = rsb.new_rule(); let k = q.new_var_named("k"); let val = q.new_var_named("val"); let t = q.new_var_named("t");
                                q.add_atom(table, &[k.into(), val.into(), t.into()], &[Constraint::EqConst { col: ColumnId::new(1), val: v(c as u32) }]).unwrap();
                                let mut rule = q.build(); rule.insert(*out, &[k.into()]).unwrap(); rule.build();
                            }
                            // join on the value column: table(k1, x, t1), table(k2, x, t2), k1 < ... all pairs with equal value
                            let mut q = rsb.new_rule(); let k1 = q.new_var_named("k1"); let k2 = q.new_var_named("k2"); let x = q.new_var_named("x"); let t1 = q.new_var_named("t1"); let t2 = q.new_var_named("t2");
                            q.add_atom(table, &[k1.into(), x.into(), t1.into()], &[]).unwrap();
                            q.add_atom(table, &[k2.into(), x.into(), t2.into()], &[]).unwrap();
                            let mut rule = q.build(); rule.insert(joined, &[k1.into(), k2.into()]).unwrap(); rule.build();
                            rsb.build()
                        };
                        run_in(&mut db, &mut |db| { db.run_rule_set(&rules, ReportLevel::TimeOnly, None); });
                        for (c, out) in outs.iter().enumerate() {
                            let o = db.get_table(*out);
                            let mut got: Vec<u32> = o.scan(o.all().as_ref()).iter().map(|(_, row)| row[0].rep()).collect(); got.sort();
                            let want: Vec<u32> = model.iter().filter(|(_, (val, _))| *val as usize == c).map(|(k, _)| *k).collect();
                            if got != want { return Some(format!("index-backed query val == {c} returns {got:?}, the map says {want:?}")); }
                            // the same read on the Lean cached-index model (refreshed only now, like the engine's)
                            ll.push(format!("tb ixlookup {c}")); lw.push((ll.len() - 1, format!("val == {c}"), got.iter().map(|k| k.to_string()).collect()));
                        }
                        let j = db.get_table(joined);
                        let mut got: Vec<(u32, u32)> = j.scan(j.all().as_ref()).iter().map(|(_, row)| (row[0].rep(), row[1].rep())).collect(); got.sort();
                        let mut want: Vec<(u32, u32)> = vec![]; for (a, (va, _)) in &model { for (b, (vb, _)) in &model { if va == vb { want.push((*a, *b)); } } } want.sort();
                        if got != want { return Some(format!("self-join on the value column returns {} pairs, the map says {}", got.len(), want.len())); }
                    }
                }
            }
            None
        }));
        let base = lean_lines.len();
        if matches!(res, Ok(None)) { for (i, what, keys) in lw { lean_want.push((base + i, format!("case {case}: {what} after {hist:?}"), keys)); } lean_lines.extend(ll); }
        rep.evaluations += 1;
        rep.count("db_level_histories", 1);
        if hist.iter().filter(|h| *h == "read").count() >= 2 && hist.iter().any(|h| h == "clear_table" || h == "remove-all") { rep.note_nontrivial(&hist); }
        match res {
            Ok(None) => {}
            Ok(Some(f)) => rep.violate("property", "c16-index-read", format!("threads={threads}: {f}"), json!({"history": hist})),
            Err(_) => rep.violate("property", "c16-index-read-panic", format!("threads={threads}: a read through the Database panicked (stale index / subset?)"), json!({"history": hist})),
        }
    }
    match run_driver(&lean_lines) {
        Err(e) => rep.violate("correspondence", "driver-failure", e, json!({})),
        Ok(m) => for (i, what, keys) in lean_want {
            rep.traces_vs_model += 1;
            // model prints rows `k,val,ts`; compare the key sets
            let mut got: Vec<String> = m[i].split_whitespace().map(|r| r.split(',').next().unwrap_or("").to_string()).collect(); got.sort_by_key(|k| k.parse::<u32>().unwrap_or(0));
            if got != keys { rep.violate("correspondence", "c16-index-model-mismatch", format!("Lean cached-index model (theorem C16_index) returns keys {got:?}, the engine's index-backed query {keys:?}: {what}"), json!({"line": lean_lines[i]})); break; }
        }
    }
}

pub fn run(ctx: &Ctx) -> Report {
    let mut rep = Report::new("C16", "random op sequences on SortedWritesTable (0-3 key columns, with/without sort column, merge functions overwrite/max/keep-old, staged removals + insertions per merge, clears, clones, batches large enough to cross the compaction threshold stale > max(16, n/2)), 1 thread and inside a 4-thread pool; non-trivial = the sequence compacted (major generation bump) or had a key collision (distinct by op list)");
    let mut rng = Rng::new(ctx.seed ^ 0xC16);
    let n = ctx.n(400, 8000);
    let cases: Vec<Case> = (0..n).map(|i| gen_case(&mut rng, if i % 5 == 4 { 4 } else { 1 })).collect();
    let mut lines = vec![]; let mut starts = vec![];
    for c in &cases { starts.push(lines.len()); lines.extend(model_lines(c)); }
    let model = run_driver(&lines);
    if let Err(e) = &model { rep.violate("correspondence", "driver-failure", e.clone(), json!({})); }
    for (ci, c) in cases.iter().enumerate() {
        rep.evaluations += 1;
        let (obs, fail) = run_real(c);
        if ci < 2 { rep.sample(json!(format!("{c:?}"))); }
        if obs.iter().skip(1).any(|o| o.starts_with("gen-bumped=1")) { rep.note_nontrivial(c); rep.count("sequences_with_compaction_or_clear", 1); }
        if c.threads > 1 { rep.count("parallel_sequences", 1); }
        if let Some(f) = fail {
            rep.violate("property", if c.threads > 1 { "c16-map-parallel" } else { "c16-map" }, format!("threads={} {f}", c.threads), json!({"case": format!("{c:?}")}));
            continue;
        }
        if let Ok(m) = &model {
            rep.traces_vs_model += 1;
            let mut k = starts[ci] + 1;
            let mut prev_gen = 0u64;
            for (oi, _) in c.ops.iter().enumerate() {
                k += 1; // the op line
                let g: u64 = m[k].parse().unwrap_or(0);
                let line = format!("gen-bumped={} len={} scan={}", (g != prev_gen) as u8, m[k + 1], m[k + 2]);
                prev_gen = g;
                k += 3;
                // the parallel insert path stages rows differently (in-batch superseded rows are written and
                // marked stale), so WHEN compaction happens legitimately differs from the serial model there
                let strip = |x: &str| if c.threads > 1 { x.splitn(2, ' ').nth(1).unwrap_or("").to_string() } else { x.to_string() };
                if strip(&line) != strip(&obs[oi]) {
                    rep.violate("correspondence", "c16-model-mismatch", format!("Lean table model (theorem C16_refine) and the implementation differ after op {oi}: model `{line}`, implementation `{}`", obs[oi]), json!({"case": format!("{c:?}")}));
                    break;
                }
            }
        }
        if ci % 3 == 0 { constraint_probe(&mut rep, &mut rng, c); }
    }
    displaced(&mut rep, &mut rng, ctx.n(300, 6000));
    db_index_reads(&mut rep, &mut rng, ctx.n(400, 8000));
    rep
}
