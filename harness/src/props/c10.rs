//! C10 — schedules.  (A) Horn programs over one relation: the real engine's `run-schedule`
//! (iteration count, `updated`, resulting facts) against the Lean schedule interpreter
//! (`exec`, proved sound for `Eval`, whose laws are the C10 theorems) instantiated with the
//! propositional step function.  (B) the algebraic laws themselves, engine against engine, on
//! Horn programs and on equality-saturation programs (canonical dumps compared).
use crate::{engine, lean::run_driver, report::Report, rng::Rng, Ctx};
use egglog::{CommandOutput, EGraph};
use serde_json::json;

#[derive(Clone, Debug, Hash)]
pub enum Sched { Run(usize, Vec<usize>), Repeat(usize, Vec<Sched>), Saturate(Vec<Sched>), Seq(Vec<Sched>) }

impl Sched {
    pub fn egg(&self, rs_name: &dyn Fn(usize) -> String, fact: &dyn Fn(usize) -> String) -> String {
        let list = |v: &Vec<Sched>| v.iter().map(|s| s.egg(rs_name, fact)).collect::<Vec<_>>().join(" ");
        match self {
            Sched::Run(r, u) => if u.is_empty() { format!("(run {})", rs_name(*r)) } else { format!("(run {} :until {})", rs_name(*r), u.iter().map(|f| fact(*f)).collect::<Vec<_>>().join(" ")) },
            Sched::Repeat(n, v) => format!("(repeat {n} {})", list(v)),
            Sched::Saturate(v) => format!("(saturate {})", list(v)),
            Sched::Seq(v) => format!("(seq {})", list(v)),
        }
    }
    /// prefix tokens for the Lean driver; `repeat`/`saturate` bodies are implicit sequences as in the parser
    pub fn model(&self) -> String {
        let seq = |v: &Vec<Sched>| format!("Q {} {}", v.len(), v.iter().map(|s| s.model()).collect::<Vec<_>>().join(" "));
        match self {
            Sched::Run(r, u) => format!("R {r} {} {}", u.len(), u.iter().map(|f| f.to_string()).collect::<Vec<_>>().join(" ")),
            Sched::Repeat(n, v) => format!("P {n} {}", seq(v)),
            Sched::Saturate(v) => format!("S {}", seq(v)),
            Sched::Seq(v) => seq(v),
        }
    }
    fn has_repeat_or_sat(&self) -> bool { match self { Sched::Run(..) => false, Sched::Seq(v) => v.iter().any(|s| s.has_repeat_or_sat()), _ => true } }
}

fn gen_sched(rng: &mut Rng, depth: usize, nrs: usize, nfacts: usize) -> Sched {
    let k = if depth == 0 { 0 } else { rng.below(10) };
    let sub = |rng: &mut Rng| -> Vec<Sched> { let n = rng.below(3) + if rng.chance(9, 10) { 1 } else { 0 }; (0..n).map(|_| gen_sched(rng, depth - 1, nrs, nfacts)).collect() };
    match k {
        0..=3 => { let u = if rng.chance(1, 4) { (0..1 + rng.below(2)).map(|_| rng.below(nfacts)).collect() } else { vec![] }; Sched::Run(rng.below(nrs), u) }
        4..=6 => Sched::Repeat(rng.below(5), sub(rng)),
        7 | 8 => Sched::Saturate(sub(rng)),
        _ => Sched::Seq(sub(rng)),
    }
}

#[derive(Clone, Debug, Hash)]
enum HCmd { Ruleset, Combined(Vec<usize>), Rule(usize, usize, Vec<usize>), Fact(usize), RunN(usize, usize, Vec<usize>), Sched(Sched) }

fn rs_name(i: usize) -> String { format!("R{i}") }
fn fact(i: usize) -> String { format!("(P {i})") }

impl HCmd {
    fn egg(&self, idx: usize) -> String {
        match self {
            HCmd::Ruleset => format!("(ruleset R{idx})"),
            HCmd::Combined(subs) => format!("(unstable-combined-ruleset R{idx} {})", subs.iter().map(|s| rs_name(*s)).collect::<Vec<_>>().join(" ")),
            HCmd::Rule(rs, c, p) => format!("(rule ({}) ({}) :ruleset {})", p.iter().map(|f| fact(*f)).collect::<Vec<_>>().join(" "), fact(*c), rs_name(*rs)),
            HCmd::Fact(f) => fact(*f),
            HCmd::RunN(rs, n, u) => if u.is_empty() { format!("(run {} {n})", rs_name(*rs)) } else { format!("(run {} {n} :until {})", rs_name(*rs), u.iter().map(|f| fact(*f)).collect::<Vec<_>>().join(" ")) },
            HCmd::Sched(s) => format!("(run-schedule {})", s.egg(&rs_name, &fact)),
        }
    }
    fn model(&self) -> String {
        match self {
            HCmd::Ruleset => "sc ruleset".into(),
            HCmd::Combined(subs) => format!("sc combined {}", subs.iter().map(|s| s.to_string()).collect::<Vec<_>>().join(" ")),
            HCmd::Rule(rs, c, p) => format!("sc rule {rs} {c} {}", p.iter().map(|s| s.to_string()).collect::<Vec<_>>().join(" ")),
            HCmd::Fact(f) => format!("sc fact {f}"),
            HCmd::RunN(rs, n, u) => format!("sc run P {n} R {rs} {} {}", u.len(), u.iter().map(|s| s.to_string()).collect::<Vec<_>>().join(" ")),
            // (run-schedule s) is Sequence([s])
            HCmd::Sched(s) => format!("sc run Q 1 {}", s.model()),
        }
    }
}

fn gen_horn(rng: &mut Rng) -> Vec<HCmd> {
    let nfacts = 3 + rng.below(7);
    let nplain = 1 + rng.below(3);
    let mut cmds = vec![];
    let mut plain = vec![];
    let mut nrs = 0;
    for _ in 0..nplain { cmds.push(HCmd::Ruleset); plain.push(nrs); nrs += 1; }
    let rule = |rng: &mut Rng, plain: &Vec<usize>| { let np = 1 + rng.below(2); HCmd::Rule(*rng.pick(plain), rng.below(nfacts), (0..np).map(|_| rng.below(nfacts)).collect()) };
    for _ in 0..(2 + rng.below(8)) { cmds.push(rule(rng, &plain)); }
    if rng.chance(2, 3) { let k = 1 + rng.below(plain.len()); let mut subs = plain.clone(); rng.shuffle(&mut subs); subs.truncate(k); cmds.push(HCmd::Combined(subs)); nrs += 1;
        if rng.chance(1, 3) { let subs2 = vec![nrs - 1, *rng.pick(&plain)]; cmds.push(HCmd::Combined(subs2)); nrs += 1; } }
    for _ in 0..(1 + rng.below(3)) { cmds.push(HCmd::Fact(rng.below(nfacts))); }
    for _ in 0..(1 + rng.below(5)) {
        match rng.below(10) {
            0 => cmds.push(HCmd::Fact(rng.below(nfacts))),
            1 | 2 => cmds.push(rule(rng, &plain)), // rules added to a sub-ruleset after the combination
            3 | 4 => { let u = if rng.chance(1, 3) { vec![rng.below(nfacts)] } else { vec![] }; cmds.push(HCmd::RunN(rng.below(nrs), rng.below(5), u)); }
            _ => cmds.push(HCmd::Sched(gen_sched(rng, 3, nrs, nfacts))),
        }
    }
    // a rule's name is its text: an identical rule in the same ruleset is rejected (RuleAlreadyExists)
    let mut seen = std::collections::HashSet::new();
    cmds.retain(|c| match c { HCmd::Rule(rs, cc, p) => seen.insert((*rs, *cc, p.clone())), _ => true });
    cmds
}

fn facts_of(eg: &EGraph) -> String {
    let d = engine::raw_dump(eg);
    let mut fs: Vec<i64> = d.tables.iter().filter(|t| t.name == "P").flat_map(|t| t.rows.iter().map(|r| match &r.args[0] { engine::V::Int(i) => *i, _ => -1 })).collect();
    fs.sort();
    fs.iter().map(|f| f.to_string()).collect::<Vec<_>>().join(" ")
}

fn run_horn_impl(cmds: &[HCmd]) -> Vec<String> {
    let mut eg = EGraph::default();
    engine::run(&mut eg, "(relation P (i64))");
    let mut outs = vec![];
    let mut rs_idx = 0;
    for c in cmds {
        let text = c.egg(rs_idx);
        if matches!(c, HCmd::Ruleset | HCmd::Combined(_)) { rs_idx += 1; }
        match engine::run_outputs(&mut eg, &text) {
            Ok(o) => {
                let rep = o.iter().find_map(|x| if let CommandOutput::RunSchedule(r) = x { Some(r.clone()) } else { None });
                match (c, rep) {
                    (HCmd::RunN(..) | HCmd::Sched(_), Some(r)) => outs.push(format!("{} {} | {}", r.iterations.len(), r.updated, facts_of(&eg))),
                    _ => outs.push("ok".into()),
                }
            }
            Err(e) => outs.push(e),
        }
    }
    outs
}

fn horn_vs_model(rep: &mut Report, rng: &mut Rng, n: usize) {
    let cases: Vec<Vec<HCmd>> = (0..n).map(|_| gen_horn(rng)).collect();
    let mut lines = vec![]; let mut starts = vec![];
    for c in &cases { lines.push("sc new".to_string()); starts.push(lines.len()); for x in c { lines.push(x.model()); } }
    let model = match run_driver(&lines) { Ok(m) => m, Err(e) => { rep.violate("correspondence", "driver-failure", e, json!({})); return; } };
    for (ci, c) in cases.iter().enumerate() {
        rep.evaluations += 1; rep.traces_vs_model += 1;
        let imp = run_horn_impl(c);
        let prog: Vec<String> = { let mut i = 0; c.iter().map(|x| { let t = x.egg(i); if matches!(x, HCmd::Ruleset | HCmd::Combined(_)) { i += 1; } t }).collect() };
        if ci < 2 { rep.sample(json!(prog)); }
        if c.iter().any(|x| matches!(x, HCmd::Sched(s) if s.has_repeat_or_sat())) { rep.note_nontrivial(c); }
        for (k, o) in imp.iter().enumerate() {
            let m = &model[starts[ci] + k];
            if m != o {
                // which side is right?  The Lean interpreter is the specification (theorems C10_*):
                // a different database or iteration count is a violation of the property.
                let full: Vec<String> = std::iter::once("(relation P (i64))".to_string()).chain(prog.iter().take(k + 1).cloned()).collect();
                rep.violate("property", "c10-schedule-semantics", format!("command `{}`: engine reports `{o}` (iterations updated | facts), schedule semantics gives `{m}`", prog[k]),
                    json!({"program": full, "engine": o, "model": m}));
                break;
            }
        }
    }
}

// ---------------------------------------------------------------------------------------------
// (B) laws, engine vs engine, on an equality-saturation program
const EQSAT: &str = "(datatype M (Num i64) (Var String) (Add M M) (Mul M M))
(ruleset comm) (ruleset assoc) (ruleset fold) (ruleset dist)
(rewrite (Add a b) (Add b a) :ruleset comm)
(rewrite (Mul a b) (Mul b a) :ruleset comm)
(rewrite (Add a (Add b c)) (Add (Add a b) c) :ruleset assoc)
(rewrite (Mul a (Mul b c)) (Mul (Mul a b) c) :ruleset assoc)
(rewrite (Add (Num a) (Num b)) (Num (+ a b)) :ruleset fold)
(rewrite (Mul (Num a) (Num b)) (Num (* a b)) :ruleset fold)
(rewrite (Mul a (Add b c)) (Add (Mul a b) (Mul a c)) :ruleset dist)
(unstable-combined-ruleset all comm assoc fold)
(ruleset flat)
(rewrite (Add a b) (Add b a) :ruleset flat)
(rewrite (Mul a b) (Mul b a) :ruleset flat)
(rewrite (Add a (Add b c)) (Add (Add a b) c) :ruleset flat)
(rewrite (Mul a (Mul b c)) (Mul (Mul a b) c) :ruleset flat)
(rewrite (Add (Num a) (Num b)) (Num (+ a b)) :ruleset flat)
(rewrite (Mul (Num a) (Num b)) (Num (* a b)) :ruleset flat)
";

fn gen_term(rng: &mut Rng, depth: usize) -> String {
    if depth == 0 || rng.chance(1, 4) { return if rng.chance(2, 3) { format!("(Num {})", rng.range(0, 3)) } else { format!("(Var \"{}\")", ["x", "y"][rng.below(2)]) }; }
    format!("({} {} {})", if rng.chance(1, 2) { "Add" } else { "Mul" }, gen_term(rng, depth - 1), gen_term(rng, depth - 1))
}

fn eq_rs(i: usize) -> String { ["comm", "assoc", "fold", "dist", "all", "flat"][i % 6].to_string() }

/// pairs of schedules that the laws say are equal
fn law_pair(rng: &mut Rng) -> (String, String, &'static str) {
    let rsn = |i: usize| eq_rs(i);
    let nofact = |_: usize| String::new();
    let body = |rng: &mut Rng| -> Sched { gen_sched_eq(rng, 1) };
    match rng.below(7) {
        0 => { let r = rng.below(4); let n = rng.below(4); (format!("(run {} {n})", rsn(r)), format!("(run-schedule (repeat {n} (run {})))", rsn(r)), "run n = repeat n (run)") }
        1 => { let (a, b) = (rng.below(3), rng.below(3)); let s = body(rng).egg(&rsn, &nofact); (format!("(run-schedule (repeat {a} (repeat {b} {s})))"), format!("(run-schedule (repeat {} {s}))", a * b), "repeat a (repeat b s) = repeat a*b s") }
        2 => { let (a, b, c) = (body(rng).egg(&rsn, &nofact), body(rng).egg(&rsn, &nofact), body(rng).egg(&rsn, &nofact)); (format!("(run-schedule (seq (seq {a} {b}) {c}))"), format!("(run-schedule (seq {a} (seq {b} {c})))"), "seq associativity") }
        3 => { let (a, b, c) = (body(rng).egg(&rsn, &nofact), body(rng).egg(&rsn, &nofact), body(rng).egg(&rsn, &nofact)); (format!("(run-schedule {a} {b} {c})"), format!("(run-schedule (seq {a} (seq {b}) {c}))"), "seq flattening") }
        4 => { let n = 1 + rng.below(3); (format!("(run all {n})"), format!("(run flat {n})"), "combined ruleset = union of rules in one iteration") }
        5 => { let r = [0usize, 2][rng.below(2)]; (format!("(run-schedule (saturate (run {})))", rsn(r)), format!("(run-schedule (saturate (run {})) (saturate (run {})))", rsn(r), rsn(r)), "saturate idempotence") }
        _ => { let r = rng.below(3); let n = 1 + rng.below(3); (format!("(run-schedule (repeat {n} (run {})) (run {}))", rsn(r), rsn(r)), format!("(run {} {})", rsn(r), n + 1), "run n ; run 1 = run n+1") }
    }
}

fn gen_sched_eq(rng: &mut Rng, depth: usize) -> Sched {
    if depth == 0 || rng.chance(1, 2) { return Sched::Run(rng.below(3), vec![]); }
    match rng.below(3) {
        0 => Sched::Repeat(rng.below(3), vec![gen_sched_eq(rng, depth - 1)]),
        1 => Sched::Seq(vec![gen_sched_eq(rng, depth - 1), gen_sched_eq(rng, depth - 1)]),
        _ => Sched::Saturate(vec![Sched::Run(2, vec![])]),
    }
}

/// upper bound on the iterations of growing rulesets a schedule text performs (repeat factors multiplied through)
fn explosive_iters(text: &str) -> usize {
    fn go(t: &crate::sexp::Sexp) -> usize {
        use crate::sexp::Sexp;
        let Sexp::List(v) = t else { return 0 };
        let head = match v.first() { Some(Sexp::Atom(a)) => a.as_str(), _ => return v.iter().map(go).sum() };
        let num = |x: &Sexp| match x { Sexp::Atom(a) => a.parse::<usize>().ok(), _ => None };
        match head {
            "run" => { let rs = match v.get(1) { Some(Sexp::Atom(a)) if a.parse::<usize>().is_err() && !a.starts_with(':') => a.as_str(), _ => "" };
                let n = v.iter().skip(1).find_map(num).unwrap_or(1);
                if ["comm", "fold"].contains(&rs) { 0 } else { n } }
            "repeat" => v.get(1).and_then(num).unwrap_or(1) * v.iter().skip(2).map(go).sum::<usize>(),
            "saturate" => v.iter().skip(1).map(go).sum::<usize>() * 1,
            _ => v.iter().skip(1).map(go).sum(),
        }
    }
    crate::sexp::parse_all(text).map(|ts| ts.iter().map(go).sum()).unwrap_or(0)
}

fn laws_eqsat(rep: &mut Report, rng: &mut Rng, n: usize) {
    for _ in 0..n {
        let mut base = EGraph::default();
        if !engine::run(&mut base, EQSAT).is_ok() { rep.violate("correspondence", "c10-setup", "law program rejected".into(), json!({})); return; }
        let terms: Vec<String> = (0..1 + rng.below(2)).map(|_| gen_term(rng, 2)).collect();
        let pre = rng.below(3);
        let setup = terms.join("\n") + &format!("\n(run all {pre})\n");
        engine::run(&mut base, &setup);
        // bound the number of iterations of the growing rulesets (assoc, dist, all, flat): e-graphs of distributivity +
        // associativity grow exponentially, a handful of thorough-tier cases otherwise needs tens of GB
        let (s1, s2, law) = loop { let c = law_pair(rng); if pre + explosive_iters(&c.0).max(explosive_iters(&c.1)) <= 4 { break c; } };
        if std::env::var("VERIF_DEBUG").is_ok() { eprintln!("LAW {law}: setup={setup:?} s1={s1} s2={s2}"); }
        let (mut e1, mut e2) = (base.clone(), base.clone());
        let (o1, o2) = (engine::run(&mut e1, &s1), engine::run(&mut e2, &s2));
        rep.evaluations += 1;
        let (d1, d2) = (engine::canon(&e1), engine::canon(&e2));
        if d1 != engine::canon(&base) { rep.note_nontrivial(&(setup.clone(), s1.clone(), s2.clone())); }
        rep.count(&format!("law:{law}"), 1);
        if o1.class() != o2.class() || d1 != d2 {
            let diff: Vec<&String> = d1.iter().filter(|l| !d2.contains(l)).chain(d2.iter().filter(|l| !d1.contains(l))).take(6).collect();
            rep.violate("property", "c10-law", format!("law `{law}` broken: `{s1}` and `{s2}` give different databases (rows differing: {diff:?})"),
                json!({"program": format!("{EQSAT}{setup}"), "left": s1, "right": s2}));
        }
        // a saturated schedule must be idle when re-run
        if law == "saturate idempotence" {
            if let Ok(outs) = engine::run_outputs(&mut e1, &s1) {
                if let Some(CommandOutput::RunSchedule(r)) = outs.first() {
                    if r.updated { rep.violate("property", "c10-saturate-not-fixpoint", format!("`{s1}` re-run on its own result reports updated=true"), json!({"program": format!("{EQSAT}{setup}{s1}\n{s1}")})); }
                }
            }
        }
    }
}

pub fn run(ctx: &Ctx) -> Report {
    let mut rep = Report::new("C10", "(A) random Horn programs (<= 3 rulesets + combined rulesets, rules added after combination, random schedule trees of depth <= 3 with repeat/saturate/seq/:until and (run R n)) compared command-by-command with the Lean interpreter on iteration count, updated flag and facts; non-trivial = contains a repeat or saturate (distinct by program). (B) law pairs on an equality-saturation program compared by canonical dump; non-trivial = the schedule changed the database");
    let mut rng = Rng::new(ctx.seed ^ 0xC10);
    let t = std::time::Instant::now();
    if std::env::var("VERIF_C10_SKIP_A").is_err() { horn_vs_model(&mut rep, &mut rng, ctx.n(400, 8000)); }
    eprintln!("C10 part A: {:?}", t.elapsed());
    laws_eqsat(&mut rep, &mut rng, ctx.n(150, 3000));
    eprintln!("C10 total: {:?}", t.elapsed());
    rep
}
