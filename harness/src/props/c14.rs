//! C14 — containers of e-classes stay canonical and keep rules firing.
//! Holders `(HV vec) (HS set) (HM multiset) (HP pair) (HMap map) (HVS vec-of-sets)` over element
//! constants; union sequences on the elements; rules matching through the containers.
//! Oracle 1 (the property, directly): a reference union-find in the harness + the Lean-proved
//! normal forms (C14_vec / C14_set / C14_mset) say which holders must be equal, how many rows each
//! holder table must have and which holders a rule must have marked; compared with the engine
//! after every step.  Oracle 2: semi-naive vs naive engine.  Oracle 3: 1 vs 4 threads (parallel
//! container rebuild, cut-offs 0).
use crate::{engine, lean::run_driver, report::Report, rng::Rng, Ctx};
use egglog::EGraph;
use serde_json::json;
use std::collections::{BTreeMap, BTreeSet};

const HDR: &str = "(datatype E (A) (B) (C) (D) (K1) (K2))\n(sort VE (Vec E))\n(sort SE (Set E))\n(sort MSE (MultiSet E))\n(sort PE (Pair E E))\n(sort ME (Map E E))\n(sort VS (Vec SE))\n(sort VVS (Vec VS))\n\
(constructor HV (VE) E)\n(constructor HS (SE) E)\n(constructor HM (MSE) E)\n(constructor HP (PE) E)\n(constructor HMap (ME) E)\n(constructor HVS (VS) E)\n(constructor HVV (VVS) E)\n\
(relation SeenS (E))\n(relation SeenV (E))\n(relation SeenM (E))\n(relation SeenN (E))\n(relation SeenD (E))\n(ruleset r)\n\
(rule ((= h (HS s)) (set-contains s (A))) ((SeenS h)) :ruleset r)\n\
(rule ((= h (HV v)) (vec-contains v (A))) ((SeenV h)) :ruleset r)\n\
(rule ((= h (HM m)) (multiset-contains m (A))) ((SeenM h)) :ruleset r)\n\
(rule ((= h (HVS v)) (> (vec-length v) 0) (= s (vec-get v 0)) (set-contains s (A))) ((SeenN h)) :ruleset r)\n\
(rule ((= h (HVV vv)) (> (vec-length vv) 0) (= v (vec-get vv 0)) (> (vec-length v) 0) (= s (vec-get v 0)) (set-contains s (A))) ((SeenD h)) :ruleset r)\n\
(A)\n(B)\n(C)\n(D)\n(K1)\n(K2)\n";

const ELS: [&str; 4] = ["(A)", "(B)", "(C)", "(D)"];

#[derive(Clone, Debug, Hash, PartialEq, Eq, PartialOrd, Ord)]
enum Cont { Vec(Vec<usize>), Set(Vec<usize>), MSet(Vec<usize>), Pair(usize, usize), Map(Vec<(usize, usize)>), VecSet(Vec<Vec<usize>>), VecVecSet(Vec<Vec<Vec<usize>>>) }

fn els(v: &[usize]) -> String { v.iter().map(|i| ELS[*i]).collect::<Vec<_>>().join(" ") }
fn set_text(v: &[usize]) -> String { if v.is_empty() { "(set-empty)".into() } else { format!("(set-of {})", els(v)) } }

impl Cont {
    fn text(&self) -> String {
        match self {
            Cont::Vec(v) => format!("(HV (vec-of {}))", els(v)), Cont::Set(v) => format!("(HS {})", set_text(v)), Cont::MSet(v) => format!("(HM (multiset-of {}))", els(v)),
            Cont::Pair(a, b) => format!("(HP (pair {} {}))", ELS[*a], ELS[*b]),
            Cont::Map(kv) => { let mut s = "(map-empty)".to_string(); for (k, v) in kv { s = format!("(map-insert {s} (K{}) {})", k + 1, ELS[*v]); } format!("(HMap {s})") }
            Cont::VecSet(vs) => format!("(HVS (vec-of {}))", vs.iter().map(|s| set_text(s)).collect::<Vec<_>>().join(" ")),
            Cont::VecVecSet(vvs) => format!("(HVV (vec-of {}))", vvs.iter().map(|vs| format!("(vec-of {})", vs.iter().map(|s| set_text(s)).collect::<Vec<_>>().join(" "))).collect::<Vec<_>>().join(" ")),
        }
    }
    /// normal form under `find` (C14_vec / C14_set / C14_mset; nested by induction on depth)
    fn norm(&self, f: &[usize]) -> Cont {
        let set = |v: &Vec<usize>| { let b: BTreeSet<usize> = v.iter().map(|i| f[*i]).collect(); b.into_iter().collect::<Vec<_>>() };
        match self {
            Cont::Vec(v) => Cont::Vec(v.iter().map(|i| f[*i]).collect()), Cont::Set(v) => Cont::Set(set(v)),
            Cont::MSet(v) => { let mut w: Vec<usize> = v.iter().map(|i| f[*i]).collect(); w.sort(); Cont::MSet(w) }
            Cont::Pair(a, b) => Cont::Pair(f[*a], f[*b]),
            Cont::Map(kv) => { let m: BTreeMap<usize, usize> = kv.iter().map(|(k, v)| (*k, f[*v])).collect(); Cont::Map(m.into_iter().collect()) }
            Cont::VecSet(vs) => Cont::VecSet(vs.iter().map(set).collect()),
            Cont::VecVecSet(vvs) => Cont::VecVecSet(vvs.iter().map(|vs| vs.iter().map(set).collect()).collect()),
        }
    }
    fn kind(&self) -> &'static str { match self { Cont::Vec(_) => "HV", Cont::Set(_) => "HS", Cont::MSet(_) => "HM", Cont::Pair(..) => "HP", Cont::Map(_) => "HMap", Cont::VecSet(_) => "HVS", Cont::VecVecSet(_) => "HVV" } }
    fn contains_a(&self, f: &[usize]) -> bool { match self { Cont::Vec(v) | Cont::Set(v) | Cont::MSet(v) => v.iter().any(|i| f[*i] == f[0]), Cont::VecSet(vs) => vs.first().map_or(false, |s| s.iter().any(|i| f[*i] == f[0])), Cont::VecVecSet(vvs) => vvs.first().and_then(|vs| vs.first()).map_or(false, |s| s.iter().any(|i| f[*i] == f[0])), _ => false } }
}

fn gen_cont(rng: &mut Rng) -> Cont {
    let v = |rng: &mut Rng| (0..1 + rng.below(3)).map(|_| rng.below(4)).collect::<Vec<usize>>();
    match rng.below(8) { 7 => Cont::VecVecSet((0..1 + rng.below(2)).map(|_| (0..1 + rng.below(2)).map(|_| v(rng)).collect()).collect()), 0 | 1 => Cont::Vec(v(rng)), 2 | 3 => Cont::Set(v(rng)), 4 => Cont::MSet(v(rng)), 5 => if rng.chance(1, 2) { Cont::Pair(rng.below(4), rng.below(4)) } else { let n = 1 + rng.below(2); Cont::Map((0..n).map(|k| (k, rng.below(4))).collect()) }, _ => Cont::VecSet((0..1 + rng.below(2)).map(|_| v(rng)).collect()) }
}

#[derive(Clone, Debug, Hash)]
enum Step { Add(Cont), Union(usize, usize), Run }

fn step_text(s: &Step) -> String { match s { Step::Add(c) => c.text(), Step::Union(a, b) => format!("(union {} {})", ELS[*a], ELS[*b]), Step::Run => "(run r 2)".into() } }

pub fn run(ctx: &Ctx) -> Report {
    let mut rep = Report::new("C14", "holders of Vec / Set / MultiSet / Pair / Map (keys never unioned) / Vec-of-Set over four element constants; random sequences of holder insertions, unions of elements and runs of rules matching through the containers; after every step: holder equalities, holder table sizes and rule marks against the reference normal forms, semi-naive against naive, 1 thread against 4. non-trivial = a union that makes two distinct containers equal or collapses set/multiset elements (distinct by history)");
    let mut rng = Rng::new(ctx.seed ^ 0xC14);
    // the dirty-id closure of container rebuilds, on the real ContainerValues (C14_closure_*)
    closure_stream(&mut rep, &mut rng, ctx.n(400, 6000));
    let mut lean_lines = vec![]; let mut lean_expect = vec![];
    // small e-graphs (non-incremental container rebuild) and e-graphs with > 1000 containers of each kind
    // (incremental rebuild driven by the reverse index contained-id -> containers)
    cases(&mut rep, &mut rng, ctx.n(120, 2500), None, &mut lean_lines, &mut lean_expect);
    {
        const FILL: usize = 1100;
        let mut base = EGraph::default();
        let filler = format!("(constructor Fi (i64) E)\n(relation dd (i64))\n{}\n(rule ((dd x)) ((HV (vec-of (Fi x))) (HS (set-of (Fi x))) (HM (multiset-of (Fi x) (Fi x)))))\n(run 1)\n", (0..FILL).map(|i| format!("(dd {i})")).collect::<Vec<_>>().join(" "));
        if engine::run(&mut base, &(HDR.to_string() + &filler)).is_ok() && base.get_size("HV") == FILL {
            cases(&mut rep, &mut rng, ctx.n(40, 160), Some((&base, FILL, filler.clone())), &mut lean_lines, &mut lean_expect);
        } else { rep.violate("correspondence", "c14-setup", "large-container setup failed".into(), json!({})); }
    }
    match run_driver(&lean_lines) {
        Err(e) => rep.violate("correspondence", "driver-failure", e, json!({})),
        Ok(m) => for (i, w) in lean_expect.iter().enumerate() { rep.traces_vs_model += 1; if &m[i] != w { rep.violate("correspondence", "c14-model-mismatch", format!("Lean normSet `{}` vs reference `{w}` for `{}`", m[i], lean_lines[i]), json!({})); } }
    }
    rep
}

/// the large-container stream alone, for C04 ("every id stored inside a container is canonical, equal container
/// contents share one container id" when control returns): > 1000 containers per kind, so the incremental rebuild runs
pub fn large_container_stream(rep: &mut Report, rng: &mut Rng, n: usize) {
    const FILL: usize = 1100;
    let mut base = EGraph::default();
    let filler = format!("(constructor Fi (i64) E)\n(relation dd (i64))\n{}\n(rule ((dd x)) ((HV (vec-of (Fi x))) (HS (set-of (Fi x))) (HM (multiset-of (Fi x) (Fi x)))))\n(run 1)\n", (0..FILL).map(|i| format!("(dd {i})")).collect::<Vec<_>>().join(" "));
    if engine::run(&mut base, &(HDR.to_string() + &filler)).is_ok() && base.get_size("HV") == FILL {
        let (mut a, mut b) = (vec![], vec![]);
        cases(rep, rng, n, Some((&base, FILL, filler.clone())), &mut a, &mut b);
    } else { rep.violate("correspondence", "setup", "large-container setup failed".into(), json!({})); }
}

fn cases(rep: &mut Report, rng: &mut Rng, n: usize, big: Option<(&EGraph, usize, String)>, lean_lines: &mut Vec<String>, lean_expect: &mut Vec<String>) {
    let fill = big.as_ref().map(|b| b.1).unwrap_or(0);
    let seq_base: EGraph = match &big { None => { let mut a = EGraph::default(); engine::run(&mut a, HDR); a } Some((base, _, _)) => (*base).clone() };
    let par_base: EGraph = seq_base.clone().with_num_threads(4);
    for ci in 0..n {
        let nsteps = 3 + rng.below(8);
        let mut steps = vec![];
        for _ in 0..(3 + rng.below(4)) { steps.push(Step::Add(gen_cont(rng))); }
        if big.is_some() && ci % 2 == 0 {
            // chained collapses: singleton / pair containers over every element in both creation orders, then a chain of
            // unions in which the representative of the growing class changes — the merged container must be rewritten
            // again through the reverse index (contained id -> containers) at each link of the chain
            let mut order: Vec<usize> = (0..4).collect(); for i in (1..4).rev() { order.swap(i, rng.below(i + 1)); }
            for &x in &order { steps.push(Step::Add(match rng.below(3) { 0 => Cont::Vec(vec![x]), 1 => Cont::Set(vec![x]), _ => Cont::MSet(vec![x, x]) })); steps.push(Step::Add(Cont::Vec(vec![x]))); }
            let mut chain: Vec<usize> = (0..4).collect(); for i in (1..4).rev() { chain.swap(i, rng.below(i + 1)); }
            for w in chain.windows(2) { steps.push(Step::Union(w[0], w[1])); if rng.chance(1, 3) { steps.push(Step::Run); } }
        }
        for _ in 0..nsteps { steps.push(match rng.below(10) { 0..=2 => Step::Add(gen_cont(rng)), 3..=7 => Step::Union(rng.below(4), rng.below(4)), _ => Step::Run }); }
        steps.push(Step::Run);
        rep.evaluations += 1;
        // one 4-thread engine per stream, cloned per case: `with_num_threads` builds a thread pool, and a pool per
        // case (thousands in the thorough tier) keeps its threads' memory pools alive
        let (mut semi, mut naive, mut par) = (seq_base.clone(), seq_base.clone(), par_base.clone());
        naive.seminaive = false;
        let mut f: Vec<usize> = (0..4).collect();
        let mut holders: Vec<Cont> = vec![];
        let mut marked: BTreeSet<Cont> = BTreeSet::new(); // normal forms of holders marked by a run so far
        let mut prog = String::from(HDR) + big.as_ref().map(|b| b.2.as_str()).unwrap_or("");
        let mut nontrivial = false;
        for (si, st) in steps.iter().enumerate() {
            let t = step_text(st);
            prog.push_str(&t); prog.push('\n');
            let os: Vec<engine::Outcome> = [&mut semi, &mut naive, &mut par].into_iter().map(|e| engine::run(e, &t)).collect();
            let pj = || json!({"program": prog.clone()});
            if let Some(bad) = os.iter().find(|o| !o.is_ok()) { rep.violate("property", &format!("{}-step-failed", rep.property.to_lowercase()), format!("step {si} `{t}` failed: {bad:?}"), pj()); break; }
            match st {
                Step::Add(c) => holders.push(c.clone()),
                Step::Union(a, b) => { let (x, y) = (f[*a], f[*b]); if x != y { let before: BTreeSet<Cont> = holders.iter().map(|h| h.norm(&f)).collect(); let (mn, mx) = (x.min(y), x.max(y)); for v in f.iter_mut() { if *v == mx { *v = mn; } } let after: BTreeSet<Cont> = holders.iter().map(|h| h.norm(&f)).collect(); if after.len() < before.len() { nontrivial = true; } } marked = marked.iter().map(|m| m.norm(&f)).collect(); }
                Step::Run => { for h in &holders { if h.contains_a(&f) { marked.insert(h.norm(&f)); } } }
            }
            // expected observations
            let mut sizes: BTreeMap<&str, BTreeSet<Cont>> = BTreeMap::new();
            for h in &holders { sizes.entry(h.kind()).or_default().insert(h.norm(&f)); }
            let mut bad = None;
            for (ename, eg) in [("semi-naive", &mut semi), ("naive", &mut naive), ("4 threads", &mut par)] {
                for k in ["HV", "HS", "HM", "HP", "HMap", "HVS", "HVV"] {
                    let want = sizes.get(k).map(|s| s.len()).unwrap_or(0) + if ["HV", "HS", "HM"].contains(&k) { fill } else { 0 };
                    let got = eg.get_size(k);
                    if got != want { bad = Some((ename, format!("table {k} has {got} rows, {want} distinct containers modulo the current equalities"))); }
                }
                if bad.is_some() { break; }
                // pairwise holder equalities (sampled)
                for i in 0..holders.len() { for j in (i + 1)..holders.len() {
                    if holders[i].kind() != holders[j].kind() || (i + j + ci) % 2 == 1 { continue; }
                    let want = holders[i].norm(&f) == holders[j].norm(&f);
                    let got = engine::run(eg, &format!("(check (= {} {}))", holders[i].text(), holders[j].text())).is_ok();
                    if got != want { bad = Some((ename, format!("(= {} {}) is {got}, expected {want}", holders[i].text(), holders[j].text()))); }
                } }
                // rule marks
                for h in &holders { let rel = match h { Cont::Vec(_) => "SeenV", Cont::Set(_) => "SeenS", Cont::MSet(_) => "SeenM", Cont::VecSet(_) => "SeenN", Cont::VecVecSet(_) => "SeenD", _ => continue };
                    let want = marked.contains(&h.norm(&f));
                    let got = engine::run(eg, &format!("(check ({rel} {}))", h.text())).is_ok();
                    if got != want { bad = Some((ename, format!("({rel} {}) is {got}, expected {want} (rule matching through the container)", h.text()))); } }
                if let Some(d) = engine::dump_defects(&engine::raw_dump(eg)) { bad = Some((ename, d)); }
                if bad.is_some() { break; }
            }
            if let Some((ename, what)) = bad {
                let sig = format!("{}-{}", rep.property.to_lowercase(), match ename { "naive" => "naive-wrong", "4 threads" => "parallel-container-rebuild", _ => "container-not-canonical" });
                rep.violate("property", &sig, format!("[{ename}] after step {si} `{t}`: {what}"), pj());
                break;
            }
        }
        if nontrivial { rep.note_nontrivial(&steps); }
        if ci < 2 { rep.sample(json!(prog)); }
        // the Lean normal forms agree with the harness's reference normal forms (sets)
        for h in holders.iter().take(3) { if let Cont::Set(v) = h {
            lean_lines.push(format!("cn set {} | {}", f.iter().map(|x| x.to_string()).collect::<Vec<_>>().join(" "), v.iter().map(|x| x.to_string()).collect::<Vec<_>>().join(" ")));
            if let Cont::Set(w) = h.norm(&f) { lean_expect.push(w.iter().map(|x| x.to_string()).collect::<Vec<_>>().join(" ")); }
        } }
    }
}

// ------------------------------------------------------------------------------------------------
// the dirty-id closure of a container rebuild, on the real `ContainerValues` (core-relations)
// ------------------------------------------------------------------------------------------------

#[derive(Hash, PartialEq, Eq, Clone, Debug)]
struct VC(Vec<egglog_core_relations::Value>);
impl egglog_core_relations::ContainerValue for VC {
    fn rebuild_contents(&mut self, rebuilder: &dyn egglog_core_relations::ValueRebuilder) -> bool { rebuilder.rebuild_slice(&mut self.0) }
    fn iter(&self) -> impl Iterator<Item = egglog_core_relations::Value> + '_ { self.0.iter().copied() }
}

/// Containers nested up to five deep over a handful of base ids, registered in a real `Database`; unions of base ids
/// go into a `DisplacedTable`; `rebuild_containers` rewrites the containers and reports the dirty ids.  Checked:
///  * every container that kept its id and changed its contents is reported (`direct`);
///  * the reported set is closed under "is contained in" — at every depth — read from the containers as they are
///    after the rebuild (`for_each`);
///  * the Lean model of the worklist loop (theorems C14_closure_exact / _closed / _total), run on the same
///    containment edges and the directly changed ids, returns a set that is contained in the reported one
///    (the reported one may be larger: the content index `val_index` keeps entries of former contents).
pub fn closure_stream(rep: &mut Report, rng: &mut Rng, n: usize) {
    use egglog_core_relations::{Database, DisplacedTable, Value};
    use egglog_numeric_id::NumericId;
    use std::panic::{catch_unwind, AssertUnwindSafe};
    let mut lean_lines: Vec<String> = vec![]; let mut lean_want: Vec<(BTreeSet<u32>, BTreeSet<u32>, String)> = vec![];
    // hash-cons table before / after every rebuild pass, for the Lean `rebuildPass` (C14_rebuild_*)
    let mut hc_lines: Vec<String> = vec![]; let mut hc_want: Vec<(String, String)> = vec![];
    for case in 0..n {
        let nbase = 3 + rng.below(5); let depth = 1 + rng.below(5); let per = 1 + rng.below(4); let rounds = 1 + rng.below(3);
        let seed_case = rng.next();
        let res = catch_unwind(AssertUnwindSafe(|| -> Result<Vec<(String, BTreeSet<u32>, BTreeSet<u32>, String, String, String)>, String> {
            let mut rng = Rng::new(seed_case);
            let mut out = vec![];
            let mut db = Database::new();
            let uf = db.add_table(DisplacedTable::default(), std::iter::empty(), std::iter::empty());
            let counter = db.add_counter();
            // timestamps of the union-find rows must not decrease: the merge function stamps with the current one
            let now = std::sync::Arc::new(std::sync::atomic::AtomicU32::new(0)); let now2 = now.clone();
            // merge-function calls on two different ids (the unions a pass asks for), counted for the hash-cons model
            let merges = std::sync::Arc::new(std::sync::atomic::AtomicUsize::new(0)); let merges2 = merges.clone();
            db.container_values_mut().register_type::<VC>(counter, move |st: &mut egglog_core_relations::ExecutionState, a: Value, b: Value| {
                // two containers became equal: keep the smaller id and tell the union-find
                let (mn, mx) = if a.rep() <= b.rep() { (a, b) } else { (b, a) };
                if mn != mx { merges2.fetch_add(1, std::sync::atomic::Ordering::SeqCst); st.stage_insert(uf, &[mx, mn, Value::new(now2.load(std::sync::atomic::Ordering::SeqCst))]); }
                mn
            });
            let base: Vec<Value> = (0..nbase).map(|_| Value::from_usize(db.inc_counter(counter))).collect();
            let mut hist = format!("base ids {:?}; ", base.iter().map(|b| b.rep()).collect::<Vec<_>>());
            // levels of containers: level k mixes ids of level k-1 (at least one) with base ids
            let mut prev: Vec<Value> = base.clone();
            for lvl in 0..depth {
                let mut cur = vec![];
                for _ in 0..per {
                    let len = 1 + rng.below(3);
                    let mut items: Vec<Value> = vec![prev[rng.below(prev.len())]];
                    for _ in 1..len { items.push(if rng.chance(1, 2) { prev[rng.below(prev.len())] } else { base[rng.below(base.len())] }); }
                    let id = db.with_execution_state(None, |es| db.container_values().register_val(VC(items.clone()), es));
                    hist.push_str(&format!("L{} #{}={:?}; ", lvl + 1, id.rep(), items.iter().map(|x| x.rep()).collect::<Vec<_>>()));
                    cur.push(id);
                }
                prev = cur;
            }
            db.merge_all();
            let snapshot = |db: &Database| -> BTreeMap<u32, Vec<u32>> { let mut m = BTreeMap::new(); db.container_values().for_each::<VC>(|c, id| { m.insert(id.rep(), c.0.iter().map(|x| x.rep()).collect()); }); m };
            let mut ts = 1u32;
            for _ in 0..rounds {
                let k = 1 + rng.below(2);
                { let mut buf = db.new_buffer(uf); for _ in 0..k { let (a, b) = (base[rng.below(base.len())], base[rng.below(base.len())]); if a != b { let (mn, mx) = if a.rep() <= b.rep() { (a, b) } else { (b, a) }; buf.stage_insert(&[mx, mn, Value::new(ts)]); hist.push_str(&format!("union {} {}; ", mx.rep(), mn.rep())); } } }
                now.store(ts, std::sync::atomic::Ordering::SeqCst);
                ts += 1;
                db.merge_all();
                // rebuild until nothing changes, as the e-graph does; every single rebuild is checked
                for _pass in 0..8 {
                    let before = snapshot(&db);
                    // the canonical id of every id the table mentions, read from the union-find table itself
                    let show_tab = |m: &BTreeMap<u32, Vec<u32>>| -> String { if m.is_empty() { "-".into() } else { m.iter().map(|(id, c)| format!("{id}:{}", c.iter().map(|x| x.to_string()).collect::<Vec<_>>().join("."))).collect::<Vec<_>>().join(";") } };
                    let mentioned: BTreeSet<u32> = before.values().flatten().copied().collect();
                    let finds: Vec<String> = mentioned.iter().filter_map(|x| db.get_table(uf).get_row(&[Value::new(*x)]).map(|r| format!("{x}>{}", r.vals[1].rep()))).collect();
                    // precondition of the model: no id OF a stored container is itself displaced (the model does not
                    // rewrite the entry's own id, `rebuild_val(old_val)`; the loser of a merge leaves the table in the same pass)
                    let ids_canonical = before.keys().all(|id| db.get_table(uf).get_row(&[Value::new(*id)]).is_none());
                    let hc_line = if !ids_canonical { "skip".to_string() } else { format!("hc rebuild {} {}", if finds.is_empty() { "-".into() } else { finds.join(",") }, show_tab(&before)) };
                    let merges_before = merges.load(std::sync::atomic::Ordering::SeqCst);
                    let summary = db.rebuild_containers(uf);
                    db.merge_all();
                    let after = snapshot(&db);
                    let dirty: BTreeSet<u32> = summary.dirty_ids().iter().map(|x| x.rep()).collect();
                    let direct: BTreeSet<u32> = after.iter().filter(|(id, c)| before.get(id).is_some_and(|b| b != *c)).map(|(id, _)| *id).collect();
                    hist.push_str(&format!("rebuild -> dirty {dirty:?}; "));
                    if let Some(m) = direct.iter().find(|d| !dirty.contains(d)) { return Err(format!("container #{m} kept its id and changed its contents ({:?} -> {:?}) but is not reported dirty {dirty:?} | {hist}", before[m], after[m])); }
                    for (id, c) in &after { if c.iter().any(|x| dirty.contains(x)) && !dirty.contains(id) { return Err(format!("container #{id} = {c:?} holds a dirty id but is not itself reported dirty {dirty:?}: the closure stopped short | {hist}")); } }
                    let edges: Vec<String> = after.iter().flat_map(|(id, c)| { let mut cs: Vec<u32> = c.clone(); cs.sort(); cs.dedup(); cs.into_iter().map(move |x| format!("{x}>{id}")) }).collect();
                    let line = format!("cl close {} {} {}", after.len() + nbase + 2, if edges.is_empty() { "-".into() } else { edges.join(",") }, if direct.is_empty() { "-".into() } else { direct.iter().map(|x| x.to_string()).collect::<Vec<_>>().join(",") });
                    out.push((line, direct.clone(), dirty.clone(), hist.clone(), hc_line, format!("{} {}", show_tab(&after), merges.load(std::sync::atomic::Ordering::SeqCst) - merges_before)));
                    if !summary.changed() { break; }
                }
            }
            Ok(out)
        }));
        rep.evaluations += 1;
        match res {
            Err(e) => rep.violate("property", "c14-closure-panic", format!("container rebuild panicked (case {case}): {}", e.downcast_ref::<String>().cloned().or_else(|| e.downcast_ref::<&str>().map(|s| s.to_string())).unwrap_or_default()), json!({"case_seed": seed_case, "nbase": nbase, "depth": depth, "per": per, "rounds": rounds})),
            Ok(Err(what)) => rep.violate("property", "c14-dirty-closure-incomplete", what, json!({"case_seed": seed_case, "nbase": nbase, "depth": depth, "per": per, "rounds": rounds})),
            Ok(Ok(items)) => for (line, direct, dirty, hist, hc_line, hc_after) in items {
                hc_lines.push(hc_line); hc_want.push((hc_after, hist.clone()));
                if !direct.is_empty() && depth >= 3 && dirty.len() > direct.len() + 1 { rep.note_nontrivial(&(&hist, "deep")); }
                if !direct.is_empty() { rep.count("closure_rebuilds_with_in_place_changes", 1); }
                if dirty.len() > direct.len() { rep.count("closure_rebuilds_with_ancestors_added", 1); }
                lean_lines.push(line); lean_want.push((direct, dirty, hist));
            },
        }
    }
    // the real table after the pass must be the model's `rebuildPass` of the table before it
    match run_driver(&hc_lines) {
        Err(e) => rep.violate("correspondence", "driver-failure", e, json!({})),
        Ok(m) => for (i, (after, hist)) in hc_want.iter().enumerate() {
            if hc_lines[i] == "skip" { rep.count("hashcons_pass_skipped(displaced container id: outside the model's precondition)", 1); continue; }
            rep.traces_vs_model += 1;
            let mut parts = m[i].split(' ');
            let (tab, unions) = (parts.next().unwrap_or(""), parts.next().and_then(|x| x.parse::<usize>().ok()).unwrap_or(0));
            let (after, real_unions) = { let mut p = after.split(' '); (p.next().unwrap_or(""), p.next().and_then(|x| x.parse::<usize>().ok()).unwrap_or(usize::MAX)) };
            if tab == after && unions != real_unions { rep.violate("correspondence", "c14-hashcons-union-count-differs", format!("during `{}` the merge function was called on {real_unions} pairs of different ids, the Lean rebuildPass emits {unions} unions (C14_rebuild_unions_sound)", hc_lines[i]), json!({"history": hist, "line": hc_lines[i]})); }
            if tab != after { rep.violate("correspondence", "c14-hashcons-rebuild-differs", format!("after `{}` the container table is `{after}`, the Lean rebuildPass (C14_rebuild_hashcons / _present / _unions_sound) gives `{tab}`", hc_lines[i]), json!({"history": hist, "line": hc_lines[i]})); }
            else { rep.count("hashcons_rebuild_equal_to_model", 1); if unions > 0 { rep.count("hashcons_rebuilds_with_merged_containers", 1); } }
        }
    }
    match run_driver(&lean_lines) {
        Err(e) => rep.violate("correspondence", "driver-failure", e, json!({})),
        Ok(m) => for (i, (direct, dirty, hist)) in lean_want.iter().enumerate() {
            rep.traces_vs_model += 1;
            if m[i] == "none" || m[i] == "bad-op" { rep.violate("correspondence", "c14-closure-model-failed", format!("the Lean closure returned `{}` for `{}`", m[i], lean_lines[i]), json!({"history": hist})); continue; }
            let model: BTreeSet<u32> = m[i].split(',').filter(|x| !x.is_empty()).filter_map(|x| x.parse().ok()).collect();
            if let Some(x) = model.iter().find(|x| !dirty.contains(x)) { rep.violate("property", "c14-dirty-closure-incomplete", format!("id {x} is an ancestor of the in-place changed containers {direct:?} (Lean closure {model:?}, C14_closure_exact) but the rebuild reported only {dirty:?}"), json!({"history": hist, "line": lean_lines[i]})); }
            else if &model == dirty { rep.count("closure_equal_to_model", 1); } else { rep.count("closure_superset_of_model(stale content index)", 1); }
        }
    }
}
