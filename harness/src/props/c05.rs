//! C05 — a function's value is the merge of everything ever written to its key.
//!
//! Generated histories: a lattice function over an eq-sort key (so unions can collapse keys),
//! a multiset of writes, permuted and cut into rounds; each round is delivered either by
//! top-level `set`s (serial path), or through a relation + one rule iteration (one staged batch),
//! on an engine with 1 thread (serial_insert) or 4 threads with all parallel cut-offs at 0
//! (parallel_insert / parallel rebuild).  After every round the stored value of every key is
//! compared with (a) the fold of the merge over all writes to keys of its class (the property,
//! evaluated directly) and (b) the Lean model running the same batches on the same paths.
use crate::{engine, lean::run_driver, report::Report, rng::Rng, Ctx};
use egglog::EGraph;
use serde_json::json;

#[derive(Clone, Copy, Debug, PartialEq, Eq, Hash)]
pub enum Kind { Min, Max, BoolOr, BoolAnd, SetUnion, SetInter }

impl Kind {
    fn all() -> [Kind; 6] { [Kind::Min, Kind::Max, Kind::BoolOr, Kind::BoolAnd, Kind::SetUnion, Kind::SetInter] }
    fn model(&self) -> &'static str { match self { Kind::Min => "min", Kind::Max => "max", Kind::BoolOr | Kind::SetUnion => "or", Kind::BoolAnd | Kind::SetInter => "and" } }
    fn sort(&self) -> &'static str { match self { Kind::Min | Kind::Max => "i64", Kind::BoolOr | Kind::BoolAnd => "bool", _ => "ISet" } }
    fn merge(&self) -> &'static str {
        match self { Kind::Min => "(min old new)", Kind::Max => "(max old new)", Kind::BoolOr => "(or old new)", Kind::BoolAnd => "(and old new)",
                     Kind::SetUnion => "(set-union old new)", Kind::SetInter => "(set-intersect old new)" }
    }
    fn genv(&self, r: &mut Rng) -> i64 {
        match self { Kind::Min | Kind::Max => r.range(-20, 20), Kind::BoolOr | Kind::BoolAnd => r.range(0, 1), _ => r.range(0, 31) }
    }
    /// value as egglog text (sets are bitsets over 0..4)
    fn lit(&self, v: i64) -> String {
        match self {
            Kind::Min | Kind::Max => v.to_string(),
            Kind::BoolOr | Kind::BoolAnd => (if v != 0 { "true" } else { "false" }).to_string(),
            _ => { let els: Vec<String> = (0..5).filter(|b| v >> b & 1 == 1).map(|b| b.to_string()).collect();
                   if els.is_empty() { "(set-empty)".into() } else { format!("(set-of {})", els.join(" ")) } }
        }
    }
    fn parse(&self, s: &str) -> Option<i64> {
        let s = s.trim();
        match self {
            Kind::Min | Kind::Max => s.parse().ok(),
            Kind::BoolOr | Kind::BoolAnd => match s { "true" => Some(1), "false" => Some(0), _ => None },
            _ => { if !s.starts_with("(set-") { return None; }
                   let mut v = 0i64; for tok in s.trim_matches(|c| c == '(' || c == ')').split_whitespace().skip(1) { v |= 1 << tok.parse::<i64>().ok()?; } Some(v) }
        }
    }
    fn apply(&self, a: i64, b: i64) -> i64 { match self { Kind::Min => a.min(b), Kind::Max => a.max(b), Kind::BoolOr | Kind::SetUnion => a | b, _ => a & b } }
}

#[derive(Clone, Debug, Hash)]
pub enum Round { Direct(Vec<(usize, i64)>), Batch(Vec<(usize, i64)>), Union(usize, usize) }

#[derive(Clone, Debug, Hash)]
pub struct Case { pub kind: Kind, pub nkeys: usize, pub rounds: Vec<Round>, pub threads: usize }

pub fn header(kind: Kind, nkeys: usize) -> String {
    let ctors: Vec<String> = (0..nkeys).map(|i| format!("(K{i})")).collect();
    format!("(datatype K {})\n(sort ISet (Set i64))\n(function f (K) {} :merge {})\n(relation W (i64 K {}))\n(ruleset r)\n(rule ((W b k v)) ((set (f k) v)) :ruleset r)\n",
        ctors.join(" "), kind.sort(), kind.merge(), kind.sort()) + &(0..nkeys).map(|i| format!("(K{i})\n")).collect::<String>()
}

pub fn round_text(kind: Kind, i: usize, r: &Round) -> String {
    match r {
        Round::Direct(ws) => ws.iter().map(|(k, v)| format!("(set (f (K{k})) {})\n", kind.lit(*v))).collect(),
        Round::Batch(ws) => ws.iter().map(|(k, v)| format!("(W {i} (K{k}) {})\n", kind.lit(*v))).collect::<String>() + "(run r 1)\n",
        Round::Union(a, b) => format!("(union (K{a}) (K{b}))\n"),
    }
}

fn read_values(eg: &mut EGraph, kind: Kind, nkeys: usize) -> Vec<Option<i64>> {
    (0..nkeys).map(|k| {
        match engine::run_outputs(eg, &format!("(extract (f (K{k})))")) {
            Ok(outs) => outs.first().and_then(|o| kind.parse(&o.to_string())),
            Err(_) => None,
        }
    }).collect()
}

/// run one case on the real engine; returns per-round value vectors, or an error outcome
pub fn run_case(c: &Case) -> Result<Vec<Vec<Option<i64>>>, String> {
    let mut eg = EGraph::default().with_num_threads(c.threads);
    let o = engine::run(&mut eg, &header(c.kind, c.nkeys));
    if !o.is_ok() { return Err(format!("header rejected: {o:?}")); }
    let mut res = vec![];
    for (i, r) in c.rounds.iter().enumerate() {
        let o = engine::run(&mut eg, &round_text(c.kind, i, r));
        if !o.is_ok() { return Err(format!("round {i} failed: {o:?}")); }
        res.push(read_values(&mut eg, c.kind, c.nkeys));
    }
    Ok(res)
}

/// the property itself: per round, expected value of each key = fold over all writes to its class
pub fn spec(c: &Case) -> Vec<Vec<Option<i64>>> {
    let mut cls: Vec<usize> = (0..c.nkeys).collect();
    let mut writes: Vec<(usize, i64)> = vec![];
    let mut out = vec![];
    for r in &c.rounds {
        match r {
            Round::Direct(ws) | Round::Batch(ws) => writes.extend(ws.iter().cloned()),
            Round::Union(a, b) => { let (ca, cb) = (cls[*a], cls[*b]); let (mn, mx) = (ca.min(cb), ca.max(cb)); for x in cls.iter_mut() { if *x == mx { *x = mn; } } }
        }
        out.push((0..c.nkeys).map(|k| {
            let mut acc: Option<i64> = None;
            for (wk, v) in &writes { if cls[*wk] == cls[k] { acc = Some(match acc { None => *v, Some(a) => c.kind.apply(a, *v) }); } }
            acc
        }).collect());
    }
    out
}

/// the same history for the Lean model (keys are class-canonicalised by `rebuild` lines)
fn model_lines(c: &Case) -> (Vec<String>, Vec<usize>) {
    let mut lines = vec![format!("mg new {}", c.kind.model())];
    let mut dump_at = vec![];
    let mut cls: Vec<usize> = (0..c.nkeys).collect();
    for r in &c.rounds {
        match r {
            Round::Direct(ws) => for (k, v) in ws { lines.push(format!("mg batch serial {} {}", cls[*k], v)); },
            Round::Batch(ws) => {
                let path = if c.threads > 1 { "par7".to_string() } else { "serial".to_string() };
                lines.push(format!("mg batch {} {}", path, ws.iter().map(|(k, v)| format!("{} {}", cls[*k], v)).collect::<Vec<_>>().join(" ")));
            }
            Round::Union(a, b) => {
                let (ca, cb) = (cls[*a], cls[*b]); let (mn, mx) = (ca.min(cb), ca.max(cb));
                for x in cls.iter_mut() { if *x == mx { *x = mn; } }
                let canon: Vec<String> = (0..c.nkeys).map(|k| cls[k].to_string()).collect();
                lines.push(format!("mg rebuild {}", canon.join(" ")));
            }
        }
        lines.push("mg dump".into());
        dump_at.push(lines.len() - 1);
    }
    (lines, dump_at)
}

pub fn gen_case(rng: &mut Rng, kind: Kind, threads: usize) -> Case {
    let nkeys = 2 + rng.below(5);
    let nrounds = 1 + rng.below(6);
    let mut rounds = vec![];
    for _ in 0..nrounds {
        let r = rng.below(10);
        if r < 2 && nkeys >= 2 { let a = rng.below(nkeys); let b = rng.below(nkeys); rounds.push(Round::Union(a, b)); }
        else {
            let n = 1 + rng.below(6);
            let ws: Vec<(usize, i64)> = (0..n).map(|_| { let span = 3 + rng.below(3); (rng.below(nkeys.min(span)), kind.genv(rng)) }).collect();
            rounds.push(if r < 5 { Round::Direct(ws) } else { Round::Batch(ws) });
        }
    }
    Case { kind, nkeys, rounds, threads }
}

fn case_json(c: &Case) -> serde_json::Value {
    json!({"kind": format!("{:?}", c.kind), "threads": c.threads, "program": header(c.kind, c.nkeys) + &c.rounds.iter().enumerate().map(|(i, r)| round_text(c.kind, i, r)).collect::<String>()})
}

fn shrink(c: &Case, bad: &dyn Fn(&Case) -> bool) -> Case {
    let mut cur = c.clone();
    loop {
        let mut progress = false;
        for i in 0..cur.rounds.len() {
            let mut t = cur.clone(); t.rounds.remove(i);
            if bad(&t) { cur = t; progress = true; break; }
            if let Round::Direct(ws) | Round::Batch(ws) = &cur.rounds[i] {
                for j in 0..ws.len() {
                    let mut t = cur.clone();
                    if let Round::Direct(w) | Round::Batch(w) = &mut t.rounds[i] { w.remove(j); if w.is_empty() { continue; } }
                    if bad(&t) { cur = t; progress = true; break; }
                }
                if progress { break; }
            }
        }
        if !progress { return cur; }
    }
}

fn violates(c: &Case) -> bool { match run_case(c) { Ok(v) => v != spec(c), Err(_) => true } }

/// `:no-merge`: conflicting writes must raise an error, agreeing writes must not
fn nomerge(rep: &mut Report, rng: &mut Rng, n: usize) {
    for _ in 0..n {
        let threads = if rng.chance(4, 5) { 1 } else { 4 };
        let mut eg = EGraph::default().with_num_threads(threads);
        let hdr = "(datatype K (K0) (K1) (K2))\n(function h (K) i64 :no-merge)\n(relation W (K i64))\n(rule ((W k v)) ((set (h k) v)))\n(K0)\n(K1)\n(K2)\n";
        engine::run(&mut eg, hdr);
        let mut stored: Vec<Option<i64>> = vec![None; 3];
        let mut cls = vec![0usize, 1, 2];
        let mut prog = hdr.to_string();
        for _ in 0..(1 + rng.below(6)) {
            let via_rule = rng.chance(1, 2);
            let (text, expect_err);
            if rng.chance(1, 5) {
                let (a, b) = (rng.below(3), rng.below(3));
                let (ca, cb) = (cls[a], cls[b]);
                expect_err = ca != cb && stored[ca].is_some() && stored[cb].is_some() && stored[ca] != stored[cb];
                text = format!("(union (K{a}) (K{b}))");
                if !expect_err { let (mn, mx) = (ca.min(cb), ca.max(cb)); if stored[mn].is_none() { stored[mn] = stored[mx]; } for x in cls.iter_mut() { if *x == mx { *x = mn; } } }
            } else {
                let k = rng.below(3); let v = rng.range(0, 2);
                expect_err = matches!(stored[cls[k]], Some(o) if o != v);
                text = if via_rule { format!("(W (K{k}) {v})\n(run 1)") } else { format!("(set (h (K{k})) {v})") };
                if !expect_err { stored[cls[k]] = Some(v); }
            }
            prog.push_str(&text); prog.push('\n');
            let o = engine::run(&mut eg, &text);
            rep.evaluations += 1;
            if expect_err { rep.note_nontrivial(&prog); }
            if expect_err && o.is_ok() {
                rep.violate("property", "nomerge-silent", format!(":no-merge function accepted two different values for one key (threads={threads})"), json!({"program": prog, "threads": threads}));
                return;
            }
            if !expect_err && !o.is_ok() {
                rep.violate("property", "nomerge-spurious", format!(":no-merge function raised {o:?} although all writes to the key agree (threads={threads})"), json!({"program": prog, "threads": threads}));
                return;
            }
            if expect_err { break; }
        }
    }
}

pub fn run(ctx: &Ctx) -> Report {
    let mut rep = Report::new("C05", "random histories of writes to a lattice function (min, max, or, and, set-union, set-intersect) over an eq-sort key: rounds of top-level sets / one-iteration rule batches / unions collapsing keys, on 1 thread (serial_insert) and 4 threads with parallel cut-offs 0 (parallel_insert, parallel rebuild); non-trivial = some class of keys received >= 2 writes with >= 2 distinct values (distinct by canonical history); :no-merge histories counted when a conflict is expected");
    let mut rng = Rng::new(ctx.seed ^ 0xC05);
    let n = ctx.n(300, 6000);
    // corpus: minimised past failures run first (defect 1: parallel_insert kept the incoming row)
    let mut cases = vec![
        Case { kind: Kind::SetUnion, nkeys: 2, rounds: vec![Round::Direct(vec![(1, 1)]), Round::Batch(vec![(1, 2)])], threads: 4 },
        Case { kind: Kind::SetInter, nkeys: 3, rounds: vec![Round::Batch(vec![(2, 25)]), Round::Batch(vec![(2, 12)])], threads: 4 },
        Case { kind: Kind::SetUnion, nkeys: 3, rounds: vec![Round::Batch(vec![(0, 1), (1, 2)]), Round::Union(0, 1), Round::Batch(vec![(1, 4)])], threads: 4 },
    ];
    for i in 0..n {
        let kind = Kind::all()[i % 6];
        let threads = if (i / 6) % 5 == 4 { 4 } else { 1 };
        cases.push(gen_case(&mut rng, kind, threads));
    }
    // model side, one driver call
    let mut all_lines = vec![]; let mut spans = vec![];
    for c in &cases { let (l, d) = model_lines(c); spans.push((all_lines.len(), d)); all_lines.extend(l); }
    let model = run_driver(&all_lines);
    if let Err(e) = &model { rep.violate("correspondence", "driver-failure", e.clone(), json!({})); }
    let mut par_cases = 0u64;
    for (ci, c) in cases.iter().enumerate() {
        rep.evaluations += 1;
        if c.threads > 1 { par_cases += 1; }
        let sp = spec(c);
        // non-trivial: a class with two distinct written values
        let mut nontriv = false;
        { let mut seen: std::collections::HashMap<usize, i64> = Default::default();
          for r in &c.rounds { if let Round::Direct(ws) | Round::Batch(ws) = r { for (k, v) in ws { if let Some(o) = seen.insert(*k, *v) { if o != *v { nontriv = true; } } } } } }
        if nontriv { rep.note_nontrivial(c); }
        if ci < 3 { rep.sample(case_json(c)); }
        let got = run_case(c);
        let prop_ok = matches!(&got, Ok(v) if *v == sp);
        if !prop_ok {
            if rep.violations.len() >= 3 { rep.count("further_violating_cases_not_shrunk", 1); continue; }
            let small = shrink(c, &violates);
            let detail = match run_case(&small) { Ok(v) => format!("stored values per round {:?}, fold of the merge over the writes {:?}", v, spec(&small)), Err(e) => e };
            let sig = if small.threads > 1 { "c05-parallel-value" } else { "c05-serial-value" };
            rep.violate("property", sig, format!("{:?} threads={}: {}", small.kind, small.threads, detail), case_json(&small));
            continue;
        }
        if let Ok(m) = &model {
            rep.traces_vs_model += 1;
            let (base, dumps) = &spans[ci];
            for (ri, d) in dumps.iter().enumerate() {
                let line = &m[base + d];
                // model dump is per canonical key
                let mut expect = vec![];
                let mut seen = std::collections::BTreeSet::new();
                // class representative = min key index of class, reconstruct from spec equalities is not needed: compare by value per key
                let mut cls: Vec<usize> = (0..c.nkeys).collect();
                for r in &c.rounds[..=ri] { if let Round::Union(a, b) = r { let (ca, cb) = (cls[*a], cls[*b]); let (mn, mx) = (ca.min(cb), ca.max(cb)); for x in cls.iter_mut() { if *x == mx { *x = mn; } } } }
                for k in 0..c.nkeys { if let Some(v) = sp[ri][k] { if seen.insert(cls[k]) { expect.push(format!("{}={}", cls[k], v)); } } }
                let mut e2 = expect.clone(); e2.sort_by_key(|s| s.split('=').next().unwrap().parse::<usize>().unwrap());
                if *line != e2.join(" ") {
                    rep.violate("correspondence", "c05-model-mismatch", format!("Lean Merge model (theorem C05_value) disagrees with the implementation after round {ri}: model `{line}`, implementation `{}`", e2.join(" ")), case_json(c));
                    break;
                }
            }
        }
    }
    rep.count("cases_on_parallel_path", par_cases);
    nomerge(&mut rep, &mut rng, ctx.n(120, 2000));
    rep
}
