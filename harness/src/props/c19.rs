//! C19 — thread pool, read-optimised lock, concurrent vector / parallel writer.
//! Seeded scenarios on the real crates with per-task execution counters, torn-update detectors and
//! a watchdog; every scope history (spawn / start / finish / root events in their global order,
//! then "returned") is replayed through the Lean scope model (`Scope.run`, theorems C19_inv /
//! C19_done / C19_terminal): each event must be enabled and the scope may only have returned in a
//! state where the model allows it.
use crate::{lean::run_driver, report::Report, rng::Rng, Ctx};
use egglog_concurrency::{ConcurrentVec, ParallelVecWriter, ReadOptimizedLock, ThreadPool};
use serde_json::json;
use std::sync::atomic::{AtomicBool, AtomicU64, AtomicUsize, Ordering::SeqCst};
use std::sync::{Arc, Mutex};

#[derive(Clone, Debug, Hash)]
struct Node { children: Vec<Node>, panics: bool, nested_scope: Option<Box<Node>>, spin: u32 }

fn gen_tree(rng: &mut Rng, depth: usize, budget: &mut usize) -> Node {
    let mut n = Node { children: vec![], panics: rng.chance(1, 25), nested_scope: None, spin: rng.below(200) as u32 };
    if depth > 0 {
        let k = rng.below(4);
        for _ in 0..k { if *budget == 0 { break; } *budget -= 1; n.children.push(gen_tree(rng, depth - 1, budget)); }
        if rng.chance(1, 6) && *budget > 0 { *budget -= 1; n.nested_scope = Some(Box::new(gen_tree(rng, depth - 1, budget))); }
    }
    n
}

struct Log { ev: Mutex<Vec<&'static str>>, executed: AtomicUsize, spawned: AtomicUsize }

fn run_node<'s>(scope: &egglog_concurrency::Scope<'s>, pool: &'s ThreadPool, node: &'s Node, log: &'s Log) {
    for ch in &node.children {
        log.spawned.fetch_add(1, SeqCst);
        log.ev.lock().unwrap().push("spawn");
        scope.spawn(move |sc| {
            log.ev.lock().unwrap().push("start");
            let r = std::panic::catch_unwind(std::panic::AssertUnwindSafe(|| {
                for _ in 0..ch.spin { std::hint::spin_loop(); }
                run_node(sc, pool, ch, log);
                if let Some(inner) = &ch.nested_scope {
                    // a blocking wait inside a worker: a nested scope on the same pool (its events are not part of
                    // the outer history; it is checked by its own counters)
                    let inner_log = Log { ev: Mutex::new(vec![]), executed: AtomicUsize::new(0), spawned: AtomicUsize::new(0) };
                    let _ = std::panic::catch_unwind(std::panic::AssertUnwindSafe(|| pool.scope(|s2| run_node(s2, pool, inner, &inner_log))));
                    if inner_log.executed.load(SeqCst) != inner_log.spawned.load(SeqCst) { panic!("nested scope returned before its tasks ran"); }
                }
                log.executed.fetch_add(1, SeqCst);
                if ch.panics { panic!("task panic (seeded)"); }
            }));
            log.ev.lock().unwrap().push(if r.is_err() { "finish!" } else { "finish" });
            if let Err(p) = r { std::panic::resume_unwind(p); }
        });
    }
}

fn count(n: &Node) -> (usize, bool) { let mut c = n.children.len(); let mut p = false; for ch in &n.children { let (cc, pp) = count(ch); c += cc; p |= pp || ch.panics; } (c, p) }

fn pool_scenarios(rep: &mut Report, rng: &mut Rng, n: usize) {
    let mut traces: Vec<(String, usize, bool, serde_json::Value)> = vec![];
    for i in 0..n {
        let threads = 1 + rng.below(16);
        let mut budget = 2 + rng.below(40);
        let depth = 1 + rng.below(4); let tree = gen_tree(rng, depth, &mut budget);
        let (ntasks, any_panic) = count(&tree);
        let log = Arc::new(Log { ev: Mutex::new(vec![]), executed: AtomicUsize::new(0), spawned: AtomicUsize::new(0) });
        let done = Arc::new(AtomicBool::new(false));
        let (tree2, log2, done2) = (tree.clone(), log.clone(), done.clone());
        let h = std::thread::spawn(move || {
            let pool = ThreadPool::new(threads);
            let r = std::panic::catch_unwind(std::panic::AssertUnwindSafe(|| {
                pool.scope(|s| { run_node(s, &pool, &tree2, &log2); log2.ev.lock().unwrap().push("root"); });
            }));
            log2.ev.lock().unwrap().push("returned");
            done2.store(true, SeqCst);
            r.is_err()
        });
        // watchdog
        let t0 = std::time::Instant::now();
        while !done.load(SeqCst) && t0.elapsed().as_secs() < 60 { std::thread::sleep(std::time::Duration::from_millis(2)); }
        rep.evaluations += 1;
        let desc = json!({"threads": threads, "tasks": ntasks, "tree": format!("{tree:?}").chars().take(600).collect::<String>()});
        if !done.load(SeqCst) { rep.violate("property", "c19-pool-deadlock", format!("scope did not return within 60 s (threads={threads}, tasks={ntasks})"), desc); continue; }
        let reported_panic = h.join().unwrap_or(true);
        if i < 2 { rep.sample(desc.clone()); }
        if ntasks >= 3 && threads >= 2 { rep.note_nontrivial(&(i, threads, &tree)); }
        let ev = log.ev.lock().unwrap().clone();
        // direct checks
        if log.spawned.load(SeqCst) != ntasks && !any_panic { rep.violate("property", "c19-pool-count", format!("{} tasks spawned, tree has {ntasks}", log.spawned.load(SeqCst)), desc.clone()); }
        let starts = ev.iter().filter(|e| **e == "start").count(); let spawns = ev.iter().filter(|e| **e == "spawn").count();
        let ret_pos = ev.iter().position(|e| *e == "returned").unwrap_or(ev.len());
        let finishes_before = ev[..ret_pos].iter().filter(|e| e.starts_with("finish")).count();
        if starts != spawns || finishes_before != spawns { rep.violate("property", "c19-pool-exactly-once", format!("scope returned with {spawns} spawned, {starts} started, {finishes_before} finished before the return"), desc.clone()); }
        if any_panic != reported_panic && ev.iter().any(|e| *e == "finish!") != reported_panic { rep.violate("property", "c19-pool-panic-lost", format!("a task panicked = {any_panic}, the scope's caller saw a panic = {reported_panic}"), desc.clone()); }
        traces.push((ev[..ret_pos].join(" "), spawns, reported_panic, desc));
    }
    let lines: Vec<String> = traces.iter().map(|t| format!("pool trace {}", t.0)).collect();
    match run_driver(&lines) {
        Err(e) => rep.violate("correspondence", "driver-failure", e, json!({})),
        Ok(m) => for (i, t) in traces.iter().enumerate() {
            rep.traces_vs_model += 1;
            if m[i] == "invalid-trace" { rep.violate("property", "c19-pool-trace-invalid", "a recorded scope history is not a run of the scope model (an event happened when it was not enabled: a task started twice, or work after completion)".into(), t.3.clone()); }
            else if !m[i].starts_with("mayReturn=true") { rep.violate("property", "c19-pool-early-return", format!("scope returned in a state where the model does not allow it: {}", m[i]), t.3.clone()); }
            else if !m[i].contains(&format!("finished={}", t.1)) { rep.violate("correspondence", "c19-pool-model-mismatch", format!("model replay `{}` vs {} spawns observed", m[i], t.1), t.3.clone()); }
        }
    }
}

fn rw_lock(rep: &mut Report, rng: &mut Rng, n: usize) {
    for round in 0..n {
        let readers = 1 + rng.below(6); let writers = 1 + rng.below(3); let iters = 200 + rng.below(800);
        let lock = Arc::new(ReadOptimizedLock::new((0u64, 0u64)));
        let writing = Arc::new(AtomicUsize::new(0));
        let bad = Arc::new(Mutex::new(None::<String>));
        let mut hs = vec![];
        for _ in 0..writers { let (lock, writing, bad) = (lock.clone(), writing.clone(), bad.clone());
            hs.push(std::thread::spawn(move || for _ in 0..iters / 4 {
                let mut g = lock.lock();
                if writing.fetch_add(1, SeqCst) != 0 { *bad.lock().unwrap() = Some("two writers inside the critical section".into()); }
                g.0 += 1; std::thread::yield_now(); g.1 += 1;
                writing.fetch_sub(1, SeqCst);
            })); }
        for _ in 0..readers { let (lock, writing, bad) = (lock.clone(), writing.clone(), bad.clone());
            hs.push(std::thread::spawn(move || for _ in 0..iters {
                let g = lock.read();
                let (a, b) = (g.0, g.1);
                if a != b { *bad.lock().unwrap() = Some(format!("reader observed a partial update ({a}, {b})")); }
                if writing.load(SeqCst) != 0 { *bad.lock().unwrap() = Some("reader inside while a writer holds the lock".into()); }
            })); }
        for h in hs { let _ = h.join(); }
        rep.evaluations += 1;
        if readers >= 2 { rep.note_nontrivial(&("rw", round, readers, writers)); }
        let total = lock.read().0;
        if let Some(b) = bad.lock().unwrap().clone() { rep.violate("property", "c19-rwlock", b, json!({"readers": readers, "writers": writers})); }
        else if total != (writers * (iters / 4)) as u64 { rep.violate("property", "c19-rwlock", format!("lost writer updates: {total}"), json!({"readers": readers, "writers": writers})); }
    }
}

fn vectors(rep: &mut Report, rng: &mut Rng, n: usize) {
    for round in 0..n {
        let threads = 2 + rng.below(7); let per = 100 + rng.below(2000);
        let v = Arc::new(ConcurrentVec::<u64>::with_capacity(1 + rng.below(8)));
        let mut hs = vec![];
        for t in 0..threads { let v = v.clone(); hs.push(std::thread::spawn(move || { for i in 0..per { let idx = v.push((t * 1_000_000 + i) as u64); let r = v.read(); if r[idx] != (t * 1_000_000 + i) as u64 { return false; } } true })); }
        let ok = hs.into_iter().all(|h| h.join().unwrap_or(false));
        let r = v.read();
        let mut all: Vec<u64> = r.iter().copied().collect(); all.sort();
        let mut want: Vec<u64> = (0..threads).flat_map(|t| (0..per).map(move |i| (t * 1_000_000 + i) as u64)).collect(); want.sort();
        rep.evaluations += 1; rep.note_nontrivial(&("vec", round, threads, per));
        if !ok || all != want { rep.violate("property", "c19-concurrent-vec", format!("ConcurrentVec lost or corrupted elements ({} present, {} pushed)", all.len(), want.len()), json!({"threads": threads, "per": per})); }
        // parallel writer: ranged writes
        let w = Arc::new(ParallelVecWriter::new(vec![7u64; rng.below(5)]));
        let base = w.read_access().len();
        let mut hs = vec![];
        for t in 0..threads { let w = w.clone(); let mut r = rng.fork(); hs.push(std::thread::spawn(move || { let mut mine = vec![]; for i in 0..40 { let len = if i % 5 == 4 { 500 + r.below(3000) } else { r.below(50) }; let items: Vec<u64> = (0..len).map(|k| (t * 1_000_000 + i * 100 + k) as u64).collect(); // both entry points: the slice copy and the iterator-driven write (whose items are produced while other threads
                // reserve ranges and force the buffer to grow)
                let start = if i % 2 == 0 { w.write_slice(&items) } else { let src = items.clone(); w.write_contents(src.into_iter().map(|x| { if x % 7 == 0 { std::thread::yield_now(); } x })) };
                mine.push((start, items)); } mine })); }
        let mut ranges = vec![]; for h in hs { ranges.extend(h.join().unwrap_or_default()); }
        let data = Arc::try_unwrap(w).ok().map(|w| w.finish()).unwrap_or_default();
        let mut bad = None;
        for (s, items) in &ranges { if data.get(*s..*s + items.len()) != Some(&items[..]) { bad = Some(format!("range starting at {s} is not intact")); } }
        let total: usize = ranges.iter().map(|r| r.1.len()).sum();
        if data.len() != base + total { bad = Some(format!("final length {} != {}", data.len(), base + total)); }
        if let Some(b) = bad { rep.violate("property", "c19-parallel-writer", b, json!({"threads": threads})); }
    }
}

pub fn run(ctx: &Ctx) -> Report {
    let mut rep = Report::new("C19", "seeded scenarios: pool sizes 1..16 with random spawn trees (nested spawns, nested scopes inside workers, panicking tasks) whose event histories are replayed through the Lean scope model; reader/writer mixes on ReadOptimizedLock with torn-update detectors; concurrent pushes on ConcurrentVec and ranged writes on ParallelVecWriter. non-trivial = >= 3 tasks on >= 2 threads / >= 2 readers / every vector round");
    let mut rng = Rng::new(ctx.seed ^ 0xC19);
    let _ = AtomicU64::new(0);
    pool_scenarios(&mut rep, &mut rng, ctx.n(150, 3000));
    rw_lock(&mut rep, &mut rng, ctx.n(25, 400));
    // the vector scenarios write through raw pointers: memory corruption there kills the process, so they run in a
    // child; a child that dies IS the failing history (seed and round count in the replay)
    let (vseed, vn) = (rng.next(), ctx.n(15, 300));
    match std::process::Command::new(std::env::current_exe().unwrap()).arg("c19vec").arg(vseed.to_string()).arg(vn.to_string()).output() {
        Err(e) => rep.violate("correspondence", "c19-child-spawn", format!("cannot spawn the vector child: {e}"), json!({})),
        Ok(o) => {
            if !o.status.success() {
                rep.violate("property", "c19-vector-process-died", format!("the process running concurrent pushes / ranged writes on ConcurrentVec and ParallelVecWriter died ({:?}): memory was corrupted or a write went to a freed buffer", o.status), json!({"child": format!("vharness c19vec {vseed} {vn}")}));
            } else {
                let v: serde_json::Value = serde_json::from_slice(&o.stdout).unwrap_or(json!({}));
                rep.evaluations += v["evaluations"].as_u64().unwrap_or(0);
                for i in 0..v["evaluations"].as_u64().unwrap_or(0) { rep.note_nontrivial(&("vec", vseed, i)); }
                for x in v["violations"].as_array().cloned().unwrap_or_default() { rep.violate("property", x["signature"].as_str().unwrap_or("c19-parallel-writer"), x["what"].as_str().unwrap_or("").to_string(), x["replay"].clone()); }
            }
        }
    }
    rep
}

/// child entry point: `vharness c19vec <seed> <rounds>`
pub fn vec_child_main(args: &[String]) {
    let seed: u64 = args.first().and_then(|x| x.parse().ok()).unwrap_or(1);
    let n: usize = args.get(1).and_then(|x| x.parse().ok()).unwrap_or(10);
    let mut rep = Report::new("C19", "vector child");
    let mut rng = Rng::new(seed);
    vectors(&mut rep, &mut rng, n);
    let j = rep.to_json();
    println!("{}", json!({"evaluations": rep.evaluations, "violations": j["violations"]}));
}
