//! C15 — print ∘ parse = id.
//!  (A) string literals: Rust printer vs Lean printer (`escape`), and the real parser on the printed
//!      text gives the string back (theorem C15_string says the Lean lexer does, for every string);
//!  (B) random s-expression texts (nasty strings, unicode atoms, comments, odd whitespace): real reader
//!      vs Lean reader (`lexFirst`+`parseSx`), well-formed and mutated (accept/reject must agree);
//!  (C) the command grammar with all options and literal classes: parse, print, re-parse, re-print —
//!      the printed text must be a fixpoint AND carry the same s-expression tree as the source
//!      (nothing the parser accepted may be lost or altered by the printer);
//!  (D) desugared programs (`resolve_program`) print to text a fresh engine accepts with the same outputs;
//!  (E) extracted terms re-parse and are equal to the value they were extracted from;
//!  (F) bare tokens: the real reader's classification (bool / i64 / NaN / inf / -inf / finite float / symbol) against
//!      the Lean classifier (`Model/Atom.lean`, theorems C15_int_token, C15_digits_token, C15_symbol_token), and
//!      `i64` Display against the Lean `printInt`.
use crate::{engine, lean::run_driver, report::Report, rng::Rng, sexp::{self, Sexp}, Ctx};
use egglog::ast::{Literal, Parser};
use egglog::EGraph;
use serde_json::json;

const NASTY: [char; 24] = ['a', 'b', ' ', '"', '\\', '\n', '\t', 'n', 't', ';', '(', ')', 'é', '→', '\u{1F600}', '\r', '\'', '0', '\u{A0}', '\u{2028}', 'x', '-', '.', '\u{0}'];

fn nasty_string(rng: &mut Rng) -> String { (0..rng.below(9)).map(|_| NASTY[rng.below(NASTY.len())]).collect() }
fn cps(s: &str) -> String { s.chars().map(|c| (c as u32).to_string()).collect::<Vec<_>>().join(" ") }
fn cps_comma(s: &str) -> String { s.chars().map(|c| (c as u32).to_string()).collect::<Vec<_>>().join(",") }

fn strings(rep: &mut Report, rng: &mut Rng, n: usize) {
    let ss: Vec<String> = (0..n).map(|_| nasty_string(rng)).collect();
    let lines: Vec<String> = ss.iter().map(|s| format!("sx esc {}", cps(s))).collect();
    let model = run_driver(&lines);
    for (i, s) in ss.iter().enumerate() {
        rep.evaluations += 1;
        let printed = Literal::String(s.clone()).to_string();
        if s.contains('"') || s.contains('\\') { rep.note_nontrivial(&("str", s)); }
        match Parser::default().get_expr_from_string(None, &printed) {
            Ok(e) => { let back = match &e { egglog::ast::Expr::Lit(_, Literal::String(b)) => Some(b.clone()), _ => None };
                if back.as_ref() != Some(s) { rep.violate("property", "c15-string-roundtrip", format!("string {s:?} prints as {printed} which parses back as {back:?}"), json!({"string": s})); } }
            Err(_) => rep.violate("property", "c15-string-roundtrip", format!("string {s:?} prints as {printed} which does not parse"), json!({"string": s})),
        }
        if let Ok(m) = &model { rep.traces_vs_model += 1; if m[i] != cps_comma(&printed) {
            rep.violate("correspondence", "c15-printer-model-mismatch", format!("Literal::String printer and Lean `printString` (theorem C15_string) differ on {s:?}: rust {printed:?}"), json!({"string": s})); } }
    }
}

#[derive(Clone, Debug)]
enum T { Atom(String), Str(String), List(Vec<T>) }

fn gen_tree(rng: &mut Rng, depth: usize) -> T {
    match if depth == 0 { rng.below(2) } else { rng.below(4) } {
        0 => { let n = 1 + rng.below(4); let mut s = String::from("v"); for _ in 0..n { s.push(['a', 'Z', '_', '-', '+', '*', '!', '?', '<', '=', 'é', '→', '.', '\'', ':', '@', '\\', '/'][rng.below(18)]); } T::Atom(s) }
        1 => T::Str(nasty_string(rng)),
        _ => { let n = rng.below(4); let mut v = vec![T::Atom(format!("f{}", rng.below(3)))]; for _ in 0..n { v.push(gen_tree(rng, depth - 1)); } T::List(v) }
    }
}
fn sep(rng: &mut Rng) -> String { match rng.below(8) { 0 => "\n".into(), 1 => "\t ".into(), 2 => " ; a comment ) \" (\n".into(), 3 => "  ".into(), 4 => "\u{A0} ".into(), _ => " ".into() } }
fn render(t: &T, rng: &mut Rng) -> String {
    match t {
        T::Atom(a) => a.clone(), T::Str(s) => Literal::String(s.clone()).to_string(),
        T::List(v) => { let mut o = String::from("("); if rng.chance(1, 5) { o.push_str(&sep(rng)); } for (i, x) in v.iter().enumerate() { if i > 0 { o.push_str(&sep(rng)); } o.push_str(&render(x, rng)); } if rng.chance(1, 5) { o.push_str(&sep(rng)); } o.push(')'); o }
    }
}
fn canon_expr(e: &egglog::ast::Expr) -> String {
    use egglog::ast::Expr;
    match e {
        Expr::Lit(_, Literal::String(s)) => format!("S<{}>", cps_comma(s)),
        Expr::Lit(_, Literal::Unit) => "()".into(),
        Expr::Lit(_, l) => format!("A<{}>", cps_comma(&l.to_string())),
        Expr::Var(_, v) => format!("A<{}>", cps_comma(v)),
        Expr::Call(_, h, args) => format!("(A<{}>{})", cps_comma(h), args.iter().map(|a| format!(" {}", canon_expr(a))).collect::<String>()),
    }
}

/// `get_expr_from_string` = reader + `parse_expr`: a list must be headed by a symbol (not a string, a
/// list or a literal-looking atom).  Applied to the model's tree so that both sides answer the same question.
fn expr_level(model: &str) -> String {
    if model == "error" { return model.to_string(); }
    let toks: Vec<&str> = model.split(' ').collect();
    for (i, t) in toks.iter().enumerate() {
        let opens = t.chars().take_while(|c| *c == '(').count();
        if opens == 0 {
            // an atom in argument position is a variable: `parse_expr` refuses names with the reserved prefix `@`
            // and replaces the wildcard `_` by a fresh name (expression level, not the reader)
            if t.starts_with("A<") {
                let body = t.trim_start_matches("A<").trim_end_matches(|c| c == '>' || c == ')');
                let text: String = body.split(',').filter_map(|x| x.parse::<u32>().ok()).filter_map(char::from_u32).collect();
                if text.starts_with('@') { return "error".into(); }
                if text == "_" { return "skip".into(); }
            }
            continue;
        }
        let head = &t[opens..];
        if opens > 1 { return "error".into(); }                 // list in head position
        if head == ")" || head.is_empty() { if *t == "()" { continue; } return "error".into(); }
        if !head.starts_with("A<") { return "error".into(); }
        let body = head.trim_start_matches("A<").trim_end_matches(|c| c == '>' || c == ')');
        let text: String = body.split(',').filter_map(|x| x.parse::<u32>().ok()).filter_map(char::from_u32).collect();
        if text == "true" || text == "false" || text.parse::<i64>().is_ok() || text == "NaN" || text == "inf" || text == "-inf" || text.parse::<f64>().map(|f| f.is_finite()).unwrap_or(false) { return "error".into(); }
        let _ = i;
    }
    model.to_string()
}

fn readers(rep: &mut Report, rng: &mut Rng, n: usize) {
    let mut texts = vec![];
    for i in 0..n {
        let t = gen_tree(rng, 3);
        let mut text = render(&t, rng);
        if rng.chance(1, 3) { text = format!("{}{}{}", sep(rng), text, sep(rng)); }
        let mutated = i % 3 == 2;
        if mutated {
            // token-level damage: drop / duplicate / insert a delimiter or an escape
            let mut cs: Vec<char> = text.chars().collect();
            if !cs.is_empty() { let p = rng.below(cs.len()); match rng.below(5) { 0 => { cs.remove(p); } 1 => cs.insert(p, ')'), 2 => cs.insert(p, '"'), 3 => { cs.insert(p, '\\'); } _ => cs.insert(p, '(') } }
            text = cs.into_iter().collect();
        }
        texts.push((text, mutated));
    }
    let lines: Vec<String> = texts.iter().map(|(t, _)| format!("sx parse {}", cps(t))).collect();
    let model = match run_driver(&lines) { Ok(m) => m, Err(e) => { rep.violate("correspondence", "driver-failure", e, json!({})); return; } };
    for (i, (text, mutated)) in texts.iter().enumerate() {
        rep.evaluations += 1; rep.traces_vs_model += 1;
        let mut p = Parser::default();
        let real = match std::panic::catch_unwind(std::panic::AssertUnwindSafe(|| p.get_expr_from_string(None, text))) {
            Ok(Ok(e)) => canon_expr(&e), Ok(Err(_)) => "error".to_string(),
            Err(_) => { rep.violate("property", "c15-parser-panic", format!("parser panicked on {text:?}"), json!({"text": text})); continue; }
        };
        if *mutated { rep.count("mutated_texts", 1); if real == "error" { rep.count("mutated_rejected", 1); } }
        if text.contains('"') && real != "error" { rep.note_nontrivial(&("tree", text)); }
        // `()` is Unit for the real reader; the model prints an empty list the same way
        let want = expr_level(&model[i]);
        if want == "skip" { rep.count("texts_with_wildcard_skipped", 1); continue; }
        if want != real {
            rep.violate("correspondence", "c15-reader-model-mismatch", format!("real reader and Lean reader (theorems C15_tree / C15_string_token) differ on {text:?}: real `{real}`, model `{}`", model[i]), json!({"text": text}));
        }
    }
}

// -------------------------------------------------------------------------------------------------
// (C) command grammar

fn lit_i64(rng: &mut Rng) -> String { [i64::MIN, i64::MAX, -1, 0, 1, 42, -9223372036854775807, 1 << 62][rng.below(8)].to_string() }
fn lit_f64(rng: &mut Rng) -> String {
    ["NaN", "inf", "-inf", "-0.0", "0.0", "1.5", "1e300", "5e-324", "2.2250738585072014e-308", "1.7976931348623157e308", "-123.456", "1e21", "0.1", "100.0", "3.0e10"][rng.below(15)].to_string()
}
fn lit_str(rng: &mut Rng) -> String { Literal::String(nasty_string(rng)).to_string() }
fn iexpr(rng: &mut Rng, d: usize) -> String {
    if d == 0 || rng.chance(1, 3) { return match rng.below(3) { 0 => lit_i64(rng), 1 => "x".into(), _ => "y".into() }; }
    format!("({} {} {})", ["+", "-", "*", "min", "max"][rng.below(5)], iexpr(rng, d - 1), iexpr(rng, d - 1))
}
fn mexpr(rng: &mut Rng, d: usize) -> String {
    if d == 0 || rng.chance(1, 3) { return match rng.below(4) { 0 => "a".into(), 1 => "b".into(), 2 => format!("(Num {})", lit_i64(rng)), _ => format!("(Var {})", lit_str(rng)) }; }
    format!("({} {} {})", ["Add", "Mul"][rng.below(2)], mexpr(rng, d - 1), mexpr(rng, d - 1))
}
fn fact(rng: &mut Rng) -> String {
    match rng.below(4) { 0 => format!("(= a {})", mexpr(rng, 2)), 1 => format!("(= x {})", iexpr(rng, 2)), 2 => format!("(< x {})", lit_i64(rng)), _ => format!("(R a {})", iexpr(rng, 1)) }
}
fn action(rng: &mut Rng) -> String {
    match rng.below(9) {
        0 => format!("(union a {})", mexpr(rng, 2)), 1 => format!("(set (g a) {})", iexpr(rng, 2)), 2 => format!("(let z {})", mexpr(rng, 1)),
        3 => format!("(panic {})", lit_str(rng)), 4 => format!("(delete (g {}))", mexpr(rng, 1)), 5 => format!("(subsume (Add a b))"),
        6 => format!("(R a {})", iexpr(rng, 1)), 7 => format!("(set (h {}) {})", lit_f64(rng), lit_f64(rng)), _ => mexpr(rng, 2),
    }
}
fn sched(rng: &mut Rng, d: usize) -> String {
    if d == 0 || rng.chance(1, 3) { return match rng.below(3) { 0 => "(run)".into(), 1 => "(run rs)".into(), _ => format!("(run rs :until {})", fact(rng)) }; }
    match rng.below(3) { 0 => format!("(saturate {})", sched(rng, d - 1)), 1 => format!("(repeat {} {} {})", rng.below(5), sched(rng, d - 1), sched(rng, d - 1)), _ => format!("(seq {} {})", sched(rng, d - 1), sched(rng, d - 1)) }
}
/// the trailing options of a function / constructor declaration, in the order the printer writes them
fn decl_opts(rng: &mut Rng) -> String {
    let mut s = String::new();
    if rng.chance(1, 3) { s.push_str(" :unextractable"); }
    if rng.chance(1, 5) { s.push_str(" :internal-hidden"); }
    if rng.chance(1, 5) { s.push_str(" :internal-let"); }
    if rng.chance(1, 5) { s.push_str(&format!(" :internal-term-constructor tc{}", rng.below(3))); }
    s
}
fn command(rng: &mut Rng) -> String {
    match rng.below(24) {
        0 => format!("(function g{} (M) i64 :merge {}{})", rng.below(9), ["(min old new)", "(max old new)", "(+ old new)", "old", "new"][rng.below(5)], decl_opts(rng)),
        1 => format!("(function n{} (M i64) String :no-merge{})", rng.below(9), decl_opts(rng)),
        2 => format!("(constructor K{} (M i64) M :cost {}{})", rng.below(9), [0u64, 1, 17, 9223372036854775807][rng.below(4)], decl_opts(rng)),
        3 => format!("(constructor U{} (M) M :unextractable{})", rng.below(9), decl_opts(rng).replace(" :unextractable", "")),
        4 => format!("(relation Q{} (M i64 String))", rng.below(9)),
        5 => format!("(rule ({} {}) ({} {}) :ruleset rs{}{})", fact(rng), fact(rng), action(rng), action(rng),
                if rng.chance(1, 2) { format!(" :name {}", Literal::String(format!("n{}", nasty_string(rng)))) } else { String::new() }, ["", " :naive", " :unsafe-seminaive", " :no-decomp"][rng.below(4)]),
        6 => format!("(rewrite {} {}{}{}{})", mexpr(rng, 2), mexpr(rng, 2), if rng.chance(1, 2) { " :subsume" } else { "" }, if rng.chance(1, 2) { format!(" :when ({})", fact(rng)) } else { String::new() }, if rng.chance(1, 2) { " :ruleset rs" } else { "" }),
        7 => format!("(birewrite {} {}{})", mexpr(rng, 2), mexpr(rng, 2), if rng.chance(1, 2) { " :ruleset rs" } else { "" }),
        8 => format!("(run-schedule {})", sched(rng, 3)),
        9 => format!("(run rs {}{})", rng.below(9), if rng.chance(1, 2) { format!(" :until {}", fact(rng)) } else { String::new() }),
        10 => format!("(check {} {})", fact(rng), fact(rng)),
        11 => format!("(extract {} {})", mexpr(rng, 2), rng.below(5)),
        12 => format!("(print-function g {})", rng.below(100)),
        13 => ["(print-size)", "(print-size g)", "(push 1)", "(pop 1)", "(push 2)", "(pop 3)", "(print-stats)"][rng.below(7)].to_string(),
        14 => format!("(let $glob{} {})", rng.below(9), mexpr(rng, 2)),
        15 => format!("(fail (check {}))", fact(rng)),
        16 => format!("(ruleset rs{})", rng.below(9)),
        17 => format!("(unstable-combined-ruleset c{} rs rs2)", rng.below(9)),
        18 => format!("(sort V{} (Vec M))", rng.below(9)),
        19 => format!("(set (h {}) {})", lit_f64(rng), lit_f64(rng)),
        20 => format!("(datatype D{} (L{} i64 :cost 3) (N{} D{} D{}))", rng.below(9), rng.below(9), rng.below(9), 0, 0),
        21 => action(rng),
        22 => format!("(function f{} () f64 :merge (min old new))", rng.below(9)),
        _ => format!("(input g {})", lit_str(rng)),
    }
}

/// compare two s-expression trees up to the literal spellings the reader normalises
fn same_tree(a: &Sexp, b: &Sexp) -> bool {
    match (a, b) {
        (Sexp::List(x), Sexp::List(y)) => x.len() == y.len() && x.iter().zip(y).all(|(p, q)| same_tree(p, q)),
        (Sexp::Str(x), Sexp::Str(y)) => x == y,
        (Sexp::Atom(x), Sexp::Atom(y)) => {
            if x == y { return true; }
            match (x.parse::<i64>(), y.parse::<i64>()) { (Ok(p), Ok(q)) => return p == q, _ => {} }
            match (x.parse::<f64>(), y.parse::<f64>()) { (Ok(p), Ok(q)) => p.to_bits() == q.to_bits() || (p.is_nan() && q.is_nan()), _ => false }
        }
        _ => false,
    }
}

fn grammar(rep: &mut Report, rng: &mut Rng, n: usize) {
    let mut kinds = std::collections::BTreeSet::new();
    for _ in 0..n {
        let src = command(rng);
        rep.evaluations += 1;
        let mut p = Parser::default();
        let parsed = match std::panic::catch_unwind(std::panic::AssertUnwindSafe(|| p.get_program_from_string(None, &src))) {
            Ok(Ok(c)) => c, Ok(Err(_)) => { rep.count("generated_commands_rejected_by_parser", 1); continue; }
            Err(_) => { rep.violate("property", "c15-parser-panic", format!("parser panicked on {src:?}"), json!({"text": src})); continue; }
        };
        let head = src[1..].split(|c: char| c == ' ' || c == ')').next().unwrap_or("").to_string();
        kinds.insert(head.clone());
        let t1: String = parsed.iter().map(|c| c.to_string()).collect::<Vec<_>>().join("\n");
        let mut p2 = Parser::default();
        let reparsed = match p2.get_program_from_string(None, &t1) {
            Ok(c) => c,
            Err(e) => { rep.violate("property", "c15-print-unparsable", format!("`{src}` prints as `{t1}` which does not parse: {e}"), json!({"source": src, "printed": t1})); continue; }
        };
        let t2: String = reparsed.iter().map(|c| c.to_string()).collect::<Vec<_>>().join("\n");
        if t1 != t2 && (head == "run" || head == "run-schedule") && t1.replace("(seq ", "(").replace("seq", "") .chars().filter(|c| *c != '(' && *c != ')').collect::<String>() == t2.replace("(seq ", "(").chars().filter(|c| *c != '(' && *c != ')').collect::<String>() {
            rep.violate("property", "c15-schedule-seq-wrapping", format!("schedules gain a (seq ..) wrapper at every print/parse round: `{src}` prints as `{t1}`, which re-parses and prints as `{t2}`"), json!({"source": src})); continue; }
        if t1 != t2 { rep.violate("property", "c15-print-not-fixpoint", format!("`{src}`: print(parse(print(parse src))) = `{t2}` differs from print(parse src) = `{t1}`"), json!({"source": src})); continue; }
        // nothing lost: the printed text carries the same tree as the source, for the command forms that
        // print in their own surface syntax
        // (run-schedule ..): the parser normalises the implicit/nested `seq`s, so the printed text is the normal form of
        // the source, not the source; that it parses back to the SAME TREE is what `t1 == t2` above decides, because the
        // schedule printer is a faithful rendering of the tree (one head per constructor)
        let sugar = ["run", "run-schedule", "datatype", "rewrite", "birewrite", "relation", "fail"].contains(&head.as_str()) || src.starts_with("(let $") ;
        if !sugar {
            if let (Ok(a), Ok(b)) = (sexp::parse_all(&src), sexp::parse_all(&t1)) {
                if a.len() != b.len() || !a.iter().zip(&b).all(|(x, y)| same_tree(x, y)) {
                    rep.violate("property", "c15-print-loses-information", format!("`{src}` prints as `{t1}`: not the same syntax tree"), json!({"source": src, "printed": t1}));
                } else { rep.note_nontrivial(&src); }
            }
        } else { rep.note_nontrivial(&src); }
    }
    rep.extra.insert("command_heads_covered".into(), json!(kinds.into_iter().collect::<Vec<_>>()));
}

// -------------------------------------------------------------------------------------------------
// (D) desugared programs re-run; (E) extracted terms re-parse to the same value
const PROG_HDR: &str = "(datatype M (Num i64) (Var String) (Add M M) (Mul M M))\n(function g (M) i64 :merge (min old new))\n(relation R (M i64))\n(ruleset rs)\n";

fn gen_program(rng: &mut Rng) -> String {
    let mut s = String::from(PROG_HDR);
    for i in 0..(1 + rng.below(3)) { s.push_str(&format!("(let $t{i} {})\n", mexpr(rng, 2).replace(" a", " (Num 7)").replace(" b", " (Var \"q\")").replace("(a", "((Num 7)"))); }
    let rules = ["(rewrite (Add a b) (Add b a) :ruleset rs)", "(rewrite (Mul a b) (Mul b a) :ruleset rs :subsume)", "(rule ((= e (Add a b)) (= (Num x) a)) ((set (g e) x) (R e x)) :ruleset rs)",
        "(rewrite (Add (Num x) (Num y)) (Num (+ x y)) :ruleset rs)", "(rule ((R e x) (< x 0)) ((panic \"neg \\\"x\\\" \\\\\")) :ruleset rs :name \"my \\\"rule\\\"\")", "(birewrite (Mul a (Num 1)) a :ruleset rs)"];
    for r in rules { if rng.chance(2, 3) { s.push_str(r); s.push('\n'); } }
    s.push_str(&format!("(run rs {})\n(print-size)\n(extract $t0)\n(check (= $t0 $t0))\n", 1 + rng.below(3)));
    s
}

fn desugar_rerun(rep: &mut Report, rng: &mut Rng, n: usize) {
    for _ in 0..n {
        let prog = gen_program(rng).replace("a (Num 7)", "(Num 7)");
        rep.evaluations += 1;
        let mut e1 = EGraph::default();
        let Ok(o1) = engine::run_outputs(&mut e1, &prog) else { rep.count("desugar_programs_rejected", 1); continue };
        let mut e2 = EGraph::default();
        let resolved = match std::panic::catch_unwind(std::panic::AssertUnwindSafe(|| e2.resolve_program(None, &prog))) { Ok(Ok(r)) => r, _ => { rep.count("resolve_failed", 1); continue; } };
        let text: String = egglog::ast::sanitize_internal_names(&resolved).iter().map(|c| c.to_string()).collect::<Vec<_>>().join("\n");
        let mut e3 = EGraph::default();
        match engine::run_outputs(&mut e3, &text) {
            Err(e) => rep.violate("property", "c15-desugared-unparsable", format!("the resolved program of a valid source is rejected by a fresh engine ({e})"), json!({"source": prog, "resolved": text})),
            Ok(o3) => {
                let f = |o: &Vec<egglog::CommandOutput>| egglog::CommandOutput::snapshot_stable_under_proof_encoding(o);
                if f(&o1) != f(&o3) { rep.violate("property", "c15-desugared-different-output", format!("resolved program gives different outputs: `{}` vs `{}`", f(&o1), f(&o3)), json!({"source": prog, "resolved": text})); }
                else { rep.note_nontrivial(&prog); }
            }
        }
        // (E) extracted term re-parses and is equal to what it was extracted from
        if let Some(egglog::CommandOutput::ExtractBest(dag, _, t)) = o1.iter().find(|o| matches!(o, egglog::CommandOutput::ExtractBest(..))) {
            let term = dag.to_string(*t);
            let o = engine::run(&mut e1, &format!("(check (= $t0 {term}))"));
            if !o.is_ok() { rep.violate("property", "c15-extracted-term", format!("extracted term `{term}` does not re-parse to the extracted value ({o:?})"), json!({"source": prog, "term": term})); }
        }
    }
}

/// (F) bare tokens through the real reader and through the Lean classifier
fn atoms(rep: &mut Report, rng: &mut Rng, n: usize) {
    const AL: [char; 26] = ['0', '1', '5', '9', '+', '-', '.', 'e', 'E', 'i', 'n', 'f', 'a', 't', 'y', 'N', 'I', 'r', 'u', 'l', 's', '_', 'x', '7', '2', '3'];
    let fixed = ["true", "false", "NaN", "inf", "-inf", "+inf", "nan", "Inf", "infinity", "-Infinity", "INF", "-nan", "9223372036854775807", "9223372036854775808", "-9223372036854775808",
        "-9223372036854775809", "+9223372036854775807", "+0", "-0", "00012", "1.", ".5", ".", "-", "+", "-.", "1e5", "1e", "1e+", "1e-7", "1E400", "-1e400", "1.5.2", "1e5e5", "e5", "1_000",
        "123456789012345678901234567890", "0.1", "-0.0", "1e21", "1.0e19", "5e-324", "truee", "falsey", "t", "x", "--1", "+-1", "1-", "0x10", "1f", "in", "na", "infinit", "infinityy"];
    let mut toks: Vec<String> = fixed.iter().map(|s| s.to_string()).collect();
    for _ in 0..n {
        toks.push(match rng.below(6) {
            0 => (0..1 + rng.below(22)).map(|_| char::from(b'0' + rng.below(10) as u8)).collect(),                         // digit runs up to beyond i64
            1 => format!("{}{}", if rng.chance(1, 2) { "-" } else { "" }, (rng.next() as i64).wrapping_shr(rng.below(64) as u32)), // i64 values
            2 => { let v = [i64::MAX as i128 + rng.below(3) as i128 - 1, i64::MIN as i128 - 1 + rng.below(3) as i128][rng.below(2)]; v.to_string() }
            _ => (0..1 + rng.below(7)).map(|_| AL[rng.below(AL.len())]).collect(),
        });
    }
    let mut lines = vec![]; let mut want = vec![];
    toks.retain(|t| t != "_"); // the wildcard: the expression parser (not the reader) renames it to a fresh variable
    for t in &toks {
        rep.evaluations += 1;
        let real = match Parser::default().get_expr_from_string(None, t) {
            Ok(egglog::ast::Expr::Lit(_, Literal::Bool(b))) => format!("bool {b}"),
            Ok(egglog::ast::Expr::Lit(_, Literal::Int(i))) => format!("int {i}"),
            Ok(egglog::ast::Expr::Lit(_, Literal::Float(f))) => if f.is_nan() { "nan".into() } else if f.0 == f64::INFINITY { "inf".into() } else if f.0 == f64::NEG_INFINITY { "ninf".into() } else { "num".to_string() },
            Ok(egglog::ast::Expr::Var(_, v)) => if &v.to_string() == t { "atom".into() } else { format!("atom-altered({v})") },
            Ok(other) => format!("other({other})"),
            Err(e) => format!("error({e})"),
        };
        lines.push(format!("at cls {t}")); want.push((t.clone(), real));
    }
    // i64 Display against the model's printInt
    let ints: Vec<i64> = (0..n / 4).map(|_| (rng.next() as i64).wrapping_shr(rng.below(64) as u32)).chain([i64::MIN, i64::MAX, 0, -1]).collect();
    for i in &ints { lines.push(format!("at print {i}")); want.push((format!("print {i}"), i.to_string())); }
    match run_driver(&lines) {
        Err(e) => rep.violate("correspondence", "driver-failure", e, json!({})),
        Ok(m) => for (i, (t, real)) in want.iter().enumerate() {
            rep.traces_vs_model += 1;
            let model = &m[i];
            if t.starts_with("print ") { if model != real { rep.violate("correspondence", "c15-int-display-mismatch", format!("i64 Display gives `{real}`, the model's printInt `{model}`"), json!({"token": t})); } continue; }
            // a numeric spelling that overflows f64 is not a finite float: the reader keeps it as a symbol
            let overflow = model == "num" && real == "atom" && t.parse::<f64>().map(|f| !f.is_finite()).unwrap_or(false);
            if model != real && !overflow {
                let kind = if real.starts_with("error") || real.starts_with("atom-altered") || real.starts_with("other") { "property" } else { "correspondence" };
                rep.violate(kind, "c15-token-class", format!("token `{t}`: the reader gives {real}, the Lean classifier {model} (C15_int_token / C15_digits_token / C15_symbol_token)"), json!({"token": t}));
            }
            if model != "atom" { rep.note_nontrivial(&(t, "tok")); }
            rep.count(&format!("token_class_{}", model.split(' ').next().unwrap_or("")), 1);
        }
    }
}

pub fn run(ctx: &Ctx) -> Report {
    let mut rep = Report::new("C15", "(A) strings over an alphabet of quotes, backslashes, control characters and unicode; (B) random s-expression texts with comments/odd whitespace, one third damaged at a random position; (C) random commands over the grammar with all options and literal classes (i64 extremes, NaN/inf/-0.0/subnormal/huge floats, nasty strings); (D,E) generated programs resolved, printed and re-run, extracted terms re-checked. non-trivial = string needing an escape / accepted text containing a string / command whose printed form carries the same tree as the source (distinct by text)");
    let mut rng = Rng::new(ctx.seed ^ 0xC15);
    strings(&mut rep, &mut rng, ctx.n(600, 20000));
    readers(&mut rep, &mut rng, ctx.n(900, 30000));
    grammar(&mut rep, &mut rng, ctx.n(1500, 40000));
    desugar_rerun(&mut rep, &mut rng, ctx.n(60, 1500));
    atoms(&mut rep, &mut rng, ctx.n(3000, 60000));
    rep
}
