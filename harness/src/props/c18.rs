//! C18 — custom schedulers.  An instrumented `Scheduler` records every offer and every choice.
//!  * the residual the engine offers again must contain exactly what the Lean `instantiate` model
//!    (theorem C18_residual) leaves after the recorded choice;
//!  * actions ran for precisely the chosen matches (a log relation written by the rule head);
//!  * choose-everything == built-in stepping (canonical dumps after every step);
//!  * every fair policy reaches the built-in saturated database on confluent programs;
//!  * no offered match rests on a subsumed row; the database is canonical after every step;
//!  * unions / writes between offer and apply; variable-free heads; errors mid-step; push/pop and clone.
use crate::{engine, lean::run_driver, report::Report, rng::Rng, Ctx};
use egglog::scheduler::{Matches, Scheduler};
use egglog::EGraph;
use serde_json::json;
use std::sync::{Arc, Mutex};

#[derive(Clone, Copy, Debug, PartialEq, Eq, Hash)]
pub enum Policy { All, NoneThenAll, RandomSubset, OneAtATime, EveryOther, DupAndDisorder }

#[derive(Default)]
pub struct Log { pub offers: Vec<(String, Vec<Vec<u32>>, Vec<usize>, bool)> } // (rule, tuples, chosen, all)

#[derive(Clone)]
pub struct Sch { policy: Policy, step: usize, rng: Rng, vars: Vec<&'static str>, log: Arc<Mutex<Log>> }

impl Scheduler for Sch {
    fn can_stop(&mut self, _rules: &[&str], _ruleset: &str) -> bool { true }
    fn filter_matches(&mut self, rule: &str, _ruleset: &str, m: &mut Matches) -> bool {
        use egglog_numeric_id::NumericId;
        let n = m.match_size();
        // only the instrumented rule `base`/`pq` exposes the variables we read; other rules are chosen blindly
        let readable = rule == "base" || rule == "pq";
        let tuples: Vec<Vec<u32>> = if readable { (0..n).map(|i| { let mt = m.get_match(i); self.vars.iter().map(|v| mt.get_value(v).rep()).collect() }).collect() } else { (0..n).map(|i| vec![i as u32]).collect() };
        let mut chosen = vec![]; let mut all = false;
        match self.policy {
            Policy::All => { all = true; }
            Policy::NoneThenAll => { if self.step % 2 == 1 { all = true; } }
            Policy::RandomSubset => { for i in 0..n { if self.rng.chance(1, 2) { chosen.push(i); } } }
            Policy::OneAtATime => { if n > 0 { chosen.push(self.rng.below(n)); } }
            Policy::EveryOther => { for i in (0..n).step_by(2) { chosen.push(i); } }
            Policy::DupAndDisorder => { for _ in 0..n { if n > 0 { chosen.push(self.rng.below(n)); } } }
        }
        if all { m.choose_all(); } else { for c in &chosen { m.choose(*c); } }
        self.log.lock().unwrap().offers.push((rule.to_string(), tuples, chosen, all));
        self.step += 1;
        true
    }
}

#[derive(Clone, Debug, Hash)]
struct Case { edges: Vec<(i64, i64)>, policy: Policy, steps: usize, late_edges: Vec<(usize, (i64, i64))>, varfree: bool }

const PROG: &str = "(relation edge (i64 i64))\n(relation path (i64 i64))\n(relation fired (i64 i64))\n(relation flag ())\n(ruleset r)\n\
(rule ((edge x y)) ((path x y) (fired x y)) :ruleset r :name \"base\")\n";
const VARFREE: &str = "(rule ((edge 0 y)) ((flag)) :ruleset r :name \"vf\")\n";

fn gen_case(rng: &mut Rng) -> Case {
    let n = 2 + rng.below(5) as i64;
    let ne = 1 + rng.below(8);
    let edges = (0..ne).map(|_| (rng.range(0, n), rng.range(0, n))).collect();
    let policy = [Policy::All, Policy::NoneThenAll, Policy::RandomSubset, Policy::OneAtATime, Policy::EveryOther, Policy::DupAndDisorder][rng.below(6)];
    let steps = 2 + rng.below(6);
    let late = (0..rng.below(3)).map(|_| (rng.below(steps), (rng.range(0, n), rng.range(0, n)))).collect();
    Case { edges, policy, steps, late_edges: late, varfree: rng.chance(1, 3) }
}

fn relational(rep: &mut Report, rng: &mut Rng, n: usize) {
    let mut model_lines = vec![]; let mut expectations = vec![];
    for ci in 0..n {
        let c = gen_case(rng);
        rep.evaluations += 1;
        let mut eg = EGraph::default();
        let setup = PROG.to_string() + if c.varfree { VARFREE } else { "" } + &c.edges.iter().map(|(a, b)| format!("(edge {a} {b})\n")).collect::<String>();
        if !engine::run(&mut eg, &setup).is_ok() { rep.violate("correspondence", "c18-setup", "setup rejected".into(), json!({"program": setup})); continue; }
        let mut builtin = eg.clone();
        let log = Arc::new(Mutex::new(Log::default()));
        let sid = eg.add_scheduler(Box::new(Sch { policy: c.policy, step: 0, rng: rng.fork(), vars: vec!["x", "y"], log: log.clone() }));
        let mut prog = setup.clone();
        let mut applied: std::collections::BTreeSet<(i64, i64)> = Default::default();
        let mut prev_residual: Option<Vec<Vec<u32>>> = None;
        let mut vf_residual: Option<usize> = None; let mut vf_applied = false;
        let mut bad = None;
        for s in 0..c.steps {
            for (at, (a, b)) in &c.late_edges { if *at == s { let t = format!("(edge {a} {b})"); engine::run(&mut eg, &t); engine::run(&mut builtin, &t); prog.push_str(&t); prog.push('\n'); } }
            let before = log.lock().unwrap().offers.len();
            let r = std::panic::catch_unwind(std::panic::AssertUnwindSafe(|| eg.step_rules_with_scheduler(sid, "r")));
            prog.push_str("; step_rules_with_scheduler r\n");
            match r { Ok(Ok(_)) => {} Ok(Err(e)) => { bad = Some(("c18-step-error", format!("step {s} failed: {e}"))); break; } Err(_) => { bad = Some(("c18-step-panic", format!("step {s} panicked"))); break; } }
            if c.policy == Policy::All { let _ = builtin.step_rules("r"); if engine::canon(&eg) != engine::canon(&builtin) { bad = Some(("c18-all-differs-from-builtin", format!("step {s}: choose-all scheduler and built-in stepping give different databases"))); break; } }
            if let Some(d) = engine::dump_defects(&engine::raw_dump(&eg)) { bad = Some(("c18-not-canonical", format!("step {s}: {d}"))); break; }
            let lg = log.lock().unwrap();
            for (rule, tuples, chosen, all) in lg.offers[before..].iter() {
                if rule == "vf" {
                    // variable-free head: matches are anonymous, so the same obligations by count
                    if let Some(prev) = vf_residual { if tuples.len() < prev { bad = Some(("c18-match-lost", format!("step {s}: rule `vf` (variable-free head) had {prev} matches offered earlier and not chosen, only {} are offered now", tuples.len()))); } }
                    let mut cs = chosen.clone(); cs.sort(); cs.dedup();
                    vf_residual = Some(if *all { 0 } else { tuples.len() - cs.len() });
                    if (*all && !tuples.is_empty()) || !cs.is_empty() { vf_applied = true; }
                    continue;
                }
                if rule != "base" { continue; }
                // (3) residual of the previous step must be offered again
                if let Some(prev) = &prev_residual { let mut pool = tuples.clone(); for t in prev { if let Some(p) = pool.iter().position(|x| x == t) { pool.remove(p); } else { bad = Some(("c18-match-lost", format!("step {s}: match {t:?} was offered earlier, not chosen, and is not offered again"))); } } }
                // ask the model for (inserted | residual)
                let toks: Vec<String> = tuples.iter().map(|t| format!("{}_{}", t[0], t[1])).collect();
                model_lines.push(format!("sch inst {} {} | {}", *all as u8, toks.join(" "), chosen.iter().map(|x| x.to_string()).collect::<Vec<_>>().join(" ")));
                let mut res = tuples.clone(); let mut cs = chosen.clone(); cs.sort(); cs.dedup(); for c in cs.iter().rev() { res.remove(*c); } if *all { res.clear(); }
                expectations.push((ci, s, { let mut r: Vec<String> = res.iter().map(|t| format!("{}_{}", t[0], t[1])).collect(); r.sort(); r }));
                if *all { for t in tuples { applied.insert((t[0] as i64, t[1] as i64)); } } else { for c in chosen { applied.insert((tuples[*c][0] as i64, tuples[*c][1] as i64)); } }
                prev_residual = Some(res);
            }
            drop(lg);
            // (4) actions ran for precisely the chosen matches
            let d = engine::raw_dump(&eg);
            let fired: std::collections::BTreeSet<(i64, i64)> = d.tables.iter().filter(|t| t.name == "fired").flat_map(|t| t.rows.iter().map(|r| match (&r.args[0], &r.args[1]) { (engine::V::Int(a), engine::V::Int(b)) => (*a, *b), _ => (-1, -1) })).collect();
            // i64 values are interned: compare through the engine's own base-value decoding of the offered ids
            let decode = |x: i64| -> i64 { eg.value_to_base::<i64>(<egglog::Value as egglog_numeric_id::NumericId>::new(x as u32)) };
            let want: std::collections::BTreeSet<(i64, i64)> = applied.iter().map(|(a, b)| (decode(*a), decode(*b))).collect();
            if fired != want { bad = Some(("c18-actions-vs-chosen", format!("step {s}: rule head ran for {fired:?}, the scheduler chose {want:?}"))); break; }
            if c.varfree { let flag = d.tables.iter().any(|t| t.name == "flag" && !t.rows.is_empty());
                if flag != vf_applied { bad = Some(("c18-actions-vs-chosen", format!("step {s}: the variable-free head `(flag)` ran: {flag}, a match of its rule was chosen: {vf_applied}"))); break; } }
        }
        if c.steps > 2 && c.policy != Policy::All { rep.note_nontrivial(&c); }
        if ci < 2 { rep.sample(json!({"policy": format!("{:?}", c.policy), "program": prog.clone()})); }
        if let Some((sig, what)) = bad { rep.violate("property", sig, format!("policy {:?}: {what}", c.policy), json!({"policy": format!("{:?}", c.policy), "program": prog, "case": format!("{c:?}")})); }
    }
    match run_driver(&model_lines) {
        Err(e) => rep.violate("correspondence", "driver-failure", e, json!({})),
        Ok(m) => for (i, (ci, s, want)) in expectations.iter().enumerate() {
            rep.traces_vs_model += 1;
            let mut got: Vec<String> = m[i].split(" | ").nth(1).unwrap_or("").split_whitespace().map(|x| x.to_string()).collect(); got.sort();
            if &got != want { rep.violate("correspondence", "c18-model-mismatch", format!("case {ci} step {s}: Lean `instantiate` residual {got:?} vs expected unchosen {want:?}"), json!({"line": model_lines[i]})); }
        }
    }
}

/// confluent e-graph program: every fair policy must reach the built-in saturated database
fn fair_saturation(rep: &mut Report, rng: &mut Rng, n: usize) {
    const P: &str = "(datatype N (Z) (S N) (Plus N N))\n(relation done (N))\n(ruleset r)\n(rewrite (Plus (Z) x) x :ruleset r)\n(rewrite (Plus (S x) y) (S (Plus x y)) :ruleset r)\n(rule ((= e (S x))) ((done e)) :ruleset r)\n";
    fn num(k: usize) -> String { if k == 0 { "(Z)".into() } else { format!("(S {})", num(k - 1)) } }
    for _ in 0..n {
        let (a, b) = (rng.below(4), rng.below(4));
        let term = format!("(Plus {} {})", num(a), num(b));
        let mut base = EGraph::default();
        engine::run(&mut base, &(P.to_string() + &term));
        let mut builtin = base.clone();
        engine::run(&mut builtin, "(run-schedule (saturate (run r)))");
        let want = engine::canon(&builtin);
        for policy in [Policy::NoneThenAll, Policy::RandomSubset, Policy::OneAtATime, Policy::EveryOther] {
            let mut eg = base.clone();
            let log = Arc::new(Mutex::new(Log::default()));
            let sid = eg.add_scheduler(Box::new(Sch { policy, step: 0, rng: rng.fork(), vars: vec![], log: log.clone() }));
            rep.evaluations += 1;
            let mut ok = true;
            for _ in 0..400 {
                match std::panic::catch_unwind(std::panic::AssertUnwindSafe(|| eg.step_rules_with_scheduler(sid, "r"))) {
                    Ok(Ok(_)) => {}
                    _ => { ok = false; rep.violate("property", "c18-step-panic", format!("policy {policy:?}: step failed on a confluent program"), json!({"program": P.to_string() + &term})); break; }
                }
                if let Some(d) = engine::dump_defects(&engine::raw_dump(&eg)) { ok = false; rep.violate("property", "c18-not-canonical", format!("policy {policy:?}: {d}"), json!({"program": P.to_string() + &term})); break; }
                if engine::canon(&eg) == want { break; }
            }
            rep.note_nontrivial(&(a, b, policy));
            if ok && engine::canon(&eg) != want {
                let got = engine::canon(&eg);
                let missing: Vec<&String> = want.iter().filter(|l| !got.contains(l)).take(5).collect();
                let extra: Vec<&String> = got.iter().filter(|l| !want.contains(l)).take(5).collect();
                rep.violate("property", "c18-fair-not-saturated", format!("policy {policy:?} does not reach the built-in saturated database within 400 steps: missing {missing:?}, extra {extra:?}"), json!({"program": P.to_string() + &term}));
            }
        }
    }
}

/// defect 8 scenario: a union between the step that offers a match and the step that applies it
fn union_between(rep: &mut Report) {
    let p = "(datatype T (A) (B))\n(relation P (T))\n(relation Q (T))\n(ruleset r)\n(rule ((P x)) ((Q x)) :ruleset r :name \"pq\")\n(A)\n(P (B))\n";
    let mut eg = EGraph::default();
    engine::run(&mut eg, p);
    let log = Arc::new(Mutex::new(Log::default()));
    let sid = eg.add_scheduler(Box::new(Sch { policy: Policy::NoneThenAll, step: 0, rng: Rng::new(1), vars: vec!["x"], log }));
    let _ = eg.step_rules_with_scheduler(sid, "r");
    engine::run(&mut eg, "(union (A) (B))");
    let _ = eg.step_rules_with_scheduler(sid, "r");
    rep.evaluations += 1;
    rep.note_nontrivial(&"union-between");
    if let Some(d) = engine::dump_defects(&engine::raw_dump(&eg)) {
        rep.violate("property", "c18-stale-residual", format!("a residual match made stale by a union between offer and apply is applied un-canonicalised: {d}"), json!({"program": p.to_string() + "; scheduler: choose nothing, then (union (A) (B)), then choose all"}));
    }
    let ok = engine::run(&mut eg, "(check (Q (A)))");
    if !ok.is_ok() { rep.violate("property", "c18-stale-residual", "after applying the residual match modulo (union (A) (B)), (Q (A)) does not hold".into(), json!({"program": p})); }
}

/// defect 6 scenario: scheduler across push/pop and clone
fn across_push_pop(rep: &mut Report) {
    for mode in ["pushpop", "clone"] {
        let p = "(relation P (i64))\n(relation Q (i64))\n(ruleset r)\n(rule ((P x)) ((Q x)) :ruleset r :name \"pq\")\n(P 1)\n";
        let mut eg = EGraph::default();
        engine::run(&mut eg, p);
        let log = Arc::new(Mutex::new(Log::default()));
        let sid = eg.add_scheduler(Box::new(Sch { policy: Policy::All, step: 0, rng: Rng::new(1), vars: vec!["x"], log: log.clone() }));
        let _ = eg.step_rules_with_scheduler(sid, "r");
        let mut eg = if mode == "pushpop" { engine::run(&mut eg, "(push)\n(pop)"); eg } else { eg.clone() };
        engine::run(&mut eg, "(P 2)");
        let _ = eg.step_rules_with_scheduler(sid, "r");
        rep.evaluations += 1;
        rep.note_nontrivial(&mode);
        if !engine::run(&mut eg, "(check (Q 2))").is_ok() {
            rep.violate("property", "c18-scheduler-lost-after-pop", format!("after {mode} a registered scheduler is offered no matches any more: (P 2) never fires"), json!({"program": p, "mode": mode}));
        }
    }
}

/// no offered match rests on a subsumed row (top-level subsume and :subsume rewrites), under a scheduler exactly as
/// under the built-in stepping
fn subsumed_not_offered(rep: &mut Report) {
    let p = "(datatype T (A) (B) (C) (G T) (H T))\n(relation Q (T))\n(ruleset r)\n(ruleset s)\n(rule ((= e (G x))) ((Q x)) :ruleset r :name \"pq\")\n(rewrite (H x) (G x) :subsume :ruleset s)\n(G (A))\n(G (B))\n(H (C))\n(subsume (G (A)))\n(run s 1)\n";
    let mut eg = EGraph::default();
    if !engine::run(&mut eg, p).is_ok() { rep.violate("correspondence", "c18-setup", "subsume scenario rejected".into(), json!({"program": p})); return; }
    let mut builtin = eg.clone();
    let log = Arc::new(Mutex::new(Log::default()));
    let sid = eg.add_scheduler(Box::new(Sch { policy: Policy::All, step: 0, rng: Rng::new(1), vars: vec!["x"], log: log.clone() }));
    let _ = eg.step_rules_with_scheduler(sid, "r");
    let _ = builtin.step_rules("r");
    rep.evaluations += 1; rep.note_nontrivial(&"subsumed-not-offered");
    let offered: usize = log.lock().unwrap().offers.iter().filter(|o| o.0 == "pq").map(|o| o.1.len()).sum();
    // live rows of G: (G (B)) and the (G (C)) produced by the subsuming rewrite; (G (A)) is subsumed
    if offered != 2 { rep.violate("property", "c18-subsumed-offered", format!("rule `pq` over G was offered {offered} matches; G has exactly 2 rows that are not subsumed"), json!({"program": p})); }
    if engine::run(&mut eg, "(check (Q (A)))").is_ok() { rep.violate("property", "c18-subsumed-offered", "the rule fired on the subsumed row (G (A)) under a scheduler".into(), json!({"program": p})); }
    if !engine::run(&mut eg, "(check (Q (B)) (Q (C)))").is_ok() { rep.violate("property", "c18-match-lost", "matches on the non-subsumed rows of G were not applied".into(), json!({"program": p})); }
    if engine::canon(&eg) != engine::canon(&builtin) { rep.violate("property", "c18-all-differs-from-builtin", "with subsumed rows present the choose-all scheduler and the built-in stepping differ".into(), json!({"program": p})); }
}

/// an error raised mid-step must leave rulesets and schedulers in place
fn error_mid_step(rep: &mut Report) {
    let p = "(relation P (i64))\n(relation Q (i64))\n(ruleset r)\n(rule ((P x) (< x 0)) ((panic \"neg\")) :ruleset r :name \"boom\")\n(rule ((P x)) ((Q x)) :ruleset r :name \"pq\")\n(P -1)\n";
    let mut eg = EGraph::default();
    engine::run(&mut eg, p);
    let log = Arc::new(Mutex::new(Log::default()));
    let sid = eg.add_scheduler(Box::new(Sch { policy: Policy::All, step: 0, rng: Rng::new(1), vars: vec!["x"], log }));
    let r1 = std::panic::catch_unwind(std::panic::AssertUnwindSafe(|| eg.step_rules_with_scheduler(sid, "r").is_err()));
    rep.evaluations += 1; rep.note_nontrivial(&"error-mid-step");
    match r1 { Ok(true) => {} Ok(false) => {} Err(_) => { rep.violate("property", "c18-step-panic", "a rule panic under a scheduler unwinds instead of returning an error".into(), json!({"program": p})); return; } }
    // the e-graph must still have its rulesets and be usable
    let o = engine::run(&mut eg, "(P 5)\n(run r 1)");
    if matches!(o, engine::Outcome::Err(ref c) if c.contains("NoSuchRuleset")) { rep.violate("property", "c18-error-loses-rulesets", "after an error mid-step the rulesets are gone".into(), json!({"program": p})); }
    if let Some(d) = engine::dump_defects(&engine::raw_dump(&eg)) { rep.violate("property", "c18-not-canonical", d, json!({"program": p})); }
}

pub fn run(ctx: &Ctx) -> Report {
    let mut rep = Report::new("C18", "random edge relations with late top-level writes, stepped through an instrumented scheduler under six policies (all, none-then-all, random subsets, one at a time, every other, duplicated+disordered indices), with and without a variable-free rule; confluent Peano rewriting to saturation under four fair policies; union between offer and apply; push/pop and clone; error mid-step. non-trivial = a non-`all` policy over >= 3 steps, or a saturation run, or a targeted scenario (distinct by case)");
    let mut rng = Rng::new(ctx.seed ^ 0xC18);
    relational(&mut rep, &mut rng, ctx.n(200, 4000));
    fair_saturation(&mut rep, &mut rng, ctx.n(8, 100));
    union_between(&mut rep);
    across_push_pop(&mut rep);
    subsumed_not_offered(&mut rep);
    error_mid_step(&mut rep);
    rep
}
