use crate::{report::Report, Ctx};
pub mod child;
pub mod c17;

pub fn run(prop: &str, ctx: &Ctx) -> Option<Report> {
    Some(match prop {
        "C17" => c17::run(ctx),
        _ => return None,
    })
}
