use crate::{report::Report, Ctx};
pub mod c18;
pub mod c19;
pub mod child;
pub mod egprops;
pub mod meta;
pub mod c02;
pub mod c05;
pub mod c07;
pub mod c09;
pub mod c10;
pub mod c11;
pub mod c12;
pub mod c14;
pub mod c15;
pub mod c16;
pub mod c17;

pub fn run(prop: &str, ctx: &Ctx) -> Option<Report> {
    Some(match prop {
        "C01" => egprops::run_c01(ctx),
        "C02" => c02::run(ctx),
        "C03" => meta::run_c03(ctx),
        "C04" => egprops::run_c04(ctx),
        "C06" => meta::run_c06(ctx),
        "C08" => meta::run_c08(ctx),
        "C20" => meta::run_c20(ctx),
        "C11" => c11::run(ctx),
        "C12" => c12::run(ctx),
        "C13" => egprops::run_c13(ctx),
        "C05" => c05::run(ctx),
        "C07" => c07::run(ctx),
        "C09" => c09::run(ctx),
        "C10" => c10::run(ctx),
        "C14" => c14::run(ctx),
        "C15" => c15::run(ctx),
        "C16" => c16::run(ctx),
        "C17" => c17::run(ctx),
        "C18" => c18::run(ctx),
        "C19" => c19::run(ctx),
        _ => return None,
    })
}
