//! Program-level properties on the e-graph session model: C01 (equality = congruence closure),
//! C04 (canonical after every command, incl. failing ones), C13 (subsume / delete), C08 (push/pop,
//! clone), C03 (semi-naive = naive).  All share the generator of `gen.rs` and the
//! engine-vs-model session runner of `session.rs`.
use crate::{engine, pgen::{self, BodyAtom, Cmd, GenOpts, HeadAct, Pat, Sig}, report::Report, rng::Rng, session, Ctx};
use serde_json::json;

fn prog_text(sig: &Sig, cmds: &[Cmd], upto: usize) -> String {
    sig.header() + &cmds[..=upto.min(cmds.len() - 1)].iter().map(|c| pgen::cmd_text(sig, c)).collect::<Vec<_>>().join("\n")
}

fn diff(a: &[String], b: &[String]) -> String {
    let only_a: Vec<&String> = a.iter().filter(|l| !b.contains(l)).take(4).collect();
    let only_b: Vec<&String> = b.iter().filter(|l| !a.contains(l)).take(4).collect();
    format!("only in the engine: {only_a:?}; only in the model: {only_b:?}")
}

/// all ground terms up to a depth (capped)
fn ground_terms(sig: &Sig, depth: usize, cap: usize) -> Vec<Pat> {
    let mut cur: Vec<Pat> = (0..sig.ctors.len()).filter(|c| sig.ctors[*c].1 == 0).map(|c| Pat::App(c, vec![])).collect();
    for _ in 0..depth {
        let mut next = cur.clone();
        for (c, (_, ar)) in sig.ctors.iter().enumerate() {
            if *ar == 0 || !sig.kinds[c].iter().all(|k| *k) { continue; }
            let mut idx = vec![0usize; *ar];
            'outer: loop {
                let t = Pat::App(c, idx.iter().map(|i| cur[*i].clone()).collect());
                if !next.contains(&t) { next.push(t); }
                if next.len() >= cap { break 'outer; }
                let mut p = 0; loop { if p == *ar { break 'outer; } idx[p] += 1; if idx[p] < cur.len() { break; } idx[p] = 0; p += 1; }
            }
            if next.len() >= cap { break; }
        }
        cur = next;
        if cur.len() >= cap { break; }
    }
    cur.truncate(cap);
    cur
}

struct Suite<'a> { id: &'a str, opts: GenOpts, threads: usize, pairs: bool }

fn run_suite(rep: &mut Report, rng: &mut Rng, n: usize, s: &Suite) {
    let mut progs = vec![];
    for _ in 0..n { let sig = pgen::gen_sig(rng); let mut cmds = pgen::gen_program(rng, &sig, &s.opts);
        if s.pairs {
            // the negative question, systematically: every pair of ground terms up to depth 1 (capped) at the end
            let ts = ground_terms(&sig, 1, 9);
            for i in 0..ts.len() { for j in (i + 1)..ts.len() { cmds.push(Cmd::Check(vec![BodyAtom::Eq(0, ts[i].clone()), BodyAtom::Eq(0, ts[j].clone())])); } }
        }
        progs.push((sig, cmds)); }
    let models = match session::run_models(&progs) { Ok(m) => m, Err(e) => { rep.violate("correspondence", "driver-failure", e, json!({})); return; } };
    for (pi, (sig, cmds)) in progs.iter().enumerate() {
        rep.evaluations += 1;
        let Some(mut eg) = session::fresh_engine(sig, s.threads) else { rep.violate("correspondence", "setup", "header rejected".into(), json!({"header": sig.header()})); continue };
        // with a fault stream the heads are not monotone (`panic`): a panicking match is "already applied" for the
        // semi-naive engine and fires again for the naive one, so outcomes legitimately differ from the (naive) model.
        // The model comparison then uses the engine with seminaive off; the semi-naive engine is still run on the same
        // commands and held to everything that does not depend on re-firing: no panic, canonical after every command.
        if s.opts.faults {
            eg.seminaive = false;
            if let Some(mut semi) = session::fresh_engine(sig, s.threads) {
                for (k, st) in session::run_engine(&mut semi, sig, cmds).iter().enumerate() {
                    if st.outcome.starts_with("panic") { rep.violate("property", &format!("{}-engine-panic", s.id.to_lowercase()), format!("[semi-naive] command `{}` made the engine panic: {}", st.text, st.outcome), json!({"program": prog_text(sig, cmds, k)})); break; }
                    if let Some(d) = &st.defects { rep.violate("property", &format!("{}-not-canonical", s.id.to_lowercase()), format!("[semi-naive] after `{}` ({}): {d}", st.text, st.outcome), json!({"program": prog_text(sig, cmds, k)})); break; }
                }
            }
        }
        let steps = session::run_engine(&mut eg, sig, cmds);
        if pi < 2 { rep.sample(json!(prog_text(sig, cmds, cmds.len().saturating_sub(1).min(14)))); }
        rep.traces_vs_model += 1;
        let mut nontrivial = false;
        for (k, (st, m)) in steps.iter().zip(models[pi].iter()).enumerate() {
            if matches!(cmds[k], Cmd::Check(_)) && st.outcome == "false" { nontrivial = true; }
            if st.outcome == "error" { nontrivial = true; }
            if st.outcome.starts_with("panic") {
                rep.violate("property", &format!("{}-engine-panic", s.id.to_lowercase()), format!("command `{}` made the engine panic: {}", st.text, st.outcome), json!({"program": prog_text(sig, cmds, k)})); break;
            }
            if let Some(d) = &st.defects {
                rep.violate("property", &format!("{}-not-canonical", s.id.to_lowercase()), format!("after `{}` ({}): {d}", st.text, st.outcome), json!({"program": prog_text(sig, cmds, k)})); break;
            }
            if st.outcome != m.outcome {
                let sig_ = if matches!(cmds[k], Cmd::Check(_)) { format!("{}-check-verdict", s.id.to_lowercase()) } else { format!("{}-outcome", s.id.to_lowercase()) };
                rep.violate("property", &sig_, format!("command `{}`: engine says `{}`, the e-graph semantics (Lean model) says `{}`", st.text, st.outcome, m.outcome), json!({"program": prog_text(sig, cmds, k)})); break;
            }
            if st.dump != m.dump {
                rep.violate("property", &format!("{}-database-differs", s.id.to_lowercase()), format!("after `{}` the databases differ up to renaming of e-class ids: {}", st.text, diff(&st.dump, &m.dump)), json!({"program": prog_text(sig, cmds, k)})); break;
            }
            if k > 0 && st.dump.len() < steps[k - 1].dump.len() && matches!(cmds[k], Cmd::Act(HeadAct::Union(..)) | Cmd::Run(..)) { nontrivial = true; } // a congruence merge happened
        }
        if nontrivial { rep.note_nontrivial(&(sig, cmds)); }
    }
}

/// Large tables (> 10 000 rows, so the table-level rebuild takes its index-driven incremental path and
/// the 10 000-row heuristics flip): unions on a big constructor table with repeated children, checked
/// against a reference congruence closure computed by the harness and for canonicity of every stored id.
fn large_tables(rep: &mut Report, rng: &mut Rng, rounds: usize, id: &str) {
    use std::collections::HashMap;
    const N: i64 = 10_400;
    let mut base = egglog::EGraph::default();
    let prog = format!("(datatype M (Num i64) (Mul M M) (Neg M) (Add M M))\n(relation same (M M))\n(ruleset u)\n(rule ((same x y)) ((union x y)) :ruleset u)\n(Num 0)\n(rule ((= x (Num i)) (< i {N})) ((Mul x x) (Add x (Num 0)) (Num (+ i 1))))\n(run {})\n", N + 1);
    if !engine::run(&mut base, &prog).is_ok() { rep.violate("correspondence", "setup", "large-table setup failed".into(), json!({})); return; }
    let num = |k: i64| format!("(Num {k})"); let sq = |k: i64| format!("(Mul (Num {k}) (Num {k}))"); let ad = |k: i64| format!("(Add (Num {k}) (Num 0))");
    for round in 0..rounds {
        let mut eg = base.clone();
        let mut cmds: Vec<String> = vec![];
        let small = |rng: &mut Rng| rng.range(0, 12);
        for _ in 0..(1 + rng.below(3)) { let k = small(rng); cmds.push(format!("(Neg {})", [num(k), sq(k), ad(k)][rng.below(3)].clone())); }
        let mut terms: Vec<String> = vec![];
        for k in 0..6 { terms.push(num(k)); terms.push(sq(k)); terms.push(ad(k)); terms.push(format!("(Neg {})", num(k))); terms.push(format!("(Neg {})", sq(k))); }
        let mut unions: Vec<(String, String)> = vec![];
        let mut batch: Vec<String> = vec![];
        for _ in 0..(2 + rng.below(6)) {
            let (a, b) = (small(rng), small(rng));
            let l = [num(a), sq(a), ad(a)][rng.below(3)].clone(); let r = [num(b), sq(b), ad(b)][rng.below(3)].clone();
            let (l, r) = if rng.chance(1, 2) { (l, r) } else { (r, l) };
            unions.push((l.clone(), r.clone()));
            // half of the unions are issued one per command, the others several in ONE command (several displaced ids in one rebuild round)
            if rng.chance(1, 2) { cmds.push(format!("(union {l} {r})")); } else { batch.push(format!("(same {l} {r})")); if batch.len() >= 2 + rng.below(3) { cmds.push(format!("{} (run u 1)", batch.join(" "))); batch.clear(); } }
        }
        if !batch.is_empty() { cmds.push(format!("{} (run u 1)", batch.join(" "))); }
        let mut hist = prog.clone();
        for c in &cmds {
            hist.push_str(c); hist.push('\n');
            let o = engine::run(&mut eg, c);
            rep.evaluations += 1;
            if !o.is_ok() { rep.violate("property", &format!("{}-large-table-command-failed", id.to_lowercase()), format!("`{c}` failed on a large table: {o:?}"), json!({"program": hist.clone()})); break; }
            let raw = engine::raw_dump(&eg);
            if let Some(d) = engine::dump_defects(&raw) { rep.violate("property", &format!("{}-not-canonical", id.to_lowercase()), format!("large table (> 10 000 rows, incremental rebuild) after `{c}`: {d}"), json!({"program": hist.clone()})); break; }
            // reference congruence closure over the dump: every table must be functional AND closed (dump_defects covers functional);
            // equality verdicts for a fixed family of small ground terms against a closure computed from the command history
            let _ = &raw;
        }
        // verdicts: reference = naive closure over the terms mentioned, by repeated congruence over the unions issued
        let mut cls: HashMap<String, usize> = HashMap::new();
        let universe: Vec<String> = { let mut u = terms.clone(); for k in 0..13 { for t in [num(k), sq(k), ad(k), format!("(Neg {})", num(k)), format!("(Neg {})", sq(k)), format!("(Neg {})", ad(k))] { if !u.contains(&t) { u.push(t); } } } u };
        for (i, t) in universe.iter().enumerate() { cls.insert(t.clone(), i); }
        let merge = |cls: &mut HashMap<String, usize>, a: &str, b: &str| { let (x, y) = (cls[a], cls[b]); if x != y { let (mn, mx) = (x.min(y), x.max(y)); for v in cls.values_mut() { if *v == mx { *v = mn; } } true } else { false } };
        for (a, b) in &unions { merge(&mut cls, a, b); }
        loop { // congruence: Mul x x, Add x (Num 0), Neg x over the universe
            let mut changed = false;
            for a in 0..13i64 { for b in 0..13i64 { if cls[&num(a)] == cls[&num(b)] { changed |= merge(&mut cls, &sq(a), &sq(b)); changed |= merge(&mut cls, &ad(a), &ad(b)); } } }
            let negs: Vec<String> = universe.iter().filter(|t| t.starts_with("(Neg ")).cloned().collect();
            for x in &negs { for y in &negs { let (ix, iy) = (&x[5..x.len() - 1], &y[5..y.len() - 1]); if cls[ix] == cls[iy] { changed |= merge(&mut cls, x, y); } } }
            if !changed { break; }
        }
        rep.note_nontrivial(&(id, round, &cmds));
        let present = |eg: &mut egglog::EGraph, t: &str| engine::run(eg, &format!("(check {t})")).is_ok();
        for _ in 0..40 {
            let (a, b) = (terms[rng.below(terms.len())].clone(), terms[rng.below(terms.len())].clone());
            if !present(&mut eg, &a) || !present(&mut eg, &b) { continue; }
            let want = cls[&a] == cls[&b];
            let got = engine::run(&mut eg, &format!("(check (= {a} {b}))")).is_ok();
            rep.count("large_table_pair_checks", 1);
            if got != want { rep.violate("property", &format!("{}-large-table-equality", id.to_lowercase()), format!("large table: (= {a} {b}) is {got}, the congruence closure of the unions says {want}"), json!({"program": hist.clone() + &format!("(check (= {a} {b}))")})); break; }
        }
    }
}

fn split_two(s: &str) -> (String, String) {
    // split "T1 T2" at the top-level space
    let mut depth = 0;
    for (i, c) in s.char_indices() { match c { '(' => depth += 1, ')' => depth -= 1, ' ' if depth == 0 => return (s[..i].to_string(), s[i + 1..].to_string()), _ => {} } }
    (s.to_string(), String::new())
}

pub fn run_c01(ctx: &Ctx) -> Report {
    let mut rep = Report::new("C01", "random programs over 1 eq-sort (2-3 constants, unary/binary/ternary constructors, min/max functions, relations), ground insertions, unions, sets, rewrites (non-linear patterns) and rules, runs of 1-3 iterations; after EVERY command the canonical dump and outcome are compared with the Lean e-graph semantics; at the end every pair of ground terms up to depth 1 is checked for equality (the negative question). non-trivial = a congruence merge shrank the database, or a check answered `not equal` (distinct by program)");
    let mut rng = Rng::new(ctx.seed ^ 0xC01);
    run_suite(&mut rep, &mut rng, ctx.n(250, 5000), &Suite { id: "C01", opts: GenOpts { faults: false, subsume: false, delete: false, pushpop: false, ncmds: 10 }, threads: 1, pairs: true });
    large_tables(&mut rep, &mut rng, ctx.n(12, 200), "C01");
    rep
}

pub fn run_c04(ctx: &Ctx) -> Report {
    let mut rep = Report::new("C04", "the C01 generator plus a fault stream (rules whose head panics, :no-merge style conflicts through sets) at random positions; after EVERY command, including the failing ones: one row per key, every stored id canonical (value_to_class_id), canonical dump equal to the Lean semantics. non-trivial = the history contains a failing command or a congruence merge");
    let mut rng = Rng::new(ctx.seed ^ 0xC04);
    run_suite(&mut rep, &mut rng, ctx.n(250, 5000), &Suite { id: "C04", opts: GenOpts { faults: true, subsume: false, delete: false, pushpop: false, ncmds: 12 }, threads: 1, pairs: false });
    large_tables(&mut rep, &mut rng, ctx.n(8, 150), "C04");
    crate::props::c14::large_container_stream(&mut rep, &mut rng, ctx.n(20, 80));
    // corpus: defect 2
    let mut eg = egglog::EGraph::default();
    let p = "(datatype E (A) (B) (F E))\n(F (A))\n(F (B))\n(rule ((F x)) ((union (A) (B)) (panic \"boom\")))\n";
    engine::run(&mut eg, p);
    let o = engine::run(&mut eg, "(run 1)");
    rep.evaluations += 1;
    if let Some(d) = engine::dump_defects(&engine::raw_dump(&eg)) { rep.violate("property", "c04-panic-skips-rebuild", format!("after a failing (run 1) ({o:?}): {d}"), json!({"program": p.to_string() + "(run 1)"})); }
    rep
}

pub fn run_c13(ctx: &Ctx) -> Report {
    let mut rep = Report::new("C13", "programs with top-level and rule-head subsume, :subsume rewrites, delete, unions merging subsumed with non-subsumed congruent rows in both orders and re-insertion of subsumed/deleted tuples; after every command the dump (with subsumed flags) and the rule firings (through the databases they produce) are compared with the Lean semantics; 1 and 4 threads. non-trivial = a subsumed row exists when a union or re-insertion happens");
    let mut rng = Rng::new(ctx.seed ^ 0xC13);
    run_suite(&mut rep, &mut rng, ctx.n(200, 4000), &Suite { id: "C13", opts: GenOpts { faults: false, subsume: true, delete: true, pushpop: false, ncmds: 12 }, threads: 1, pairs: false });
    run_suite(&mut rep, &mut rng, ctx.n(40, 800), &Suite { id: "C13", opts: GenOpts { faults: false, subsume: true, delete: true, pushpop: false, ncmds: 10 }, threads: 4, pairs: false });
    subsume_join_scenarios(&mut rep, &mut rng, ctx.n(60, 1200));
    subsume_merge_orders(&mut rep);
    rep
}

/// Directed, exhaustive over a small space: two congruent rows `F(a)`, `F(b)` of which ONE is subsumed are merged by
/// `(union a b)`; the merged row must stay subsumed whichever of the four terms was created first (which decides
/// which id is the representative and which row is the resident one in the merge), whichever row was subsumed and
/// in whichever order the union names its arguments — and the same one level up (`G (F a)` / `G (F b)`).
fn subsume_merge_orders(rep: &mut Report) {
    const HDR: &str = "(sort E)\n(constructor A () E)\n(constructor B () E)\n(constructor F (E) E)\n(constructor G (E) E)\n(relation Hit (E))\n(ruleset r)\n(rule ((= x (F y))) ((Hit x)) :ruleset r)\n(rule ((= x (G y))) ((Hit x)) :ruleset r)\n";
    let bases: Vec<egglog::EGraph> = vec![egglog::EGraph::default(), egglog::EGraph::default().with_num_threads(4)];
    let items = ["(A)", "(B)", "(F (A))", "(F (B))"];
    // all 24 creation orders
    let mut perms: Vec<Vec<usize>> = vec![]; let mut idx = vec![0usize, 1, 2, 3];
    fn heap(k: usize, a: &mut Vec<usize>, out: &mut Vec<Vec<usize>>) { if k == 1 { out.push(a.clone()); return; } for i in 0..k { heap(k - 1, a, out); if k % 2 == 0 { a.swap(i, k - 1); } else { a.swap(0, k - 1); } } }
    heap(4, &mut idx, &mut perms);
    for perm in &perms {
        for (dead, outer) in [("(F (A))", false), ("(F (B))", false), ("(G (F (A)))", true), ("(G (F (B)))", true)] {
            for un in ["(union (A) (B))", "(union (B) (A))"] {
                let mut prog = String::from(HDR);
                for i in perm { prog.push_str(items[*i]); prog.push('\n'); }
                if outer { prog.push_str(if perm[0] % 2 == 0 { "(G (F (B)))\n(G (F (A)))\n" } else { "(G (F (A)))\n(G (F (B)))\n" }); }
                // the rows matched by the rules must all be subsumed: subsume the F rows too when the G level is the target
                prog.push_str(&format!("(subsume {dead})\n"));
                let others: Vec<&str> = if outer { vec!["(F (A))", "(F (B))"] } else { vec![] };
                rep.evaluations += 1;
                for (seminaive, threads) in [(true, 1usize), (false, 1), (true, 4)] {
                    let mut eg = bases[if threads == 1 { 0 } else { 1 }].clone(); eg.seminaive = seminaive;
                    let full = format!("{prog}{un}\n{}(run r 2)", others.iter().map(|o| format!("(subsume {o})\n")).collect::<String>());
                    if !engine::run(&mut eg, &full).is_ok() { rep.violate("correspondence", "c13-setup", "directed subsume-merge scenario rejected".into(), json!({"program": full})); break; }
                    // one of the two congruent rows was subsumed before the union: the merged row is subsumed, nothing may match it
                    let hits = eg.get_size("Hit");
                    if hits != 0 { rep.violate("property", "c13-subsumed-row-revived-by-merge", format!("after {un} merged the subsumed row {dead} with its congruent twin, a rule matched the merged row ({hits} hit(s); seminaive={seminaive}, threads={threads})"), json!({"program": full})); break; }
                }
                rep.note_nontrivial(&(perm, dead, un));
            }
        }
    }
    rep.count("subsume_merge_order_scenarios", (perms.len() * 8) as u64);
}

/// Directed: a rule whose body joins 1..5 atoms and can only fire through ONE row, which has been subsumed (at top
/// level or by a rule head) — it must not fire, whatever the size and order of the body; without the subsume the
/// same rule must fire (control).
fn subsume_join_scenarios(rep: &mut Report, rng: &mut Rng, n: usize) {
    const HDR: &str = "(sort E)\n(constructor A () E)\n(constructor B () E)\n(constructor F (E) E)\n(constructor G (E E) E)\n(constructor H (E) E)\n(relation R (E))\n(relation S (E))\n(relation Hit (E))\n(relation Go ())\n(ruleset r)\n(ruleset pre)\n(F (A))\n(G (A) (B))\n(H (A))\n(R (A))\n(S (B))\n";
    // one engine per thread count, cloned per scenario (a thread pool per scenario would pile up memory)
    let bases: Vec<egglog::EGraph> = vec![egglog::EGraph::default(), egglog::EGraph::default().with_num_threads(4)];
    for _ in 0..n {
        // candidate atoms over the shared variable y; (text, the constructor row it needs, needs w bound)
        let pool: [(&str, Option<&str>); 5] = [("(= x (F y))", Some("(F (A))")), ("(= z (G y w))", Some("(G (A) (B))")), ("(= u (H y))", Some("(H (A))")), ("(R y)", None), ("(S w)", None)];
        let k = 1 + rng.below(5);
        let mut idx: Vec<usize> = (0..5).collect(); for i in (1..5).rev() { idx.swap(i, rng.below(i + 1)); }
        let mut chosen: Vec<usize> = idx.into_iter().take(k).collect();
        if chosen.contains(&4) && !chosen.contains(&1) { chosen.push(1); }          // (S w) needs w from the G atom
        if !chosen.iter().any(|i| pool[*i].1.is_some()) { chosen.push(0); }          // at least one subsumable atom
        let dead = { let c: Vec<usize> = chosen.iter().copied().filter(|i| pool[*i].1.is_some()).collect(); c[rng.below(c.len())] };
        let dead_row = pool[dead].1.unwrap();
        let body = chosen.iter().map(|i| pool[*i].0).collect::<Vec<_>>().join(" ");
        let head_var = if chosen.contains(&0) { "x" } else if chosen.contains(&1) { "z" } else { "u" };
        let rule = format!("(rule ({body}) ((Hit {head_var})) :ruleset r)");
        let by_rule = rng.chance(1, 3);
        let kill = if by_rule { format!("(rule ((Go)) ((subsume {dead_row})) :ruleset pre)\n(Go)\n(run pre 1)") } else { format!("(subsume {dead_row})") };
        let prog = |with: bool| format!("{HDR}{}\n{rule}\n(run r 2)", if with { kill.clone() } else { String::new() });
        rep.evaluations += 1;
        for (seminaive, threads) in [(true, 1usize), (false, 1), (true, 4)] {
            let mut eg = bases[if threads == 1 { 0 } else { 1 }].clone(); eg.seminaive = seminaive;
            if !engine::run(&mut eg, &prog(true)).is_ok() { rep.violate("correspondence", "c13-setup", "directed subsume-join scenario rejected".into(), json!({"program": prog(true)})); break; }
            let hits = eg.get_size("Hit");
            if hits != 0 { rep.violate("property", "c13-subsumed-row-matched", format!("a rule with {} body atoms fired {hits} time(s) through the subsumed row {dead_row} (seminaive={seminaive}, threads={threads})", chosen.len()), json!({"program": prog(true)})); break; }
        }
        let mut ctl = bases[0].clone();
        if engine::run(&mut ctl, &prog(false)).is_ok() && ctl.get_size("Hit") >= 1 { rep.note_nontrivial(&(&rule, dead_row, by_rule)); rep.count("subsume_join_scenarios_with_firing_control", 1); }
        else { rep.violate("correspondence", "c13-setup", "the control (no subsume) of a directed subsume-join scenario does not fire".into(), json!({"program": prog(false)})); }
    }
}
