//! Metamorphic properties evaluated on the implementation, plus the session model:
//!  C08 push/pop and clone isolation, C03 semi-naive = naive, C06 thread-count independence,
//!  C20 reproducibility.
use crate::{engine, pgen::{self, Cmd, GenOpts, Sig}, props::child, report::Report, rng::Rng, session, Ctx};
use egglog::EGraph;
use serde_json::json;

fn text(sig: &Sig, cmds: &[Cmd]) -> Vec<String> { cmds.iter().map(|c| pgen::cmd_text(sig, c)).collect() }

fn run_all(eg: &mut EGraph, cmds: &[String]) -> Vec<String> {
    cmds.iter().map(|c| match engine::run_outputs(eg, c) { Ok(o) => format!("ok {:?}", child::render_outputs(&o)), Err(e) => e }).collect()
}

// ------------------------------------------------------------------------------------------------ C08

/// what the name-indexed read API shows: every registered table name with its row count, the number of
/// rows the per-name iterators deliver, and for a fixed list of probe names whether the name is missing
fn api_obs(eg: &EGraph, probes: &[String]) -> Vec<String> {
    use egglog::Read;
    let mut out: Vec<String> = eg.read(|st| st.table_sizes().into_iter().map(|(n, k)| format!("size {n} = {k}")).collect());
    out.sort();
    let names: Vec<String> = eg.read(|st| st.tables().map(|s| s.to_string()).collect());
    let mut names: Vec<String> = names.into_iter().chain(probes.iter().cloned()).collect(); names.sort(); names.dedup();
    for n in names {
        let mut k = 0usize;
        let a = match eg.constructor_enodes(&n, |_| k += 1) { Ok(()) => format!("enodes {k}"), Err(e) => format!("enodes-err {}", engine::error_class(&e)) };
        let mut j = 0usize;
        let b = match eg.function_entries(&n, |_| j += 1) { Ok(()) => format!("entries {j}"), Err(e) => format!("entries-err {}", engine::error_class(&e)) };
        let sz = eg.read(|st| st.table_size(&n));
        out.push(format!("name {n}: {a}, {b}, table_size {sz:?}"));
    }
    out
}

/// declarations and other state-changing commands that only make sense inside the bracket
fn q_extras(rng: &mut Rng, k: usize) -> Vec<String> {
    let mut v = vec![];
    let pool = [
        format!("(constructor Z{k} (E) E)"), format!("(function q{k} (E) i64 :merge (max old new))"), format!("(ruleset rq{k})"),
        format!("(relation S{k} (E))"), format!("(sort T{k})"), format!("(let $g{k} (A))"),
        format!("(rule ((= e (G x))) ((union e x)) :ruleset r0 :name \"qrule{k}\")"),
        "(check (= (A) (A)))".to_string(), "(fail (check (= (A) (B)) (= (B) (A)) (= (G (A)) (G (G (G (A)))))))".to_string(),
        "(this is not a command)".to_string(), "(union (A) 3)".to_string(), "(set (nosuch (A)) 1)".to_string(),
        format!("(datatype D{k} (Leaf{k}) (Node{k} D{k} D{k}))"), "(run r0 2)".to_string(), "(run r1 1)".to_string(),
    ];
    for _ in 0..(1 + rng.below(6)) { v.push(pool[rng.below(pool.len())].clone()); }
    v
}

/// R re-declares the names Q may have declared (they must be free again) and observes everything
fn r_probe(k: usize) -> Vec<String> {
    vec![format!("(relation Pad{k} (E E))"), format!("(constructor Z{k} (E E) E)"), format!("(function q{k} (E) i64 :merge (max old new))"), format!("(ruleset rq{k})"), format!("(relation S{k} (E))"), format!("(sort T{k})"),
         format!("(let $g{k} (B))"), format!("(Z{k} (A) (B))"), format!("(Z{k} (B) (B))"), format!("(set (q{k} (A)) 5)"), format!("(set (q{k} (B)) 6)"), format!("(S{k} (B))"), format!("(Pad{k} (A) (B))"), format!("(datatype D{k} (Leaf{k}) (Node{k} D{k} D{k}))"), "(print-size)".to_string(), "(run r0 1)".to_string(), "(run r1 1)".to_string(), "(print-size)".to_string()]
}

pub fn run_c08(ctx: &Ctx) -> Report {
    let mut rep = Report::new("C08", "(a) generated programs with nested push/pop compared command-by-command with the Lean session model; (b) P;push;Q;pop;R against P;R on the real engine, Q mixing generated commands, declarations of sorts/constructors/functions/relations/rulesets/rules/globals, failing and ill-formed commands and nested brackets, R re-declaring Q's names and running the rulesets; (c) EGraph::clone followed by divergent command sequences, each side compared with a fresh run; (d) bridge-level staged writes across a clone. non-trivial = Q changes something R observes (distinct by program)");
    let mut rng = Rng::new(ctx.seed ^ 0xC08);
    // (a) model
    {
        let n = ctx.n(120, 2500);
        let mut progs = vec![];
        for _ in 0..n { let sig = pgen::gen_sig(&mut rng); let cmds = pgen::gen_program(&mut rng, &sig, &GenOpts { faults: false, subsume: true, delete: false, pushpop: true, ncmds: 14 }); progs.push((sig, cmds)); }
        match session::run_models(&progs) {
            Err(e) => rep.violate("correspondence", "driver-failure", e, json!({})),
            Ok(models) => for (pi, (sig, cmds)) in progs.iter().enumerate() {
                rep.evaluations += 1; rep.traces_vs_model += 1;
                let Some(mut eg) = session::fresh_engine(sig, 1) else { continue };
                let steps = session::run_engine(&mut eg, sig, cmds);
                for (k, (st, m)) in steps.iter().zip(models[pi].iter()).enumerate() {
                    if st.outcome != m.outcome || st.dump != m.dump {
                        rep.violate("property", "c08-session-model", format!("after `{}`: engine `{}` / model `{}`; dumps equal: {}", st.text, st.outcome, m.outcome, st.dump == m.dump),
                            json!({"program": sig.header() + &text(sig, &cmds[..=k]).join("\n")}));
                        break;
                    }
                }
                if cmds.iter().any(|c| matches!(c, Cmd::Pop)) { rep.note_nontrivial(&(sig, cmds)); }
            }
        }
    }
    // (b) P;push;Q;pop;R vs P;R
    for i in 0..ctx.n(150, 3000) {
        let sig = pgen::gen_sig(&mut rng);
        let o = GenOpts { faults: true, subsume: true, delete: true, pushpop: false, ncmds: 6 };
        let p = text(&sig, &pgen::gen_program(&mut rng, &sig, &o));
        let mut q = text(&sig, &pgen::gen_program(&mut rng, &sig, &GenOpts { ncmds: 5, pushpop: true, ..o }));
        // balance q
        let mut depth = 0i32; q.retain(|c| { if c == "(push)" { depth += 1; true } else if c == "(pop)" { if depth > 0 { depth -= 1; true } else { false } } else { true } });
        for _ in 0..depth { q.push("(pop)".into()); }
        let extras = q_extras(&mut rng, i % 3);
        for (j, e) in extras.into_iter().enumerate() { let pos = (j * 7 + 3) % (q.len() + 1); q.insert(pos.min(q.len()), e); }
        // extras must not unbalance: they contain no push/pop
        let r: Vec<String> = r_probe(i % 3).into_iter().chain(text(&sig, &pgen::gen_program(&mut rng, &sig, &GenOpts { ncmds: 4, pushpop: false, ..o }))).collect();
        let Some(mut a) = session::fresh_engine(&sig, 1) else { continue };
        let Some(mut b) = session::fresh_engine(&sig, 1) else { continue };
        run_all(&mut a, &p); run_all(&mut b, &p);
        engine::run(&mut a, "(push)"); run_all(&mut a, &q); let popped = engine::run(&mut a, "(pop)");
        rep.evaluations += 1;
        let da0 = engine::canon(&a); let db0 = engine::canon(&b);
        let ra = run_all(&mut a, &r); let rb = run_all(&mut b, &r);
        if !q.is_empty() { rep.note_nontrivial(&(&p, &q)); }
        let prog = || json!({"P": p, "Q": q, "R": r, "header": sig.header()});
        if !popped.is_ok() { rep.violate("property", "c08-pop-failed", format!("(pop) after a balanced body failed: {popped:?}"), prog()); continue; }
        if da0 != db0 { rep.violate("property", "c08-pushpop-database", format!("database after P;push;Q;pop differs from after P"), prog()); continue; }
        if ra != rb { let k = ra.iter().zip(&rb).position(|(x, y)| x != y).unwrap_or(0);
            rep.violate("property", "c08-pushpop-outputs", format!("continuation command `{}` answers `{}` after push;Q;pop but `{}` without it", r[k], ra[k], rb[k]), prog()); continue; }
        if engine::canon(&a) != engine::canon(&b) { rep.violate("property", "c08-pushpop-database", "final databases differ".into(), prog()); }
        // name-indexed API access: names declared in Q and dropped by the pop are missing unless R declared them again,
        // and what R declared is what the names show
        let k = i % 3;
        let probes: Vec<String> = vec![format!("Z{k}"), format!("q{k}"), format!("S{k}"), format!("Pad{k}"), format!("Leaf{k}"), format!("Node{k}"), "nosuch".into()];
        let (oa, ob) = (api_obs(&a, &probes), api_obs(&b, &probes));
        if oa != ob { let d = oa.iter().zip(&ob).find(|(x, y)| x != y).map(|(x, y)| format!("`{x}` vs `{y}`")).unwrap_or_else(|| format!("{} vs {} entries", oa.len(), ob.len()));
            rep.violate("property", "c08-name-indexed-api", format!("the name-indexed read API differs after push;Q;pop;R from P;R: {d}"), prog()); }
    }
    // (c) clone isolation
    for _ in 0..ctx.n(100, 2000) {
        let sig = pgen::gen_sig(&mut rng);
        let o = GenOpts { faults: false, subsume: true, delete: true, pushpop: false, ncmds: 6 };
        let p = text(&sig, &pgen::gen_program(&mut rng, &sig, &o));
        let x = text(&sig, &pgen::gen_program(&mut rng, &sig, &o));
        let y = text(&sig, &pgen::gen_program(&mut rng, &sig, &o));
        let Some(mut orig) = session::fresh_engine(&sig, 1) else { continue };
        run_all(&mut orig, &p);
        let mut cl = orig.clone();
        // interleave
        let mut ox = vec![]; let mut cy = vec![];
        for k in 0..x.len().max(y.len()) { if k < x.len() { ox.extend(run_all(&mut orig, &x[k..k + 1])); } if k < y.len() { cy.extend(run_all(&mut cl, &y[k..k + 1])); } }
        let Some(mut f1) = session::fresh_engine(&sig, 1) else { continue }; run_all(&mut f1, &p); let fx = run_all(&mut f1, &x);
        let Some(mut f2) = session::fresh_engine(&sig, 1) else { continue }; run_all(&mut f2, &p); let fy = run_all(&mut f2, &y);
        rep.evaluations += 1; rep.note_nontrivial(&(&p, &x, &y));
        let prog = json!({"header": sig.header(), "P": p, "on_original": x, "on_clone": y});
        if ox != fx || engine::canon(&orig) != engine::canon(&f1) { rep.violate("property", "c08-clone-leak", "the original observes its clone's later changes (or vice versa): original differs from a fresh run of the same commands".into(), prog.clone()); }
        if cy != fy || engine::canon(&cl) != engine::canon(&f2) { rep.violate("property", "c08-clone-leak", "the clone differs from a fresh run of the same commands".into(), prog); }
    }
    // (e) tables declared AFTER clone(): the original and the clone (or two clones) each declare their own tables and
    // then use them; each must behave like a fresh engine that ran the same commands — in particular through the
    // name-indexed read API (`constructor_enodes`, `function_entries`), which resolves names through the bridge's
    // action registry (defect 18: `#[derive(Clone)]` shares that `Arc<RwLock<ActionRegistry>>` between clones)
    for k in 0..ctx.n(12, 120) {
        let decls = ["(constructor A () E)", "(constructor B () E)", "(constructor G (E) E)", "(function lo (E) i64 :merge (min old new))", "(relation R (E E))"];
        let mut oa: Vec<usize> = (0..decls.len()).collect(); let mut ob = oa.clone();
        if k > 0 { for i in (1..oa.len()).rev() { oa.swap(i, rng.below(i + 1)); ob.swap(i, rng.below(i + 1)); } }
        let pre = if k % 3 == 2 { "(sort E)" } else { "" };     // the sort before or after the clone
        let hdr = |o: &[usize]| format!("{}{}", if pre.is_empty() { "(sort E)\n" } else { "" }, o.iter().map(|i| decls[*i]).collect::<Vec<_>>().join("\n"));
        let facts = ["(G (A))", "(G (B))", "(R (A) (B))", "(set (lo (A)) 3)", "(union (A) (G (A)))"];
        let mut base = EGraph::default(); if !pre.is_empty() { run_all(&mut base, &[pre.to_string()]); }
        let (mut a, mut b) = (base.clone(), base.clone());
        let (ha, hb) = (hdr(&oa), hdr(&ob));
        run_all(&mut a, &[ha.clone()]); run_all(&mut b, &[hb.clone()]);
        let nf = 2 + rng.below(4);
        let fa: Vec<String> = (0..nf).map(|_| facts[rng.below(facts.len())].to_string()).collect();
        let fb: Vec<String> = (0..nf).map(|_| facts[rng.below(facts.len())].to_string()).collect();
        for i in 0..nf { run_all(&mut a, &fa[i..i + 1]); run_all(&mut b, &fb[i..i + 1]); }
        rep.evaluations += 1; rep.note_nontrivial(&("declared-after-clone", k));
        for (which, eg, h, f) in [("first", &a, &ha, &fa), ("second", &b, &hb, &fb)] {
            let mut fresh = EGraph::default(); if !pre.is_empty() { run_all(&mut fresh, &[pre.to_string()]); } run_all(&mut fresh, &[h.clone()]); run_all(&mut fresh, f);
            let (got, want) = (engine::canon(eg), engine::canon(&fresh));
            if got != want { rep.violate("property", "c08-clones-share-action-registry", format!("the {which} of two clones of one e-graph, after both declared their tables, does not read like a fresh engine that ran the same commands (name-indexed read API): {} vs {}", got.join("; ").chars().take(160).collect::<String>(), want.join("; ").chars().take(160).collect::<String>()), json!({"before_clone": pre, "first_clone": {"declares": h, "then": f}, "second_clone": {"declares": hb, "then": fb}})); break; }
        }
    }
    // (d) bridge level: a write staged on the original must survive a flush on the clone (defect 9)
    {
        use egglog_bridge::{ColumnTy, DefaultVal, FunctionConfig, MergeFn, TableAction};
        let mut a = egglog_bridge::EGraph::default();
        let int = a.base_values_mut().register_type::<i64>();
        let f = a.add_table(FunctionConfig { schema: vec![ColumnTy::Base(int), ColumnTy::Base(int)], default: DefaultVal::Fail, merge: MergeFn::Old, name: "f".into(), can_subsume: false });
        let one = a.base_values().get::<i64>(1);
        let act = TableAction::new(&a, f);
        a.with_execution_state(None, |st| { act.insert(st, [one, one].into_iter()); });
        let mut b = a.clone();
        b.flush_updates();
        a.flush_updates();
        rep.evaluations += 1; rep.note_nontrivial(&"bridge-staged-clone");
        if a.table_size(f) != 1 { rep.violate("property", "c08-clone-shares-notifications", format!("a write staged on the original before clone() is lost when the clone flushes first: table size {} instead of 1", a.table_size(f)), json!({"scenario": "a.stage insert; b = a.clone(); b.flush_updates(); a.flush_updates(); a.table_size(f)"})); }
        if b.table_size(f) > 1 { rep.violate("property", "c08-clone-shares-notifications", "clone sees more than its own copy".into(), json!({})); }
    }
    rep
}

// ------------------------------------------------------------------------------------------------ C03

pub fn run_c03(ctx: &Ctx) -> Report {
    let mut rep = Report::new("C03", "monotone programs with interleaved top-level writes, late rule declarations, runs of different rulesets, unions that make rows newly matchable only through canonicalisation; run three ways — real engine semi-naive, real engine with seminaive switched off, Lean naive semantics — and compared after EVERY command (canonical dumps up to id renaming). non-trivial = some run command applied a rule in an iteration after the first (something was `old`)");
    let mut rng = Rng::new(ctx.seed ^ 0xC03);
    let n = ctx.n(250, 5000);
    let mut progs = vec![];
    for _ in 0..n { let sig = pgen::gen_sig(&mut rng); let sb = rng.chance(1, 3); let cmds = pgen::gen_program(&mut rng, &sig, &GenOpts { faults: false, subsume: sb, delete: false, pushpop: false, ncmds: 14 }); progs.push((sig, cmds)); }
    let models = session::run_models(&progs);
    if let Err(e) = &models { rep.violate("correspondence", "driver-failure", e.clone(), json!({})); }
    for (pi, (sig, cmds)) in progs.iter().enumerate() {
        rep.evaluations += 1;
        let Some(mut semi) = session::fresh_engine(sig, 1) else { continue };
        let Some(mut naive) = session::fresh_engine(sig, 1) else { continue };
        naive.seminaive = false;
        let s1 = session::run_engine(&mut semi, sig, cmds);
        let s2 = session::run_engine(&mut naive, sig, cmds);
        let runs = cmds.iter().filter(|c| matches!(c, Cmd::Run(..))).count();
        if runs >= 2 { rep.note_nontrivial(&(sig, cmds)); }
        if pi < 2 { rep.sample(json!(sig.header() + &text(sig, cmds).join("\n"))); }
        for k in 0..cmds.len() {
            let prog = || json!({"program": sig.header() + &text(sig, &cmds[..=k]).join("\n")});
            if s1[k].outcome != s2[k].outcome || s1[k].dump != s2[k].dump {
                let miss: Vec<&String> = s2[k].dump.iter().filter(|l| !s1[k].dump.contains(l)).take(4).collect();
                let extra: Vec<&String> = s1[k].dump.iter().filter(|l| !s2[k].dump.contains(l)).take(4).collect();
                rep.violate("property", "c03-seminaive-differs", format!("after `{}` semi-naive and naive evaluation differ: rows only under naive {miss:?}, only under semi-naive {extra:?}", s1[k].text), prog());
                break;
            }
            if let Ok(m) = &models { rep.traces_vs_model += (k == 0) as u64; if m[pi][k].dump != s1[k].dump || m[pi][k].outcome != s1[k].outcome {
                rep.violate("property", "c03-model-differs", format!("after `{}` the engine differs from the naive Lean semantics", s1[k].text), prog()); break; } }
        }
    }
    churn_stream(&mut rep, &mut rng, ctx.n(25, 400));
    rep
}

/// large-table stream for C03: tables that are compacted (more than max(16, n/2) superseded rows) while a
/// prefix of old rows keeps its position, rules run for the first time long after the writes or re-run
/// after them; constructor tables churned by unions.  semi-naive vs naive after every command.
fn churn_stream(rep: &mut Report, rng: &mut Rng, n: usize) {
    for _ in 0..n {
        rep.evaluations += 1;
        let merge = ["min", "max"][rng.below(2)];
        let pre = 1 + rng.below(8) as i64; let churn = 10 + rng.below(30) as i64; let rounds = 2 + rng.below(4) as i64;
        let rule_first = rng.chance(1, 2);
        let hdr = format!("(function f (i64) i64 :merge ({merge} old new))\n(relation seen (i64 i64))\n(datatype T (Leaf i64) (Node T))\n(relation seenT (T))\n(ruleset copy)\n");
        let rules = "(rule ((= v (f x))) ((seen x v)) :ruleset copy)\n(rule ((= t (Node (Leaf x)))) ((seenT t)) :ruleset copy)".to_string();
        let mut cmds: Vec<String> = vec![];
        if rule_first { cmds.push(rules.clone()); cmds.push("(set (f 5000) 7)".into()); cmds.push("(run copy 1)".into()); }
        cmds.push((0..pre).map(|k| format!("(set (f {k}) 100) (Node (Leaf {k}))")).collect::<Vec<_>>().join(" "));
        // variant: the churned keys are first written by a RULE in one iteration together with extra never-touched keys,
        // so that one timestamp bucket holds live leading rows followed by rows that get superseded
        let fill_by_rule = rng.chance(1, 2);
        if fill_by_rule {
            // a rule that last ran JUST before the bucket was written needs exactly the rows of that bucket as its delta
            if rule_first { cmds.push("(run copy 1)".into()); }
            cmds.push(format!("(relation seed (i64)) (ruleset fill) (rule ((seed x)) ((set (f x) {})) :ruleset fill)", if merge == "min" { 200 } else { 0 }));
            cmds.push((0..10).map(|k| format!("(seed {})", 900 + k)).chain((0..churn).map(|k| format!("(seed {})", 1000 + k))).collect::<Vec<_>>().join(" "));
            cmds.push("(run fill 1)".into());
        }
        for r in 0..rounds {
            let val = if merge == "min" { 100 - r } else { 100 + r };
            cmds.push((0..churn).map(|k| format!("(set (f {}) {val})", 1000 + k)).collect::<Vec<_>>().join(" "));
            if rng.chance(1, 3) { cmds.push(format!("(union (Leaf {}) (Leaf {}))", rng.below(pre as usize), 9000 + r)); }
            if rule_first && rng.chance(1, 3) { cmds.push("(run copy 1)".into()); }
        }
        if !rule_first { cmds.push(rules.clone()); }
        cmds.push("(run copy 1)".into()); cmds.push("(run copy 1)".into());
        let mut semi = EGraph::default(); let mut naive = EGraph::default(); naive.seminaive = false;
        engine::run(&mut semi, &hdr); engine::run(&mut naive, &hdr);
        rep.note_nontrivial(&cmds);
        for (k, c) in cmds.iter().enumerate() {
            let (a, b) = (engine::run(&mut semi, c), engine::run(&mut naive, c));
            let (da, db) = (engine::canon(&semi), engine::canon(&naive));
            if a.class() != b.class() || da != db {
                let miss: Vec<&String> = db.iter().filter(|l| !da.contains(l)).take(4).collect();
                let extra: Vec<&String> = da.iter().filter(|l| !db.contains(l)).take(4).collect();
                rep.violate("property", "c03-seminaive-differs", format!("[large tables] after command #{k} semi-naive and naive evaluation differ: {} rows only under naive e.g. {miss:?}, only under semi-naive {extra:?}", db.iter().filter(|l| !da.contains(l)).count()), json!({"program": hdr.clone() + &cmds[..=k].join("\n")}));
                break;
            }
        }
    }
}

// ------------------------------------------------------------------------------------------------ C06

pub fn run_c06(ctx: &Ctx) -> Report {
    // zero-count entries of run reports are not compared across thread counts (see child::render_outputs); children inherit it
    unsafe { std::env::set_var("VERIF_DROP_ZERO_MATCHES", "1"); }
    let mut rep = Report::new("C06", "generated monotone programs (C01 generator + lattice functions + subsume) run with 1, 2, 4 and 16 threads with every EGGLOG_PARALLEL_*_CUTOFF at 0 (parallel code paths on small inputs) in this process, and with default cut-offs / action batch size 1 / fork depth 0 in child processes; check outcomes, sizes, function values, extraction costs and canonical dumps compared with the 1-thread run after every command. non-trivial = a configuration with > 1 thread and cut-offs 0 (parallel branches taken) on a program with a run command");
    let mut rng = Rng::new(ctx.seed ^ 0xC06);
    // corpus: defect 14 — a :naive rule re-writing an existing value under (saturate ..) must terminate with 4 threads too
    {
        let prog = vec!["(relation P (i64))\n(function f (i64) i64 :merge (min old new))\n(P 1)\n(rule ((P x)) ((set (f x) 1)) :naive)".to_string(), "(run-schedule (saturate (run)))".to_string(), "(print-size f)".to_string()];
        unsafe { std::env::set_var("VERIF_CHILD_TIMEOUT_S", "30"); }
        let a = child::spawn(&json!({"threads": 1, "chunks": prog}), &[], 0);
        let b = child::spawn(&json!({"threads": 4, "chunks": prog}), &[], 0);
        unsafe { std::env::remove_var("VERIF_CHILD_TIMEOUT_S"); }
        rep.evaluations += 1;
        match (a, b) { (Ok(x), Ok(y)) => if x != y { rep.violate("property", "c06-threads-differ", "saturate of a :naive re-writing rule differs between 1 and 4 threads".into(), json!({"program": prog})); },
            (_, Err(e)) | (Err(e), _) => rep.violate("property", "c06-parallel-saturate-hang", format!("(saturate (run)) over a :naive rule that re-sets an existing value: {e}"), json!({"program": prog, "threads": 4})) }
    }
    // relaxation stream: lattice functions whose values keep IMPROVING after every key exists (shortest / longest
    // paths over random weighted graphs, min / max merge), run to saturation and with bounded runs: iterations whose only
    // effect is a merge that changes an existing row must count as changes under every thread count
    for ri in 0..ctx.n(25, 500) {
        let nodes = 3 + rng.below(6) as i64; let maxm = rng.chance(1, 2);
        let mut prog = format!("(function dist (i64) i64 :merge ({} old new))\n(relation edge (i64 i64 i64))\n", if maxm { "max" } else { "min" });
        // a DAG (edges go upwards) so that max-merge terminates too; chains plus shortcuts of very different weight
        for a in 0..nodes { for b in (a + 1)..nodes { if b == a + 1 || rng.chance(1, 3) { prog.push_str(&format!("(edge {a} {b} {})\n", if b == a + 1 { 1 } else { [2i64, 50, 100, 7][rng.below(4)] })); } } }
        prog.push_str("(rule ((edge a b w) (= d (dist a))) ((set (dist b) (+ d w))))\n(set (dist 0) 0)\n");
        let chunks: Vec<String> = vec![prog, format!("(run {})", 1 + rng.below(3)), "(print-function dist 20)".into(), "(run-schedule (saturate (run)))".into(), "(print-function dist 20)".into(), "(print-size dist)".into()];
        rep.evaluations += 1;
        // the ORDER of the rows printed by print-function is insertion order, which legitimately depends on the thread
        // count (C20 promises it for one thread only): compare the printed rows as a set
        let norm = |s: String| -> String { let mut ls: Vec<&str> = s.split("\\n").map(|l| l.trim()).filter(|l| !l.is_empty()).collect(); ls.sort(); ls.join(" | ") };
        let run = |threads: usize| -> Vec<String> { let mut eg = crate::engine::fresh("plain", threads); chunks.iter().map(|c| norm(run_all(&mut eg, std::slice::from_ref(c)).remove(0))).collect() };
        let want = run(1);
        for threads in [2usize, 4] { let got = run(threads); rep.note_nontrivial(&("relax", ri, threads)); rep.count("parallel_configurations_run", 1);
            if got != want { let k = got.iter().zip(&want).position(|(x, y)| x != y).unwrap_or(0);
                rep.violate("property", "c06-threads-differ", format!("threads={threads}, cut-offs 0 (relaxation): after `{}` the result differs from the single-threaded run: `{}` vs `{}`", chunks[k].chars().take(80).collect::<String>(), got[k].chars().take(300).collect::<String>(), want[k].chars().take(300).collect::<String>()), json!({"program": chunks[..=k].join("\n"), "threads": threads})); break; } }
    }
    let n = ctx.n(30, 800);
    for pi in 0..n {
        let sig = pgen::gen_sig(&mut rng);
        let sb = rng.chance(1, 2); let mut cmds = pgen::gen_program(&mut rng, &sig, &GenOpts { faults: false, subsume: sb, delete: false, pushpop: false, ncmds: 12 });
        cmds.push(Cmd::Run(0, 2)); cmds.push(Cmd::Run(1, 2));
        let mut chunks = text(&sig, &cmds);
        chunks.push("(print-size)".into());
        for t in ["(A)", "(G (A))", "(F (A) (B))"] { chunks.push(format!("(extract {t})")); }
        rep.evaluations += 1;
        let Some(mut base) = session::fresh_engine(&sig, 1) else { continue };
        let mut want = vec![]; for c in &chunks { want.push(run_all(&mut base, std::slice::from_ref(c)).remove(0)); want.push(format!("{:?}", engine::canon(&base))); }
        if pi < 2 { rep.sample(json!(sig.header() + &chunks.join("\n"))); }
        for threads in [2usize, 4, 16] {
            if threads == 16 && pi % 4 != 0 { continue; }
            let Some(mut eg) = session::fresh_engine(&sig, threads) else { continue };
            let mut got = vec![]; for c in &chunks { got.push(run_all(&mut eg, std::slice::from_ref(c)).remove(0)); got.push(format!("{:?}", engine::canon(&eg))); }
            rep.note_nontrivial(&(pi, threads));
            rep.count("parallel_configurations_run", 1);
            if got != want { let k = got.iter().zip(&want).position(|(x, y)| x != y).unwrap_or(0);
                rep.violate("property", "c06-threads-differ", format!("threads={threads}, cut-offs 0: after `{}` the result differs from the single-threaded run: `{}` vs `{}`", chunks[k / 2], &got[k].chars().take(300).collect::<String>(), &want[k].chars().take(300).collect::<String>()),
                    json!({"program": sig.header() + &chunks[..=(k / 2)].join("\n"), "threads": threads}));
                break; }
        }
        // child processes: other cut-off configurations
        if pi % 8 == 0 {
            let all: Vec<String> = std::iter::once(sig.header()).chain(chunks.iter().cloned()).collect();
            let job1 = json!({"threads": 1, "chunks": all});
            let job4 = json!({"threads": 4, "chunks": all});
            let ref_out = child::spawn(&job1, &[("VERIF_DEFAULT_CUTOFFS", "1")], 0);
            for (envname, env) in [("default cut-offs", vec![("VERIF_DEFAULT_CUTOFFS", "1")]), ("batch size 1, fork depth 0", vec![("EGGLOG_PARALLEL_ACTION_BATCH_SIZE", "1"), ("EGGLOG_PARALLEL_FREE_JOIN_FORK_DEPTH", "0")]), ("tasks per thread 4", vec![("EGGLOG_PARALLEL_TASKS_PER_THREAD", "4")])] {
                let o = child::spawn(&job4, &env, 0);
                rep.count("child_configurations_run", 1);
                match (&ref_out, &o) {
                    (Ok(a), Ok(b)) => if a != b { rep.violate("property", "c06-threads-differ", format!("4 threads with {envname} differ from 1 thread"), json!({"program": all.join("\n"), "config": envname})); },
                    (_, Err(e)) | (Err(e), _) => rep.violate("property", "c06-child-crash", format!("child run failed with {envname}: {e}"), json!({"program": all.join("\n")})),
                }
            }
        }
    }
    rep
}

// ------------------------------------------------------------------------------------------------ C20

pub fn run_c20(ctx: &Ctx) -> Report {
    let mut rep = Report::new("C20", "generated programs ending in print-size / print-function / extract / run reports, executed (i) twice in this process and (ii) in child processes with different environments, working directories, argument padding (stack shift) and ASLR; every command output and the run reports (timings dropped) compared byte for byte. non-trivial = the program prints >= 2 rows/terms whose order could differ (distinct by program)");
    let mut rng = Rng::new(ctx.seed ^ 0xC20);
    let n = ctx.n(40, 600);
    // directed family: OVERLAPPING combined rulesets — a ruleset reachable along two paths of the combination, so one
    // iteration is handed the same rule more than once; each rule appends rows / creates terms, so the order in which the
    // rules of an iteration run is visible in print-function, extract and the run report
    for pi in 0..ctx.n(16, 160) {
        let k = 3 + rng.below(4);
        let mut chunks: Vec<String> = vec!["(sort E)\n(constructor Mk (i64) E)\n(relation src (i64))\n(relation Out (i64))\n(relation Made (E))".into()];
        chunks.push((0..1 + rng.below(3)).map(|i| format!("(src {i})")).collect::<Vec<_>>().join("\n"));
        for i in 0..k { chunks.push(format!("(ruleset r{i})\n(rule ((src x)) ((Out (+ (* x 10) {i})) (Made (Mk (+ (* x 10) {i})))) :ruleset r{i})")); }
        // two overlapping combinations and their combination
        let pick = |rng: &mut Rng| -> Vec<usize> { let mut v: Vec<usize> = (0..k).filter(|_| rng.chance(1, 2)).collect(); if v.is_empty() { v.push(rng.below(k)); } v };
        let (a, mut b) = (pick(&mut rng), pick(&mut rng));
        if !b.iter().any(|x| a.contains(x)) { b.push(a[0]); }
        let names = |v: &[usize]| v.iter().map(|i| format!("r{i}")).collect::<Vec<_>>().join(" ");
        chunks.push(format!("(unstable-combined-ruleset ca {})", names(&a)));
        chunks.push(format!("(unstable-combined-ruleset cb {})", names(&b)));
        let rest: Vec<usize> = (0..k).filter(|i| !a.contains(i) && !b.contains(i)).collect();
        chunks.push(format!("(unstable-combined-ruleset everything ca {} cb)", names(&rest)));
        chunks.push(format!("(run-schedule (repeat {} everything))", 1 + rng.below(2)));
        chunks.push("(print-size)".into()); chunks.push("(print-function Out 100)".into()); chunks.push("(print-function Made 100)".into()); chunks.push("(print-function Mk 100)".into());
        chunks.push("(extract (Mk 0) 3)".into()); chunks.push("(print-stats)".into());
        rep.evaluations += 1;
        let job = json!({"threads": 1, "chunks": chunks});
        let a1 = child::run_job(&job); let b1 = child::run_job(&job); let c1 = child::run_job(&job);
        if a1["outcomes"].as_array().map(|o| o.iter().any(|x| x.as_str() != Some("ok"))).unwrap_or(true) { rep.violate("correspondence", "c20-setup", format!("directed combined-ruleset program failed: {}", a1), json!({"program": chunks.join("\n")})); continue; }
        rep.note_nontrivial(&chunks); rep.count("overlapping_combined_ruleset_programs", 1);
        if a1 != b1 || a1 != c1 { rep.violate("property", "c20-in-process", "in-process runs of the same program (overlapping combined rulesets) give different outputs".into(), json!({"program": chunks.join("\n")})); continue; }
        if pi % 2 == 0 {
            for (kx, env) in [vec![("FOO", "1")], vec![("RUST_BACKTRACE", "1"), ("LANG", "C")]].iter().enumerate() {
                rep.count("child_processes_run", 1);
                match child::spawn(&job, env, kx * 5) {
                    Ok(c) => if c != a1 { rep.violate("property", "c20-across-processes", format!("a child process (env #{kx}) gives different outputs from the in-process run (overlapping combined rulesets)"), json!({"program": chunks.join("\n")})); },
                    Err(e) => rep.violate("property", "c20-child-crash", e, json!({"program": chunks.join("\n")})),
                }
            }
        }
    }
    for pi in 0..n {
        let sig = pgen::gen_sig(&mut rng);
        let cmds = pgen::gen_program(&mut rng, &sig, &GenOpts { faults: false, subsume: true, delete: true, pushpop: true, ncmds: 14 });
        let mut chunks: Vec<String> = std::iter::once(sig.header()).chain(text(&sig, &cmds)).collect();
        // close open brackets? not needed: a program may end inside a push
        chunks.push("(run r0 2)".into()); chunks.push("(print-size)".into());
        for (nme, _) in &sig.ctors { chunks.push(format!("(print-function {nme} 50)")); }
        for (nme, _) in &sig.funcs { chunks.push(format!("(print-function {nme} 50)")); }
        for t in ["(A)", "(G (A))", "(F (A) (B))"] { chunks.push(format!("(extract {t})")); chunks.push(format!("(extract {t} 3)")); }
        chunks.push("(print-stats)".into());
        rep.evaluations += 1;
        let job = json!({"threads": 1, "chunks": chunks});
        let a = child::run_job(&job); let b = child::run_job(&job);
        if a["outputs"].as_array().map(|o| o.iter().any(|x| x.as_array().map(|v| v.iter().any(|s| s.as_str().map(|t| t.matches('\n').count() >= 2).unwrap_or(false))).unwrap_or(false))).unwrap_or(false) { rep.note_nontrivial(&chunks); }
        if pi < 2 { rep.sample(json!(chunks.join("\n"))); }
        if a != b { rep.violate("property", "c20-in-process", "two in-process runs of the same program give different outputs".into(), json!({"program": chunks.join("\n")})); continue; }
        if pi % 2 == 0 {
            let envs: [Vec<(&str, &str)>; 3] = [vec![("FOO", "1")], vec![("RUST_BACKTRACE", "1"), ("LANG", "C"), ("HOME", "/nonexistent"), ("PADDING", "xxxxxxxxxxxxxxxxxxxxxxxxxxxxxxxxxxxxxxxxxxxxxxxxxxxxxxxxxxxxxxxxxxxxxxx")], vec![("TZ", "Asia/Tokyo"), ("RUST_LOG", "off")]];
            for (k, env) in envs.iter().enumerate() {
                rep.count("child_processes_run", 1);
                match child::spawn(&job, env, k * 3) {
                    Ok(c) => if c != a { rep.violate("property", "c20-across-processes", format!("a child process (env #{k}) gives different outputs from the in-process run"), json!({"program": chunks.join("\n")})); },
                    Err(e) => rep.violate("property", "c20-child-crash", e, json!({"program": chunks.join("\n")})),
                }
            }
        }
    }
    rep
}
